(* Report/Summary.v -- model of the result list that feeds every formatter, the summary counting
   (src/output/json.rs:96-120, markdown.rs:66-76, html.rs:484-496, text.rs:286-338), the
   raw/effective statistics of one result (check_processing.rs:47-96, result.rs raw_stats),
   split-suggestion decoration (analyzer/mod.rs:12-55, result.rs with_suggestions), the exit code
   (check_exit.rs) and the data flow of one check run (runner.rs:238-400: the results vector is
   complete before any formatter runs).
   Model file: definitions only, no proofs. Self-contained on purpose (no other subsystem). *)
From Coq Require Import NArith List Bool.
Import ListNotations.
Open Scope N_scope.

Definition char := N.
Definition str := list char.

Fixpoint str_eqb (a b : str) : bool :=
  match a, b with
  | [], [] => true
  | x :: a', y :: b' => N.eqb x y && str_eqb a' b'
  | _, _ => false
  end.

(* ---------------------------------------------------------------- results *)

Inductive status := Passed | Warning | Failed | Grandfathered.

Definition status_eqb (a b : status) : bool :=
  match a, b with
  | Passed, Passed | Warning, Warning | Failed, Failed | Grandfathered, Grandfathered => true
  | _, _ => false
  end.

(* LineStats (ignored is never displayed) *)
Record lstats := { l_total : N; l_code : N; l_comment : N; l_blank : N }.
Definition lstats0 := {| l_total := 0; l_code := 0; l_comment := 0; l_blank := 0 |}.

(* one CheckResult: the variant tag is [r_status]; [r_sugg] is the suggestions field, which only
   the Warning and Failed variants own (for the two others the accessor returns None) *)
Record result := {
  r_path : str;
  r_status : status;
  r_stats : lstats;              (* effective stats: the ones the limit is checked against *)
  r_raw : option lstats;         (* raw_stats: None for structure results *)
  r_limit : N;
  r_reason : option str;
  r_sugg : option (list str);
  r_structure : bool             (* violation_category = Structure *)
}.

Definition raw_stats (r : result) : lstats :=
  match r_raw r with Some s => s | None => r_stats r end.
Definition sloc (r : result) : N := l_code (r_stats r).
Definition suggestions (r : result) : option (list str) :=
  match r_status r with Warning | Failed => r_sugg r | _ => None end.

(* ---------------------------------------------------------------- summary *)

Record summary := { s_total : N; s_passed : N; s_warnings : N; s_failed : N; s_grandfathered : N }.

(* the (p, w, f, g) fold of json.rs / markdown.rs / html.rs *)
Definition count_step (acc : N * N * N * N) (r : result) : N * N * N * N :=
  let '(p, w, f, g) := acc in
  match r_status r with
  | Passed => (p + 1, w, f, g)
  | Warning => (p, w + 1, f, g)
  | Failed => (p, w, f + 1, g)
  | Grandfathered => (p, w, f, g + 1)
  end.

Definition summarize (rs : list result) : summary :=
  let '(p, w, f, g) := fold_left count_step rs (0, 0, 0, 0) in
  {| s_total := N.of_nat (length rs); s_passed := p; s_warnings := w; s_failed := f; s_grandfathered := g |}.

(* text.rs partitions the list into four vectors and prints their lengths *)
Definition text_partition (rs : list result) : list result * list result * list result * list result :=
  fold_left (fun acc r =>
    let '(p, w, f, g) := acc in
    match r_status r with
    | Passed => (p ++ [r], w, f, g)
    | Warning => (p, w ++ [r], f, g)
    | Failed => (p, w, f ++ [r], g)
    | Grandfathered => (p, w, f, g ++ [r])
    end) rs ([], [], [], []).

Definition text_summary (rs : list result) : summary :=
  let '(p, w, f, g) := text_partition rs in
  {| s_total := N.of_nat (length rs); s_passed := N.of_nat (length p); s_warnings := N.of_nat (length w);
     s_failed := N.of_nat (length f); s_grandfathered := N.of_nat (length g) |}.

(* what each format lists, as (path, status) in output order *)
Definition entry := (str * status)%type.
Definition entry_of (r : result) : entry := (r_path r, r_status r).
Definition is_passed (r : result) : bool := status_eqb (r_status r) Passed.

Definition listed_json (rs : list result) : list entry := map entry_of rs.
Definition listed_html (rs : list result) : list entry := map entry_of rs.
Definition listed_sarif (rs : list result) : list entry := map entry_of (filter (fun r => negb (is_passed r)) rs).
Definition listed_markdown (rs : list result) : list entry := map entry_of (filter (fun r => negb (is_passed r)) rs).
Definition listed_text (verbose : bool) (rs : list result) : list entry :=
  let '(p, w, f, g) := text_partition rs in
  map entry_of (f ++ w ++ (if verbose then g ++ p else [])).

(* html.rs AggregateStats (the Total Lines / Code / Comments / Blanks cards of check --format html).
   A structure result carries a synthetic count in its statistics (files, directories or depth of
   the offending directory: check_output.rs structure_violation_to_check_result), not line counts.
     html_aggregate_v0  the tree before fixes/D75-*.patch: raw stats of every result are summed,
                        structure results included;
     html_aggregate     the repaired tree: only content results (the ones that stand for a file). *)
Definition add_stats (a s : lstats) : lstats :=
  {| l_total := l_total a + l_total s; l_code := l_code a + l_code s;
     l_comment := l_comment a + l_comment s; l_blank := l_blank a + l_blank s |}.

Definition is_content (r : result) : bool := negb (r_structure r).

Definition html_aggregate_v0 (rs : list result) : lstats :=
  fold_left (fun a r => add_stats a (raw_stats r)) rs lstats0.

Definition html_aggregate (rs : list result) : lstats :=
  fold_left (fun a r => if r_structure r then a else add_stats a (raw_stats r)) rs lstats0.

(* structure_violation_to_check_result: [actual] is the count the limit was compared with *)
Definition structure_result (path : str) (st : status) (actual limit : N) (reason : option str) : result :=
  {| r_path := path; r_status := st; r_stats := {| l_total := actual; l_code := actual; l_comment := 0; l_blank := 0 |};
     r_raw := None; r_limit := limit; r_reason := reason; r_sugg := None; r_structure := true |}.

(* ---------------------------------------------------------------- check vs stats for one file *)

(* check_processing.rs compute_effective_stats *)
Definition effective (s : lstats) (skip_comments skip_blank : bool) : lstats :=
  let s1 := if skip_comments then s
            else {| l_total := l_total s; l_code := l_code s + l_comment s; l_comment := 0; l_blank := l_blank s |} in
  if skip_blank then s1
  else {| l_total := l_total s1; l_code := l_code s1 + l_blank s1; l_comment := l_comment s1; l_blank := 0 |}.

(* process_file_for_check: [counted] is what process_file_with_cache returned (the function both
   commands call); [verdict] is the threshold checker (any function of the effective stats) *)
Definition check_file (path : str) (counted : lstats) (skip_comments skip_blank : bool)
           (verdict : lstats -> status * N) : result :=
  let eff := effective counted skip_comments skip_blank in
  let '(st, lim) := verdict eff in
  {| r_path := path; r_status := st; r_stats := eff; r_raw := Some counted; r_limit := lim;
     r_reason := None; r_sugg := None; r_structure := false |}.

(* what check --format json prints under "stats" and what stats files prints for the file *)
Definition check_reported_counts (r : result) : lstats := raw_stats r.
Definition stats_reported_counts (counted : lstats) : lstats := counted.

(* ---------------------------------------------------------------- suggestions, exit code, one run *)

(* generate_split_suggestions: only Failed/Warning results may get a suggestion; [oracle] stands
   for extension lookup + file read + analyzer (None = nothing to attach) *)
Definition with_suggestions (r : result) (sg : list str) : result :=
  match r_status r with
  | Warning | Failed =>
    {| r_path := r_path r; r_status := r_status r; r_stats := r_stats r; r_raw := r_raw r; r_limit := r_limit r;
       r_reason := r_reason r; r_sugg := Some sg; r_structure := r_structure r |}
  | _ => r
  end.

Definition decorate (oracle : result -> option (list str)) (rs : list result) : list result :=
  map (fun r => match r_status r with
                | Warning | Failed => match oracle r with Some sg => with_suggestions r sg | None => r end
                | _ => r
                end) rs.

Definition is_failed (r : result) := status_eqb (r_status r) Failed.
Definition is_warning (r : result) := status_eqb (r_status r) Warning.
Definition is_issue (r : result) := is_failed r || is_warning r.

(* check_exit.rs determine_exit_code *)
Definition exit_code (rs : list result) (warn_only warnings_as_errors ratchet_failed : bool) : N :=
  if warn_only then 0
  else if existsb is_failed rs || (warnings_as_errors && existsb is_warning rs) || ratchet_failed then 1 else 0.

Inductive format := FText | FJson | FSarif | FMarkdown | FHtml.

(* presentation flags: none of them is read before the results vector is complete *)
Record pflags := {
  pf_quiet : bool; pf_verbose : bool; pf_color : bool; pf_format : format; pf_suggest : bool;
  pf_write_json : bool; pf_write_sarif : bool; pf_report_json : bool
}.

(* flags that do select behaviour *)
Record vflags := { vf_warn_only : bool; vf_warnings_as_errors : bool }.

Definition listed (fmt : format) (verbose : bool) (rs : list result) : list entry :=
  match fmt with
  | FText => listed_text verbose rs
  | FJson => listed_json rs
  | FSarif => listed_sarif rs
  | FMarkdown => listed_markdown rs
  | FHtml => listed_html rs
  end.

Record run_out := {
  o_results : list result;              (* the vector handed to every formatter *)
  o_stdout : option (list entry * summary);
  o_side_json : option (list entry * summary);
  o_side_sarif : option (list entry);
  o_exit : N
}.

(* runner.rs run_check_with_context from step 7.1 on: [rs] is the vector after baseline
   comparison, [ratchet_failed] was computed from it before *)
Definition run_check (pf : pflags) (vf : vflags) (oracle : result -> option (list str))
           (rs : list result) (ratchet_failed : bool) : run_out :=
  let rs' := if pf_suggest pf then decorate oracle rs else rs in
  let quiet_for_stdout := pf_quiet pf && negb (existsb is_issue rs') in
  {| o_results := rs';
     o_stdout := if quiet_for_stdout then None
                 else Some (listed (pf_format pf) (pf_verbose pf) rs',
                            match pf_format pf with FText => text_summary rs' | _ => summarize rs' end);
     o_side_json := if pf_write_json pf then Some (listed_json rs', summarize rs') else None;
     o_side_sarif := if pf_write_sarif pf then Some (listed_sarif rs') else None;
     o_exit := exit_code rs' (vf_warn_only vf) (vf_warnings_as_errors vf) ratchet_failed |}.
