(* Report/Stats.v -- model of src/output/stats/statistics.rs (ProjectStatistics::new,
   with_language_breakdown, with_directory_breakdown_depth, truncate_path_to_depth) and of
   LanguageRegistry::with_custom_languages (src/language/registry.rs:222-250).
   The iteration order of a std HashMap is an explicit argument [pi] (a selection code, see
   [permute]): whatever [pi] is, [permute pi l] is a permutation of [l], and every permutation
   of [l] is [permute pi l] for some [pi].
   Two generations of the code are modelled side by side:
     *_v0  the tree before fixes/D23-*.patch: groups sorted (stable) on the code total only,
           custom languages registered in HashMap order;
     (no suffix) the repaired tree: sort key (code descending, then name ascending), custom
           languages registered in ascending name order.
   Model file: definitions only, no proofs. *)
From Coq Require Import NArith List Bool.
From SG Require Import Report.Summary.
Import ListNotations.
Open Scope N_scope.

(* ---------------------------------------------------------------- HashMap iteration order *)

Fixpoint extract_nth {A} (n : nat) (l : list A) : option (A * list A) :=
  match l with
  | [] => None
  | x :: t => match n with
              | O => Some (x, t)
              | S k => match extract_nth k t with Some (y, r) => Some (y, x :: r) | None => None end
              end
  end.

(* selection code: take the pi_0-th remaining element, then the pi_1-th of the rest, ...;
   an index out of range (or the end of pi) keeps the remaining elements in place *)
Fixpoint permute {A} (pi : list nat) (l : list A) : list A :=
  match pi with
  | [] => l
  | i :: pi' => match extract_nth i l with
                | Some (y, r) => y :: permute pi' r
                | None => l
                end
  end.

(* ---------------------------------------------------------------- strings *)

(* Ord for str as Rust compares String: bytewise on UTF-8 = lexicographic on scalar values *)
Fixpoint str_ltb (a b : str) : bool :=
  match a, b with
  | [], [] => false
  | [], _ :: _ => true
  | _ :: _, [] => false
  | x :: a', y :: b' => if N.ltb x y then true else if N.eqb x y then str_ltb a' b' else false
  end.

Definition c_slash : char := 47.
Definition c_bslash : char := 92.
Definition c_dot : char := 46.

(* str::split on the slash: at least one piece *)
Fixpoint split_slash_aux (cur : str) (s : str) : list str :=
  match s with
  | [] => [rev_append cur []]
  | c :: r => if N.eqb c c_slash then rev_append cur [] :: split_slash_aux [] r
              else split_slash_aux (c :: cur) r
  end.
Definition split_slash (s : str) : list str := split_slash_aux [] s.

Fixpoint join_slash (l : list str) : str :=
  match l with
  | [] => []
  | [x] => x
  | x :: t => x ++ c_slash :: join_slash t
  end.

(* truncate_path_to_depth *)
Definition truncate_depth (path : str) (depth : nat) : str :=
  if str_eqb path [c_dot] then path
  else match depth with O => path | _ => join_slash (firstn depth (split_slash path)) end.

(* Path::parent of a clean relative path as the scanner yields it (dot-slash a slash b), then
   display_path with no strippable root: separators normalised, empty becomes a dot *)
Definition normalize_separators (s : str) : str := map (fun c => if N.eqb c c_bslash then c_slash else c) s.
Definition parent_display (path : str) : str :=
  let d := normalize_separators (join_slash (removelast (split_slash path))) in
  match d with [] => [c_dot] | _ => d end.

(* key of the directory breakdown; max_depth None or Some 0 = no truncation *)
Definition dir_key (depth : option nat) (path : str) : str :=
  let d := parent_display path in
  match depth with
  | Some (S k) => truncate_depth d (S k)
  | _ => d
  end.

(* ---------------------------------------------------------------- statistics *)

Record fstat := { f_path : str; f_lang : str; f_stats : lstats }.

Record totals := { t_files : N; t_lines : N; t_code : N; t_comment : N; t_blank : N }.

(* ProjectStatistics::new: one fold with a 4-tuple accumulator *)
Definition project_totals (files : list fstat) : totals :=
  let '(a, b, c, d) := fold_left (fun acc f => let '(a, b, c, d) := acc in
        (a + l_total (f_stats f), b + l_code (f_stats f), c + l_comment (f_stats f), d + l_blank (f_stats f)))
        files (0, 0, 0, 0) in
  {| t_files := N.of_nat (length files); t_lines := a; t_code := b; t_comment := c; t_blank := d |}.

(* LanguageStats / DirectoryStats *)
Record group := { g_key : str; g_files : N; g_lines : N; g_code : N; g_comment : N; g_blank : N }.

Definition group_new (k : str) : group :=
  {| g_key := k; g_files := 0; g_lines := 0; g_code := 0; g_comment := 0; g_blank := 0 |}.
Definition group_add (g : group) (s : lstats) : group :=
  {| g_key := g_key g; g_files := g_files g + 1; g_lines := g_lines g + l_total s; g_code := g_code g + l_code s;
     g_comment := g_comment g + l_comment s; g_blank := g_blank g + l_blank s |}.

(* map.entry(k).or_insert_with(default) then accumulate; the association list keeps first-insertion
   order, which is irrelevant because into_values() is read through [permute] *)
Fixpoint upsert (k : str) (s : lstats) (gs : list group) : list group :=
  match gs with
  | [] => [group_add (group_new k) s]
  | g :: r => if str_eqb (g_key g) k then group_add g s :: r else g :: upsert k s r
  end.

Definition group_by (key : fstat -> str) (files : list fstat) : list group :=
  fold_left (fun gs f => upsert (key f) (f_stats f) gs) files [].

(* Vec::sort_by is a stable sort; stable insertion sort, elements taken left to right *)
Fixpoint insert_by {A} (before : A -> A -> bool) (x : A) (l : list A) : list A :=
  match l with
  | [] => [x]
  | h :: t => if before x h then x :: h :: t else h :: insert_by before x t
  end.
Definition sort_by {A} (before : A -> A -> bool) (l : list A) : list A :=
  fold_left (fun acc x => insert_by before x acc) l [].

(* v0: sort_by(|a, b| b.code.cmp(&a.code))  -- x goes before h iff code h < code x *)
Definition before_v0 (x h : group) : bool := N.ltb (g_code h) (g_code x).
(* repaired: b.code.cmp(&a.code).then_with(|| a.name.cmp(&b.name)) *)
Definition before_v1 (x h : group) : bool :=
  N.ltb (g_code h) (g_code x) || (N.eqb (g_code h) (g_code x) && str_ltb (g_key x) (g_key h)).

Definition breakdown_v0 (key : fstat -> str) (pi : list nat) (files : list fstat) : list group :=
  sort_by before_v0 (permute pi (group_by key files)).
Definition breakdown (key : fstat -> str) (pi : list nat) (files : list fstat) : list group :=
  sort_by before_v1 (permute pi (group_by key files)).

Definition by_language_v0 := breakdown_v0 f_lang.
Definition by_language := breakdown f_lang.
Definition by_directory_v0 (depth : option nat) := breakdown_v0 (fun f => dir_key depth (f_path f)).
Definition by_directory (depth : option nat) := breakdown (fun f => dir_key depth (f_path f)).

(* ---------------------------------------------------------------- language registry *)

(* extension_map as an association list, most recent insert first (insert overwrites) *)
Definition regmap := list (str * str).
Record custom := { c_name : str; c_exts : list str }.

Definition register (m : regmap) (c : custom) : regmap :=
  fold_left (fun m e => (e, c_name c) :: m) (c_exts c) m.

Fixpoint lookup (ext : str) (m : regmap) : option str :=
  match m with
  | [] => None
  | (e, n) :: r => if str_eqb e ext then Some n else lookup ext r
  end.

(* v0: for (name, config) in custom  -- HashMap order *)
Definition with_custom_v0 (pi : list nat) (builtin : regmap) (customs : list custom) : regmap :=
  fold_left register (permute pi customs) builtin.
(* repaired: entries sorted by name before registration *)
Definition name_before (x h : custom) : bool := str_ltb (c_name x) (c_name h).
Definition with_custom (pi : list nat) (builtin : regmap) (customs : list custom) : regmap :=
  fold_left register (sort_by name_before (permute pi customs)) builtin.

Definition language_of_v0 pi builtin customs ext := lookup ext (with_custom_v0 pi builtin customs).
Definition language_of pi builtin customs ext := lookup ext (with_custom pi builtin customs).
