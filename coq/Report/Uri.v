(* Report/Uri.v -- model of encode_uri_path (src/output/sarif.rs): the display path, as UTF-8 bytes,
   becomes the SARIF artifactLocation.uri: RFC 3986 unreserved characters and the slash are kept,
   every other byte is written as a percent sign and two upper-case hex digits. [uri_decode] is
   what a conforming consumer does with the uri. Bytes are N below 256.
   Model file: definitions only, no proofs. *)
From Coq Require Import NArith List Bool.
From SG Require Import Report.Summary.
Import ListNotations.
Open Scope N_scope.

Definition c_percent : char := 37.

Definition is_alnum (b : N) : bool :=
  ((48 <=? b) && (b <=? 57)) || ((65 <=? b) && (b <=? 90)) || ((97 <=? b) && (b <=? 122)).
(* unreserved, plus the path separator *)
Definition uri_keeps (b : N) : bool :=
  is_alnum b || N.eqb b 45 || N.eqb b 46 || N.eqb b 95 || N.eqb b 126 || N.eqb b 47.

Definition hexdigit (d : N) : char := if d <? 10 then 48 + d else 55 + d.

Definition uri_enc1 (b : N) : str :=
  if uri_keeps b then [b] else [c_percent; hexdigit (b / 16); hexdigit (b mod 16)].
Definition uri_encode (path : list N) : str := flat_map uri_enc1 path.

Definition hexval (c : char) : option N :=
  if (48 <=? c) && (c <=? 57) then Some (c - 48)
  else if (65 <=? c) && (c <=? 70) then Some (c - 55)
  else if (97 <=? c) && (c <=? 102) then Some (c - 87)
  else None.
Definition is_upper_hex (c : char) : bool := ((48 <=? c) && (c <=? 57)) || ((65 <=? c) && (c <=? 70)).

Fixpoint uri_decode (s : str) : list N :=
  match s with
  | [] => []
  | c :: r =>
    if N.eqb c c_percent then
      match r with
      | h :: l :: r' =>
        match hexval h, hexval l with
        | Some a, Some b => (16 * a + b) :: uri_decode r'
        | _, _ => c :: uri_decode r
        end
      | _ => c :: uri_decode r
      end
    else c :: uri_decode r
  end.

(* only kept characters and complete upper-case escapes: a valid RFC 3986 URI reference *)
Fixpoint uri_ok (s : str) : bool :=
  match s with
  | [] => true
  | c :: r =>
    if N.eqb c c_percent then
      match r with
      | h :: l :: r' => is_upper_hex h && is_upper_hex l && uri_ok r'
      | _ => false
      end
    else uri_keeps c && uri_ok r
  end.
