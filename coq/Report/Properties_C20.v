(* Properties_C20.v -- C20: reports are consistent, well-formed and deterministic.
   Property theorems only; each is closed by [exact <lemma>] and followed by Print Assumptions.
   Models: Report/Summary.v (result vector, summary counting, listings per format, exit code, data
   flow of one run), Report/Stats.v (ProjectStatistics, breakdowns, HashMap order as the selection
   code pi, language registry; generation v0 = before fixes/D23-hashmap-order-determinism.patch,
   no suffix = repaired tree), Report/Escape.v (html_escape).
   Not shown here (correspondence run only): that the serialisers print these values faithfully,
   JSON / SARIF well-formedness, byte identity of repeated real runs. *)
From Coq Require Import NArith List Bool Permutation Sorted.
From SG Require Import Report.Summary Report.Stats Report.Escape Report.Uri Report.Roots Report.Proofs_C20 Report.Proofs_Roots.
Import ListNotations.
Open Scope N_scope.

(* ---------------------------------------------------------------- summary blocks *)

(* every summary field is the number of results with that status; the total is the list length *)
Theorem C20_summary_counts : forall rs : list result,
  s_total (summarize rs) = N.of_nat (length rs) /\
  s_passed (summarize rs) = count_status Passed rs /\
  s_warnings (summarize rs) = count_status Warning rs /\
  s_failed (summarize rs) = count_status Failed rs /\
  s_grandfathered (summarize rs) = count_status Grandfathered rs.
Proof. exact summarize_counts. Qed.
Print Assumptions C20_summary_counts.

Theorem C20_summary_total_is_sum : forall rs : list result,
  s_total (summarize rs) = s_passed (summarize rs) + s_warnings (summarize rs) + s_failed (summarize rs) + s_grandfathered (summarize rs).
Proof. exact summarize_total_is_sum. Qed.
Print Assumptions C20_summary_total_is_sum.

(* [count_status] is the length of the filtered list *)
Theorem C20_count_status_is_filter_length : forall st rs,
  count_status st rs = N.of_nat (length (filter (has_status st) rs)).
Proof. intros st rs. exact (countN_filter_length _ (has_status st) rs). Qed.
Print Assumptions C20_count_status_is_filter_length.

(* the text formatter counts by partitioning; it prints the same block as the three others *)
Theorem C20_text_summary_agrees : forall rs : list result, text_summary rs = summarize rs.
Proof. exact text_summary_eq. Qed.
Print Assumptions C20_text_summary_agrees.

(* ---------------------------------------------------------------- what each format lists *)

Theorem C20_sarif_and_markdown_list_the_nonpassed : forall rs,
  listed_sarif rs = filter nonpassed_entry (listed_json rs) /\ listed_markdown rs = listed_sarif rs /\ listed_html rs = listed_json rs.
Proof. intro rs. split; [exact (listed_sarif_is_nonpassed_json rs)|split; reflexivity]. Qed.
Print Assumptions C20_sarif_and_markdown_list_the_nonpassed.

Theorem C20_text_verbose_lists_everything : forall rs, Permutation (listed_text true rs) (listed_json rs).
Proof. exact listed_text_verbose_perm. Qed.
Print Assumptions C20_text_verbose_lists_everything.

Theorem C20_text_lists_the_issues : forall rs, Permutation (listed_text false rs) (filter issue_entry (listed_json rs)).
Proof. exact listed_text_quiet_perm. Qed.
Print Assumptions C20_text_lists_the_issues.

(* ---------------------------------------------------------------- totals *)

Theorem C20_totals_are_sums : forall files : list fstat,
  project_totals files =
  {| t_files := N.of_nat (length files);
     t_lines := sumN (fun f => l_total (f_stats f)) files;
     t_code := sumN (fun f => l_code (f_stats f)) files;
     t_comment := sumN (fun f => l_comment (f_stats f)) files;
     t_blank := sumN (fun f => l_blank (f_stats f)) files |}.
Proof. exact project_totals_sums. Qed.
Print Assumptions C20_totals_are_sums.

(* the Total Lines / Code / Comments / Blanks cards of check --format html are the sums of the
   per-file counts: structure results (synthetic counts) do not take part (D75 repaired) *)
Theorem C20_html_totals_are_sums : forall rs : list result,
  html_aggregate rs = {| l_total := sumN (fun r => l_total (raw_stats r)) (filter is_content rs);
                         l_code := sumN (fun r => l_code (raw_stats r)) (filter is_content rs);
                         l_comment := sumN (fun r => l_comment (raw_stats r)) (filter is_content rs);
                         l_blank := sumN (fun r => l_blank (raw_stats r)) (filter is_content rs) |}.
Proof. exact html_aggregate_sums. Qed.
Print Assumptions C20_html_totals_are_sums.

(* ... hence equal to the project totals that stats summary and the --report-json side-car of the
   same run print, whenever the content results stand for the scanned files *)
Theorem C20_html_totals_agree_with_project_totals : forall rs files,
  Permutation (map raw_stats (filter is_content rs)) (map f_stats files) ->
  html_aggregate rs = {| l_total := t_lines (project_totals files); l_code := t_code (project_totals files);
                         l_comment := t_comment (project_totals files); l_blank := t_blank (project_totals files) |}.
Proof. exact html_totals_are_project_totals. Qed.
Print Assumptions C20_html_totals_agree_with_project_totals.

(* any number of structure results anywhere in the vector leaves the cards unchanged; before the
   repair each one added its count (files / directories / depth) to Total Lines and Code *)
Theorem C20_html_totals_ignore_structure_results : forall rs1 rs2 path st actual limit reason,
  html_aggregate (rs1 ++ structure_result path st actual limit reason :: rs2) = html_aggregate (rs1 ++ rs2) /\
  l_total (html_aggregate_v0 (rs1 ++ structure_result path st actual limit reason :: rs2)) =
    l_total (html_aggregate_v0 (rs1 ++ rs2)) + actual.
Proof. exact html_aggregate_structure_inert. Qed.
Print Assumptions C20_html_totals_ignore_structure_results.

(* D75 on the v0 model: four files (4 + 1 + 1 + 1 lines) and one FileCount result with actual = 3 *)
Definition d75_file (p : str) (st : status) (n : N) : result :=
  {| r_path := p; r_status := st; r_stats := {| l_total := n; l_code := n; l_comment := 0; l_blank := 0 |};
     r_raw := Some {| l_total := n; l_code := n; l_comment := 0; l_blank := 0 |}; r_limit := 3; r_reason := None;
     r_sugg := None; r_structure := false |}.
Definition d75_results : list result :=
  [ d75_file [111] Failed 4; d75_file [49] Passed 1; d75_file [50] Passed 1; d75_file [116] Passed 1;
    structure_result [98;105;103] Failed 3 2 None ].
Definition d75_files : list fstat :=
  map (fun r => {| f_path := r_path r; f_lang := [82]; f_stats := raw_stats r |}) (filter is_content d75_results).

Theorem C20_v0_refuted_html_totals : exists rs files,
  Permutation (map raw_stats (filter is_content rs)) (map f_stats files) /\
  l_total (html_aggregate_v0 rs) <> t_lines (project_totals files).
Proof. exists d75_results, d75_files. split; [apply Permutation_refl | vm_compute; discriminate]. Qed.
Print Assumptions C20_v0_refuted_html_totals.

Example C20_repaired_on_the_d75_witness :
  l_total (html_aggregate_v0 d75_results) = 10 /\ l_total (html_aggregate d75_results) = 7 /\
  t_lines (project_totals d75_files) = 7 /\ s_total (summarize d75_results) = 5.
Proof. vm_compute. repeat split. Qed.
Print Assumptions C20_repaired_on_the_d75_witness.

(* ---------------------------------------------------------------- breakdowns *)

(* for every key function (language, directory at any depth), every HashMap order and both
   generations of the sort: group keys are distinct, every file lies in exactly one group, every
   group holds exactly the count and sums of its files (and at least one), and the group sums add
   up to the project totals *)
Theorem C20_breakdown_partitions : forall (key : fstat -> str) (pi : list nat) (files : list fstat),
  partition_statement key files (breakdown key pi files) /\ partition_statement key files (breakdown_v0 key pi files).
Proof. exact breakdown_partitions. Qed.
Print Assumptions C20_breakdown_partitions.

Theorem C20_breakdown_sorted : forall key pi files,
  StronglySorted (fun a b => g_code b <= g_code a) (breakdown key pi files) /\
  StronglySorted (fun a b => g_code b <= g_code a) (breakdown_v0 key pi files).
Proof. exact breakdown_sorted_desc. Qed.
Print Assumptions C20_breakdown_sorted.

(* ---------------------------------------------------------------- overlapping scan roots *)

(* the files of one run (Report/Roots.v): whatever roots are requested -- the same one twice, a
   directory and something below it, in any order and any number -- no file of the tree is in the
   list twice, so the totals are sums over distinct files and a breakdown of the list is a
   partition of the files (D50 repaired: covered roots are not walked a second time) *)
Theorem C20_roots_each_file_once : forall tree roots : list path, NoDup tree -> NoDup (run_files tree roots).
Proof. exact run_files_nodup. Qed.
Print Assumptions C20_roots_each_file_once.

(* dropping the covered roots loses no file: the run is about exactly the files below some requested root *)
Theorem C20_roots_same_files : forall tree roots f, In f (run_files tree roots) <-> In f (run_files_v0 tree roots).
Proof. exact run_files_same_set. Qed.
Print Assumptions C20_roots_same_files.

Theorem C20_roots_files_are_the_covered_files : forall tree roots, NoDup tree ->
  Permutation (run_files tree roots) (filter (fun f => existsb (fun r => covers r f) roots) tree).
Proof. exact run_files_perm. Qed.
Print Assumptions C20_roots_files_are_the_covered_files.

Theorem C20_roots_kept_are_incomparable : forall roots, ForallOrdPairs incomparable (drop_covered roots).
Proof. intro roots. exact (drop_aux_incomparable roots []). Qed.
Print Assumptions C20_roots_kept_are_incomparable.

(* before the repair every requested root was walked: the witness of the finding (. and src) *)
Definition d50_tree : list path :=
  [ [[116;111;112;46;114;115]]; [[115;114;99]; [98;105;103]; [111;118;101;114;46;114;115]];
    [[115;114;99]; [98;105;103]; [111;110;101;46;114;115]]; [[115;114;99]; [98;105;103]; [116;119;111;46;114;115]] ].
Definition d50_roots : list path := [ []; [[115;114;99]] ].

Theorem C20_v0_refuted_overlapping_roots : exists tree roots, NoDup tree /\ ~ NoDup (run_files_v0 tree roots).
Proof.
  exists d50_tree, d50_roots. split.
  - repeat (constructor; [cbn; intuition discriminate|]). constructor.
  - vm_compute. intro H. inversion H as [|? ? _ H1]; subst. inversion H1 as [|? ? N _]; subst. apply N. cbn. tauto.
Qed.
Print Assumptions C20_v0_refuted_overlapping_roots.

(* ... and was right exactly when no root covered another (executable classifier roots_overlap) *)
Theorem C20_v0_roots_modulo_known : forall tree roots, NoDup tree -> ForallOrdPairs incomparable roots -> NoDup (run_files_v0 tree roots).
Proof. exact no_overlap_v0_ok. Qed.
Print Assumptions C20_v0_roots_modulo_known.

Example C20_repaired_on_the_d50_witness :
  length (run_files_v0 d50_tree d50_roots) = 7%nat /\ length (run_files d50_tree d50_roots) = 4%nat /\
  roots_overlap d50_roots = true /\ roots_overlap [ [[115;114;99]]; [[108;105;98]] ] = false /\
  drop_covered [ [[115;114;99]]; []; [[115;114;99]]; [] ] = [ [] ].
Proof. vm_compute. repeat split. Qed.
Print Assumptions C20_repaired_on_the_d50_witness.

(* ---------------------------------------------------------------- check and stats *)

(* both commands print the value process_file_with_cache returned, whatever skip_comments /
   skip_blank are and whatever the threshold checker decides *)
Theorem C20_check_and_stats_same_counts : forall path counted skip_comments skip_blank verdict,
  check_reported_counts (check_file path counted skip_comments skip_blank verdict) = stats_reported_counts counted.
Proof. exact check_stats_same. Qed.
Print Assumptions C20_check_and_stats_same_counts.

Theorem C20_check_sloc_is_effective_code : forall path counted sc sb verdict,
  sloc (check_file path counted sc sb verdict) =
  l_code counted + (if sc then 0 else l_comment counted) + (if sb then 0 else l_blank counted).
Proof. exact check_sloc. Qed.
Print Assumptions C20_check_sloc_is_effective_code.

(* ---------------------------------------------------------------- HashMap order *)

(* pi ranges over exactly the orders a HashMap can produce: always a permutation, and every one *)
Theorem C20_permute_is_permutation : forall (A : Type) (pi : list nat) (l : list A), Permutation (permute pi l) l.
Proof. exact permute_perm. Qed.
Print Assumptions C20_permute_is_permutation.

Theorem C20_permute_complete : forall (A : Type) (l' l : list A), Permutation l' l -> exists pi, permute pi l = l'.
Proof. exact permute_complete. Qed.
Print Assumptions C20_permute_complete.

(* the sort on the code total alone (generation v0) is deterministic only when no two groups tie *)
Theorem C20_deterministic_modulo_ties : forall key pi1 pi2 files,
  NoDup (map g_code (group_by key files)) -> breakdown_v0 key pi1 files = breakdown_v0 key pi2 files.
Proof. exact breakdown_v0_deterministic. Qed.
Print Assumptions C20_deterministic_modulo_ties.

(* ... and is not in general: D23 on the v0 model, two languages with equal code totals *)
Definition d23_files : list fstat :=
  [ {| f_path := [46;47;97;46;114;115]; f_lang := [82]; f_stats := {| l_total := 2; l_code := 2; l_comment := 0; l_blank := 0 |} |};
    {| f_path := [46;47;98;46;112;121]; f_lang := [80]; f_stats := {| l_total := 2; l_code := 2; l_comment := 0; l_blank := 0 |} |} ].

Theorem C20_v0_refuted_ties : exists files pi1 pi2, by_language_v0 pi1 files <> by_language_v0 pi2 files.
Proof. exists d23_files, [], [1%nat]. vm_compute. discriminate. Qed.
Print Assumptions C20_v0_refuted_ties.

(* the repaired sort key is total on the groups (their names are distinct), so the breakdowns do
   not depend on the HashMap order at all *)
Theorem C20_breakdown_deterministic : forall key pi1 pi2 files, breakdown key pi1 files = breakdown key pi2 files.
Proof. exact breakdown_deterministic. Qed.
Print Assumptions C20_breakdown_deterministic.

Theorem C20_by_language_and_by_directory_deterministic : forall depth pi1 pi2 files,
  by_language pi1 files = by_language pi2 files /\ by_directory depth pi1 files = by_directory depth pi2 files.
Proof. intros. split; apply breakdown_deterministic. Qed.
Print Assumptions C20_by_language_and_by_directory_deterministic.

(* custom languages: registration in HashMap order lets the order decide who owns a shared
   extension (v0) ... *)
Definition d23_customs : list custom := [ {| c_name := [65]; c_exts := [[102]] |}; {| c_name := [66]; c_exts := [[102]] |} ].

Theorem C20_v0_refuted_shared_extension : exists customs pi1 pi2 ext,
  NoDup (map c_name customs) /\ language_of_v0 pi1 [] customs ext <> language_of_v0 pi2 [] customs ext.
Proof.
  exists d23_customs, [], [1%nat], [102]. split.
  - constructor; [intros [H|[]]; discriminate|]. constructor; [intros []|constructor].
  - vm_compute. discriminate.
Qed.
Print Assumptions C20_v0_refuted_shared_extension.

(* ... registration in name order (repaired) does not *)
Theorem C20_registry_deterministic : forall pi1 pi2 builtin customs, NoDup (map c_name customs) ->
  with_custom pi1 builtin customs = with_custom pi2 builtin customs.
Proof. exact registry_deterministic. Qed.
Print Assumptions C20_registry_deterministic.

Example C20_repaired_on_the_d23_witnesses :
  by_language [] d23_files = by_language [1%nat] d23_files /\
  language_of [] [] d23_customs [102] = Some [66] /\ language_of [1%nat] [] d23_customs [102] = Some [66].
Proof. vm_compute. repeat split. Qed.
Print Assumptions C20_repaired_on_the_d23_witnesses.

(* ---------------------------------------------------------------- html_escape *)

(* the five sequential whole-string passes equal the character-by-character map *)
Theorem C20_html_escape_charwise : forall s, html_escape s = html_escape_spec s.
Proof. exact html_escape_charwise. Qed.
Print Assumptions C20_html_escape_charwise.

(* no raw angle bracket or quote survives and every ampersand heads one of the five entities *)
Theorem C20_html_escape_safe : forall s,
  Forall (fun c => c <> c_lt /\ c <> c_gt /\ c <> c_dq /\ c <> c_sq) (html_escape s) /\
  (forall pre post, html_escape s = pre ++ c_amp :: post -> exists e rest, In e entities /\ c_amp :: post = e ++ rest).
Proof. intro s. exact (html_safe_meaning _ (html_escape_safe s)). Qed.
Print Assumptions C20_html_escape_safe.

Theorem C20_html_escape_injective : forall a b, html_escape a = html_escape b -> a = b.
Proof. exact html_escape_injective. Qed.
Print Assumptions C20_html_escape_injective.

Theorem C20_html_unescape_inverts : forall s, html_unescape (html_escape s) = s.
Proof. exact unescape_escape. Qed.
Print Assumptions C20_html_unescape_inverts.

(* ---------------------------------------------------------------- SARIF uri (D37 repaired) *)

(* percent-decoding the uri gives back exactly the bytes of the display path the other formats
   print: the SARIF view names the same file *)
Theorem C20_uri_roundtrip : forall p : list N, Forall (fun b => b < 256) p -> uri_decode (uri_encode p) = p.
Proof. exact uri_roundtrip. Qed.
Print Assumptions C20_uri_roundtrip.

(* the uri consists of unreserved characters, slashes and complete upper-case escapes only *)
Theorem C20_uri_wellformed : forall p : list N, Forall (fun b => b < 256) p -> uri_ok (uri_encode p) = true.
Proof. exact uri_encode_ok. Qed.
Print Assumptions C20_uri_wellformed.

Theorem C20_uri_injective : forall p q, Forall (fun b => b < 256) p -> Forall (fun b => b < 256) q ->
  uri_encode p = uri_encode q -> p = q.
Proof. exact uri_encode_injective. Qed.
Print Assumptions C20_uri_injective.

(* the raw path is NOT a faithful uri: the old behaviour on the D37 witness (per%41cent) *)
Example C20_raw_path_is_not_a_uri :
  uri_decode [112;101;114;37;52;49;99] = [112;101;114;65;99] /\
  uri_encode [112;101;114;37;52;49;99] = [112;101;114;37;50;53;52;49;99] /\
  uri_ok [97;32;98] = false.
Proof. vm_compute. repeat split. Qed.
Print Assumptions C20_raw_path_is_not_a_uri.

(* ---------------------------------------------------------------- presentation flags *)

(* exit code and (path, status) of every result do not depend on quiet / verbose / color /
   format / suggest / side-car flags; the exit code is the function of the undecorated vector *)
Theorem C20_presentation_flags_inert : forall pf1 pf2 vf oracle rs ratchet_failed,
  o_exit (run_check pf1 vf oracle rs ratchet_failed) = o_exit (run_check pf2 vf oracle rs ratchet_failed) /\
  map entry_of (o_results (run_check pf1 vf oracle rs ratchet_failed)) =
  map entry_of (o_results (run_check pf2 vf oracle rs ratchet_failed)) /\
  o_exit (run_check pf1 vf oracle rs ratchet_failed) =
  exit_code rs (vf_warn_only vf) (vf_warnings_as_errors vf) ratchet_failed.
Proof. exact flags_inert. Qed.
Print Assumptions C20_presentation_flags_inert.

(* whatever a run prints or writes is a listing and a summary of its one results vector *)
Theorem C20_outputs_list_one_vector : forall pf vf oracle rs rf,
  let o := run_check pf vf oracle rs rf in
  (forall l s, o_stdout o = Some (l, s) -> l = listed (pf_format pf) (pf_verbose pf) (o_results o) /\ s = summarize (o_results o)) /\
  (forall l s, o_side_json o = Some (l, s) -> l = listed_json (o_results o) /\ s = summarize (o_results o)) /\
  (forall l, o_side_sarif o = Some l -> l = listed_sarif (o_results o)).
Proof. exact outputs_list_results. Qed.
Print Assumptions C20_outputs_list_one_vector.

(* ---------------------------------------------------------------- non-vacuity *)

Definition ex_result (p : str) (st : status) : result :=
  {| r_path := p; r_status := st; r_stats := {| l_total := 5; l_code := 4; l_comment := 1; l_blank := 0 |}; r_raw := None;
     r_limit := 3; r_reason := None; r_sugg := None; r_structure := false |}.

Example C20_nonvacuous_summary :
  summarize [ex_result [97] Failed; ex_result [98] Passed; ex_result [99] Grandfathered; ex_result [100] Failed; ex_result [101] Warning]
  = {| s_total := 5; s_passed := 1; s_warnings := 1; s_failed := 2; s_grandfathered := 1 |}
  /\ listed_text true [ex_result [97] Failed; ex_result [98] Passed; ex_result [99] Grandfathered; ex_result [100] Failed; ex_result [101] Warning]
     = [([97], Failed); ([100], Failed); ([101], Warning); ([99], Grandfathered); ([98], Passed)].
Proof. vm_compute. split; reflexivity. Qed.
Print Assumptions C20_nonvacuous_summary.

(* the hypothesis of C20_deterministic_modulo_ties is satisfiable by a two-group input *)
Example C20_nonvacuous_no_ties :
  let files := [ {| f_path := [97]; f_lang := [82]; f_stats := {| l_total := 3; l_code := 3; l_comment := 0; l_blank := 0 |} |};
                 {| f_path := [98]; f_lang := [80]; f_stats := {| l_total := 2; l_code := 2; l_comment := 0; l_blank := 0 |} |} ] in
  NoDup (map g_code (group_by f_lang files)) /\ length (by_language_v0 [1%nat] files) = 2%nat.
Proof.
  cbv zeta. split; [|vm_compute; reflexivity]. vm_compute.
  constructor; [intros [H|[]]; discriminate|]. constructor; [intros []|constructor].
Qed.
Print Assumptions C20_nonvacuous_no_ties.

Example C20_nonvacuous_escape :
  html_escape [60; 97; 38; 39; 34; 62] = [38;108;116;59; 97; 38;97;109;112;59; 38;35;51;57;59; 38;113;117;111;116;59; 38;103;116;59].
Proof. vm_compute. reflexivity. Qed.
Print Assumptions C20_nonvacuous_escape.
