(* Report/Escape.v -- model of html_escape (src/output/html.rs:525-531 and the identical copy in
   src/output/svg/format.rs:4-10): five sequential whole-string passes of str::replace with a
   single-character pattern, in the order  amp, lt, gt, double quote, apostrophe.
   Model file: definitions only, no proofs. *)
From Coq Require Import NArith List Bool.
From SG Require Import Report.Summary.
Import ListNotations.
Open Scope N_scope.

Definition c_amp : char := 38.
Definition c_lt : char := 60.
Definition c_gt : char := 62.
Definition c_dq : char := 34.
Definition c_sq : char := 39.
Definition c_semi : char := 59.

Definition e_amp : str := [38; 97; 109; 112; 59].        (* amp entity *)
Definition e_lt : str := [38; 108; 116; 59].
Definition e_gt : str := [38; 103; 116; 59].
Definition e_quot : str := [38; 113; 117; 111; 116; 59].
Definition e_apos : str := [38; 35; 51; 57; 59].           (* numeric entity 39 *)

(* str::replace(char, &str): every occurrence, left to right, no rescan of the replacement *)
Fixpoint replace_char (c : char) (rep : str) (s : str) : str :=
  match s with
  | [] => []
  | x :: r => if N.eqb x c then rep ++ replace_char c rep r else x :: replace_char c rep r
  end.

Definition html_escape (s : str) : str :=
  replace_char c_sq e_apos
    (replace_char c_dq e_quot
      (replace_char c_gt e_gt
        (replace_char c_lt e_lt
          (replace_char c_amp e_amp s)))).

(* the character-by-character reading *)
Definition esc1 (c : char) : str :=
  if N.eqb c c_amp then e_amp
  else if N.eqb c c_lt then e_lt
  else if N.eqb c c_gt then e_gt
  else if N.eqb c c_dq then e_quot
  else if N.eqb c c_sq then e_apos
  else [c].
Definition html_escape_spec (s : str) : str := flat_map esc1 s.

(* ---- the safety predicate, executable *)

Fixpoint prefixb (p s : str) : bool :=
  match p, s with
  | [], _ => true
  | a :: p', b :: s' => N.eqb a b && prefixb p' s'
  | _ :: _, [] => false
  end.

(* an ampersand at the head of [s] starts one of the five entities *)
Definition entity_head (s : str) : bool :=
  prefixb e_amp s || prefixb e_lt s || prefixb e_gt s || prefixb e_quot s || prefixb e_apos s.

Definition is_raw_special (c : char) : bool :=
  N.eqb c c_lt || N.eqb c c_gt || N.eqb c c_dq || N.eqb c c_sq.

(* no raw special character, and every ampersand is the head of an entity *)
Fixpoint html_safe (s : str) : bool :=
  match s with
  | [] => true
  | c :: r => negb (is_raw_special c) && (if N.eqb c c_amp then entity_head s else true) && html_safe r
  end.

(* ---- a decoder, used to state injectivity *)

Definition decode_entity (s : str) : option (char * nat) :=
  if prefixb e_amp s then Some (c_amp, 4%nat)
  else if prefixb e_lt s then Some (c_lt, 3%nat)
  else if prefixb e_gt s then Some (c_gt, 3%nat)
  else if prefixb e_quot s then Some (c_dq, 5%nat)
  else if prefixb e_apos s then Some (c_sq, 4%nat)
  else None.

(* structural recursion with a skip counter *)
Fixpoint unescape_aux (skip : nat) (s : str) : str :=
  match s with
  | [] => []
  | c :: r =>
    match skip with
    | S k => unescape_aux k r
    | O => match decode_entity s with
           | Some (d, n) => d :: unescape_aux n r
           | None => c :: unescape_aux O r
           end
    end
  end.
Definition html_unescape (s : str) : str := unescape_aux O s.
