(* Report/Roots.v -- which files one run is about when several scan roots are requested
   (src/commands/context.rs resolve_scan_paths / drop_covered_roots, src/scanner/composite.rs
   scan_all / scan_all_with_structure: the per-root lists are concatenated).
   A path is the list of its components after normalize_for_matching (no dot, no empty
   component); the empty list is the current directory. Roots with a parent-dir component and
   absolute roots are outside this model (the code leaves them alone).
     scan_roots tree roots           the concatenation (what the scanner does with the roots it gets)
     drop_covered roots              the roots the repaired tree hands to the scanner (fixes/D50-*.patch):
                                     a root is dropped when another requested root is a prefix of it
                                     and is either a different path or stands earlier in the list
   The tree before the repair handed every requested root to the scanner.
   Model file: definitions only, no proofs. *)
From Coq Require Import NArith List Bool.
From SG Require Import Report.Summary.
Import ListNotations.

Definition path := list str.

Fixpoint path_eqb (a b : path) : bool :=
  match a, b with
  | [], [] => true
  | x :: a', y :: b' => str_eqb x y && path_eqb a' b'
  | _, _ => false
  end.

(* Path::starts_with on normalised relative paths: [outer] is a component-wise prefix of [inner] *)
Fixpoint covers (outer inner : path) : bool :=
  match outer, inner with
  | [], _ => true
  | x :: o', y :: i' => str_eqb x y && covers o' i'
  | _ :: _, [] => false
  end.

(* is_covered, position by position: [seen] are the roots before this one, [rest] the ones behind *)
Fixpoint drop_aux (seen rest : list path) : list path :=
  match rest with
  | [] => []
  | k :: rest' =>
    if existsb (fun o => covers o k) seen || existsb (fun o => covers o k && negb (path_eqb k o)) rest'
    then drop_aux (seen ++ [k]) rest'
    else k :: drop_aux (seen ++ [k]) rest'
  end.

Definition drop_covered (roots : list path) : list path := drop_aux [] roots.

(* one walk: the files of the tree below the root (a file root is below itself) *)
Definition walk (tree : list path) (root : path) : list path := filter (covers root) tree.

Definition scan_roots (tree : list path) (roots : list path) : list path := flat_map (walk tree) roots.

(* the file list of one run *)
Definition run_files_v0 (tree roots : list path) : list path := scan_roots tree roots.
Definition run_files (tree roots : list path) : list path := scan_roots tree (drop_covered roots).

Definition incomparable (a b : path) : Prop := covers a b = false /\ covers b a = false.

(* executable classifier of the old defect: some root is covered by another one *)
Definition roots_overlap (roots : list path) : bool :=
  negb (Nat.eqb (length (drop_covered roots)) (length roots)).
