(* Report/Proofs_Roots.v -- lemmas about overlapping scan roots (Report/Roots.v). *)
From Coq Require Import NArith List Bool Lia Permutation.
From SG Require Import Report.Summary Report.Roots Report.Proofs_C20.
Import ListNotations.

Lemma path_eqb_eq : forall a b, path_eqb a b = true <-> a = b.
Proof.
  induction a as [|x a IH]; destruct b as [|y b]; cbn [path_eqb]; split; intro H; try reflexivity; try discriminate.
  - apply andb_true_iff in H. destruct H as [H1 H2]. apply str_eqb_eq in H1. apply IH in H2. subst. reflexivity.
  - inversion H; subst. apply andb_true_iff. split; [apply str_eqb_refl | apply IH; reflexivity].
Qed.

Lemma covers_refl : forall a, covers a a = true.
Proof. induction a as [|x a IH]; cbn [covers]; [reflexivity|]. rewrite str_eqb_refl, IH. reflexivity. Qed.

Lemma covers_trans : forall a b c, covers a b = true -> covers b c = true -> covers a c = true.
Proof.
  induction a as [|x a IH]; intros b c H1 H2; [reflexivity|].
  destruct b as [|y b]; [discriminate|]. destruct c as [|z c]; [discriminate|].
  cbn [covers] in *. apply andb_true_iff in H1. apply andb_true_iff in H2. destruct H1 as [E1 H1], H2 as [E2 H2].
  apply str_eqb_eq in E1. apply str_eqb_eq in E2. subst. rewrite str_eqb_refl. cbn. eapply IH; eassumption.
Qed.

Lemma covers_antisym : forall a b, covers a b = true -> covers b a = true -> a = b.
Proof.
  induction a as [|x a IH]; destruct b as [|y b]; intros H1 H2; try reflexivity; try discriminate.
  cbn [covers] in *. apply andb_true_iff in H1. apply andb_true_iff in H2. destruct H1 as [E1 H1], H2 as [_ H2].
  apply str_eqb_eq in E1. subst. f_equal. apply IH; assumption.
Qed.

(* two prefixes of one path are comparable *)
Lemma covers_comparable : forall a b f, covers a f = true -> covers b f = true -> covers a b = true \/ covers b a = true.
Proof.
  induction a as [|x a IH]; intros b f H1 H2; [left; reflexivity|].
  destruct b as [|y b]; [right; reflexivity|]. destruct f as [|z f]; [discriminate|].
  cbn [covers] in *. apply andb_true_iff in H1. apply andb_true_iff in H2. destruct H1 as [E1 H1], H2 as [E2 H2].
  apply str_eqb_eq in E1. apply str_eqb_eq in E2. subst. rewrite str_eqb_refl. cbn. eapply IH; eassumption.
Qed.

(* ---- what drop_aux keeps *)

Lemma drop_aux_sub : forall rest seen m, In m (drop_aux seen rest) ->
  In m rest /\ (forall o, In o seen -> covers o m = false).
Proof.
  induction rest as [|k rest IH]; intros seen m H; [destruct H|].
  cbn [drop_aux] in H.
  destruct (existsb (fun o => covers o k) seen || existsb (fun o => covers o k && negb (path_eqb k o)) rest) eqn:E.
  - apply IH in H. destruct H as [H1 H2]. split; [right; exact H1|]. intros o Ho. apply H2. apply in_or_app. left. exact Ho.
  - apply orb_false_iff in E. destruct E as [E1 E2]. destruct H as [<-|H].
    + split; [left; reflexivity|]. intros o Ho. destruct (covers o k) eqn:C; [|reflexivity].
      assert (X : existsb (fun o => covers o k) seen = true) by (apply existsb_exists; exists o; split; assumption). congruence.
    + apply IH in H. destruct H as [H1 H2]. split; [right; exact H1|]. intros o Ho. apply H2. apply in_or_app. left. exact Ho.
Qed.

Lemma drop_aux_incomparable : forall rest seen, ForallOrdPairs incomparable (drop_aux seen rest).
Proof.
  induction rest as [|k rest IH]; intro seen; [constructor|].
  cbn [drop_aux].
  destruct (existsb (fun o => covers o k) seen || existsb (fun o => covers o k && negb (path_eqb k o)) rest) eqn:E; [apply IH|].
  apply orb_false_iff in E. destruct E as [E1 E2].
  constructor; [|apply IH].
  apply Forall_forall. intros m Hm. apply drop_aux_sub in Hm. destruct Hm as [Hin Hseen].
  assert (C1 : covers k m = false) by (apply Hseen; apply in_or_app; right; left; reflexivity).
  split; [exact C1|].
  destruct (covers m k) eqn:C2; [|reflexivity].
  assert (X : existsb (fun o => covers o k && negb (path_eqb k o)) rest = true).
  { apply existsb_exists. exists m. split; [exact Hin|]. rewrite C2. cbn.
    destruct (path_eqb k m) eqn:Q; [|reflexivity]. apply path_eqb_eq in Q. subst m. rewrite covers_refl in C1. discriminate. }
  congruence.
Qed.

Lemma drop_aux_incl : forall rest seen m, In m (drop_aux seen rest) -> In m rest.
Proof. intros rest seen m H. apply drop_aux_sub in H. tauto. Qed.

(* every requested root is covered by a kept one (or by one that stands before the segment) *)
Lemma drop_aux_covering : forall rest seen k, In k rest ->
  (exists o, In o (drop_aux seen rest) /\ covers o k = true) \/ (exists o, In o seen /\ covers o k = true).
Proof.
  induction rest as [|h rest IH]; intros seen k Hk; [destruct Hk|].
  (* first: the head itself *)
  assert (Hh : (exists o, In o (drop_aux seen (h :: rest)) /\ covers o h = true) \/ (exists o, In o seen /\ covers o h = true)).
  { cbn [drop_aux].
    destruct (existsb (fun o => covers o h) seen) eqn:E1.
    - right. apply existsb_exists in E1. destruct E1 as [o [Ho C]]. exists o. split; assumption.
    - cbn [orb]. destruct (existsb (fun o => covers o h && negb (path_eqb h o)) rest) eqn:E2.
      + apply existsb_exists in E2. destruct E2 as [m [Hm C]]. apply andb_true_iff in C. destruct C as [C Q].
        destruct (IH (seen ++ [h]) m Hm) as [[o [Ho Co]]|[o [Ho Co]]].
        * left. exists o. split; [exact Ho | eapply covers_trans; eassumption].
        * apply in_app_or in Ho. destruct Ho as [Ho|[<-|[]]].
          -- right. exists o. split; [exact Ho | eapply covers_trans; eassumption].
          -- assert (h = m) by (apply covers_antisym; assumption). subst m.
             assert (path_eqb h h = true) by (apply path_eqb_eq; reflexivity). rewrite H in Q. discriminate.
      + left. exists h. split; [left; reflexivity | apply covers_refl]. }
  destruct Hk as [<-|Hk]; [exact Hh|].
  destruct (IH (seen ++ [h]) k Hk) as [[o [Ho Co]]|[o [Ho Co]]].
  - left. exists o. split; [|exact Co]. cbn [drop_aux].
    destruct (existsb _ seen || existsb _ rest); [exact Ho | right; exact Ho].
  - apply in_app_or in Ho. destruct Ho as [Ho|[<-|[]]].
    + right. exists o. split; assumption.
    + destruct Hh as [[o [Ho C]]|[o [Ho C]]].
      * left. exists o. split; [exact Ho | eapply covers_trans; eassumption].
      * right. exists o. split; [exact Ho | eapply covers_trans; eassumption].
Qed.

Lemma drop_covered_covering : forall roots k, In k roots -> exists o, In o (drop_covered roots) /\ covers o k = true.
Proof.
  intros roots k Hk. destruct (drop_aux_covering roots [] k Hk) as [H|[o [[] _]]]. exact H.
Qed.

(* ---- the scanned list *)

Lemma in_walk : forall tree r f, In f (walk tree r) <-> In f tree /\ covers r f = true.
Proof. intros. unfold walk. apply filter_In. Qed.

Lemma in_scan : forall tree roots f, In f (scan_roots tree roots) <-> In f tree /\ exists r, In r roots /\ covers r f = true.
Proof.
  intros tree roots f. unfold scan_roots. rewrite in_flat_map. split.
  - intros [r [Hr Hf]]. apply in_walk in Hf. destruct Hf as [Ht C]. split; [exact Ht|]. exists r. split; assumption.
  - intros [Ht [r [Hr C]]]. exists r. split; [exact Hr|]. apply in_walk. split; assumption.
Qed.

Lemma NoDup_app_intro : forall A (a b : list A), NoDup a -> NoDup b -> (forall x, In x a -> In x b -> False) -> NoDup (a ++ b).
Proof.
  induction a as [|x a IH]; intros b Ha Hb D; [exact Hb|].
  inversion Ha as [|? ? Hx Ha']; subst. cbn [app]. constructor.
  - intro H. apply in_app_or in H. destruct H as [H|H]; [contradiction | apply (D x); [left; reflexivity | exact H]].
  - apply IH; [exact Ha' | exact Hb | intros y Hy Hy'; apply (D y); [right; exact Hy | exact Hy']].
Qed.

Lemma scan_nodup : forall tree roots, NoDup tree -> ForallOrdPairs incomparable roots -> NoDup (scan_roots tree roots).
Proof.
  intros tree roots Ht. induction 1 as [|r roots Hr Hrest IH]; [constructor|].
  unfold scan_roots. cbn [flat_map]. apply NoDup_app_intro.
  - unfold walk. apply NoDup_filter. exact Ht.
  - exact IH.
  - intros f H1 H2. apply in_walk in H1. destruct H1 as [_ C1].
    apply (in_scan tree roots f) in H2. destruct H2 as [_ [r' [Hr' C2]]].
    rewrite Forall_forall in Hr. destruct (Hr r' Hr') as [I1 I2].
    destruct (covers_comparable r r' f C1 C2); congruence.
Qed.

Lemma run_files_nodup : forall tree roots, NoDup tree -> NoDup (run_files tree roots).
Proof. intros. unfold run_files. apply scan_nodup; [assumption | apply drop_aux_incomparable]. Qed.

Lemma run_files_same_set : forall tree roots f, In f (run_files tree roots) <-> In f (run_files_v0 tree roots).
Proof.
  intros tree roots f. unfold run_files, run_files_v0. rewrite !in_scan. split; intros [Ht [r [Hr C]]]; (split; [exact Ht|]).
  - exists r. split; [eapply drop_aux_incl; exact Hr | exact C].
  - destruct (drop_covered_covering roots r Hr) as [o [Ho Co]]. exists o. split; [exact Ho | eapply covers_trans; eassumption].
Qed.

(* the lists are equal as multisets to the tree restricted to the covered files, so every sum and
   every count over the run is a sum / count over distinct files *)
Lemma run_files_perm : forall tree roots, NoDup tree ->
  Permutation (run_files tree roots) (filter (fun f => existsb (fun r => covers r f) roots) tree).
Proof.
  intros tree roots Ht. apply NoDup_Permutation.
  - apply run_files_nodup. exact Ht.
  - apply NoDup_filter. exact Ht.
  - intro f. rewrite run_files_same_set. unfold run_files_v0. rewrite in_scan, filter_In, existsb_exists. reflexivity.
Qed.

Lemma no_overlap_v0_ok : forall tree roots, NoDup tree -> ForallOrdPairs incomparable roots -> NoDup (run_files_v0 tree roots).
Proof. intros. unfold run_files_v0. apply scan_nodup; assumption. Qed.
