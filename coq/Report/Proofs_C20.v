(* Report/Proofs_C20.v -- lemmas behind Properties_C20.v. *)
From Coq Require Import NArith List Bool Lia Permutation Sorted.
From SG Require Import Report.Summary Report.Stats Report.Escape.
Import ListNotations.
Open Scope N_scope.

Arguments N.add : simpl never.
Arguments N.eqb : simpl never.
Arguments N.ltb : simpl never.

(* ================================================================ basics *)

Lemma str_eqb_eq : forall a b, str_eqb a b = true <-> a = b.
Proof.
  induction a as [|x a IH]; destruct b as [|y b]; cbn [str_eqb]; split; intro H; try reflexivity; try discriminate.
  - apply andb_true_iff in H. destruct H as [H1 H2]. apply N.eqb_eq in H1. apply IH in H2. subst. reflexivity.
  - inversion H; subst. apply andb_true_iff. split. apply N.eqb_refl. apply IH. reflexivity.
Qed.

Lemma str_eqb_refl : forall a, str_eqb a a = true.
Proof. intro a. apply str_eqb_eq. reflexivity. Qed.

Lemma str_eqb_neq : forall a b, str_eqb a b = false <-> a <> b.
Proof.
  intros a b. split; intro H.
  - intro E. apply str_eqb_eq in E. congruence.
  - destruct (str_eqb a b) eqn:E; [apply str_eqb_eq in E; contradiction | reflexivity].
Qed.

Fixpoint countN {A} (P : A -> bool) (l : list A) : N :=
  match l with [] => 0 | x :: t => (if P x then 1 else 0) + countN P t end.
Fixpoint sumN {A} (f : A -> N) (l : list A) : N :=
  match l with [] => 0 | x :: t => f x + sumN f t end.

Lemma countN_filter_length : forall A (P : A -> bool) l, countN P l = N.of_nat (length (filter P l)).
Proof.
  induction l as [|x t IH]; cbn [countN filter]; [reflexivity|].
  destruct (P x); cbn [length]; rewrite IH; lia.
Qed.

Lemma countN_app : forall A (P : A -> bool) a b, countN P (a ++ b) = countN P a + countN P b.
Proof. induction a as [|x a IH]; intro b; cbn [countN app]; [lia | rewrite IH; lia]. Qed.
Lemma sumN_app : forall A (f : A -> N) a b, sumN f (a ++ b) = sumN f a + sumN f b.
Proof. induction a as [|x a IH]; intro b; cbn [sumN app]; [lia | rewrite IH; lia]. Qed.

Lemma sumN_perm : forall A (f : A -> N) a b, Permutation a b -> sumN f a = sumN f b.
Proof. induction 1; cbn [sumN]; lia. Qed.

(* ================================================================ summary *)

Lemma pair4_eq : forall (a a' b b' c c' d d' : N), a = a' -> b = b' -> c = c' -> d = d' -> (a, b, c, d) = (a', b', c', d').
Proof. intros; subst; reflexivity. Qed.

Definition has_status (st : status) (r : result) : bool := status_eqb (r_status r) st.
Definition count_status (st : status) (rs : list result) : N := countN (has_status st) rs.

Lemma count_fold : forall rs p w f g,
  fold_left count_step rs (p, w, f, g) =
  (p + count_status Passed rs, w + count_status Warning rs, f + count_status Failed rs, g + count_status Grandfathered rs).
Proof.
  induction rs as [|r rs IH]; intros p w f g.
  - cbn. repeat rewrite N.add_0_r. reflexivity.
  - cbn [fold_left]. unfold count_step at 2. unfold count_status. cbn [countN].
    destruct (r_status r) eqn:E; rewrite IH; unfold count_status, has_status; rewrite E; cbn [status_eqb]; apply pair4_eq; lia.
Qed.

Lemma summarize_counts : forall rs,
  s_total (summarize rs) = N.of_nat (length rs) /\
  s_passed (summarize rs) = count_status Passed rs /\
  s_warnings (summarize rs) = count_status Warning rs /\
  s_failed (summarize rs) = count_status Failed rs /\
  s_grandfathered (summarize rs) = count_status Grandfathered rs.
Proof.
  intro rs. unfold summarize. rewrite count_fold. cbn. repeat split; lia.
Qed.

Lemma status_total : forall rs,
  N.of_nat (length rs) = count_status Passed rs + count_status Warning rs + count_status Failed rs + count_status Grandfathered rs.
Proof.
  induction rs as [|r rs IH]; [reflexivity|].
  unfold count_status in *. cbn [countN length].
  rewrite Nat2N.inj_succ. destruct (r_status r) eqn:E; unfold has_status in *; rewrite E; cbn [status_eqb]; lia.
Qed.

Lemma summarize_total_is_sum : forall rs,
  s_total (summarize rs) = s_passed (summarize rs) + s_warnings (summarize rs) + s_failed (summarize rs) + s_grandfathered (summarize rs).
Proof.
  intro rs. destruct (summarize_counts rs) as (H0 & H1 & H2 & H3 & H4).
  rewrite H0, H1, H2, H3, H4. apply status_total.
Qed.

(* text.rs: the four vectors are the four filters *)
Lemma text_partition_fold : forall rs p w f g,
  fold_left (fun acc r =>
    let '(p, w, f, g) := acc in
    match r_status r with
    | Passed => (p ++ [r], w, f, g)
    | Warning => (p, w ++ [r], f, g)
    | Failed => (p, w, f ++ [r], g)
    | Grandfathered => (p, w, f, g ++ [r])
    end) rs (p, w, f, g) =
  (p ++ filter (has_status Passed) rs, w ++ filter (has_status Warning) rs,
   f ++ filter (has_status Failed) rs, g ++ filter (has_status Grandfathered) rs).
Proof.
  induction rs as [|r rs IH]; intros p w f g.
  - cbn. repeat rewrite app_nil_r. reflexivity.
  - cbn [fold_left filter].
    destruct (r_status r) eqn:E; rewrite IH; unfold has_status; rewrite E; cbn [status_eqb]; repeat rewrite <- app_assoc; reflexivity.
Qed.

Lemma text_partition_filters : forall rs,
  text_partition rs = (filter (has_status Passed) rs, filter (has_status Warning) rs,
                       filter (has_status Failed) rs, filter (has_status Grandfathered) rs).
Proof. intro rs. unfold text_partition. rewrite text_partition_fold. reflexivity. Qed.

Lemma text_summary_eq : forall rs, text_summary rs = summarize rs.
Proof.
  intro rs. unfold text_summary. rewrite text_partition_filters.
  destruct (summarize_counts rs) as (H0 & H1 & H2 & H3 & H4).
  destruct (summarize rs) as [t p w f g]. cbn in *. subst.
  unfold count_status. repeat rewrite countN_filter_length. reflexivity.
Qed.

(* ---- what the formats list *)

Definition nonpassed_entry (e : entry) : bool := negb (status_eqb (snd e) Passed).
Definition issue_entry (e : entry) : bool := status_eqb (snd e) Failed || status_eqb (snd e) Warning.

Lemma filter_map_entry : forall (P : entry -> bool) rs,
  filter P (map entry_of rs) = map entry_of (filter (fun r => P (entry_of r)) rs).
Proof.
  induction rs as [|r rs IH]; [reflexivity|]. cbn [map filter]. destruct (P (entry_of r)); cbn [map]; rewrite IH; reflexivity.
Qed.

Lemma listed_sarif_is_nonpassed_json : forall rs, listed_sarif rs = filter nonpassed_entry (listed_json rs).
Proof. intro rs. unfold listed_sarif, listed_json. rewrite filter_map_entry. reflexivity. Qed.

Lemma four_filters_perm : forall rs,
  Permutation (filter (has_status Failed) rs ++ filter (has_status Warning) rs ++
               filter (has_status Grandfathered) rs ++ filter (has_status Passed) rs) rs.
Proof.
  induction rs as [|r rs IH]; [constructor|].
  cbn [filter]. destruct (r_status r) eqn:E; unfold has_status in *; rewrite E; cbn [status_eqb].
  - apply Permutation_sym. rewrite !app_assoc. apply Permutation_cons_app. rewrite <- !app_assoc. apply Permutation_sym. exact IH.
  - apply Permutation_sym. apply Permutation_cons_app. apply Permutation_sym. exact IH.
  - cbn [app]. constructor. exact IH.
  - apply Permutation_sym. rewrite app_assoc. apply Permutation_cons_app. rewrite <- app_assoc. apply Permutation_sym. exact IH.
Qed.

Lemma listed_text_verbose_perm : forall rs, Permutation (listed_text true rs) (listed_json rs).
Proof.
  intro rs. unfold listed_text, listed_json. rewrite text_partition_filters.
  apply Permutation_map. apply four_filters_perm.
Qed.

Lemma two_filters_perm : forall rs,
  Permutation (filter (has_status Failed) rs ++ filter (has_status Warning) rs)
              (filter (fun r => has_status Failed r || has_status Warning r) rs).
Proof.
  induction rs as [|r rs IH]; [constructor|].
  cbn [filter]. destruct (r_status r) eqn:E; unfold has_status in *; rewrite E; cbn [status_eqb orb]; try exact IH.
  - apply Permutation_sym. apply Permutation_cons_app. apply Permutation_sym. exact IH.
  - cbn [app]. constructor. exact IH.
Qed.

Lemma listed_text_quiet_perm : forall rs, Permutation (listed_text false rs) (filter issue_entry (listed_json rs)).
Proof.
  intro rs. unfold listed_text, listed_json. rewrite text_partition_filters. rewrite app_nil_r.
  rewrite filter_map_entry. apply Permutation_map. apply two_filters_perm.
Qed.

(* ---- html aggregate *)

Definition stats_sums {A} (st : A -> lstats) (l : list A) : lstats :=
  {| l_total := sumN (fun x => l_total (st x)) l; l_code := sumN (fun x => l_code (st x)) l;
     l_comment := sumN (fun x => l_comment (st x)) l; l_blank := sumN (fun x => l_blank (st x)) l |}.

Lemma add_stats_sums : forall a t c m b,
  add_stats a {| l_total := t; l_code := c; l_comment := m; l_blank := b |} =
  {| l_total := l_total a + t; l_code := l_code a + c; l_comment := l_comment a + m; l_blank := l_blank a + b |}.
Proof. reflexivity. Qed.

Lemma html_aggregate_v0_fold : forall rs a,
  fold_left (fun a r => add_stats a (raw_stats r)) rs a = add_stats a (stats_sums raw_stats rs).
Proof.
  induction rs as [|r rs IH]; intro a.
  - cbn. destruct a. unfold add_stats. cbn. repeat rewrite N.add_0_r. reflexivity.
  - cbn [fold_left]. rewrite IH. unfold add_stats, stats_sums. cbn [sumN l_total l_code l_comment l_blank]. f_equal; lia.
Qed.

Lemma add_stats_0_l : forall s, add_stats lstats0 s = s.
Proof. intros [t c m b]. reflexivity. Qed.

Lemma html_aggregate_v0_sums : forall rs, html_aggregate_v0 rs = stats_sums raw_stats rs.
Proof. intro rs. unfold html_aggregate_v0. rewrite html_aggregate_v0_fold. apply add_stats_0_l. Qed.

Lemma html_aggregate_fold : forall rs a,
  fold_left (fun a r => if r_structure r then a else add_stats a (raw_stats r)) rs a =
  fold_left (fun a r => add_stats a (raw_stats r)) (filter is_content rs) a.
Proof.
  induction rs as [|r rs IH]; intro a; [reflexivity|].
  cbn [fold_left filter]. unfold is_content at 1. destruct (r_structure r); cbn [negb fold_left]; apply IH.
Qed.

(* the repaired cards are the sums over the content results only *)
Lemma html_aggregate_sums : forall rs, html_aggregate rs = stats_sums raw_stats (filter is_content rs).
Proof. intro rs. unfold html_aggregate. rewrite html_aggregate_fold. apply html_aggregate_v0_sums. Qed.

Lemma html_aggregate_is_v0_of_content : forall rs, html_aggregate rs = html_aggregate_v0 (filter is_content rs).
Proof. intro rs. rewrite html_aggregate_sums, html_aggregate_v0_sums. reflexivity. Qed.

(* no structure result in the list: both generations agree *)
Lemma html_aggregate_no_structure : forall rs, forallb is_content rs = true -> html_aggregate rs = html_aggregate_v0 rs.
Proof.
  intros rs H. rewrite html_aggregate_is_v0_of_content. f_equal.
  induction rs as [|r rs IH]; [reflexivity|]. cbn [forallb] in H. apply andb_true_iff in H. destruct H as [H1 H2].
  cbn [filter]. rewrite H1. f_equal. apply IH. exact H2.
Qed.

(* a structure result adds its synthetic count to the v0 cards and nothing to the repaired ones *)
Lemma html_aggregate_structure_inert : forall rs1 rs2 path st actual limit reason,
  html_aggregate (rs1 ++ structure_result path st actual limit reason :: rs2) = html_aggregate (rs1 ++ rs2) /\
  l_total (html_aggregate_v0 (rs1 ++ structure_result path st actual limit reason :: rs2)) =
    l_total (html_aggregate_v0 (rs1 ++ rs2)) + actual.
Proof.
  intros. split.
  - rewrite !html_aggregate_sums, !filter_app. reflexivity.
  - rewrite !html_aggregate_v0_sums. unfold stats_sums. cbn [l_total]. rewrite !sumN_app. cbn [sumN]. cbn. lia.
Qed.

Lemma sumN_map : forall A B (g : A -> B) (f : B -> N) l, sumN f (map g l) = sumN (fun x => f (g x)) l.
Proof. induction l as [|x t IH]; cbn [map sumN]; [reflexivity | rewrite IH; reflexivity]. Qed.

Lemma stats_sums_map : forall A B (g : A -> B) (st : B -> lstats) l, stats_sums st (map g l) = stats_sums (fun x => st (g x)) l.
Proof. intros. unfold stats_sums. rewrite !sumN_map. reflexivity. Qed.

(* ================================================================ check vs stats *)

Lemma check_stats_same : forall path counted sc sb verdict,
  check_reported_counts (check_file path counted sc sb verdict) = stats_reported_counts counted.
Proof. intros. unfold check_file. destruct (verdict _). reflexivity. Qed.

Lemma check_sloc : forall path counted sc sb verdict,
  sloc (check_file path counted sc sb verdict) =
  l_code counted + (if sc then 0 else l_comment counted) + (if sb then 0 else l_blank counted).
Proof.
  intros. unfold check_file. destruct (verdict _). unfold sloc, effective. cbn.
  destruct sc, sb; cbn; lia.
Qed.

(* ================================================================ presentation flags *)

Lemma decorate_entries : forall oracle rs, map entry_of (decorate oracle rs) = map entry_of rs.
Proof.
  intros oracle rs. unfold decorate. rewrite map_map. apply map_ext. intro r.
  destruct (r_status r) eqn:E; try reflexivity; destruct (oracle r); try reflexivity;
    unfold with_suggestions; rewrite E; unfold entry_of; cbn; rewrite E; reflexivity.
Qed.

Lemma existsb_status : forall st rs rs', map entry_of rs = map entry_of rs' ->
  existsb (fun r => status_eqb (r_status r) st) rs = existsb (fun r => status_eqb (r_status r) st) rs'.
Proof.
  intros st. induction rs as [|r rs IH]; destruct rs' as [|r' rs']; intro H; try discriminate; [reflexivity|].
  cbn [map] in H. injection H as Hp Hs Ht. cbn [existsb]. rewrite (IH _ Ht), Hs. reflexivity.
Qed.

Lemma exit_code_entries : forall rs rs' wo wae rf, map entry_of rs = map entry_of rs' ->
  exit_code rs wo wae rf = exit_code rs' wo wae rf.
Proof.
  intros rs rs' wo wae rf H. unfold exit_code, is_failed, is_warning.
  rewrite (existsb_status Failed _ _ H), (existsb_status Warning _ _ H). reflexivity.
Qed.

Lemma run_results_entries : forall pf vf oracle rs rf,
  map entry_of (o_results (run_check pf vf oracle rs rf)) = map entry_of rs.
Proof. intros. unfold run_check. cbn. destruct (pf_suggest pf); [apply decorate_entries | reflexivity]. Qed.

Lemma flags_inert : forall pf1 pf2 vf oracle rs rf,
  o_exit (run_check pf1 vf oracle rs rf) = o_exit (run_check pf2 vf oracle rs rf) /\
  map entry_of (o_results (run_check pf1 vf oracle rs rf)) = map entry_of (o_results (run_check pf2 vf oracle rs rf)) /\
  o_exit (run_check pf1 vf oracle rs rf) = exit_code rs (vf_warn_only vf) (vf_warnings_as_errors vf) rf.
Proof.
  intros. repeat split.
  - unfold run_check. cbn. apply exit_code_entries.
    destruct (pf_suggest pf1), (pf_suggest pf2); repeat rewrite decorate_entries; reflexivity.
  - rewrite !run_results_entries. reflexivity.
  - unfold run_check. cbn. apply exit_code_entries. destruct (pf_suggest pf1); [apply decorate_entries | reflexivity].
Qed.

(* everything a run emits is a listing of its one results vector *)
Lemma outputs_list_results : forall pf vf oracle rs rf,
  let o := run_check pf vf oracle rs rf in
  (forall l s, o_stdout o = Some (l, s) -> l = listed (pf_format pf) (pf_verbose pf) (o_results o) /\ s = summarize (o_results o)) /\
  (forall l s, o_side_json o = Some (l, s) -> l = listed_json (o_results o) /\ s = summarize (o_results o)) /\
  (forall l, o_side_sarif o = Some l -> l = listed_sarif (o_results o)).
Proof.
  intros. subst o. unfold run_check. cbn. split; [|split].
  - intros l s H. destruct (pf_quiet pf && _); [discriminate|]. injection H as H1 H2. split; [symmetry; exact H1|].
    rewrite <- H2. destruct (pf_format pf); try reflexivity. apply text_summary_eq.
  - intros l s H. destruct (pf_write_json pf); [|discriminate]. injection H as H1 H2. split; symmetry; assumption.
  - intros l H. destruct (pf_write_sarif pf); [|discriminate]. injection H as H1. symmetry. exact H1.
Qed.

(* ================================================================ totals *)

Lemma totals_fold : forall files a b c d,
  fold_left (fun acc f => let '(a, b, c, d) := acc in
        (a + l_total (f_stats f), b + l_code (f_stats f), c + l_comment (f_stats f), d + l_blank (f_stats f)))
        files (a, b, c, d) =
  (a + sumN (fun f => l_total (f_stats f)) files, b + sumN (fun f => l_code (f_stats f)) files,
   c + sumN (fun f => l_comment (f_stats f)) files, d + sumN (fun f => l_blank (f_stats f)) files).
Proof.
  induction files as [|f files IH]; intros a b c d.
  - cbn. repeat rewrite N.add_0_r. reflexivity.
  - cbn [fold_left sumN]. rewrite IH. apply pair4_eq; lia.
Qed.

Lemma project_totals_sums : forall files,
  project_totals files =
  {| t_files := N.of_nat (length files);
     t_lines := sumN (fun f => l_total (f_stats f)) files;
     t_code := sumN (fun f => l_code (f_stats f)) files;
     t_comment := sumN (fun f => l_comment (f_stats f)) files;
     t_blank := sumN (fun f => l_blank (f_stats f)) files |}.
Proof. intro files. unfold project_totals. rewrite totals_fold. reflexivity. Qed.

(* one run: the content results of check stand for the scanned files (same counts, any order of
   either list does not matter for sums); then the html cards are the project totals that
   stats summary and the --report-json side-car print *)
Lemma html_totals_are_project_totals : forall rs files,
  Permutation (map raw_stats (filter is_content rs)) (map f_stats files) ->
  html_aggregate rs = {| l_total := t_lines (project_totals files); l_code := t_code (project_totals files);
                         l_comment := t_comment (project_totals files); l_blank := t_blank (project_totals files) |}.
Proof.
  intros rs files H. rewrite html_aggregate_sums, project_totals_sums. cbn [t_lines t_code t_comment t_blank].
  unfold stats_sums.
  rewrite <- (sumN_map _ _ raw_stats l_total), <- (sumN_map _ _ raw_stats l_code),
          <- (sumN_map _ _ raw_stats l_comment), <- (sumN_map _ _ raw_stats l_blank).
  rewrite <- (sumN_map _ _ f_stats l_total), <- (sumN_map _ _ f_stats l_code),
          <- (sumN_map _ _ f_stats l_comment), <- (sumN_map _ _ f_stats l_blank).
  rewrite (sumN_perm _ l_total _ _ H), (sumN_perm _ l_code _ _ H), (sumN_perm _ l_comment _ _ H), (sumN_perm _ l_blank _ _ H).
  reflexivity.
Qed.

(* ================================================================ HashMap order = any permutation *)

Lemma extract_nth_perm : forall A n (l : list A) y r, extract_nth n l = Some (y, r) -> Permutation l (y :: r).
Proof.
  induction n as [|n IH]; intros l y r H; destruct l as [|x t]; cbn [extract_nth] in H; try discriminate.
  - injection H as <- <-. apply Permutation_refl.
  - destruct (extract_nth n t) as [[y' r']|] eqn:E; [|discriminate]. injection H as <- <-.
    apply IH in E. eapply Permutation_trans; [apply perm_skip; exact E | apply perm_swap].
Qed.

Lemma permute_perm : forall A pi (l : list A), Permutation (permute pi l) l.
Proof.
  induction pi as [|i pi IH]; intro l; cbn [permute]; [apply Permutation_refl|].
  destruct (extract_nth i l) as [[y r]|] eqn:E; [|apply Permutation_refl].
  apply extract_nth_perm in E. eapply Permutation_trans; [apply perm_skip; apply IH | apply Permutation_sym; exact E].
Qed.

Lemma extract_nth_app : forall A (l1 : list A) x l2, extract_nth (length l1) (l1 ++ x :: l2) = Some (x, l1 ++ l2).
Proof.
  induction l1 as [|a l1 IH]; intros x l2; cbn [length app extract_nth]; [reflexivity|]. rewrite IH. reflexivity.
Qed.

Lemma permute_complete : forall A (l' l : list A), Permutation l' l -> exists pi, permute pi l = l'.
Proof.
  induction l' as [|x t IH]; intros l H.
  - apply Permutation_nil in H. subst. exists []. reflexivity.
  - assert (Hin : In x l) by (eapply Permutation_in; [exact H | left; reflexivity]).
    apply in_split in Hin. destruct Hin as (l1 & l2 & ->).
    apply Permutation_cons_app_inv in H. destruct (IH _ H) as [pi Hpi].
    exists (length l1 :: pi). cbn [permute]. rewrite extract_nth_app. rewrite Hpi. reflexivity.
Qed.

(* ================================================================ grouping *)

Definition key_is (key : fstat -> str) (k : str) (f : fstat) : bool := str_eqb (key f) k.

(* the figures of one group are the count / sums of the files carrying its key *)
Definition group_exact (key : fstat -> str) (files : list fstat) (g : group) : Prop :=
  g_files g = countN (key_is key (g_key g)) files /\
  g_lines g = sumN (fun f => l_total (f_stats f)) (filter (key_is key (g_key g)) files) /\
  g_code g = sumN (fun f => l_code (f_stats f)) (filter (key_is key (g_key g)) files) /\
  g_comment g = sumN (fun f => l_comment (f_stats f)) (filter (key_is key (g_key g)) files) /\
  g_blank g = sumN (fun f => l_blank (f_stats f)) (filter (key_is key (g_key g)) files) /\
  1 <= g_files g.

Definition groups_inv (key : fstat -> str) (files : list fstat) (gs : list group) : Prop :=
  NoDup (map g_key gs) /\
  (forall g, In g gs -> group_exact key files g) /\
  (forall x, In x (map g_key gs) <-> In x (map key files)).

Lemma upsert_keys_in : forall k s gs x, In x (map g_key (upsert k s gs)) <-> x = k \/ In x (map g_key gs).
Proof.
  induction gs as [|g gs IH]; intro x; cbn [upsert map].
  - cbn. intuition.
  - destruct (str_eqb (g_key g) k) eqn:E; cbn [map In group_add g_key].
    + apply str_eqb_eq in E. intuition. subst. left. reflexivity.
    + rewrite IH. intuition.
Qed.

Lemma upsert_nodup : forall k s gs, NoDup (map g_key gs) -> NoDup (map g_key (upsert k s gs)).
Proof.
  induction gs as [|g gs IH]; intro H; cbn [upsert map].
  - cbn. constructor; [intros []|constructor].
  - inversion H as [|? ? Hn Hd]; subst. destruct (str_eqb (g_key g) k) eqn:E; cbn [map group_add g_key].
    + constructor; assumption.
    + constructor; [|apply IH; assumption]. rewrite upsert_keys_in. intros [Hk|Hin]; [|contradiction].
      rewrite Hk, str_eqb_refl in E. discriminate.
Qed.

Lemma upsert_members : forall k s gs g', NoDup (map g_key gs) -> In g' (upsert k s gs) ->
  (In g' gs /\ g_key g' <> k) \/
  (exists g, In g gs /\ g_key g = k /\ g' = group_add g s) \/
  (g' = group_add (group_new k) s /\ ~ In k (map g_key gs)).
Proof.
  induction gs as [|g gs IH]; intros g' Hnd Hin; cbn [upsert] in Hin.
  - destruct Hin as [<-|[]]. right. right. split; [reflexivity|intros []].
  - inversion Hnd as [|? ? Hn Hd]; subst. destruct (str_eqb (g_key g) k) eqn:E.
    + apply str_eqb_eq in E. destruct Hin as [<-|Hin].
      * right. left. exists g. split; [left; reflexivity|split; [exact E|reflexivity]].
      * left. split; [right; exact Hin|]. intro Hk. apply Hn. rewrite E, <- Hk. apply in_map. exact Hin.
    + apply str_eqb_neq in E. destruct Hin as [<-|Hin].
      * left. split; [left; reflexivity|exact E].
      * destruct (IH _ Hd Hin) as [[H1 H2]|[(g0 & H1 & H2 & H3)|[H1 H2]]].
        -- left. split; [right; exact H1|exact H2].
        -- right. left. exists g0. split; [right; exact H1|split; assumption].
        -- right. right. split; [exact H1|]. cbn [map In]. intros [Hk|Hk]; [apply E; exact Hk|apply H2; exact Hk].
Qed.

Lemma filter_snoc : forall A (P : A -> bool) l x, filter P (l ++ [x]) = filter P l ++ (if P x then [x] else []).
Proof. intros. rewrite filter_app. reflexivity. Qed.

Lemma group_exact_other : forall key files f g, g_key g <> key f ->
  group_exact key files g -> group_exact key (files ++ [f]) g.
Proof.
  intros key files f g E (H1 & H2 & H3 & H4 & H5 & H6). unfold group_exact.
  assert (Ek : key_is key (g_key g) f = false).
  { unfold key_is. apply str_eqb_neq. intro H. apply E. symmetry. exact H. }
  rewrite countN_app, filter_snoc. cbn [countN]. rewrite Ek.
  rewrite app_nil_r. repeat split; try assumption. lia.
Qed.

Lemma group_exact_same : forall key files f g, g_key g = key f ->
  group_exact key files g -> group_exact key (files ++ [f]) (group_add g (f_stats f)).
Proof.
  intros key files f g E (H1 & H2 & H3 & H4 & H5 & H6). unfold group_exact. cbn [group_add g_key g_files g_lines g_code g_comment g_blank].
  assert (Ek : key_is key (g_key g) f = true).
  { unfold key_is. rewrite E. apply str_eqb_refl. }
  rewrite countN_app, filter_snoc. cbn [countN]. rewrite Ek.
  repeat rewrite sumN_app. cbn [sumN]. repeat split; lia.
Qed.

Lemma group_exact_new : forall key files f, ~ In (key f) (map key files) ->
  group_exact key (files ++ [f]) (group_add (group_new (key f)) (f_stats f)).
Proof.
  intros key files f Hn. unfold group_exact. cbn [group_add group_new g_key g_files g_lines g_code g_comment g_blank].
  assert (Hz : filter (key_is key (key f)) files = []).
  { clear -Hn. induction files as [|x t IH]; [reflexivity|]. cbn [filter]. unfold key_is at 1.
    destruct (str_eqb (key x) (key f)) eqn:E.
    - apply str_eqb_eq in E. exfalso. apply Hn. left. exact E.
    - apply IH. intro H. apply Hn. right. exact H. }
  assert (Ek : key_is key (key f) f = true) by (unfold key_is; apply str_eqb_refl).
  rewrite countN_app, countN_filter_length, filter_snoc, Hz. cbn [countN length app]. rewrite Ek.
  cbn [sumN]. repeat split; lia.
Qed.

Lemma upsert_inv : forall key files gs f,
  groups_inv key files gs -> groups_inv key (files ++ [f]) (upsert (key f) (f_stats f) gs).
Proof.
  intros key files gs f (Hnd & Hex & Hkeys). split; [|split].
  - apply upsert_nodup. exact Hnd.
  - intros g' Hin. destruct (upsert_members _ _ _ _ Hnd Hin) as [[H1 H2]|[(g0 & H1 & H2 & ->)|[-> H2]]].
    + apply group_exact_other; [exact H2 | apply Hex; exact H1].
    + apply group_exact_same; [exact H2 | apply Hex; exact H1].
    + apply group_exact_new. intro H. apply H2. apply Hkeys. exact H.
  - intro x. rewrite upsert_keys_in, map_app, in_app_iff, Hkeys. cbn [map In]. intuition.
Qed.

Lemma group_by_fold_inv : forall key rest done gs,
  groups_inv key done gs ->
  groups_inv key (done ++ rest) (fold_left (fun gs f => upsert (key f) (f_stats f) gs) rest gs).
Proof.
  induction rest as [|f rest IH]; intros done gs H; cbn [fold_left].
  - rewrite app_nil_r. exact H.
  - replace (done ++ f :: rest) with ((done ++ [f]) ++ rest) by (rewrite <- app_assoc; reflexivity).
    apply IH. apply upsert_inv. exact H.
Qed.

Lemma group_by_inv : forall key files, groups_inv key files (group_by key files).
Proof.
  intros key files. unfold group_by. apply (group_by_fold_inv key files [] []).
  split; [constructor|split]; [intros g []|intro x; cbn; tauto].
Qed.

(* sums over the groups *)
Lemma upsert_sums : forall k s gs,
  sumN g_files (upsert k s gs) = sumN g_files gs + 1 /\
  sumN g_lines (upsert k s gs) = sumN g_lines gs + l_total s /\
  sumN g_code (upsert k s gs) = sumN g_code gs + l_code s /\
  sumN g_comment (upsert k s gs) = sumN g_comment gs + l_comment s /\
  sumN g_blank (upsert k s gs) = sumN g_blank gs + l_blank s.
Proof.
  induction gs as [|g gs IH]; cbn [upsert].
  - cbn. repeat split; lia.
  - destruct (str_eqb (g_key g) k); cbn [sumN group_add g_files g_lines g_code g_comment g_blank].
    + repeat split; lia.
    + destruct IH as (H1 & H2 & H3 & H4 & H5). rewrite H1, H2, H3, H4, H5. repeat split; lia.
Qed.

Lemma group_by_fold_sums : forall key rest gs,
  let r := fold_left (fun gs f => upsert (key f) (f_stats f) gs) rest gs in
  sumN g_files r = sumN g_files gs + N.of_nat (length rest) /\
  sumN g_lines r = sumN g_lines gs + sumN (fun f => l_total (f_stats f)) rest /\
  sumN g_code r = sumN g_code gs + sumN (fun f => l_code (f_stats f)) rest /\
  sumN g_comment r = sumN g_comment gs + sumN (fun f => l_comment (f_stats f)) rest /\
  sumN g_blank r = sumN g_blank gs + sumN (fun f => l_blank (f_stats f)) rest.
Proof.
  induction rest as [|f rest IH]; intro gs; cbn [fold_left].
  - cbn. repeat split; lia.
  - specialize (IH (upsert (key f) (f_stats f) gs)). cbn zeta in IH. destruct IH as (H1 & H2 & H3 & H4 & H5).
    destruct (upsert_sums (key f) (f_stats f) gs) as (U1 & U2 & U3 & U4 & U5).
    cbn zeta. rewrite H1, H2, H3, H4, H5, U1, U2, U3, U4, U5. cbn [length sumN]. rewrite Nat2N.inj_succ. repeat split; lia.
Qed.

(* ================================================================ stable sort *)

Lemma insert_by_perm : forall A (before : A -> A -> bool) x l, Permutation (insert_by before x l) (x :: l).
Proof.
  induction l as [|h t IH]; cbn [insert_by]; [apply Permutation_refl|].
  destruct (before x h); [apply Permutation_refl|].
  eapply Permutation_trans; [apply perm_skip; exact IH | apply perm_swap].
Qed.

Lemma sort_by_fold_perm : forall A (before : A -> A -> bool) l acc,
  Permutation (fold_left (fun acc x => insert_by before x acc) l acc) (l ++ acc).
Proof.
  induction l as [|x l IH]; intro acc; cbn [fold_left app]; [apply Permutation_refl|].
  eapply Permutation_trans; [apply IH|].
  eapply Permutation_trans; [apply Permutation_app_head; apply insert_by_perm|].
  apply Permutation_sym. apply Permutation_middle.
Qed.

Lemma sort_by_perm : forall A (before : A -> A -> bool) l, Permutation (sort_by before l) l.
Proof. intros. unfold sort_by. eapply Permutation_trans; [apply sort_by_fold_perm|]. rewrite app_nil_r. apply Permutation_refl. Qed.

Section SortUnique.
  Context {A : Type} (before : A -> A -> bool).
  Hypothesis before_asym : forall x y, before x y = true -> before y x = false.
  Hypothesis before_trans : forall x y z, before x y = true -> before y z = true -> before x z = true.

  (* x may stand left of y *)
  Definition le_pos (x y : A) : Prop := before y x = false.

  Lemma insert_by_sorted : forall x l, StronglySorted le_pos l -> StronglySorted le_pos (insert_by before x l).
  Proof.
    induction l as [|h t IH]; intro H; cbn [insert_by].
    - constructor; constructor.
    - inversion H as [|? ? Hs Hf]; subst. destruct (before x h) eqn:E.
      + constructor; [exact H|]. constructor; [apply before_asym; exact E|].
        rewrite Forall_forall in *. intros y Hy. unfold le_pos.
        destruct (before y x) eqn:E2; [|reflexivity].
        specialize (Hf y Hy). unfold le_pos in Hf. rewrite (before_trans _ _ _ E2 E) in Hf. discriminate.
      + constructor; [apply IH; exact Hs|].
        rewrite Forall_forall in *. intros y Hy.
        apply (Permutation_in _ (insert_by_perm A before x t)) in Hy. destruct Hy as [<-|Hy]; [exact E|apply Hf; exact Hy].
  Qed.

  Lemma sort_by_fold_sorted : forall l acc, StronglySorted le_pos acc ->
    StronglySorted le_pos (fold_left (fun acc x => insert_by before x acc) l acc).
  Proof. induction l as [|x l IH]; intros acc H; cbn [fold_left]; [exact H|]. apply IH. apply insert_by_sorted. exact H. Qed.

  Lemma sort_by_sorted : forall l, StronglySorted le_pos (sort_by before l).
  Proof. intro l. unfold sort_by. apply sort_by_fold_sorted. constructor. Qed.

  Lemma sorted_perm_unique : forall l1 l2,
    (forall x y, In x l1 -> In y l1 -> le_pos x y -> le_pos y x -> x = y) ->
    StronglySorted le_pos l1 -> StronglySorted le_pos l2 -> Permutation l1 l2 -> l1 = l2.
  Proof.
    induction l1 as [|a t1 IH]; intros l2 Hanti S1 S2 P.
    - apply Permutation_nil in P. subst. reflexivity.
    - destruct l2 as [|b t2]; [apply Permutation_sym, Permutation_nil in P; discriminate|].
      inversion S1 as [|? ? S1' F1]; subst. inversion S2 as [|? ? S2' F2]; subst.
      rewrite Forall_forall in F1, F2.
      assert (Hab : a = b).
      { assert (Ha : In a (b :: t2)) by (eapply Permutation_in; [exact P|left; reflexivity]).
        assert (Hb : In b (a :: t1)) by (eapply Permutation_in; [apply Permutation_sym; exact P|left; reflexivity]).
        destruct Ha as [->|Ha]; [reflexivity|]. destruct Hb as [->|Hb]; [reflexivity|].
        apply Hanti; [left; reflexivity|right; exact Hb|apply F1; exact Hb|apply F2; exact Ha]. }
      subst b. f_equal. apply IH; try assumption.
      + intros x y Hx Hy. apply Hanti; right; assumption.
      + eapply Permutation_cons_inv. exact P.
  Qed.

  Lemma sort_by_unique : forall l1 l2,
    (forall x y, In x l1 -> In y l1 -> le_pos x y -> le_pos y x -> x = y) ->
    Permutation l1 l2 -> sort_by before l1 = sort_by before l2.
  Proof.
    intros l1 l2 Hanti P. apply sorted_perm_unique.
    - intros x y Hx Hy. apply Hanti.
      + eapply Permutation_in; [apply sort_by_perm | exact Hx].
      + eapply Permutation_in; [apply sort_by_perm | exact Hy].
    - apply sort_by_sorted.
    - apply sort_by_sorted.
    - eapply Permutation_trans; [apply sort_by_perm|]. eapply Permutation_trans; [exact P|]. apply Permutation_sym. apply sort_by_perm.
  Qed.
End SortUnique.

(* ================================================================ the sort keys *)

Lemma str_ltb_irrefl : forall a, str_ltb a a = false.
Proof. induction a as [|x a IH]; cbn [str_ltb]; [reflexivity|]. rewrite N.ltb_irrefl, N.eqb_refl. exact IH. Qed.

Lemma str_ltb_trans : forall a b c, str_ltb a b = true -> str_ltb b c = true -> str_ltb a c = true.
Proof.
  induction a as [|x a IH]; intros b c H1 H2; destruct b as [|y b]; destruct c as [|z c]; cbn [str_ltb] in *; try discriminate; try reflexivity.
  destruct (N.ltb_spec x y) as [Lxy|Lxy]; destruct (N.ltb_spec y z) as [Lyz|Lyz].
  - destruct (N.ltb_spec x z); [reflexivity|lia].
  - destruct (N.eqb_spec y z); [|discriminate]. subst. destruct (N.ltb_spec x z); [reflexivity|lia].
  - destruct (N.eqb_spec x y); [|discriminate]. subst. destruct (N.ltb_spec y z); [reflexivity|lia].
  - destruct (N.eqb_spec x y); [|discriminate]. destruct (N.eqb_spec y z); [|discriminate]. subst.
    rewrite N.ltb_irrefl, N.eqb_refl. eapply IH; eassumption.
Qed.

Lemma str_ltb_asym : forall a b, str_ltb a b = true -> str_ltb b a = false.
Proof.
  intros a b H. destruct (str_ltb b a) eqn:E; [|reflexivity].
  pose proof (str_ltb_trans _ _ _ H E) as C. rewrite str_ltb_irrefl in C. discriminate.
Qed.

Lemma str_ltb_total : forall a b, str_ltb a b = false -> str_ltb b a = false -> a = b.
Proof.
  induction a as [|x a IH]; intros b H1 H2; destruct b as [|y b]; cbn [str_ltb] in *; try discriminate; [reflexivity|].
  destruct (N.ltb_spec x y); [discriminate|]. destruct (N.ltb_spec y x); [discriminate|].
  assert (x = y) by lia. subst. rewrite N.eqb_refl in *. f_equal. apply IH; assumption.
Qed.

Lemma before_v0_asym : forall x y, before_v0 x y = true -> before_v0 y x = false.
Proof. unfold before_v0. intros x y H. apply N.ltb_lt in H. apply N.ltb_ge. lia. Qed.
Lemma before_v0_trans : forall x y z, before_v0 x y = true -> before_v0 y z = true -> before_v0 x z = true.
Proof. unfold before_v0. intros x y z H1 H2. apply N.ltb_lt in H1, H2. apply N.ltb_lt. lia. Qed.

Lemma before_v1_spec : forall x h, before_v1 x h = true <->
  (g_code h < g_code x \/ (g_code h = g_code x /\ str_ltb (g_key x) (g_key h) = true)).
Proof.
  intros x h. unfold before_v1. rewrite orb_true_iff, andb_true_iff, N.ltb_lt, N.eqb_eq. tauto.
Qed.

Lemma before_v1_asym : forall x y, before_v1 x y = true -> before_v1 y x = false.
Proof.
  intros x y H. destruct (before_v1 y x) eqn:E; [|reflexivity]. apply before_v1_spec in H, E.
  destruct H as [H|[H Hs]], E as [E|[E Es]]; try lia. rewrite (str_ltb_asym _ _ Hs) in Es. discriminate.
Qed.

Lemma before_v1_trans : forall x y z, before_v1 x y = true -> before_v1 y z = true -> before_v1 x z = true.
Proof.
  intros x y z H1 H2. apply before_v1_spec in H1, H2. apply before_v1_spec.
  destruct H1 as [H1|[H1 S1]], H2 as [H2|[H2 S2]]; try (left; lia).
  right. split; [lia|]. eapply str_ltb_trans; eassumption.
Qed.

Lemma nodup_map_inj : forall A B (f : A -> B) l x y, NoDup (map f l) -> In x l -> In y l -> f x = f y -> x = y.
Proof.
  induction l as [|a l IH]; intros x y Hnd Hx Hy E; [destruct Hx|].
  cbn [map] in Hnd. inversion Hnd as [|? ? Hn Hd]; subst.
  destruct Hx as [<-|Hx], Hy as [<-|Hy]; try reflexivity.
  - exfalso. apply Hn. rewrite E. apply in_map. exact Hy.
  - exfalso. apply Hn. rewrite <- E. apply in_map. exact Hx.
  - eapply IH; eassumption.
Qed.

(* ================================================================ determinism *)

Lemma breakdown_v0_deterministic : forall key pi1 pi2 files,
  NoDup (map g_code (group_by key files)) -> breakdown_v0 key pi1 files = breakdown_v0 key pi2 files.
Proof.
  intros key pi1 pi2 files Hnd. unfold breakdown_v0.
  apply (sort_by_unique before_v0 before_v0_asym before_v0_trans).
  - intros x y Hx Hy L1 L2. unfold le_pos, before_v0 in L1, L2. apply N.ltb_ge in L1, L2.
    apply (nodup_map_inj _ _ g_code (group_by key files)); try assumption.
    + eapply Permutation_in; [apply permute_perm | exact Hx].
    + eapply Permutation_in; [apply permute_perm | exact Hy].
    + lia.
  - eapply Permutation_trans; [apply permute_perm | apply Permutation_sym, permute_perm].
Qed.

Lemma breakdown_deterministic : forall key pi1 pi2 files, breakdown key pi1 files = breakdown key pi2 files.
Proof.
  intros key pi1 pi2 files. unfold breakdown.
  destruct (group_by_inv key files) as (Hnd & _ & _).
  apply (sort_by_unique before_v1 before_v1_asym before_v1_trans).
  - intros x y Hx Hy L1 L2. unfold le_pos in L1, L2.
    apply (nodup_map_inj _ _ g_key (group_by key files)); try assumption.
    + eapply Permutation_in; [apply permute_perm | exact Hx].
    + eapply Permutation_in; [apply permute_perm | exact Hy].
    + unfold before_v1 in L1, L2. apply orb_false_iff in L1, L2. destruct L1 as [A1 B1], L2 as [A2 B2].
      apply N.ltb_ge in A1, A2. assert (Ec : g_code x = g_code y) by lia.
      rewrite Ec, N.eqb_refl in B1. rewrite Ec, N.eqb_refl in B2. cbn [andb] in B1, B2.
      apply str_ltb_total; assumption.
  - eapply Permutation_trans; [apply permute_perm | apply Permutation_sym, permute_perm].
Qed.

Lemma name_before_asym : forall x y, name_before x y = true -> name_before y x = false.
Proof. unfold name_before. intros. apply str_ltb_asym. assumption. Qed.
Lemma name_before_trans : forall x y z, name_before x y = true -> name_before y z = true -> name_before x z = true.
Proof. unfold name_before. intros. eapply str_ltb_trans; eassumption. Qed.

Lemma registry_deterministic : forall pi1 pi2 builtin customs, NoDup (map c_name customs) ->
  with_custom pi1 builtin customs = with_custom pi2 builtin customs.
Proof.
  intros pi1 pi2 builtin customs Hnd. unfold with_custom. f_equal.
  apply (sort_by_unique name_before name_before_asym name_before_trans).
  - intros x y Hx Hy L1 L2. unfold le_pos, name_before in L1, L2.
    apply (nodup_map_inj _ _ c_name customs); try assumption.
    + eapply Permutation_in; [apply permute_perm | exact Hx].
    + eapply Permutation_in; [apply permute_perm | exact Hy].
    + apply str_ltb_total; assumption.
  - eapply Permutation_trans; [apply permute_perm | apply Permutation_sym, permute_perm].
Qed.

(* ================================================================ partition *)

Lemma nodup_perm_map : forall A B (f : A -> B) l l', Permutation l l' -> NoDup (map f l) -> NoDup (map f l').
Proof. intros A B f l l' P H. eapply Permutation_NoDup; [apply Permutation_map; exact P | exact H]. Qed.

Definition partition_statement (key : fstat -> str) (files : list fstat) (gs : list group) : Prop :=
  NoDup (map g_key gs) /\
  (forall f, In f files -> exists g, In g gs /\ g_key g = key f /\ forall g', In g' gs -> g_key g' = key f -> g' = g) /\
  (forall g, In g gs -> group_exact key files g) /\
  sumN g_files gs = N.of_nat (length files) /\
  sumN g_lines gs = t_lines (project_totals files) /\
  sumN g_code gs = t_code (project_totals files) /\
  sumN g_comment gs = t_comment (project_totals files) /\
  sumN g_blank gs = t_blank (project_totals files).

Lemma partition_of_perm : forall key files gs, Permutation gs (group_by key files) -> partition_statement key files gs.
Proof.
  intros key files gs P. destruct (group_by_inv key files) as (Hnd & Hex & Hkeys).
  assert (Hnd' : NoDup (map g_key gs)) by (eapply nodup_perm_map; [apply Permutation_sym; exact P | exact Hnd]).
  pose proof (group_by_fold_sums key files []) as S. cbn zeta in S. fold (group_by key files) in S.
  destruct S as (S1 & S2 & S3 & S4 & S5). cbn [sumN] in S1, S2, S3, S4, S5.
  unfold partition_statement. rewrite project_totals_sums. cbn [t_lines t_code t_comment t_blank].
  split; [exact Hnd'|]. split; [|split].
  - intros f Hf. assert (Hk : In (key f) (map g_key gs)).
    { eapply Permutation_in; [apply Permutation_map, Permutation_sym; exact P|]. apply Hkeys. apply in_map. exact Hf. }
    apply in_map_iff in Hk. destruct Hk as (g & Hg & Hin). exists g. split; [exact Hin|split; [exact Hg|]].
    intros g' Hin' Hg'. apply (nodup_map_inj _ _ g_key gs); try assumption. congruence.
  - intros g Hg. apply Hex. eapply Permutation_in; [exact P | exact Hg].
  - rewrite (sumN_perm _ g_files _ _ P), (sumN_perm _ g_lines _ _ P), (sumN_perm _ g_code _ _ P),
            (sumN_perm _ g_comment _ _ P), (sumN_perm _ g_blank _ _ P).
    repeat split; lia.
Qed.

Lemma breakdown_partitions : forall key pi files,
  partition_statement key files (breakdown key pi files) /\ partition_statement key files (breakdown_v0 key pi files).
Proof.
  intros. split; apply partition_of_perm; unfold breakdown, breakdown_v0;
    (eapply Permutation_trans; [apply sort_by_perm | apply permute_perm]).
Qed.

(* the groups come out in descending code order (both generations) *)
Lemma breakdown_sorted_desc : forall key pi files,
  StronglySorted (fun a b => g_code b <= g_code a) (breakdown key pi files) /\
  StronglySorted (fun a b => g_code b <= g_code a) (breakdown_v0 key pi files).
Proof.
  intros. split.
  - pose proof (sort_by_sorted before_v1 before_v1_asym before_v1_trans (permute pi (group_by key files))) as H.
    unfold breakdown. induction H as [|a l Hs IH Hf]; constructor; [exact IH|].
    rewrite Forall_forall in *. intros b Hb. specialize (Hf b Hb). unfold le_pos, before_v1 in Hf.
    apply orb_false_iff in Hf. destruct Hf as [Hf _]. apply N.ltb_ge in Hf. exact Hf.
  - pose proof (sort_by_sorted before_v0 before_v0_asym before_v0_trans (permute pi (group_by key files))) as H.
    unfold breakdown_v0. induction H as [|a l Hs IH Hf]; constructor; [exact IH|].
    rewrite Forall_forall in *. intros b Hb. specialize (Hf b Hb). unfold le_pos, before_v0 in Hf.
    apply N.ltb_ge in Hf. exact Hf.
Qed.

(* ================================================================ html_escape *)

Lemma eqb_false_of_neq : forall a b : N, a <> b -> N.eqb a b = false.
Proof. intros. apply N.eqb_neq. assumption. Qed.

Lemma replace_char_app : forall c rep a b, replace_char c rep (a ++ b) = replace_char c rep a ++ replace_char c rep b.
Proof.
  induction a as [|x a IH]; intro b; cbn [replace_char app]; [reflexivity|].
  destruct (N.eqb x c); rewrite IH; [rewrite app_assoc|]; reflexivity.
Qed.

Lemma html_escape_app : forall a b, html_escape (a ++ b) = html_escape a ++ html_escape b.
Proof. intros a b. unfold html_escape. repeat rewrite replace_char_app. reflexivity. Qed.

Lemma html_escape_one : forall c, html_escape [c] = esc1 c.
Proof.
  intro c. unfold html_escape, esc1.
  destruct (N.eqb_spec c c_amp) as [->|N1]; [vm_compute; reflexivity|].
  destruct (N.eqb_spec c c_lt) as [->|N2]; [vm_compute; reflexivity|].
  destruct (N.eqb_spec c c_gt) as [->|N3]; [vm_compute; reflexivity|].
  destruct (N.eqb_spec c c_dq) as [->|N4]; [vm_compute; reflexivity|].
  destruct (N.eqb_spec c c_sq) as [->|N5]; [vm_compute; reflexivity|].
  cbn [replace_char]. rewrite (eqb_false_of_neq _ _ N1). cbn [replace_char]. rewrite (eqb_false_of_neq _ _ N2).
  cbn [replace_char]. rewrite (eqb_false_of_neq _ _ N3). cbn [replace_char]. rewrite (eqb_false_of_neq _ _ N4).
  cbn [replace_char]. rewrite (eqb_false_of_neq _ _ N5). reflexivity.
Qed.

Lemma html_escape_charwise : forall s, html_escape s = html_escape_spec s.
Proof.
  induction s as [|c s IH]; [reflexivity|].
  change (c :: s) with ([c] ++ s). rewrite html_escape_app, html_escape_one, IH. reflexivity.
Qed.

Lemma esc1_cases : forall c,
  (c = c_amp /\ esc1 c = e_amp) \/ (c = c_lt /\ esc1 c = e_lt) \/ (c = c_gt /\ esc1 c = e_gt) \/
  (c = c_dq /\ esc1 c = e_quot) \/ (c = c_sq /\ esc1 c = e_apos) \/
  (c <> c_amp /\ c <> c_lt /\ c <> c_gt /\ c <> c_dq /\ c <> c_sq /\ esc1 c = [c]).
Proof.
  intro c. unfold esc1.
  destruct (N.eqb_spec c c_amp); [left; tauto|].
  destruct (N.eqb_spec c c_lt); [right; left; tauto|].
  destruct (N.eqb_spec c c_gt); [right; right; left; tauto|].
  destruct (N.eqb_spec c c_dq); [right; right; right; left; tauto|].
  destruct (N.eqb_spec c c_sq); [right; right; right; right; left; tauto|].
  right; right; right; right; right. tauto.
Qed.

Lemma html_safe_step : forall c r, html_safe (esc1 c ++ r) = html_safe r.
Proof.
  intros c r. destruct (esc1_cases c) as [[-> ->]|[[-> ->]|[[-> ->]|[[-> ->]|[[-> ->]|(N1 & N2 & N3 & N4 & N5 & ->)]]]]];
    try (vm_compute; reflexivity).
  cbn [app html_safe]. unfold is_raw_special.
  rewrite (eqb_false_of_neq _ _ N1), (eqb_false_of_neq _ _ N2), (eqb_false_of_neq _ _ N3),
          (eqb_false_of_neq _ _ N4), (eqb_false_of_neq _ _ N5). reflexivity.
Qed.

Lemma html_safe_spec_true : forall s, html_safe (html_escape_spec s) = true.
Proof.
  induction s as [|c s IH]; [reflexivity|]. unfold html_escape_spec in *. cbn [flat_map].
  rewrite html_safe_step. exact IH.
Qed.

Lemma html_escape_safe : forall s, html_safe (html_escape s) = true.
Proof. intro s. rewrite html_escape_charwise. apply html_safe_spec_true. Qed.

Lemma unescape_step : forall c r, unescape_aux O (esc1 c ++ r) = c :: unescape_aux O r.
Proof.
  intros c r. destruct (esc1_cases c) as [[-> ->]|[[-> ->]|[[-> ->]|[[-> ->]|[[-> ->]|(N1 & N2 & N3 & N4 & N5 & ->)]]]]];
    try (vm_compute; reflexivity).
  cbn [app unescape_aux]. unfold decode_entity, e_amp, e_lt, e_gt, e_quot, e_apos. cbn [prefixb].
  assert (E : N.eqb 38 c = false) by (apply N.eqb_neq; intro H; apply N1; symmetry; exact H).
  rewrite E. cbn [andb]. reflexivity.
Qed.

Lemma unescape_escape : forall s, html_unescape (html_escape s) = s.
Proof.
  intro s. rewrite html_escape_charwise. unfold html_unescape, html_escape_spec.
  induction s as [|c s IH]; [reflexivity|]. cbn [flat_map]. rewrite unescape_step, IH. reflexivity.
Qed.

Lemma html_escape_injective : forall a b, html_escape a = html_escape b -> a = b.
Proof. intros a b H. rewrite <- (unescape_escape a), <- (unescape_escape b), H. reflexivity. Qed.

(* what the boolean predicate means *)
Definition entities : list str := [e_amp; e_lt; e_gt; e_quot; e_apos].

Lemma prefixb_app : forall p s, prefixb p s = true -> exists rest, s = p ++ rest.
Proof.
  induction p as [|a p IH]; intros s H; [exists s; reflexivity|].
  destruct s as [|b s]; cbn [prefixb] in H; [discriminate|]. apply andb_true_iff in H. destruct H as [H1 H2].
  apply N.eqb_eq in H1. subst. destruct (IH _ H2) as [rest ->]. exists rest. reflexivity.
Qed.

Lemma html_safe_meaning : forall t, html_safe t = true ->
  Forall (fun c => c <> c_lt /\ c <> c_gt /\ c <> c_dq /\ c <> c_sq) t /\
  (forall pre post, t = pre ++ c_amp :: post -> exists e rest, In e entities /\ c_amp :: post = e ++ rest).
Proof.
  induction t as [|c t IH]; intro H.
  - split; [constructor|]. intros pre post E. destruct pre; discriminate.
  - cbn [html_safe] in H. apply andb_true_iff in H. destruct H as [H Ht]. apply andb_true_iff in H. destruct H as [Hr Ha].
    destruct (IH Ht) as [F Hamp]. split.
    + constructor; [|exact F]. unfold is_raw_special in Hr. apply negb_true_iff in Hr.
      repeat (apply orb_false_iff in Hr; destruct Hr as [Hr ?]).
      repeat split; apply N.eqb_neq; assumption.
    + intros pre post E. destruct pre as [|p pre]; cbn [app] in E.
      * injection E as -> ->. rewrite N.eqb_refl in Ha. unfold entity_head in Ha.
        repeat (apply orb_true_iff in Ha; destruct Ha as [Ha|Ha]);
          apply prefixb_app in Ha; destruct Ha as [rest Hrest]; eexists; exists rest; (split; [|exact Hrest]); unfold entities; cbn [In]; tauto.
      * injection E as -> E. apply (Hamp pre post E).
Qed.

(* ================================================================ SARIF uri *)
From SG Require Import Report.Uri.

Lemma hexval_hexdigit : forall d, d < 16 -> hexval (hexdigit d) = Some d.
Proof.
  intros d H. unfold hexdigit, hexval. destruct (N.ltb_spec d 10) as [L|L].
  - replace ((48 <=? 48 + d) && (48 + d <=? 57)) with true by (symmetry; apply andb_true_iff; split; apply N.leb_le; lia).
    f_equal. lia.
  - replace ((48 <=? 55 + d) && (55 + d <=? 57)) with false by (symmetry; apply andb_false_iff; right; apply N.leb_gt; lia).
    replace ((65 <=? 55 + d) && (55 + d <=? 70)) with true by (symmetry; apply andb_true_iff; split; apply N.leb_le; lia).
    f_equal. lia.
Qed.

Lemma upper_hex_hexdigit : forall d, d < 16 -> is_upper_hex (hexdigit d) = true.
Proof.
  intros d H. unfold hexdigit, is_upper_hex. destruct (N.ltb_spec d 10) as [L|L]; apply orb_true_iff; [left|right];
    apply andb_true_iff; split; apply N.leb_le; lia.
Qed.

Lemma uri_keeps_not_percent : forall b, uri_keeps b = true -> N.eqb b c_percent = false.
Proof.
  intros b H. apply N.eqb_neq. intro E. subst b. vm_compute in H. discriminate.
Qed.

Lemma uri_decode_step : forall b r, b < 256 -> uri_decode (uri_enc1 b ++ r) = b :: uri_decode r.
Proof.
  intros b r H. unfold uri_enc1. destruct (uri_keeps b) eqn:K.
  - cbn [app uri_decode]. rewrite (uri_keeps_not_percent _ K). reflexivity.
  - cbn [app uri_decode]. unfold c_percent at 1. rewrite N.eqb_refl.
    assert (H1 : b / 16 < 16) by (apply N.div_lt_upper_bound; lia).
    assert (H2 : b mod 16 < 16) by (apply N.mod_lt; lia).
    rewrite (hexval_hexdigit _ H1), (hexval_hexdigit _ H2). f_equal.
    rewrite (N.div_mod b 16) at 3 by lia. reflexivity.
Qed.

Lemma uri_roundtrip : forall p, Forall (fun b => b < 256) p -> uri_decode (uri_encode p) = p.
Proof.
  induction p as [|b p IH]; intro H; [reflexivity|]. inversion H; subst.
  unfold uri_encode in *. cbn [flat_map]. rewrite uri_decode_step by assumption. rewrite IH by assumption. reflexivity.
Qed.

Lemma uri_ok_step : forall b r, b < 256 -> uri_ok (uri_enc1 b ++ r) = uri_ok r.
Proof.
  intros b r H. unfold uri_enc1. destruct (uri_keeps b) eqn:K.
  - cbn [app uri_ok]. rewrite (uri_keeps_not_percent _ K), K. reflexivity.
  - cbn [app uri_ok]. unfold c_percent at 1. rewrite N.eqb_refl.
    assert (H1 : b / 16 < 16) by (apply N.div_lt_upper_bound; lia).
    assert (H2 : b mod 16 < 16) by (apply N.mod_lt; lia).
    rewrite (upper_hex_hexdigit _ H1), (upper_hex_hexdigit _ H2). reflexivity.
Qed.

Lemma uri_encode_ok : forall p, Forall (fun b => b < 256) p -> uri_ok (uri_encode p) = true.
Proof.
  induction p as [|b p IH]; intro H; [reflexivity|]. inversion H; subst.
  unfold uri_encode in *. cbn [flat_map]. rewrite uri_ok_step by assumption. apply IH. assumption.
Qed.

Lemma uri_encode_injective : forall p q, Forall (fun b => b < 256) p -> Forall (fun b => b < 256) q ->
  uri_encode p = uri_encode q -> p = q.
Proof. intros p q Hp Hq E. rewrite <- (uri_roundtrip p Hp), <- (uri_roundtrip q Hq), E. reflexivity. Qed.
