(* Check/Results.v -- the CheckResult abstraction shared by C01, C09, C10, C11.
   Definitions only (no proofs).

   Mirrors src/checker/result.rs (enum CheckResult) and the part of
   src/checker/structure/violation.rs (ViolationType, ViolationCategory) that the baseline,
   ratchet, fail-fast and exit-code logic reads:
     path                      r_path   (string of Unicode scalar values; raw bytes of a path that is
                                        not valid UTF-8 are surrogate units, see scalar_unit)
     violation_category        r_kind   None and Some(Content) are both Content here: every reader
                                        in check_baseline_ops.rs tests only for Some(Structure ..)
     variant                   r_status Passed, Warning, Failed, Grandfathered
     stats.code                r_code   the number written to the baseline (lines or count)
     limit                     r_limit
     compute_file_hash(path)   r_hash   oracle column: the hash of the file at r_path at the time
                                        of the run (empty string when the file cannot be read);
                                        it is a function of the path and the project state, not of
                                        the result, and is attached here so that the model stays
                                        first-order data. *)
From Coq Require Import NArith List Bool.
From SG Require Paths.Model.
Import ListNotations.
Open Scope N_scope.

Definition str := list N.
Definition key := str.

Fixpoint str_eqb (a b : str) : bool :=
  match a, b with
  | [], [] => true
  | x :: a', y :: b' => N.eqb x y && str_eqb a' b'
  | _, _ => false
  end.

(* ViolationType: the two baselinable kinds, depth, and every placement / sibling kind
   (DisallowedFile, DisallowedDirectory, DeniedFile, DeniedDirectory, NamingConvention,
   MissingSibling, GroupIncomplete) distinguished by a tag only. *)
Inductive vtype := FileCount | DirCount | MaxDepth | Placement (tag : N).
Inductive kind := Content | Structure (v : vtype).
Inductive status := Passed | Warning | Failed | Grandfathered.

Record result := mkResult {
  r_path : str;
  r_kind : kind;
  r_status : status;
  r_code : N;
  r_limit : N;
  r_hash : str
}.

Definition is_passed (r : result) : bool := match r_status r with Passed => true | _ => false end.
Definition is_warning (r : result) : bool := match r_status r with Warning => true | _ => false end.
Definition is_failed (r : result) : bool := match r_status r with Failed => true | _ => false end.
Definition is_grandfathered (r : result) : bool :=
  match r_status r with Grandfathered => true | _ => false end.

Definition is_structure (r : result) : bool :=
  match r_kind r with Structure _ => true | Content => false end.

(* crate::output::path::path_key (fixes D08, D39): normalize_for_matching = backslashes become
   separators, then the path is rebuilt from Path::components() without the "." components
   (so repeated and trailing separators and interior "/./" disappear; the RootDir marker of an
   absolute path is kept); path_key spells the empty result ".". The components normaliser is
   the shared model SG.Paths.Model (unbackslash, comps, join_slash, is_abs); ".." components
   stay. The function is idempotent on every string (Proofs_Check.norm_key_idem), so the second
   application inside Baseline::contains / set_* / remove / load changes nothing.
   Not modelled here: an absolute path below the current directory is first made relative
   (strip_current_dir needs the process cwd; SG.Paths.Model.norm has it; the generators of
   C09-C11 never produce absolute paths below the cwd). *)
Definition norm_char (c : N) : N := if N.eqb c 92 then 47 else c.
Definition dot_if_empty (s : str) : str :=
  match s with
  | [] => [46]
  | _ => s
  end.
Definition norm_key (p : str) : key :=
  let u := SG.Paths.Model.unbackslash p in
  dot_if_empty ((if SG.Paths.Model.is_abs u then [47] else []) ++
                SG.Paths.Model.join_slash (SG.Paths.Model.comps u)).
(* a key that path_key leaves alone *)
Definition stable_key (k : key) : Prop := norm_key k = k.
Definition stable_keyb (k : key) : bool := str_eqb (norm_key k) k.
Definition key_of (r : result) : key := norm_key (r_path r).

(* A path unit is a Unicode scalar value or, in a path that is not valid UTF-8, a unit of the
   surrogate range D800..DFFF that stands for a raw byte (DC80..DCFF = the bytes 80..FF, the
   surrogateescape convention; two such paths with the same lossy form stay different strings
   here). No Rust String and no JSON string contains such a unit, so no key of a baseline file
   does. Path::to_str is Some exactly for the paths made of scalar values: only these have a
   baseline key (check_baseline_ops.rs baseline_key, repair of D55); before the repair the key
   was path_key of the LOSSY form, which maps every raw byte to U+FFFD. *)
Definition scalar_unit (c : N) : bool := N.ltb c 55296 || N.ltb 57343 c.
Definition utf8_str (s : str) : bool := forallb scalar_unit s.
Definition has_key (r : result) : bool := utf8_str (r_path r).

Definition with_status (r : result) (s : status) : result :=
  mkResult (r_path r) (r_kind r) s (r_code r) (r_limit r) (r_hash r).

(* CheckResult::into_grandfathered: Failed becomes Grandfathered, anything else is unchanged *)
Definition into_grandfathered (r : result) : result :=
  if is_failed r then with_status r Grandfathered else r.

Definition mem_key (k : key) (l : list key) : bool := existsb (str_eqb k) l.

(* decidable equality on results (used by the executable sublist test of FailFast.v) *)
Definition vtype_eqb (a b : vtype) : bool :=
  match a, b with
  | FileCount, FileCount | DirCount, DirCount | MaxDepth, MaxDepth => true
  | Placement x, Placement y => N.eqb x y
  | _, _ => false
  end.
Definition kind_eqb (a b : kind) : bool :=
  match a, b with
  | Content, Content => true
  | Structure x, Structure y => vtype_eqb x y
  | _, _ => false
  end.
Definition status_eqb (a b : status) : bool :=
  match a, b with
  | Passed, Passed | Warning, Warning | Failed, Failed | Grandfathered, Grandfathered => true
  | _, _ => false
  end.
Definition result_eqb (a b : result) : bool :=
  str_eqb (r_path a) (r_path b) && kind_eqb (r_kind a) (r_kind b) &&
  status_eqb (r_status a) (r_status b) && N.eqb (r_code a) (r_code b) &&
  N.eqb (r_limit a) (r_limit b) && str_eqb (r_hash a) (r_hash b).
