(* Check/Proofs_Keys.v -- which strings are baseline keys (C09, C10).
   1. units: norm_key neither invents nor loses a unit other than the separators and the dot, so a
      path is made of scalar values exactly when its key is (utf8_norm_key); a baseline whose keys
      are strings of scalar values (every JSON file, every baseline built from keyed results)
      never contains the key of a path that is not valid UTF-8 (repair of D55);
   2. injectivity: two paths WITHOUT backslashes with one key have the same root marker and the
      same components, i.e. they name one file; with a backslash (a legal character of a POSIX
      file name, a separator for path_key on every platform) two different files share a key
      (D54, known finding K09_backslash_name). *)
From Coq Require Import NArith List Bool Lia.
From SG Require Paths.Model Paths.Proofs.
From SG Require Import Check.Results Check.ExitCode Check.BMap Check.Ratchet Check.Baseline
     Check.FailFast Check.Proofs_Check Check.Proofs_C09 Check.Proofs_C10 Check.Proofs_C11.
Import ListNotations.
Open Scope N_scope.

(* ------------------------------------------------------------------ units of a key *)
Lemma split_covers : forall p x, In x p -> x <> PM.c_slash ->
  exists c, In c (PM.split p) /\ In x c.
Proof.
  induction p as [|a p IH]; intros x HI HX; [contradiction|].
  cbn [PM.split]. destruct (N.eqb a PM.c_slash) eqn:E.
  - apply N.eqb_eq in E. subst a. destruct HI as [HI|HI]; [congruence|].
    destruct (IH x HI HX) as [c [HC HIc]]. exists c. split; [right; assumption|assumption].
  - destruct (PM.split p) as [|h t] eqn:S.
    + exfalso. exact (PP.split_nonempty p S).
    + destruct HI as [HI|HI].
      * subst a. exists (x :: h). split; [left; reflexivity|left; reflexivity].
      * destruct (IH x HI HX) as [c [HC HIc]]. destruct HC as [HC|HC].
        -- subst c. exists (a :: h). split; [left; reflexivity|right; assumption].
        -- exists c. split; [right; assumption|assumption].
Qed.

Lemma join_slash_In : forall cs c x, In c cs -> In x c -> In x (PM.join_slash cs).
Proof.
  induction cs as [|c0 t IH]; intros c x HC HX; [contradiction|].
  destruct t as [|c1 t'].
  - destruct HC as [HC|[]]. subst c0. exact HX.
  - change (PM.join_slash (c0 :: c1 :: t')) with (c0 ++ PM.c_slash :: PM.join_slash (c1 :: t')).
    apply in_or_app. destruct HC as [HC|HC].
    + subst c0. left. exact HX.
    + right. right. apply (IH c x HC HX).
Qed.

Lemma join_slash_units : forall cs x, In x (PM.join_slash cs) ->
  x = PM.c_slash \/ exists c, In c cs /\ In x c.
Proof.
  induction cs as [|c0 t IH]; intros x H; [contradiction|].
  destruct t as [|c1 t'].
  - right. exists c0. split; [left; reflexivity|exact H].
  - change (PM.join_slash (c0 :: c1 :: t')) with (c0 ++ PM.c_slash :: PM.join_slash (c1 :: t')) in H.
    apply in_app_or in H. destruct H as [H|[H|H]].
    + right. exists c0. split; [left; reflexivity|exact H].
    + left. symmetry. exact H.
    + destruct (IH x H) as [E|[c [HC HX]]]; [left; exact E|].
      right. exists c. split; [right; exact HC|exact HX].
Qed.

Lemma unbackslash_units : forall p x, In x (PM.unbackslash p) -> x = PM.c_slash \/ In x p.
Proof.
  intros p x H. unfold PM.unbackslash in H. apply in_map_iff in H. destruct H as [c [E HI]].
  destruct (N.eqb c PM.c_bslash); subst x; [left; reflexivity|right; exact HI].
Qed.

Lemma unbackslash_keeps : forall p x, In x p -> x <> PM.c_bslash -> In x (PM.unbackslash p).
Proof.
  intros p x HI HX. unfold PM.unbackslash. apply in_map_iff. exists x. split; [|exact HI].
  destruct (N.eqb x PM.c_bslash) eqn:E; [|reflexivity]. apply N.eqb_eq in E. contradiction.
Qed.

Lemma dot_if_empty_In : forall s x, In x s -> In x (dot_if_empty s).
Proof. intros [|a s] x H; [contradiction|exact H]. Qed.

Lemma dot_if_empty_units : forall s x, In x (dot_if_empty s) -> x = 46 \/ In x s.
Proof. intros [|a s] x H; [destruct H as [H|[]]; left; symmetry; exact H|right; exact H]. Qed.

(* every unit of a key is a separator, a dot, or a unit of the path *)
Lemma norm_key_units : forall p x, In x (norm_key p) -> x = 46 \/ x = 47 \/ In x p.
Proof.
  intros p x H. unfold norm_key in H. apply dot_if_empty_units in H. destruct H as [H|H]; [left; exact H|].
  right. apply in_app_or in H. destruct H as [H|H].
  - destruct (PM.is_abs (PM.unbackslash p)); [|contradiction]. destruct H as [H|[]]. left. symmetry. exact H.
  - apply join_slash_units in H. destruct H as [H|[c [HC HX]]]; [left; exact H|].
    unfold PM.comps in HC. apply filter_In in HC. destruct HC as [HC _].
    destruct (split_piece_sub _ _ _ HC HX) as [HU _].
    apply unbackslash_units in HU. destruct HU as [HU|HU]; [left; exact HU|right; exact HU].
Qed.

(* a unit that is not a separator of either kind nor a dot survives in the key *)
Lemma norm_key_keeps : forall p x, In x p -> x <> 47 -> x <> 92 -> x <> 46 -> In x (norm_key p).
Proof.
  intros p x HI H47 H92 H46. unfold norm_key. apply dot_if_empty_In. apply in_or_app. right.
  pose proof (unbackslash_keeps p x HI H92) as HU.
  destruct (split_covers _ x HU H47) as [c [HC HX]].
  apply (join_slash_In _ c x); [|exact HX].
  unfold PM.comps. apply filter_In. split; [exact HC|].
  destruct c as [|d [|d' c']]; [contradiction| |reflexivity].
  destruct HX as [HX|[]]. subst d. cbn. apply negb_true_iff. apply N.eqb_neq. exact H46.
Qed.

Lemma scalar_sep : scalar_unit 46 = true /\ scalar_unit 47 = true.
Proof. split; reflexivity. Qed.

Lemma non_scalar_not_sep : forall x, scalar_unit x = false -> x <> 47 /\ x <> 92 /\ x <> 46.
Proof. intros x H. repeat split; intro E; subst x; discriminate. Qed.

(* a path is valid UTF-8 exactly when its key is a string of scalar values *)
Lemma utf8_norm_key : forall p, utf8_str (norm_key p) = utf8_str p.
Proof.
  intro p. unfold utf8_str. destruct (forallb scalar_unit p) eqn:E.
  - apply forallb_forall. intros x HX. apply norm_key_units in HX.
    destruct HX as [HX|[HX|HX]]; [subst x; reflexivity|subst x; reflexivity|].
    rewrite forallb_forall in E. apply E. exact HX.
  - destruct (forallb scalar_unit (norm_key p)) eqn:E2; [|reflexivity].
    exfalso. rewrite forallb_forall in E2.
    assert (HE : exists x, In x p /\ scalar_unit x = false).
    { clear E2. induction p as [|a p IH]; [discriminate|]. cbn [forallb] in E.
      destruct (scalar_unit a) eqn:Ea.
      - cbn [andb] in E. destruct (IH E) as [x [HI HS]]. exists x. split; [right; exact HI|exact HS].
      - exists a. split; [left; reflexivity|exact Ea]. }
    destruct HE as [x [HI HS]]. destruct (non_scalar_not_sep x HS) as [A [B C]].
    rewrite (E2 x (norm_key_keeps p x HI A B C)) in HS. discriminate.
Qed.

Lemma has_key_key_of : forall r, utf8_str (key_of r) = has_key r.
Proof. intro r. unfold key_of, has_key. apply utf8_norm_key. Qed.

(* ------------------------------------------------------------------ baselines with keyed entries only *)
(* every key is a string of scalar values: what serde_json can read and what Baseline::set_* is
   given (keys of results that have one) *)
Definition valid_bl (b : baseline) : Prop := forall k e, lookup k b = Some e -> utf8_str k = true.
Definition ovalid (ob : option baseline) : Prop := match ob with Some b => valid_bl b | None => True end.

Lemma valid_empty : valid_bl [].
Proof. intros k e H. discriminate. Qed.

Lemma valid_rekey : forall b, valid_bl b -> valid_bl (rekey b).
Proof.
  intros b H k e HL. apply lookup_rekey_inv in HL. destruct HL as [k0 [HI E]]. subst k.
  rewrite utf8_norm_key. apply In_keys_lookup in HI. destruct HI as [e0 HI]. exact (H k0 e0 HI).
Qed.

Lemma valid_view : forall ob, ovalid ob -> ovalid (view ob).
Proof. intros [b|] H; cbn; auto. apply valid_rekey. exact H. Qed.

Lemma valid_tighten : forall b stale, valid_bl b -> valid_bl (tighten_baseline b stale).
Proof.
  intros b stale H k e HL. rewrite lookup_tighten in HL.
  destruct (mem_key k stale); [discriminate|]. exact (H k e HL).
Qed.

(* a path that is not valid UTF-8 never matches an entry *)
Lemma no_key_never_contained : forall b r, valid_bl b -> has_key r = false -> contains (key_of r) b = false.
Proof.
  intros b r HV HK. destruct (contains (key_of r) b) eqn:C; [|reflexivity].
  apply contains_lookup in C. destruct C as [e C]. apply HV in C.
  rewrite has_key_key_of in C. congruence.
Qed.

Lemma no_key_not_grandfathered : forall b r, valid_bl b -> has_key r = false -> gf b r = r.
Proof.
  intros b r HV HK. unfold gf. rewrite (no_key_never_contained b r HV HK), andb_false_r. reflexivity.
Qed.

(* ... and is never recorded: an update writes keys of keyed results only *)
Lemma valid_update : forall R m ex, ovalid ex -> valid_bl (update_baseline_from_results R m ex).
Proof.
  intros R m ex HE k e HL. pose proof HL as HL0. apply update_origin in HL. destruct HL as [HL|HL].
  - destruct ex as [b|]; cbn [existing_or_empty] in HL; [|cbn in HL; congruence].
    destruct (lookup k b) as [e0|] eqn:L; [|congruence]. exact (HE k e0 L).
  - apply in_map_iff in HL. destruct HL as [r [E HI]]. subst k.
    apply filter_In in HI. destruct HI as [_ HR]. rewrite has_key_key_of. apply records_has_key. exact HR.
Qed.

Lemma valid_ratchet : forall cli cfg rs ev ob,
  ovalid ob -> ovalid (ro_baseline (handle_baseline_ratchet cli cfg rs ev ob)).
Proof.
  intros cli cfg rs ev ob H. unfold handle_baseline_ratchet. cbv zeta.
  destruct (effective_ratchet cli cfg) as [mode|]; [|exact H].
  destruct ob as [b|]; [|exact I].
  destruct (retain_evaluated ev (check_baseline_ratchet rs b)); [exact H|].
  destruct mode; cbn [ro_baseline]; try exact H. cbn [ovalid]. apply valid_tighten. exact H.
Qed.

(* every run keeps the file free of keys no valid path can have *)
Lemma valid_step : forall fl R dirs disk, ovalid disk -> ovalid (o_disk (check_step fl R dirs disk)).
Proof.
  intros fl R dirs disk HD. unfold check_step.
  destruct (load_for_run fl disk) as [loaded|] eqn:HL; cbn [o_disk]; [|exact HD].
  assert (HLo : ovalid loaded).
  { unfold load_for_run in HL. destruct (f_baseline fl).
    - destruct disk as [b|]; [inversion HL; cbn; apply valid_rekey; exact HD|].
      destruct (f_update fl); inversion HL; exact I.
    - inversion HL. exact I. }
  set (rs1 := match loaded with Some b => apply_baseline_comparison R b | None => R end).
  set (ro := handle_baseline_ratchet _ _ rs1 _ loaded).
  assert (HRo : ovalid (ro_baseline ro)) by (subst ro; apply valid_ratchet; exact HLo).
  assert (HD1 : ovalid (if ro_saved ro then ro_baseline ro else disk)) by (destruct (ro_saved ro); assumption).
  destruct (f_update fl) as [m|]; [|exact HD1].
  cbn. apply valid_update. destruct (ro_baseline ro) as [b'|] eqn:RB; [exact HRo|].
  apply valid_view. exact HD1.
Qed.

Lemma valid_loaded : forall fl disk loaded,
  ovalid disk -> load_for_run fl disk = Some loaded -> ovalid loaded.
Proof.
  intros fl disk loaded HD HL. unfold load_for_run in HL. destruct (f_baseline fl).
  - destruct disk as [b|]; [inversion HL; cbn; apply valid_rekey; exact HD|].
    destruct (f_update fl); inversion HL; exact I.
  - inversion HL. exact I.
Qed.

(* a violation at a path without a key is never grandfathered: reported Failed, exit 1, whatever
   the baseline holds (in particular the lossy form of the path) and for every fail-fast execution *)
Lemma no_key_always_fails : forall fl R R' dirs disk loaded r,
  ovalid disk -> load_for_run fl disk = Some loaded -> ff_sub loaded R R' ->
  In r R -> is_failed r = true -> has_key r = false -> f_warn_only fl = false ->
  o_exit (check_step fl R' dirs disk) = 1 /\
  (In r R' -> In r (o_results (check_step fl R' dirs disk))).
Proof.
  intros fl R R' dirs disk loaded r HD HL HS HI F HK W.
  apply (unrecorded_always_fails fl R R' dirs disk loaded r HL HS HI); [|exact W].
  unfold ff_trigger. rewrite F. cbn [andb]. apply negb_true_iff.
  pose proof (valid_loaded fl disk loaded HD HL) as HV.
  destruct loaded as [b|]; [|reflexivity]. apply no_key_never_contained; assumption.
Qed.

(* the ratchet never reports or removes an entry on the strength of a result without a key *)
Lemma stale_needs_keyed_path : forall fl R dirs disk k r,
  ovalid disk -> In k (o_stale (check_step fl R dirs disk)) -> In r R -> key_of r = k -> has_key r = true.
Proof.
  intros fl R dirs disk k r HD HS HI E.
  destruct (stale_evaluated_resolved fl R dirs disk k HS) as [HK _].
  pose proof (valid_view disk HD) as HV. destruct (view disk) as [b|]; [|contradiction].
  cbn [okeys] in HK. apply In_keys_lookup in HK. destruct HK as [e HK].
  rewrite <- has_key_key_of, E. exact (HV k e HK).
Qed.

Section ValidHistory.
  Variable project : Type.
  Variable eval : project -> list result.
  Variable dirs_of : project -> list key.

  Lemma valid_history : forall ops st,
    ovalid (h_disk project st) -> ovalid (h_disk project (run_history project eval dirs_of ops st)).
  Proof.
    unfold run_history. induction ops as [|o ops IH]; intros st H; cbn [fold_left]; [exact H|].
    apply IH. destruct o as [p | m we | fl s]; cbn [step h_disk]; [exact H| |]; unfold run; apply valid_step; exact H.
  Qed.
End ValidHistory.

(* ------------------------------------------------------------------ which paths share a key (D54) *)
(* two path strings name one file on a POSIX file system, lexically: same root marker, same
   components (repeated separators and dot components do not count; the backslash is an ordinary
   character there) *)
Definition posix_same (p q : str) : Prop := PM.is_abs p = PM.is_abs q /\ PM.comps p = PM.comps q.
Definition has_bslash (p : str) : bool := existsb (N.eqb PM.c_bslash) p.

Lemma join_clean_inj : forall a b, PM.clean_list a = true -> PM.clean_list b = true ->
  PM.join_slash a = PM.join_slash b -> a = b.
Proof.
  intros a b HA HB E. rewrite <- (PP.comps_join_clean a HA), <- (PP.comps_join_clean b HB), E. reflexivity.
Qed.

Lemma join_clean_nil : forall a, PM.clean_list a = true -> PM.join_slash a = [] -> a = [].
Proof.
  intros a HA E. rewrite <- (PP.comps_join_clean a HA), E. reflexivity.
Qed.

Lemma join_clean_not_abs' : forall a, PM.clean_list a = true -> PM.is_abs (PM.join_slash a) = false.
Proof.
  intros a HA. rewrite <- (PP.unbackslash_id _ (PP.no_bslash_join a HA)). apply PP.join_clean_not_abs. exact HA.
Qed.

Lemma key_injective_without_backslash : forall p q,
  has_bslash p = false -> has_bslash q = false -> norm_key p = norm_key q -> posix_same p q.
Proof.
  intros p q HP HQ E. unfold has_bslash in *. unfold norm_key in E.
  rewrite (PP.unbackslash_id p HP), (PP.unbackslash_id q HQ) in E.
  pose proof (PP.comps_clean_list p HP) as CP. pose proof (PP.comps_clean_list q HQ) as CQ.
  set (a := PM.comps p) in *. set (b := PM.comps q) in *.
  unfold posix_same. fold a b.
  destruct (PM.is_abs p) eqn:AP; destruct (PM.is_abs q) eqn:AQ; cbn [app dot_if_empty] in E.
  - split; [reflexivity|]. inversion E. apply join_clean_inj; assumption.
  - exfalso. destruct (PM.join_slash b) as [|x t] eqn:J; cbn [dot_if_empty] in E; [discriminate|].
    pose proof (join_clean_not_abs' b CQ) as NA. rewrite J in NA. inversion E; subst x. discriminate.
  - exfalso. destruct (PM.join_slash a) as [|x t] eqn:J; cbn [dot_if_empty] in E; [discriminate|].
    pose proof (join_clean_not_abs' a CP) as NA. rewrite J in NA. inversion E; subst x. discriminate.
  - split; [reflexivity|].
    destruct (PM.join_slash a) as [|x t] eqn:JA; destruct (PM.join_slash b) as [|y u] eqn:JB; cbn [dot_if_empty] in E.
    + rewrite (join_clean_nil a CP JA), (join_clean_nil b CQ JB). reflexivity.
    + exfalso. pose proof (PP.comps_join_clean b CQ) as CJ. rewrite JB, <- E in CJ.
      cbn in CJ. subst b. rewrite <- CJ in JB. discriminate.
    + exfalso. pose proof (PP.comps_join_clean a CP) as CJ. rewrite JA, E in CJ.
      cbn in CJ. subst a. rewrite <- CJ in JA. discriminate.
    + apply join_clean_inj; try assumption. rewrite JA, JB. exact E.
Qed.

Lemma key_injective_modulo_known : forall p q,
  has_bslash p || has_bslash q = false -> norm_key p = norm_key q -> posix_same p q.
Proof.
  intros p q H. apply orb_false_iff in H. destruct H as [HP HQ].
  exact (key_injective_without_backslash p q HP HQ).
Qed.

(* src/a\b.rs (one component a\b.rs below src) and src/a/b.rs are different files with one key *)
Lemma key_not_injective_with_backslash :
  exists p q, ~ posix_same p q /\ norm_key p = norm_key q /\ has_bslash p = true /\ has_bslash q = false.
Proof.
  exists [115;114;99;47;97;92;98;46;114;115], [115;114;99;47;97;47;98;46;114;115].
  split; [|split; [vm_compute; reflexivity|split; reflexivity]].
  intros [_ H]. vm_compute in H. discriminate.
Qed.
