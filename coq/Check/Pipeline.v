(* Check/Pipeline.v -- the whole check run as a function of per-path facts (C01). Definitions only.

   The scoping layer of the tool (walker + ignore files, scanner / content excludes, extensions, rule
   patterns, language recognition, counting, limit and warn-point resolution) is summarised by one fact
   record per file; structure results (directory limits, placement, siblings) enter as the list the
   structure checker produced. From there on the run is [check_step] of Check/Baseline.v: baseline
   comparison, ratchet, update, exit code -- composed here exactly as runner.rs composes them. *)
From Coq Require Import NArith List Bool.
From SG Require Import Check.Results Check.BMap Check.ExitCode Check.Ratchet Check.Baseline.
Import ListNotations.
Open Scope N_scope.

Record ffact := mkFact {
  ff_path : str;
  ff_scanned : bool;    (* yielded by the walk: not ignored, not pruned by scanner.exclude / --exclude *)
  ff_selected : bool;   (* ThresholdChecker::should_process: content.exclude, extensions, rule match *)
  ff_counted : bool;    (* readable, recognised language, no ignore-file directive *)
  ff_count : N;         (* effective line count (code, + comments / blanks when counted, never ignored) *)
  ff_limit : N;         (* limit the configuration assigns (last matching rule, else global, CLI override) *)
  ff_warn : N;          (* warn point *)
  ff_hash : str
}.

Definition in_scope (f : ffact) : bool := ff_scanned f && ff_selected f && ff_counted f.

(* ThresholdChecker::check_file: sloc > limit, else sloc >= warn, else passed *)
Definition verdict (c lim w : N) : status :=
  if lim <? c then Failed else if w <=? c then Warning else Passed.

Definition content_result (f : ffact) : option result :=
  if in_scope f
  then Some (mkResult (ff_path f) Content (verdict (ff_count f) (ff_limit f) (ff_warn f))
                      (ff_count f) (ff_limit f) (ff_hash f))
  else None.

Fixpoint content_results (fs : list ffact) : list result :=
  match fs with
  | [] => []
  | f :: tl => match content_result f with Some r => r :: content_results tl | None => content_results tl end
  end.

(* results vector before the baseline: file results in scan order, then placement violations,
   directory-limit violations, sibling violations (runner.rs steps 3-5); [sres] is that structure tail *)
Definition pre_results (fs : list ffact) (sres : list result) : list result := content_results fs ++ sres.

(* run_check: Err -> 2 (config / usage errors are decided before any file is looked at) *)
Definition check_run (config_error : bool) (fl : flags) (fs : list ffact) (sres : list result)
           (dirs : list key) (disk : option baseline) : outcome :=
  if config_error then mkOutcome [] EXIT_CONFIG_ERROR disk []
  else check_step fl (pre_results fs sres) dirs disk.

(* ---- the specification, per path ---- *)
Definition grandfathered_by (loaded : option baseline) (path : str) : bool :=
  match loaded with Some b => contains (norm_key path) b | None => false end.

Definition spec_status (loaded : option baseline) (f : ffact) : status :=
  match verdict (ff_count f) (ff_limit f) (ff_warn f) with
  | Failed => if grandfathered_by loaded (ff_path f) then Grandfathered else Failed
  | s => s
  end.

Definition spec_sstatus (loaded : option baseline) (r : result) : status :=
  match r_status r with
  | Failed => if grandfathered_by loaded (r_path r) then Grandfathered else Failed
  | s => s
  end.
