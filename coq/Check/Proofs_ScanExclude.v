(* Check/Proofs_ScanExclude.v *)
From Coq Require Import NArith List Bool.
From SG Require Import Check.ScanExclude.
Import ListNotations.

Section Generic.
  Variables pat entry : Type.
  Variable is_dir : entry -> bool.
  Variables on_path on_name name_fallback under_dir : pat -> entry -> bool.
  Local Notation plain := (plain_excluded pat entry on_path).
  Local Notation struct := (struct_excluded pat entry is_dir on_path on_name name_fallback).
  Local Notation Known := (KnownBasename pat entry is_dir on_path on_name name_fallback under_dir).

  (* the structure-aware scanner never keeps what the plain scanner drops *)
  Lemma struct_complete : forall ps e, plain ps e = true -> struct ps e = true.
  Proof.
    intros ps e H. unfold struct_excluded. apply orb_true_iff. left.
    unfold plain_excluded in H. apply existsb_exists in H as (p & Hin & Hp).
    apply existsb_exists. exists p. split; [exact Hin|]. rewrite Hp. apply orb_true_r.
  Qed.

  (* outside the recorded class, whatever it drops is matched on its path, or is a directory whose whole
     content a pattern covers *)
  Lemma struct_sound_modulo_known : forall ps e,
    ~ Known ps e -> struct ps e = true ->
    plain ps e = true \/ (is_dir e = true /\ exists p, In p ps /\ under_dir p e = true).
  Proof.
    intros ps e NK H. unfold struct_excluded in H. apply orb_true_iff in H as [H|H].
    - apply existsb_exists in H as (p & Hin & Hp). apply orb_true_iff in Hp as [Hn|Hp].
      + destruct (on_path p e) eqn:E.
        * left. apply existsb_exists. exists p. auto.
        * exfalso. apply NK. exists p. split; [exact Hin|]. left. auto.
      + left. apply existsb_exists. exists p. auto.
    - apply andb_true_iff in H as [Hd H]. apply existsb_exists in H as (p & Hin & Hf).
      destruct (on_path p e) eqn:E.
      + left. apply existsb_exists. exists p. auto.
      + destruct (under_dir p e) eqn:U.
        * right. split; [exact Hd|]. exists p. auto.
        * exfalso. apply NK. exists p. split; [exact Hin|]. right. auto.
  Qed.
End Generic.

(* the witnesses: docs=1 build=2 src=3 gen.rs=4 *)
Definition w_pats : list mpat := [PUnder [1; 2]%N; PLit [4]%N].
Definition w_dir : mentry := {| e_path := [3; 2]%N; e_dir := true |}.     (* src/build *)
Definition w_file : mentry := {| e_path := [3; 4]%N; e_dir := false |}.   (* src/gen.rs *)

Lemma basename_exclusion_witnesses :
  struct_excluded mpat mentry e_dir m_on_path m_on_name m_name_fallback w_pats w_dir = true /\
  plain_excluded mpat mentry m_on_path w_pats w_dir = false /\
  existsb (fun p => m_under_dir p w_dir) w_pats = false /\
  struct_excluded mpat mentry e_dir m_on_path m_on_name m_name_fallback w_pats w_file = true /\
  plain_excluded mpat mentry m_on_path w_pats w_file = false.
Proof. vm_compute. repeat split; reflexivity. Qed.

Lemma two_readings_differ :
  exists ps e, struct_excluded mpat mentry e_dir m_on_path m_on_name m_name_fallback ps e
               <> plain_excluded mpat mentry m_on_path ps e.
Proof. exists w_pats, w_file. vm_compute. discriminate. Qed.

(* the project root (the empty normalised path) has no name inside the project: no pattern that names at
   least one component excludes it, under either reading (D121: before fix b1a9be7 the structure-aware
   scanner matched the NAME OF THE PROJECT DIRECTORY ITSELF under the absolute spelling of the root) *)
Definition names_something (p : mpat) : bool :=
  match p with PUnder ds => negb (list_eqb ds []) | PLit cs => negb (list_eqb cs []) end.
Definition root_entry : mentry := {| e_path := []; e_dir := true |}.

Lemma last_name_cons : forall d ds, exists x, last_name (d :: ds) = [x].
Proof.
  intros d ds. unfold last_name. destruct (rev (d :: ds)) as [|x r] eqn:E.
  - apply (f_equal (@length N)) in E. rewrite rev_length in E. discriminate E.
  - exists x. reflexivity.
Qed.

Lemma root_pattern_verdicts : forall p, names_something p = true ->
  m_on_path p root_entry = false /\ m_on_name p root_entry = false /\ m_name_fallback p root_entry = false.
Proof.
  intros [ds|cs] H.
  - destruct ds as [|d ds']; [discriminate H|].
    split; [reflexivity|]. split; [reflexivity|].
    unfold m_name_fallback, root_entry. cbn [e_path].
    destruct (last_name_cons d ds') as (x & Hx). rewrite Hx. reflexivity.
  - destruct cs as [|c cs']; [discriminate H|]. repeat split; reflexivity.
Qed.

Lemma existsb_false_on_named : forall (f : mpat -> bool),
  (forall p, names_something p = true -> f p = false) ->
  forall ps, forallb names_something ps = true -> existsb f ps = false.
Proof.
  intros f Hf ps. induction ps as [|p ps IH]; intro H; [reflexivity|].
  cbn [forallb] in H. apply andb_true_iff in H as [Hp Hps].
  cbn [existsb]. rewrite (Hf p Hp), (IH Hps). reflexivity.
Qed.

Lemma root_never_excluded : forall ps, forallb names_something ps = true ->
  struct_excluded mpat mentry e_dir m_on_path m_on_name m_name_fallback ps root_entry = false /\
  plain_excluded mpat mentry m_on_path ps root_entry = false.
Proof.
  intros ps H. unfold struct_excluded, plain_excluded.
  rewrite (existsb_false_on_named (fun p => m_on_name p root_entry || m_on_path p root_entry)); [|
    intros p Hp; destruct (root_pattern_verdicts p Hp) as (P & Nm & _); rewrite P, Nm; reflexivity | exact H].
  rewrite (existsb_false_on_named (fun p => m_name_fallback p root_entry)); [|
    intros p Hp; destruct (root_pattern_verdicts p Hp) as (_ & _ & F); exact F | exact H].
  rewrite (existsb_false_on_named (fun p => m_on_path p root_entry)); [|
    intros p Hp; destruct (root_pattern_verdicts p Hp) as (P & _ & _); exact P | exact H].
  split; [apply andb_false_r|reflexivity].
Qed.

Example root_not_excluded_by_its_own_name :
  (* patterns build/** and build, the project directory is called build: the root is still scanned *)
  struct_excluded mpat mentry e_dir m_on_path m_on_name m_name_fallback [PUnder [2]%N; PLit [2]%N] root_entry = false.
Proof. reflexivity. Qed.
