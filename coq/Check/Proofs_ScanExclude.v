(* Check/Proofs_ScanExclude.v *)
From Coq Require Import NArith List Bool.
From SG Require Import Check.ScanExclude.
Import ListNotations.

Section Generic.
  Variables pat entry : Type.
  Variable is_dir : entry -> bool.
  Variables on_path on_name name_fallback under_dir : pat -> entry -> bool.
  Local Notation plain := (plain_excluded pat entry on_path).
  Local Notation struct := (struct_excluded pat entry is_dir on_path on_name name_fallback).
  Local Notation Known := (KnownBasename pat entry is_dir on_path on_name name_fallback under_dir).

  (* the structure-aware scanner never keeps what the plain scanner drops *)
  Lemma struct_complete : forall ps e, plain ps e = true -> struct ps e = true.
  Proof.
    intros ps e H. unfold struct_excluded. apply orb_true_iff. left.
    unfold plain_excluded in H. apply existsb_exists in H as (p & Hin & Hp).
    apply existsb_exists. exists p. split; [exact Hin|]. rewrite Hp. apply orb_true_r.
  Qed.

  (* outside the recorded class, whatever it drops is matched on its path, or is a directory whose whole
     content a pattern covers *)
  Lemma struct_sound_modulo_known : forall ps e,
    ~ Known ps e -> struct ps e = true ->
    plain ps e = true \/ (is_dir e = true /\ exists p, In p ps /\ under_dir p e = true).
  Proof.
    intros ps e NK H. unfold struct_excluded in H. apply orb_true_iff in H as [H|H].
    - apply existsb_exists in H as (p & Hin & Hp). apply orb_true_iff in Hp as [Hn|Hp].
      + destruct (on_path p e) eqn:E.
        * left. apply existsb_exists. exists p. auto.
        * exfalso. apply NK. exists p. split; [exact Hin|]. left. auto.
      + left. apply existsb_exists. exists p. auto.
    - apply andb_true_iff in H as [Hd H]. apply existsb_exists in H as (p & Hin & Hf).
      destruct (on_path p e) eqn:E.
      + left. apply existsb_exists. exists p. auto.
      + destruct (under_dir p e) eqn:U.
        * right. split; [exact Hd|]. exists p. auto.
        * exfalso. apply NK. exists p. split; [exact Hin|]. right. auto.
  Qed.
End Generic.

(* the witnesses: docs=1 build=2 src=3 gen.rs=4 *)
Definition w_pats : list mpat := [PUnder [1; 2]%N; PLit [4]%N].
Definition w_dir : mentry := {| e_path := [3; 2]%N; e_dir := true |}.     (* src/build *)
Definition w_file : mentry := {| e_path := [3; 4]%N; e_dir := false |}.   (* src/gen.rs *)

Lemma basename_exclusion_witnesses :
  struct_excluded mpat mentry e_dir m_on_path m_on_name m_name_fallback w_pats w_dir = true /\
  plain_excluded mpat mentry m_on_path w_pats w_dir = false /\
  existsb (fun p => m_under_dir p w_dir) w_pats = false /\
  struct_excluded mpat mentry e_dir m_on_path m_on_name m_name_fallback w_pats w_file = true /\
  plain_excluded mpat mentry m_on_path w_pats w_file = false.
Proof. vm_compute. repeat split; reflexivity. Qed.

Lemma two_readings_differ :
  exists ps e, struct_excluded mpat mentry e_dir m_on_path m_on_name m_name_fallback ps e
               <> plain_excluded mpat mentry m_on_path ps e.
Proof. exists w_pats, w_file. vm_compute. discriminate. Qed.
