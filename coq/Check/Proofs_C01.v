(* Check/Proofs_C01.v *)
From Coq Require Import NArith List Bool Lia.
From SG Require Import Check.Results Check.BMap Check.ExitCode Check.Ratchet Check.Baseline Check.Proofs_Check Check.Pipeline.
Import ListNotations.
Open Scope N_scope.

Lemma verdict_failed_iff : forall c lim w, verdict c lim w = Failed <-> lim < c.
Proof.
  intros c lim w. unfold verdict. destruct (lim <? c) eqn:E.
  - apply N.ltb_lt in E. tauto.
  - apply N.ltb_ge in E. destruct (w <=? c); split; intros H; try discriminate; lia.
Qed.

Lemma verdict_warning_iff : forall c lim w, verdict c lim w = Warning <-> w <= c /\ c <= lim.
Proof.
  intros c lim w. unfold verdict. destruct (lim <? c) eqn:E.
  - apply N.ltb_lt in E. split; [discriminate|lia].
  - apply N.ltb_ge in E. destruct (w <=? c) eqn:E2.
    + apply N.leb_le in E2. tauto.
    + apply N.leb_gt in E2. split; [discriminate|lia].
Qed.

Lemma in_content_results : forall fs r,
  In r (content_results fs) <-> exists f, In f fs /\ content_result f = Some r.
Proof.
  induction fs as [|f fs IH]; intros r; cbn [content_results].
  - split; [intros []|intros (f & [] & _)].
  - destruct (content_result f) as [r0|] eqn:E.
    + cbn [In]. rewrite IH. split.
      * intros [<-|(g & Hg & Hr)]; [exists f; split; [now left|exact E]|exists g; split; [now right|exact Hr]].
      * intros (g & [<-|Hg] & Hr); [left; congruence|right; exists g; tauto].
    + rewrite IH. split.
      * intros (g & Hg & Hr). exists g. split; [now right|exact Hr].
      * intros (g & [<-|Hg] & Hr); [congruence|exists g; tauto].
Qed.

(* what the run reports: the pre-baseline results, each Failed one with a baseline entry turned
   into Grandfathered *)
Definition loaded_of (fl : flags) (disk : option baseline) : option baseline :=
  match load_for_run fl disk with Some l => l | None => None end.

Lemma check_step_results : forall fl R dirs disk l,
  load_for_run fl disk = Some l ->
  o_results (check_step fl R dirs disk) =
  match l with Some b => apply_baseline_comparison R b | None => R end.
Proof. intros fl R dirs disk l H. unfold check_step. rewrite H. reflexivity. Qed.

Lemma gf_status : forall b r,
  r_status (if is_failed r && contains (key_of r) b then into_grandfathered r else r) =
  match r_status r with
  | Failed => if contains (norm_key (r_path r)) b then Grandfathered else Failed
  | s => s
  end.
Proof.
  intros b r. unfold key_of. unfold is_failed at 1.
  destruct (r_status r) eqn:E; cbn [andb]; try exact E.
  destruct (contains (norm_key (r_path r)) b); [|exact E].
  unfold into_grandfathered, is_failed. rewrite E. reflexivity.
Qed.

Definition gfo (l : option baseline) (r : result) : result :=
  match l with
  | Some b => if is_failed r && contains (key_of r) b then into_grandfathered r else r
  | None => r
  end.

Lemma gfo_fields : forall l r,
  r_path (gfo l r) = r_path r /\ r_kind (gfo l r) = r_kind r /\ r_code (gfo l r) = r_code r /\
  r_limit (gfo l r) = r_limit r /\ r_status (gfo l r) = spec_sstatus l r.
Proof.
  intros l r. destruct l as [b|]; cbn [gfo].
  - pose proof (gf_status b r) as Hst. unfold spec_sstatus, grandfathered_by.
    destruct (is_failed r && contains (key_of r) b).
    + unfold into_grandfathered in *. destruct (is_failed r); cbn in *; repeat split; exact Hst.
    + repeat split. exact Hst.
  - repeat split. unfold spec_sstatus, grandfathered_by. destruct (r_status r); reflexivity.
Qed.

Lemma results_are_gfo : forall fl R dirs disk l,
  load_for_run fl disk = Some l -> o_results (check_step fl R dirs disk) = map (gfo l) R.
Proof.
  intros fl R dirs disk l H. rewrite (check_step_results fl R dirs disk l H).
  destruct l as [b|]; [reflexivity|]. cbn [gfo]. now rewrite map_id.
Qed.

Theorem statuses_exact : forall fl fs sres dirs disk l,
  load_for_run fl disk = Some l ->
  let out := check_run false fl fs sres dirs disk in
  (* every in-scope file is reported, with the status the rules assign *)
  (forall f, In f fs -> in_scope f = true ->
     exists r, In r (o_results out) /\ r_path r = ff_path f /\ r_kind r = Content /\
               r_status r = spec_status l f /\ r_code r = ff_count f /\ r_limit r = ff_limit f) /\
  (* nothing else is reported: every result is an in-scope file's, or one of the structure results
     with its status adjusted by the baseline only *)
  (forall r, In r (o_results out) ->
     (exists f, In f fs /\ in_scope f = true /\ r_path r = ff_path f /\ r_status r = spec_status l f) \/
     (exists s, In s sres /\ r_path r = r_path s /\ r_kind r = r_kind s /\ r_status r = spec_sstatus l s)).
Proof.
  intros fl fs sres dirs disk l Hl out. unfold out, check_run.
  rewrite (results_are_gfo fl _ dirs disk l Hl). split.
  - intros f Hf Hs.
    set (r0 := mkResult (ff_path f) Content (verdict (ff_count f) (ff_limit f) (ff_warn f)) (ff_count f) (ff_limit f) (ff_hash f)).
    assert (Hin : In r0 (pre_results fs sres)).
    { unfold pre_results. apply in_or_app. left. apply in_content_results. exists f. split; [exact Hf|].
      unfold content_result. now rewrite Hs. }
    exists (gfo l r0). split; [apply in_map; exact Hin|].
    destruct (gfo_fields l r0) as (P1 & P2 & P3 & P4 & P5).
    rewrite P1, P2, P3, P4, P5. repeat split.
  - intros r Hr. apply in_map_iff in Hr as (r0 & Er & Hin). subst r.
    destruct (gfo_fields l r0) as (P1 & P2 & P3 & P4 & P5).
    unfold pre_results in Hin. apply in_app_or in Hin as [Hin|Hin].
    + left. apply in_content_results in Hin as (f & Hf & Hc). unfold content_result in Hc.
      destruct (in_scope f) eqn:Es; [|discriminate]. inversion Hc; subst r0. clear Hc.
      exists f. split; [exact Hf|]. split; [exact Es|]. rewrite P1, P5. split; reflexivity.
    + right. exists r0. rewrite P1, P2, P5. repeat split. exact Hin.
Qed.

(* exit code *)
Lemma check_step_exit : forall fl R dirs disk l,
  load_for_run fl disk = Some l ->
  exists rf, o_exit (check_step fl R dirs disk) =
             determine_exit_code (o_results (check_step fl R dirs disk)) (f_warn_only fl) (f_wae fl) rf /\
             rf = ro_failed (handle_baseline_ratchet (f_ratchet_cli fl) (f_ratchet_cfg fl)
                               (o_results (check_step fl R dirs disk))
                               (evaluated_of (o_results (check_step fl R dirs disk)) dirs) l).
Proof.
  intros fl R dirs disk l H. unfold check_step. rewrite H. cbn [o_exit o_results]. eexists. split; reflexivity.
Qed.

Lemma ratchet_failed_strict : forall cli cfg rs ev ob,
  ro_failed (handle_baseline_ratchet cli cfg rs ev ob) = true ->
  effective_ratchet cli cfg = Some RStrict /\
  exists b, ob = Some b /\ retain_evaluated ev (check_baseline_ratchet rs b) <> [].
Proof.
  intros cli cfg rs ev ob H. unfold handle_baseline_ratchet in H.
  destruct (effective_ratchet cli cfg) as [m|]; [|discriminate].
  destruct ob as [b|]; [|discriminate].
  destruct (retain_evaluated ev (check_baseline_ratchet rs b)) eqn:E; [discriminate|].
  destruct m; try discriminate. split; [reflexivity|]. exists b. split; [reflexivity|]. rewrite E. discriminate.
Qed.

Theorem exit0_sound : forall fl fs sres dirs disk l,
  load_for_run fl disk = Some l ->
  let out := check_run false fl fs sres dirs disk in
  o_exit out = 0 -> f_warn_only fl = false ->
  (forall f, In f fs -> in_scope f = true ->
     ff_count f <= ff_limit f \/ grandfathered_by l (ff_path f) = true) /\
  (forall s, In s sres -> r_status s = Failed -> grandfathered_by l (r_path s) = true).
Proof.
  intros fl fs sres dirs disk l Hl out Hex Hwo.
  destruct (statuses_exact fl fs sres dirs disk l Hl) as [Hfiles _]. fold out in Hfiles.
  unfold out, check_run in Hex.
  destruct (check_step_exit fl (pre_results fs sres) dirs disk l Hl) as (rf & He & _).
  rewrite He in Hex. rewrite Hwo in Hex.
  assert (Hnof : forall r, In r (o_results (check_step fl (pre_results fs sres) dirs disk)) -> is_failed r = false).
  { intros r Hr. destruct (is_failed r) eqn:E; [|reflexivity]. exfalso.
    assert (determine_exit_code (o_results (check_step fl (pre_results fs sres) dirs disk)) false (f_wae fl) rf = 1).
    { apply exit_1_iff. split; [reflexivity|]. left. exists r. tauto. }
    rewrite H in Hex. discriminate. }
  split.
  - intros f Hf Hs. destruct (Hfiles f Hf Hs) as (r & Hr & _ & _ & Hst & _).
    unfold out, check_run in Hr. specialize (Hnof r Hr). unfold is_failed in Hnof. rewrite Hst in Hnof.
    unfold spec_status in Hnof.
    destruct (verdict (ff_count f) (ff_limit f) (ff_warn f)) eqn:Ev.
    + left. destruct (N.le_gt_cases (ff_count f) (ff_limit f)) as [H|H]; [exact H|].
      pose proof (proj2 (verdict_failed_iff (ff_count f) (ff_limit f) (ff_warn f)) H). congruence.
    + left. apply verdict_warning_iff in Ev. tauto.
    + right. destruct (grandfathered_by l (ff_path f)); [reflexivity|discriminate].
    + left. unfold verdict in Ev. destruct (ff_limit f <? ff_count f); [discriminate|]. destruct (ff_warn f <=? ff_count f); discriminate.
  - intros s Hs Hst.
    rewrite (results_are_gfo fl _ dirs disk l Hl) in Hnof.
    assert (Hin : In (gfo l s) (map (gfo l) (pre_results fs sres))).
    { apply in_map. unfold pre_results. apply in_or_app. now right. }
    specialize (Hnof _ Hin). destruct (gfo_fields l s) as (_ & _ & _ & _ & P5).
    unfold is_failed in Hnof. rewrite P5 in Hnof. unfold spec_sstatus in Hnof. rewrite Hst in Hnof.
    destruct (grandfathered_by l (r_path s)); [reflexivity|discriminate].
Qed.

Theorem exit1_iff : forall fl fs sres dirs disk l,
  load_for_run fl disk = Some l ->
  let out := check_run false fl fs sres dirs disk in
  o_exit out = 1 <->
  f_warn_only fl = false /\
  ((exists r, In r (o_results out) /\ r_status r = Failed) \/
   (f_wae fl = true /\ exists r, In r (o_results out) /\ r_status r = Warning) \/
   ro_failed (handle_baseline_ratchet (f_ratchet_cli fl) (f_ratchet_cfg fl) (o_results out)
                (evaluated_of (o_results out) dirs) l) = true).
Proof.
  intros fl fs sres dirs disk l Hl out. unfold out, check_run.
  destruct (check_step_exit fl (pre_results fs sres) dirs disk l Hl) as (rf & He & Hrf).
  rewrite He, exit_1_iff. rewrite <- Hrf.
  split; intros (H0 & H); (split; [exact H0|]).
  - destruct H as [(r & Hr & Hf)|[(Hw & r & Hr & Hwn)|H]].
    + left. exists r. split; [exact Hr|]. unfold is_failed in Hf. destruct (r_status r); try discriminate. reflexivity.
    + right. left. split; [exact Hw|]. exists r. split; [exact Hr|]. unfold is_warning in Hwn. destruct (r_status r); try discriminate. reflexivity.
    + right. right. exact H.
  - destruct H as [(r & Hr & Hf)|[(Hw & r & Hr & Hwn)|H]].
    + left. exists r. split; [exact Hr|]. unfold is_failed. now rewrite Hf.
    + right. left. split; [exact Hw|]. exists r. split; [exact Hr|]. unfold is_warning. now rewrite Hwn.
    + right. right. exact H.
Qed.

Theorem warn_only_forces_zero : forall fl fs sres dirs disk l,
  load_for_run fl disk = Some l -> f_warn_only fl = true ->
  o_exit (check_run false fl fs sres dirs disk) = 0.
Proof.
  intros fl fs sres dirs disk l Hl Hw. unfold check_run.
  destruct (check_step_exit fl (pre_results fs sres) dirs disk l Hl) as (rf & He & _).
  rewrite He, Hw. apply warn_only_forces_0.
Qed.

Theorem exit2_only_errors : forall ce fl fs sres dirs disk,
  o_exit (check_run ce fl fs sres dirs disk) = 2 <-> ce = true \/ load_for_run fl disk = None.
Proof.
  intros ce fl fs sres dirs disk. unfold check_run. destruct ce.
  - cbn. split; [now left|reflexivity].
  - destruct (load_for_run fl disk) as [l|] eqn:Hl.
    + destruct (check_step_exit fl (pre_results fs sres) dirs disk l Hl) as (rf & He & _). rewrite He.
      destruct (exit_0_or_1 (o_results (check_step fl (pre_results fs sres) dirs disk)) (f_warn_only fl) (f_wae fl) rf) as [H|H];
        rewrite H; split; try discriminate; intros [H1|H1]; discriminate.
    + unfold check_step. rewrite Hl. cbn. split; [now right|reflexivity].
Qed.
