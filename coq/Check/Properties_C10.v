(* Properties_C10.v -- C10: the ratchet only ever shrinks the baseline, and only for violations
   really resolved. Property theorems only; each is closed by [exact <lemma>]
   (Check/Proofs_C10.v) and followed by Print Assumptions.

   Model: Check/Ratchet.v (check_baseline_ratchet, retain_evaluated = EvaluatedPaths::covers,
   tighten_baseline, handle_baseline_ratchet with the mode from flag over config) inside
   check_step (Check/Baseline.v). The evaluated set of a run is explicit:
     evaluated = paths of the content results of the run (any status) ++ dirs
   (a structure result at the path of a file - missing sibling, naming, allow/deny lists - does not
   make the file's line count evaluated: fix D85) where [dirs] are the directories whose counts the structure block checked plus, for a run
   that scanned directories, the baseline keys whose path no longer exists. A run restricted by
   --files, --diff/--staged, sub-path roots or cut short by fail-fast simply has fewer results.
   Keys are path_key of the path (fix D08) and a loaded baseline is re-keyed: [view disk] is the
   file as a run sees it; a file written by the fixed code is its own view ([ostable]).
   The model is that of the tree WITH fixes/D11-ratchet-evaluated-set.patch; before it
   C10_stale_only_if_evaluated_and_resolved and C10_strict_fails_only_for_resolved were refuted
   for partial runs (witness in known_findings/C10.json, section fixed); and WITH
   fixes/D85-ratchet-evaluated-content-results.patch: before it the evaluated set held the paths
   of ALL results, and the weaker statement with [map key_of R] was all that could be proved -- a
   warn-severity missing-sibling result at the path of a recorded file that --diff or a fail-fast
   short-circuit kept out of the file loop made its entry stale (Example C10_structure_result_is_not_evaluation). *)
From Coq Require Import NArith List Bool.
From SG Require Import Check.Results Check.ExitCode Check.BMap Check.Ratchet Check.Baseline
     Check.Proofs_Check Check.Proofs_C10 Check.Proofs_Keys.
Import ListNotations.
Open Scope N_scope.

(* every run without --update-baseline either leaves the baseline file untouched or leaves a
   subset of the baseline as loaded: each entry afterwards was there before, unchanged; every
   flag set, ratchet mode, result list (so: every restriction of the evaluated set) *)
Theorem C10_subset :
  forall fl R dirs disk,
  f_update fl = None ->
  o_disk (check_step fl R dirs disk) = disk \/
  (forall k e, olookup k (o_disk (check_step fl R dirs disk)) = Some e -> olookup k (view disk) = Some e).
Proof. exact subset_entries. Qed.
Print Assumptions C10_subset.

(* no run adds or rewrites an entry, or creates the file, without --update-baseline *)
Theorem C10_no_add_without_update :
  forall fl R dirs disk,
  f_update fl = None ->
  (disk = None -> o_disk (check_step fl R dirs disk) = None) /\
  (o_disk (check_step fl R dirs disk) = disk \/
   forall k e, olookup k (o_disk (check_step fl R dirs disk)) = Some e -> olookup k (view disk) = Some e).
Proof. exact no_add_without_update. Qed.
Print Assumptions C10_no_add_without_update.

(* after an auto tightening, a rerun on the same state finds nothing stale and changes nothing *)
Theorem C10_auto_fixpoint :
  forall fl R dirs b,
  f_baseline fl = true -> f_update fl = None ->
  effective_ratchet (f_ratchet_cli fl) (f_ratchet_cfg fl) = Some RAuto ->
  let out1 := check_step fl R dirs (Some b) in
  let out2 := check_step fl R dirs (o_disk out1) in
  o_stale out2 = [] /\ o_disk out2 = o_disk out1 /\ o_results out2 = o_results out1 /\
  o_exit out2 = o_exit out1.
Proof. exact auto_fixpoint. Qed.
Print Assumptions C10_auto_fixpoint.

(* a path is reported stale (warn, strict) or removed (auto) only if it is a baseline key, was
   evaluated in this run - it is the path of a content result (the file's lines were counted) or
   one of [dirs] -, and no result of the run at that path is a violation *)
Theorem C10_stale_only_if_evaluated_and_resolved :
  forall fl R dirs disk k,
  In k (o_stale (check_step fl R dirs disk)) ->
  In k (okeys (view disk)) /\
  In k (map key_of (content_results R) ++ dirs) /\
  (forall r, In r R -> key_of r = k -> violating r = false).
Proof. exact stale_evaluated_resolved. Qed.
Print Assumptions C10_stale_only_if_evaluated_and_resolved.

(* ... and an entry disappears from the file only if it was reported stale in that run *)
Theorem C10_removed_only_if_stale :
  forall fl R dirs disk k e,
  f_update fl = None -> o_exit (check_step fl R dirs disk) <> 2 ->
  ostable disk ->
  olookup k disk = Some e ->
  olookup k (o_disk (check_step fl R dirs disk)) = None ->
  In k (o_stale (check_step fl R dirs disk)).
Proof. exact removed_only_if_stale. Qed.
Print Assumptions C10_removed_only_if_stale.

(* exit 1 has one of three causes; the ratchet cause needs strict mode and an entry that was
   evaluated and is resolved -- entries for paths not evaluated never fail a strict run *)
Theorem C10_strict_fails_only_for_resolved :
  forall fl R dirs disk,
  o_exit (check_step fl R dirs disk) = 1 ->
  f_warn_only fl = false /\
  ((exists r, In r (o_results (check_step fl R dirs disk)) /\ is_failed r = true) \/
   (f_wae fl = true /\ exists r, In r R /\ is_warning r = true) \/
   (effective_ratchet (f_ratchet_cli fl) (f_ratchet_cfg fl) = Some RStrict /\
    exists k, In k (okeys (view disk)) /\ In k (map key_of (content_results R) ++ dirs) /\
              (forall r, In r R -> key_of r = k -> violating r = false))).
Proof. exact strict_fails_only_for_resolved. Qed.
Print Assumptions C10_strict_fails_only_for_resolved.

(* fix D55: a path that is not valid UTF-8 has no key; an entry of a baseline file (a Unicode
   string: [ovalid]) is never reported stale or removed on the strength of a result at such a path
   -- before the repair the lossy form of src/<fe>.rs was the key of src/<ff>.rs as well, and
   `--files src/<fe>.rs --ratchet auto` removed the entry of the still violating other file *)
Theorem C10_stale_needs_keyed_path :
  forall fl R dirs disk k r,
  ovalid disk -> In k (o_stale (check_step fl R dirs disk)) -> In r R -> key_of r = k -> has_key r = true.
Proof. exact stale_needs_keyed_path. Qed.
Print Assumptions C10_stale_needs_keyed_path.

(* ---- non-vacuity and witnesses *)
Definition ka : key := [97].
Definition kb : key := [98].
Definition bl2 : baseline := [(ka, EContent 12 [1]); (kb, EContent 12 [2])].
Definition pa : result := mkResult [46;47;97] Content Passed 3 10 [4].     (* ./a resolved *)
Definition fb : result := mkResult [46;47;98] Content Failed 12 10 [2].    (* ./b still over *)
Definition auto_fl : flags := mkFlags true None (Some RAuto) None false false false.
Definition strict_fl : flags := mkFlags true None None (Some RStrict) false false false.

(* a full run: ./a is evaluated and resolved, so auto removes exactly it and strict fails *)
Example C10_auto_nonvacuous :
  o_disk (check_step auto_fl [pa; fb] [] (Some bl2)) = Some [(kb, EContent 12 [2])] /\
  o_stale (check_step auto_fl [pa; fb] [] (Some bl2)) = [ka] /\
  o_exit (check_step strict_fl [pa] [] (Some [(ka, EContent 12 [1])])) = 1.
Proof. vm_compute. repeat split; reflexivity. Qed.
Print Assumptions C10_auto_nonvacuous.

(* the former D11 witness: a run that evaluated only ./c (--files c.rs) leaves the baseline
   alone under auto and passes under strict *)
Example C10_partial_run_untouched :
  let pc := mkResult [46;47;99] Content Passed 3 10 [5] in
  o_disk (check_step auto_fl [pc] [] (Some bl2)) = Some bl2 /\
  o_stale (check_step strict_fl [pc] [] (Some bl2)) = [] /\
  o_exit (check_step strict_fl [pc] [] (Some bl2)) = 0.
Proof. vm_compute. repeat split; reflexivity. Qed.
Print Assumptions C10_partial_run_untouched.

(* the former D85 witness: --diff (or a fail-fast short-circuit) kept ./a out of the file loop; the
   only result at its path is the warn-severity missing_sibling result of the structure block
   (Placement 5). Its entry is left alone under auto and strict passes; once the file loop has
   counted ./a and found it within the limit the entry is stale as before *)
Example C10_structure_result_is_not_evaluation :
  let sib := mkResult [46;47;97] (Structure (Placement 5)) Warning 0 0 [] in
  let pc := mkResult [46;47;99] Content Passed 3 10 [5] in
  let bl := Some [(ka, EContent 12 [1])] in
  o_disk (check_step auto_fl [pc; sib] [[46]] bl) = bl /\
  o_stale (check_step strict_fl [pc; sib] [[46]] bl) = [] /\
  o_exit (check_step strict_fl [pc; sib] [[46]] bl) = 0 /\
  o_stale (check_step auto_fl [pc; pa; sib] [[46]] bl) = [ka].
Proof. vm_compute. repeat split; reflexivity. Qed.
Print Assumptions C10_structure_result_is_not_evaluation.

(* the flag wins over the configuration; warn mode never touches the file *)
Example C10_mode_precedence :
  let fl := mkFlags true None (Some RWarn) (Some RAuto) false false false in
  o_disk (check_step fl [pa; fb] [] (Some bl2)) = Some bl2 /\ o_stale (check_step fl [pa; fb] [] (Some bl2)) = [ka].
Proof. vm_compute. split; reflexivity. Qed.
Print Assumptions C10_mode_precedence.

(* the former D55 witness: the file holds the lossy key of src/<ff>.rs (written before the repair);
   a run that evaluated only the passing src/<fe>.rs leaves it alone under auto, passes under strict *)
Example C10_no_key_untouched :
  let rfe := mkResult [115;114;99;47;56574;46;114;115] Content Passed 1 10 [] in
  let bl := Some [([115;114;99;47;65533;46;114;115], EContent 30 [])] in
  has_key rfe = false /\
  o_disk (check_step auto_fl [rfe] [] bl) = bl /\ o_stale (check_step strict_fl [rfe] [] bl) = [] /\
  o_exit (check_step strict_fl [rfe] [] bl) = 0.
Proof. vm_compute. repeat split; reflexivity. Qed.
Print Assumptions C10_no_key_untouched.
