(* Check/Proofs_C11.v -- lemmas behind Properties_C11.v. *)
From Coq Require Import NArith List Bool Lia PeanoNat.
From SG Require Import Check.Results Check.ExitCode Check.BMap Check.Ratchet Check.Baseline
     Check.FailFast Check.Proofs_Check Check.Proofs_C09.
Import ListNotations.
Open Scope N_scope.

(* ------------------------------------------------------------------ the relation *)
Lemma sublist_app : forall (A : Type) (l' l s : list A), sublist l' l -> sublist (l' ++ s) (l ++ s).
Proof. intros A l' l s H. induction H; cbn; try (constructor; assumption). apply sublist_refl. Qed.

Lemma sublist_nil : forall (A : Type) (l : list A), sublist [] l.
Proof. induction l; constructor; assumption. Qed.

(* structure results are appended after the loop on both sides *)
Lemma ff_sub_app : forall trig R R' S, ff_sub_gen trig R R' -> ff_sub_gen trig (R ++ S) (R' ++ S).
Proof.
  intros trig R R' S [HS H]. split.
  - apply sublist_app. assumption.
  - intro NE. destruct H as [r [HI T]].
    + intro E. apply NE. rewrite E. reflexivity.
    + exists r. split; auto. apply in_or_app. auto.
Qed.

Lemma ff_sub_refl : forall trig R, ff_sub_gen trig R R.
Proof. intros trig R. split; [apply sublist_refl|]. intro H. exfalso. apply H. reflexivity. Qed.

(* every sequential schedule is an instance *)
Lemma ff_seq_sub : forall trig R, ff_sub_gen trig R (ff_seq_gen trig R).
Proof.
  intros trig R. split.
  - induction R as [|r R IH]; cbn; [constructor|].
    destruct (trig r); apply sl_keep; [apply sublist_nil | assumption].
  - induction R as [|r R IH]; cbn; intro NE; [exfalso; apply NE; reflexivity|].
    destruct (trig r) eqn:T.
    + exists r. split; [left; reflexivity | assumption].
    + destruct IH as [r' [HI T']].
      * intro E. apply NE. rewrite E. reflexivity.
      * exists r'. split; [right; assumption | assumption].
Qed.

(* the executable test used on observed traces is sound *)
Lemma vtype_eqb_eq : forall a b, vtype_eqb a b = true -> a = b.
Proof. destruct a, b; cbn; intro H; try discriminate; auto. apply N.eqb_eq in H. subst. reflexivity. Qed.

Lemma kind_eqb_eq : forall a b, kind_eqb a b = true -> a = b.
Proof. destruct a, b; cbn; intro H; try discriminate; auto. apply vtype_eqb_eq in H. subst. reflexivity. Qed.

Lemma status_eqb_eq : forall a b, status_eqb a b = true -> a = b.
Proof. destruct a, b; cbn; intro H; try discriminate; reflexivity. Qed.

Lemma result_eqb_eq : forall a b, result_eqb a b = true -> a = b.
Proof.
  intros [p k s c l h] [p' k' s' c' l' h']. unfold result_eqb. cbn.
  rewrite !andb_true_iff. intros [[[[[H1 H2] H3] H4] H5] H6].
  apply str_eqb_eq in H1. apply kind_eqb_eq in H2. apply status_eqb_eq in H3.
  apply N.eqb_eq in H4. apply N.eqb_eq in H5. apply str_eqb_eq in H6. subst. reflexivity.
Qed.

Lemma sublistb_sound : forall l l', sublistb l' l = true -> sublist l' l.
Proof.
  induction l as [|y t IH]; intros l' H.
  - destruct l'; [constructor | discriminate].
  - destruct l' as [|x t']; [apply sublist_nil|]. cbn in H.
    destruct (result_eqb x y) eqn:E.
    + apply result_eqb_eq in E. subst. apply sl_keep. apply IH. assumption.
    + apply sl_skip. apply IH. assumption.
Qed.

Lemma ff_subb_sound : forall trig R R', ff_subb_gen trig R R' = true -> ff_sub_gen trig R R'.
Proof.
  intros trig R R' H. unfold ff_subb_gen in H. apply andb_true_iff in H. destruct H as [HS H].
  apply sublistb_sound in HS. split; auto.
  intro NE. apply orb_true_iff in H. destruct H as [H|H].
  - exfalso. apply NE. apply sublist_length_eq; auto. apply N.eqb_eq in H. lia.
  - apply existsb_exists in H. exact H.
Qed.

(* ------------------------------------------------------------------ exit code under fail-fast *)
Lemma trigger_none : forall r, ff_trigger None r = is_failed r.
Proof. intro r. unfold ff_trigger. cbn. apply andb_true_r. Qed.

Lemma exit_invariant_no_baseline : forall R R' wo wae rf,
  ff_sub None R R' ->
  determine_exit_code R' wo wae rf = determine_exit_code R wo wae rf.
Proof.
  intros R R' wo wae rf HS.
  destruct (ff_sub_cases _ _ _ HS) as [E | [r [HI T]]]; [subst; reflexivity|].
  rewrite trigger_none in T.
  destruct wo; [reflexivity|].
  assert (E1 : determine_exit_code R' false wae rf = 1).
  { apply exit_1_iff. split; auto. left. eauto. }
  assert (E2 : determine_exit_code R false wae rf = 1).
  { apply exit_1_iff. split; auto. left. exists r. split; auto.
    destruct HS as [HS _]. eapply sublist_In; eauto. }
  congruence.
Qed.

Lemma warn_only_exit : forall fl R dirs disk,
  f_warn_only fl = true -> o_exit (check_step fl R dirs disk) = 0 \/ o_exit (check_step fl R dirs disk) = 2.
Proof.
  intros fl R dirs disk W. unfold check_step.
  destruct (load_for_run fl disk); cbn [o_exit]; auto. rewrite W. left. reflexivity.
Qed.

(* with a baseline loaded as well: same exit code for every fail-fast execution *)
Lemma exit_invariant : forall fl R R' dirs disk loaded,
  load_for_run fl disk = Some loaded ->
  ff_sub loaded R R' ->
  o_exit (check_step fl R' dirs disk) = o_exit (check_step fl R dirs disk).
Proof.
  intros fl R R' dirs disk loaded HL HS.
  destruct (ff_sub_cases _ _ _ HS) as [E | [r [HI T]]]; [subst; reflexivity|].
  destruct (f_warn_only fl) eqn:W.
  - unfold check_step. rewrite HL. cbn [o_exit]. rewrite W. reflexivity.
  - assert (HIR : In r R) by (destruct HS as [HS _]; eapply sublist_In; eauto).
    destruct (unrecorded_always_fails fl R R' dirs disk loaded r HL HS HIR T W) as [E1 _].
    destruct (unrecorded_always_fails fl R R dirs disk loaded r HL (ff_sub_refl _ R) HIR T W) as [E2 _].
    congruence.
Qed.

Lemma never_passes_failing_run : forall fl R R' dirs disk loaded,
  load_for_run fl disk = Some loaded ->
  ff_sub loaded R R' ->
  o_exit (check_step fl R dirs disk) = 1 -> o_exit (check_step fl R' dirs disk) = 1.
Proof. intros. erewrite exit_invariant; eauto. Qed.

Lemma no_ff_results_identical : forall ob R R1 R2 fl dirs disk,
  loop_results false ob R R1 -> loop_results false ob R R2 ->
  R1 = R2 /\ check_step fl R1 dirs disk = check_step fl R2 dirs disk.
Proof. intros ob R R1 R2 fl dirs disk H1 H2. cbn in *. subst. auto. Qed.

(* ------------------------------------------------------------------ the loop as a run configures it (D56) *)
Lemma update_run_not_truncated : forall fl ob R R',
  f_update fl <> None -> run_loop fl ob R R' -> R' = R.
Proof.
  intros fl ob R R' HU H. unfold run_loop, effective_fail_fast in H.
  destruct (f_update fl); [|congruence]. rewrite andb_false_r in H. exact H.
Qed.

Lemma run_loop_sub : forall fl ob R R', run_loop fl ob R R' -> ff_sub ob R R'.
Proof.
  intros fl ob R R' H. unfold run_loop in H. destruct (effective_fail_fast fl); cbn in H; [exact H|].
  subst. apply ff_sub_refl.
Qed.

Lemma run_loop_exit : forall fl R R' dirs disk loaded,
  load_for_run fl disk = Some loaded ->
  run_loop fl loaded R R' ->
  o_exit (check_step fl R' dirs disk) = o_exit (check_step fl R dirs disk).
Proof. intros fl R R' dirs disk loaded HL H. eapply exit_invariant; eauto. eapply run_loop_sub; eauto. Qed.

Lemma run_loop_update_outcome : forall fl R R' dirs disk ob,
  f_update fl <> None -> run_loop fl ob R R' ->
  check_step fl R' dirs disk = check_step fl R dirs disk.
Proof. intros fl R R' dirs disk ob HU H. rewrite (update_run_not_truncated fl ob R R' HU H). reflexivity. Qed.

Lemma check_step_ignores_ff_flag : forall m we ff R dirs disk,
  check_step (update_flags_ff m we ff) R dirs disk = check_step (update_flags m we) R dirs disk.
Proof. reflexivity. Qed.

Lemma update_under_fail_fast_same_file : forall m we ff ob R R' dirs disk,
  run_loop (update_flags_ff m we ff) ob R R' ->
  o_disk (check_step (update_flags_ff m we ff) R' dirs disk) = o_disk (check_step (update_flags m we) R dirs disk).
Proof.
  intros m we ff ob R R' dirs disk H.
  assert (HU : f_update (update_flags_ff m we ff) <> None) by (cbn; discriminate).
  rewrite (update_run_not_truncated _ ob R R' HU H).
  rewrite check_step_ignores_ff_flag. reflexivity.
Qed.

(* ------------------------------------------------------------------ known debt is a matter of the key only
   is_new_failure asks whether the baseline CONTAINS the key; the figures an entry records (lines,
   hash, count) play no part: a recorded file that has grown since the baseline was written is
   still known debt and does not stop a fail-fast run (seeded change C09-m8 compared the current
   size with the recorded one). *)
Lemma contains_keys_only : forall k b b', keys b = keys b' -> contains k b = contains k b'.
Proof.
  intros k b. unfold contains. induction b as [|[k1 e1] b IH]; intros [|[k2 e2] b'] H; try discriminate.
  - reflexivity.
  - cbn [keys map fst] in H. injection H as E1 E2. subst k2. cbn [lookup].
    destruct (str_eqb k k1); [reflexivity|]. apply IH. exact E2.
Qed.

Lemma ff_trigger_keys_only : forall b b' r,
  keys b = keys b' -> ff_trigger (Some b) r = ff_trigger (Some b') r.
Proof.
  intros b b' r H. unfold ff_trigger. rewrite (contains_keys_only (key_of r) b b' H). reflexivity.
Qed.

Lemma ff_sub_keys_only : forall b b' R R',
  keys b = keys b' -> ff_sub (Some b) R R' -> ff_sub (Some b') R R'.
Proof.
  intros b b' R R' H. unfold ff_sub.
  assert (E : forall r, ff_trigger (Some b) r = ff_trigger (Some b') r) by (intro r; apply ff_trigger_keys_only; exact H).
  unfold ff_sub_gen. intros [S D]. split; [exact S|].
  intro N. destruct (D N) as [r [HI T]]. exists r. split; [exact HI|]. rewrite <- E. exact T.
Qed.

Lemma known_debt_keys_only : forall (b b' : baseline) (R R' : list result),
  keys b = keys b' ->
  ((forall r : result, ff_trigger (Some b) r = ff_trigger (Some b') r) /\
   (ff_sub (Some b) R R' -> ff_sub (Some b') R R'))%type.
Proof.
  intros b b' R R' H. split.
  - intro r. exact (ff_trigger_keys_only b b' r H).
  - exact (ff_sub_keys_only b b' R R' H).
Qed.

(* the comparison looks at the KEYS of the baseline only: neither the recorded line count nor the
   recorded hash of any entry decides whether a result is grandfathered (seeded changes C09-m10 /
   C11-m11 let the entry of a vanished path grandfather another file with the same hash) *)
Lemma apply_keys_only : forall b b' rs,
  keys b = keys b' -> apply_baseline_comparison rs b = apply_baseline_comparison rs b'.
Proof.
  intros b b' rs H. rewrite !apply_is_map. apply map_ext. intro r. unfold gf.
  rewrite (contains_keys_only (key_of r) b b' H). reflexivity.
Qed.
