(* Check/Ratchet.v -- check_baseline_ratchet, tighten_baseline, handle_baseline_ratchet of
   src/commands/check/check_baseline_ops.rs (definitions only).

   The evaluated set is explicit: [evaluated] is the list of keys the run looked at (the paths of
   all results of the run, whatever their status, plus the directories of dir_stats when the
   structure block of runner.rs ran). The code as it stands never consults it (that is D11); the
   specification in Properties_C10.v does. *)
From Coq Require Import NArith List Bool.
From SG Require Import Check.Results Check.BMap.
Import ListNotations.
Open Scope N_scope.

Inductive rmode := RWarn | RAuto | RStrict.

(* current_failures: paths of the results that are Failed or Grandfathered *)
Definition current_failures (results : list result) : list key :=
  map key_of (filter (fun r => is_failed r || is_grandfathered r) results).

(* stale_paths (before sorting; order is irrelevant to every caller but the message) *)
Definition check_baseline_ratchet (results : list result) (evaluated : list key) (b : baseline)
  : list key :=
  filter (fun k => negb (mem_key k (current_failures results))) (keys b).

Definition tighten_baseline (b : baseline) (stale : list key) : baseline :=
  fold_left (fun acc k => remove k acc) stale b.

(* CLI takes precedence over config *)
Definition effective_ratchet (cli cfg : option rmode) : option rmode :=
  match cli with Some m => Some m | None => cfg end.

Record ratchet_out := mkRO {
  ro_failed : bool;                 (* the bool returned: strict mode found stale entries *)
  ro_baseline : option baseline;    (* baseline_for_ratchet after the call *)
  ro_saved : bool;                  (* the baseline file was rewritten (auto mode) *)
  ro_stale : list key               (* what was reported / removed *)
}.

Definition handle_baseline_ratchet (cli cfg : option rmode) (results : list result)
           (evaluated : list key) (ob : option baseline) : ratchet_out :=
  match effective_ratchet cli cfg with
  | None => mkRO false ob false []
  | Some mode =>
    match ob with
    | None => mkRO false None false []           (* warning only: no baseline found *)
    | Some b =>
      let stale := check_baseline_ratchet results evaluated b in
      match stale with
      | [] => mkRO false ob false []
      | _ =>
        match mode with
        | RWarn => mkRO false ob false stale
        | RAuto => mkRO false (Some (tighten_baseline b stale)) true stale
        | RStrict => mkRO true ob false stale
        end
      end
    end
  end.

(* the evaluated set of a run, as the repaired code computes it / as the specification uses it *)
Definition evaluated_of (results : list result) (dirs : list key) : list key :=
  map key_of results ++ dirs.
