(* Check/Ratchet.v -- check_baseline_ratchet, tighten_baseline, handle_baseline_ratchet of
   src/commands/check/check_baseline_ops.rs (definitions only).

   The evaluated set is explicit: [evaluated] is the list of keys the run looked at: the paths of
   the CONTENT results of the run (the files whose lines were counted), whatever their status --
   a structure result at the path of a file (missing sibling, naming, allow/deny lists) does not
   count: under --diff/--staged or after a fail-fast short-circuit such a file was not
   content-checked (repair of D85, fixes/D85-*.patch) -- plus the directories of dir_stats when the
   structure block of runner.rs ran, plus - for a run that scanned directories - the baseline
   keys whose path no longer exists (EvaluatedPaths::covers; the existence test is an oracle
   column supplied with the directories). handle_baseline_ratchet keeps only the stale paths
   the evaluated set covers (repair of D11, fixes/D11-ratchet-evaluated-set.patch). *)
From Coq Require Import NArith List Bool.
From SG Require Import Check.Results Check.BMap.
Import ListNotations.
Open Scope N_scope.

Inductive rmode := RWarn | RAuto | RStrict.

(* current_failures: paths of the results that are Failed or Grandfathered *)
Definition current_failures (results : list result) : list key :=
  map key_of (filter (fun r => is_failed r || is_grandfathered r) results).

(* stale_paths (before sorting; order is irrelevant to every caller but the message):
   the re-exported function, which knows nothing about the evaluated set *)
Definition check_baseline_ratchet (results : list result) (b : baseline) : list key :=
  filter (fun k => negb (mem_key k (current_failures results))) (keys b).

(* RatchetResult::retain(|p| evaluated.covers(p)) *)
Definition retain_evaluated (evaluated : list key) (stale : list key) : list key :=
  filter (fun k => mem_key k evaluated) stale.

Definition tighten_baseline (b : baseline) (stale : list key) : baseline :=
  fold_left (fun acc k => remove k acc) stale b.

(* CLI takes precedence over config *)
Definition effective_ratchet (cli cfg : option rmode) : option rmode :=
  match cli with Some m => Some m | None => cfg end.

Record ratchet_out := mkRO {
  ro_failed : bool;                 (* the bool returned: strict mode found stale entries *)
  ro_baseline : option baseline;    (* baseline_for_ratchet after the call *)
  ro_saved : bool;                  (* the baseline file was rewritten (auto mode) *)
  ro_stale : list key               (* what was reported / removed *)
}.

Definition handle_baseline_ratchet (cli cfg : option rmode) (results : list result)
           (evaluated : list key) (ob : option baseline) : ratchet_out :=
  match effective_ratchet cli cfg with
  | None => mkRO false ob false []
  | Some mode =>
    match ob with
    | None => mkRO false None false []           (* warning only: no baseline found *)
    | Some b =>
      let stale := retain_evaluated evaluated (check_baseline_ratchet results b) in
      match stale with
      | [] => mkRO false ob false []
      | _ =>
        match mode with
        | RWarn => mkRO false ob false stale
        | RAuto => mkRO false (Some (tighten_baseline b stale)) true stale
        | RStrict => mkRO true ob false stale
        end
      end
    end
  end.

(* the evaluated set of a run: paths of the content results (runner.rs filters with
   is_structure_violation_result), then [dirs] = the directories the structure block
   counted plus (directory-scan runs) the baseline keys whose path no longer exists *)
Definition content_results (results : list result) : list result :=
  filter (fun r => negb (is_structure r)) results.
Definition evaluated_of (results : list result) (dirs : list key) : list key :=
  map key_of (content_results results) ++ dirs.
