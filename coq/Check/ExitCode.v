(* Check/ExitCode.v -- determine_exit_code of src/commands/check/check_exit.rs (definitions only).
   EXIT_SUCCESS = 0, EXIT_THRESHOLD_EXCEEDED = 1 (src/lib.rs); 2 is produced only by run_check's
   error arm and never by this function. *)
From Coq Require Import NArith List Bool.
From SG Require Import Check.Results.
Import ListNotations.
Open Scope N_scope.

Definition EXIT_SUCCESS : N := 0.
Definition EXIT_THRESHOLD_EXCEEDED : N := 1.
Definition EXIT_CONFIG_ERROR : N := 2.

Definition determine_exit_code (results : list result)
           (warn_only warnings_as_errors ratchet_failed : bool) : N :=
  if warn_only then EXIT_SUCCESS
  else
    let has_failures := existsb is_failed results in
    let has_warnings := existsb is_warning results in
    if has_failures || (warnings_as_errors && has_warnings) || ratchet_failed
    then EXIT_THRESHOLD_EXCEEDED else EXIT_SUCCESS.
