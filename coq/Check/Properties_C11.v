(* Properties_C11.v -- C11: fail-fast and parallelism never change the verdict. Property theorems
   only; each is closed by [exact <lemma>] (Check/Proofs_C11.v, Proofs_Check.v) and followed by
   Print Assumptions.

   Model: Check/FailFast.v. R is the result list of the full run in file-list order. A fail-fast
   execution of the parallel loop returns some R' with [ff_sub loaded R R']: a sublist of R that,
   if anything was dropped, contains a result that sets the flag (ff_trigger: Failed and not
   grandfathered by the loaded baseline). Keys are path_key of the path (fix D08). FailFast.v argues that this over-approximates every
   interleaving of any number of rayon workers under Relaxed ordering; the theorems hold for ALL
   such R', so for every schedule. The model is that of the tree WITH
   fixes/D12-failfast-skips-grandfathered.patch; before it the trigger was is_failed alone and
   C11_never_passes_failing_run was refuted with a baseline (witness in known_findings/C11.json,
   section fixed). Rayon's scheduler and memory model are argued, not modelled. *)
From Coq Require Import NArith List Bool.
From SG Require Import Check.Results Check.ExitCode Check.BMap Check.Ratchet Check.Baseline
     Check.FailFast Check.Proofs_Check Check.Proofs_C09 Check.Proofs_C11.
Import ListNotations.
Open Scope N_scope.

(* exit-code lemmas (also the exit clauses of C01) *)
Theorem C11_exit_1_iff :
  forall rs wo wae rf,
  determine_exit_code rs wo wae rf = 1 <->
  wo = false /\ ((exists r, In r rs /\ is_failed r = true) \/
                 (wae = true /\ exists r, In r rs /\ is_warning r = true) \/
                 rf = true).
Proof. exact exit_1_iff. Qed.
Print Assumptions C11_exit_1_iff.

Theorem C11_warn_only_forces_0 : forall rs wae rf, determine_exit_code rs true wae rf = 0.
Proof. exact warn_only_forces_0. Qed.
Print Assumptions C11_warn_only_forces_0.

Theorem C11_exit_0_or_1 :
  forall rs wo wae rf, determine_exit_code rs wo wae rf = 0 \/ determine_exit_code rs wo wae rf = 1.
Proof. exact exit_0_or_1. Qed.
Print Assumptions C11_exit_0_or_1.

(* without a baseline: every fail-fast execution has the exit code of the full run, for all
   flag combinations (warn_only, warnings_as_errors, ratchet_failed) *)
Theorem C11_exit_invariant_no_baseline :
  forall R R' wo wae rf,
  ff_sub None R R' ->
  determine_exit_code R' wo wae rf = determine_exit_code R wo wae rf.
Proof. exact exit_invariant_no_baseline. Qed.
Print Assumptions C11_exit_invariant_no_baseline.

(* with any loaded baseline, any ratchet mode, any update mode: the whole run (comparison,
   ratchet, update, exit code) exits the same for every fail-fast execution *)
Theorem C11_exit_invariant :
  forall fl R R' dirs disk loaded,
  load_for_run fl disk = Some loaded ->
  ff_sub loaded R R' ->
  o_exit (check_step fl R' dirs disk) = o_exit (check_step fl R dirs disk).
Proof. exact exit_invariant. Qed.
Print Assumptions C11_exit_invariant.

(* in particular fail-fast never turns a failing run into a passing one, also when the first
   failure met is one the baseline grandfathers *)
Theorem C11_never_passes_failing_run :
  forall fl R R' dirs disk loaded,
  load_for_run fl disk = Some loaded ->
  ff_sub loaded R R' ->
  o_exit (check_step fl R dirs disk) = 1 -> o_exit (check_step fl R' dirs disk) = 1.
Proof. exact never_passes_failing_run. Qed.
Print Assumptions C11_never_passes_failing_run.

(* the loop as a run configures it (fix D56: a run with --update-baseline ignores fail-fast):
   same exit code as the full run for every flag set, and an updating run has the whole outcome
   of the run without fail-fast -- results, exit code and the file it writes *)
Theorem C11_exit_invariant_run_loop :
  forall fl R R' dirs disk loaded,
  load_for_run fl disk = Some loaded ->
  run_loop fl loaded R R' ->
  o_exit (check_step fl R' dirs disk) = o_exit (check_step fl R dirs disk).
Proof. exact run_loop_exit. Qed.
Print Assumptions C11_exit_invariant_run_loop.

Theorem C11_update_run_same_outcome :
  forall fl R R' dirs disk ob,
  f_update fl <> None -> run_loop fl ob R R' ->
  check_step fl R' dirs disk = check_step fl R dirs disk.
Proof. exact run_loop_update_outcome. Qed.
Print Assumptions C11_update_run_same_outcome.

(* without fail-fast the loop is a map with an order-preserving collect: whatever the number of
   workers the result list is R, hence the whole outcome is identical *)
Theorem C11_no_ff_results_identical :
  forall ob R R1 R2 fl dirs disk,
  loop_results false ob R R1 -> loop_results false ob R R2 ->
  R1 = R2 /\ check_step fl R1 dirs disk = check_step fl R2 dirs disk.
Proof. exact no_ff_results_identical. Qed.
Print Assumptions C11_no_ff_results_identical.

(* the relation contains every sequential schedule, is closed under appending the structure
   results, and the executable test applied to observed traces is sound for it *)
Theorem C11_sequential_schedules_covered :
  forall trig R, ff_sub_gen trig R (ff_seq_gen trig R).
Proof. exact ff_seq_sub. Qed.
Print Assumptions C11_sequential_schedules_covered.

Theorem C11_structure_results_appended :
  forall trig R R' S, ff_sub_gen trig R R' -> ff_sub_gen trig (R ++ S) (R' ++ S).
Proof. exact ff_sub_app. Qed.
Print Assumptions C11_structure_results_appended.

Theorem C11_trace_test_sound :
  forall trig R R', ff_subb_gen trig R R' = true -> ff_sub_gen trig R R'.
Proof. exact ff_subb_sound. Qed.
Print Assumptions C11_trace_test_sound.

(* ---- non-vacuity and witnesses *)
Definition ga : result := mkResult [46;47;97] Content Failed 12 10 [1].
Definition gb : result := mkResult [46;47;98] Content Failed 12 10 [2].
Definition gc : result := mkResult [46;47;99] Content Passed 3 10 [3].
Definition gbl : option baseline := Some [([97], EContent 12 [1])].
Definition ff_fl : flags := mkFlags true None None None false false true.

(* a genuine drop: the sequential run stops after b (a is grandfathered and does not stop it) *)
Example C11_ff_sub_nonvacuous :
  ff_seq gbl [ga; gb; gc] = [ga; gb] /\ ff_subb gbl [ga; gb; gc] [ga; gb] = true /\
  ff_subb gbl [ga; gb; gc] [ga] = false /\
  o_exit (check_step ff_fl [ga; gb] [] gbl) = 1 /\ o_exit (check_step ff_fl [ga; gb; gc] [] gbl) = 1.
Proof. vm_compute. repeat split; reflexivity. Qed.
Print Assumptions C11_ff_sub_nonvacuous.

(* the pre-repair relation (trigger = is_failed) admitted R' = [ga], which exits 0: D12 *)
Example C11_old_trigger_refuted :
  ff_subb_gen is_failed [ga; gb; gc] [ga] = true /\
  o_exit (check_step ff_fl [ga] [] gbl) = 0 /\ o_exit (check_step ff_fl [ga; gb; gc] [] gbl) = 1.
Proof. vm_compute. repeat split; reflexivity. Qed.
Print Assumptions C11_old_trigger_refuted.

(* known debt is a matter of the key only: the figures an entry records (lines, hash, count) play no
   part in what stops a fail-fast run, so a recorded file that has grown (or shrunk) since the
   baseline was written is still known debt; two baselines with the same keys admit the same
   fail-fast executions *)
Theorem C11_known_debt_whatever_the_recorded_figures :
  forall (b b' : baseline) (R R' : list result),
  keys b = keys b' ->
  ((forall r : result, ff_trigger (Some b) r = ff_trigger (Some b') r) /\
   (ff_sub (Some b) R R' -> ff_sub (Some b') R R'))%type.
Proof. exact known_debt_keys_only. Qed.
Print Assumptions C11_known_debt_whatever_the_recorded_figures.

(* ./a is recorded with 12 lines and has grown to 15: it still does not stop the sequential run, which
   goes on to the unrecorded ./b and exits 1 (the seeded change C09-m8 stopped at ./a and exited 0) *)
Example C11_grown_recorded_file_is_known_debt :
  let ga15 := mkResult [46;47;97] Content Failed 15 10 [9] in
  ff_trigger gbl ga15 = false /\ ff_seq gbl [ga15; gb; gc] = [ga15; gb] /\
  ff_subb gbl [ga15; gb; gc] [ga15] = false /\
  o_exit (check_step ff_fl [ga15; gb] [] gbl) = 1.
Proof. vm_compute. repeat split; reflexivity. Qed.
Print Assumptions C11_grown_recorded_file_is_known_debt.

(* a stale entry of a deleted file under strict ratchet and fail-fast: nothing stops the loop, the
   deleted path counts as evaluated (a directory scan saw it gone: it arrives in [dirs]), exit 1
   with and without fail-fast *)
Example C11_stale_entry_under_fail_fast :
  let bl := Some [([111], EContent 30 [])] in
  let fl := mkFlags true None (Some RStrict) None false false true in
  ff_seq (view bl) [gc] = [gc] /\ o_exit (check_step fl [gc] [[111]] bl) = 1 /\
  o_exit (check_step (mkFlags true None (Some RStrict) None false false false) [gc] [[111]] bl) = 1.
Proof. vm_compute. repeat split; reflexivity. Qed.
Print Assumptions C11_stale_entry_under_fail_fast.
