(* Check/Proofs_C09.v -- lemmas behind Properties_C09.v. *)
From Coq Require Import NArith List Bool Lia PeanoNat.
From SG Require Import Check.Results Check.ExitCode Check.BMap Check.Ratchet Check.Baseline
     Check.FailFast Check.Proofs_Check.
Import ListNotations.
Open Scope N_scope.

(* ------------------------------------------------------------------ sublists *)
Lemma sublist_In : forall (A : Type) (l' l : list A), sublist l' l -> forall x, In x l' -> In x l.
Proof. intros A l' l H. induction H; intros y HI; cbn in *; auto. destruct HI; auto. Qed.

Lemma sublist_length : forall (A : Type) (l' l : list A), sublist l' l -> (length l' <= length l)%nat.
Proof. intros A l' l H. induction H; cbn; lia. Qed.

Lemma sublist_length_eq : forall (A : Type) (l' l : list A),
  sublist l' l -> length l' = length l -> l' = l.
Proof.
  intros A l' l H. induction H; intro E; auto.
  - apply sublist_length in H. cbn in E. lia.
  - cbn in E. f_equal. apply IHsublist. lia.
Qed.

Lemma sublist_refl : forall (A : Type) (l : list A), sublist l l.
Proof. induction l; [apply sl_nil | apply sl_keep; assumption]. Qed.

(* either nothing was dropped, or a triggering result is present *)
Lemma ff_sub_cases : forall trig R R', ff_sub_gen trig R R' ->
  R' = R \/ exists r, In r R' /\ trig r = true.
Proof.
  intros trig R R' [S H].
  destruct (Nat.eq_dec (length R') (length R)) as [E|E].
  - left. apply sublist_length_eq; auto.
  - right. apply H. intro Eq. subst. auto.
Qed.

(* ------------------------------------------------------------------ spelling independence *)
Lemma key_spelling_invariant : forall p,
  norm_key (norm_key p) = norm_key p /\
  (SG.Paths.Model.is_abs (SG.Paths.Model.unbackslash p) = false ->
   norm_key (46 :: 47 :: p) = norm_key p /\ norm_key (46 :: 92 :: p) = norm_key p).
Proof. intro p. split; [apply norm_key_idem | apply norm_key_prefix]. Qed.

(* ------------------------------------------------------------------ keys written by an update are stable *)
Lemma update_keys_stable : forall R m ex,
  stable_results R -> ostable ex -> stable_bl (update_baseline_from_results R m ex).
Proof.
  intros R m ex HR HE k HK. apply In_keys_lookup in HK. destruct HK as [e HK].
  apply update_origin in HK. destruct HK as [HK|HK].
  - destruct ex as [b|]; cbn [existing_or_empty] in HK; [|cbn in HK; congruence].
    apply HE. destruct (lookup k b) eqn:L; [|congruence]. eapply lookup_In_keys; eauto.
  - apply in_map_iff in HK. destruct HK as [r [E HI]]. subst k. apply HR.
    apply filter_In in HI. tauto.
Qed.

Lemma ostable_view_view : forall ob,
  (forall k, In k (match ob with Some b => keys b | None => [] end) -> stable_key (norm_key k)) ->
  ostable (view ob).
Proof.
  intros [b|] H; cbn; auto. intros k HK. rewrite keys_rekey in HK.
  apply in_map_iff in HK. destruct HK as [k0 [E HI]]. subst k. apply H. assumption.
Qed.

(* ------------------------------------------------------------------ round trip *)
Definition results_after (ob : option baseline) (rs : list result) : list result :=
  match ob with Some b => apply_baseline_comparison rs b | None => rs end.

Lemma check_step_loaded : forall fl R dirs disk loaded,
  load_for_run fl disk = Some loaded ->
  o_results (check_step fl R dirs disk) = results_after loaded R.
Proof. intros. unfold check_step. rewrite H. reflexivity. Qed.

Lemma all_keys_written : forall R ex k e,
  lookup k (update_baseline_from_results R UAll ex) = Some e ->
  exists r, In r R /\ violating r = true /\ key_of r = k.
Proof.
  intros R ex k e. unfold update_baseline_from_results.
  rewrite lookup_fold_update by discriminate. cbn [update_start].
  destruct (lw UAll k R) eqn:L; cbn; try discriminate.
  intros _. apply lw_some_inv in L. destruct L as [r [HI W]].
  apply write_of_facts in W. destruct W as [V [K _]]. apply records_violating in V. eauto.
Qed.

Lemma all_contains_recordable : forall R ex r,
  In r R -> violating r = true -> recordable r = true ->
  contains (key_of r) (update_baseline_from_results R UAll ex) = true.
Proof.
  intros R ex r HI V Rc. apply contains_lookup. unfold update_baseline_from_results.
  destruct (write_of_all r V Rc) as [e W].
  destruct (lw_some_of_in _ _ _ _ _ HI W) as [e' L].
  exists e'. rewrite lookup_fold_update by discriminate. rewrite L. reflexivity.
Qed.

Lemma no_stale_after_all : forall R ex,
  let B := update_baseline_from_results R UAll ex in
  check_baseline_ratchet (map (gf B) R) B = [].
Proof.
  intros R ex B. unfold check_baseline_ratchet.
  assert (H : forall k, In k (keys B) -> negb (mem_key k (current_failures (map (gf B) R))) = false).
  { intros k HK. apply In_keys_lookup in HK. destruct HK as [e HK].
    apply all_keys_written in HK. destruct HK as [r [HI [V K]]].
    apply negb_false_iff. apply mem_key_In. unfold current_failures.
    rewrite <- K, <- (key_of_gf B r). apply in_map. apply filter_In. split.
    - apply in_map. assumption.
    - fold (violating (gf B r)). rewrite violating_gf. assumption. }
  induction (keys B) as [|k ks IH]; cbn; auto.
  rewrite H by (left; reflexivity). apply IH. intros k' HK. apply H. right. assumption.
Qed.

Lemma roundtrip : forall (R : list result) (dirs : list key) (disk0 : option baseline) (we : bool) (fl : flags),
  f_baseline fl = true -> f_update fl = None ->
  let disk1 := o_disk (check_step (update_flags UAll we) R dirs disk0) in
  let out := check_step fl R dirs disk1 in
  (forall r, In r R -> is_failed r = true -> recordable r = true ->
             In (with_status r Grandfathered) (o_results out)) /\
  o_stale out = [] /\
  o_disk out = disk1 /\
  (o_exit out = 1 <->
   f_warn_only fl = false /\
   ((exists r, In r R /\ is_failed r = true /\ recordable r = false /\ In r (o_results out)) \/
    (f_wae fl = true /\ exists r, In r R /\ is_warning r = true))) /\
  (o_exit out = 0 \/ o_exit out = 1).
Proof.
  intros R dirs disk0 we fl HB HU. pose proof (stable_results_all R) as HSt.
  cbv zeta. rewrite update_run_disk.
  set (B := update_baseline_from_results R UAll (view disk0)) in *.
  set (out := check_step fl R dirs (Some B)).
  assert (RK : rekey B = B).
  { apply rekey_stable. intros k HK. apply In_keys_lookup in HK. destruct HK as [e HK].
    apply all_keys_written in HK. destruct HK as [r [HI [_ K]]]. subst k. apply HSt. assumption. }
  assert (HR : o_results out = map (gf B) R).
  { subst out. unfold check_step, load_for_run. rewrite HB, RK. reflexivity. }
  assert (HRO : handle_baseline_ratchet (f_ratchet_cli fl) (f_ratchet_cfg fl) (map (gf B) R)
                  (evaluated_of (map (gf B) R) dirs) (Some B) = mkRO false (Some B) false []).
  { unfold handle_baseline_ratchet. cbv zeta. destruct (effective_ratchet _ _); auto.
    subst B. rewrite no_stale_after_all. reflexivity. }
  assert (HO : out = mkOutcome (map (gf B) R)
                 (determine_exit_code (map (gf B) R) (f_warn_only fl) (f_wae fl) false) (Some B) []).
  { subst out. unfold check_step, load_for_run. rewrite HB, HU, RK. cbn [results_after].
    rewrite apply_is_map, HRO. reflexivity. }
  rewrite HO. cbn [o_results o_stale o_disk o_exit].
  split; [|split; [reflexivity|split; [reflexivity|split]]].
  - intros r HI F Rc.
    assert (C : contains (key_of r) B = true).
    { apply all_contains_recordable; auto. unfold violating. rewrite F. reflexivity. }
    destruct (gf_cases B r) as [[_ [_ E]] | [[F'|C'] _]]; try congruence.
    rewrite <- E. apply in_map. assumption.
  - rewrite exit_1_iff. split.
    + intros [W [[r' [HI F]] | [[HW [r' [HI Wn]]] | Hf]]]; try discriminate; split; auto.
      * left. destruct (failed_in_apply _ _ _ HI F) as [HIR C].
        exists r'. repeat split; auto.
        destruct (recordable r') eqn:Rc; auto.
        assert (C2 : contains (key_of r') B = true).
        { apply all_contains_recordable; auto. unfold violating. rewrite F. reflexivity. }
        congruence.
      * right. split; auto. apply in_map_iff in HI. destruct HI as [r [E HI]]. subst r'.
        rewrite is_warning_gf in Wn. eauto.
    + intros [W [[r [HI [F [Rc HIo]]]] | [HW [r [HI Wn]]]]]; split; auto.
      * left. eauto.
      * right. left. split; auto. exists (gf B r). split; [apply in_map; auto|].
        rewrite is_warning_gf. assumption.
  - apply exit_0_or_1.
Qed.

(* ------------------------------------------------------------------ unrecorded violations always fail *)
Lemma trigger_stays_failed : forall loaded r,
  ff_trigger loaded r = true -> forall rs, In r rs -> In r (results_after loaded rs) /\ is_failed r = true.
Proof.
  intros loaded r T rs HI. unfold ff_trigger in T. apply andb_true_iff in T. destruct T as [F C].
  split; auto. destruct loaded as [b|]; cbn [results_after]; auto.
  rewrite apply_is_map. apply negb_true_iff in C.
  destruct (gf_cases b r) as [[_ [C' _]] | [_ E]]; try congruence.
  rewrite <- E. apply in_map. assumption.
Qed.

Lemma unrecorded_always_fails : forall fl R R' dirs' disk loaded r,
  load_for_run fl disk = Some loaded ->
  ff_sub loaded R R' ->
  In r R -> ff_trigger loaded r = true ->
  f_warn_only fl = false ->
  o_exit (check_step fl R' dirs' disk) = 1 /\
  (In r R' -> In r (o_results (check_step fl R' dirs' disk))).
Proof.
  intros fl R R' dirs' disk loaded r HL HS HI T W.
  assert (EX : exists r', In r' R' /\ ff_trigger loaded r' = true).
  { destruct (ff_sub_cases _ _ _ HS) as [E | H]; auto. subst. eauto. }
  split.
  - destruct EX as [r' [HI' T']].
    destruct (trigger_stays_failed _ _ T' _ HI') as [HIo F].
    unfold check_step. rewrite HL. cbn [o_exit]. apply exit_1_iff. split; auto. left.
    exists r'. split; auto.
  - intro HI'. rewrite (check_step_loaded _ _ _ _ _ HL). apply trigger_stays_failed; auto.
Qed.

(* ------------------------------------------------------------------ new never drops *)
Lemma ratchet_keeps_unstale : forall cli cfg rs ev b k e,
  let ro := handle_baseline_ratchet cli cfg rs ev (Some b) in
  lookup k b = Some e -> ~ In k (ro_stale ro) ->
  exists b', ro_baseline ro = Some b' /\ lookup k b' = Some e.
Proof.
  intros cli cfg rs ev b k e ro HL HN. subst ro. unfold handle_baseline_ratchet in *. cbv zeta in *.
  destruct (effective_ratchet cli cfg) as [mode|]; [|exists b; auto].
  destruct (retain_evaluated ev (check_baseline_ratchet rs b)) as [|s ss] eqn:S; [exists b; auto|].
  destruct mode; cbn [ro_baseline ro_stale] in *; try (exists b; auto; fail).
  eexists. split; [reflexivity|]. rewrite lookup_tighten.
  apply mem_key_false in HN. rewrite HN. assumption.
Qed.

Lemma new_never_drops : forall fl R dirs b k e,
  f_update fl = Some UNew ->
  lookup k (rekey b) = Some e ->
  ~ In k (o_stale (check_step fl R dirs (Some b))) ->
  exists b', o_disk (check_step fl R dirs (Some b)) = Some b' /\ lookup k b' = Some e.
Proof.
  intros fl R dirs b k e HU HL HN. unfold check_step, load_for_run in *. rewrite HU in *.
  destruct (f_baseline fl); cbn [o_disk o_stale] in *.
  - set (ro := handle_baseline_ratchet _ _ _ _ (Some (rekey b))) in *.
    destruct (ratchet_keeps_unstale _ _ _ _ _ _ _ HL HN) as [b' [E L]]. fold ro in E.
    rewrite E. eexists. split; [reflexivity|].
    unfold update_baseline_from_results. apply fold_new_keeps. assumption.
  - rewrite ratchet_no_baseline. cbn [ro_baseline ro_saved view]. eexists. split; [reflexivity|].
    unfold update_baseline_from_results. apply fold_new_keeps. assumption.
Qed.

(* ------------------------------------------------------------------ content / structure keep the other kind *)
Lemma lw_content_kind : forall k R e, lw UContent k R = Some e -> is_content_entry e = true.
Proof.
  intros k R e L. apply lw_some_inv in L. destruct L as [r [_ W]].
  apply write_of_facts in W. destruct W as [_ [_ [_ [HC HS]]]].
  destruct (is_structure r) eqn:S.
  - destruct (HS eq_refl) as [_ [M|M]]; discriminate.
  - destruct (HC eq_refl) as [E _]. subst. reflexivity.
Qed.

Lemma lw_structure_kind : forall k R e, lw UStructure k R = Some e -> is_structure_entry e = true.
Proof.
  intros k R e L. apply lw_some_inv in L. destruct L as [r [_ W]].
  apply write_of_facts in W. destruct W as [_ [_ [_ [HC HS]]]].
  destruct (is_structure r) eqn:S.
  - destruct (HS eq_refl) as [E _]. assumption.
  - destruct (HC eq_refl) as [_ [M|M]]; discriminate.
Qed.

Lemma entry_kinds : forall e, is_content_entry e = negb (is_structure_entry e).
Proof. destruct e; reflexivity. Qed.

Lemma content_mode_preserves : forall R b k e, is_structure_entry e = true ->
  (lookup k (update_baseline_from_results R UContent (Some b)) = Some e <->
   lookup k b = Some e /\
   forall r, In r R -> records r = true -> is_structure r = false -> key_of r <> k).
Proof.
  intros R b k e SE. unfold update_baseline_from_results.
  rewrite lookup_fold_update by discriminate. cbn [update_start existing_or_empty].
  rewrite lookup_filter_entries.
  destruct (lw UContent k R) as [e'|] eqn:L.
  - split.
    + intro H. inversion H; subst. apply lw_content_kind in L. rewrite entry_kinds, SE in L. discriminate.
    + intros [_ H]. exfalso. apply lw_some_inv in L. destruct L as [r [HI W]].
      pose proof (write_of_facts _ _ _ _ W) as [V [K [_ [HC HS]]]].
      destruct (is_structure r) eqn:S.
      * destruct (HS eq_refl) as [_ [M|M]]; discriminate.
      * apply (H r HI V S). auto.
  - split.
    + intro H. destruct (lookup k b) as [e0|]; try discriminate.
      destruct (is_structure_entry e0) eqn:S0; try discriminate. inversion H; subst. split; auto.
      intros r HI V S K. eapply lw_none_inv with (r := r) (e := EContent (r_code r) (r_hash r)); eauto.
      unfold write_of. rewrite V, S, K. reflexivity.
    + intros [H _]. rewrite H, SE. reflexivity.
Qed.

Lemma structure_mode_preserves : forall R b k e, is_content_entry e = true ->
  (lookup k (update_baseline_from_results R UStructure (Some b)) = Some e <->
   lookup k b = Some e /\
   forall r, In r R -> records r = true -> baselinable r <> None -> key_of r <> k).
Proof.
  intros R b k e CE. unfold update_baseline_from_results.
  rewrite lookup_fold_update by discriminate. cbn [update_start existing_or_empty].
  rewrite lookup_filter_entries.
  destruct (lw UStructure k R) as [e'|] eqn:L.
  - split.
    + intro H. inversion H; subst. apply lw_structure_kind in L. rewrite entry_kinds, L in CE. discriminate.
    + intros [_ H]. exfalso. apply lw_some_inv in L. destruct L as [r [HI W]].
      pose proof (write_of_facts _ _ _ _ W) as [V [K [Rc [HC HS]]]].
      destruct (is_structure r) eqn:S.
      * apply (H r HI V); auto. unfold recordable in Rc. apply andb_true_iff in Rc.
        destruct Rc as [_ Rc]. rewrite S in Rc. cbn in Rc.
        destruct (baselinable r); congruence.
      * destruct (HC eq_refl) as [_ [M|M]]; discriminate.
  - split.
    + intro H. destruct (lookup k b) as [e0|]; try discriminate.
      destruct (is_content_entry e0) eqn:S0; try discriminate. inversion H; subst. split; auto.
      intros r HI V Bl K.
      destruct (baselinable r) as [[vt c]|] eqn:Br; try congruence.
      assert (S : is_structure r = true).
      { unfold baselinable, is_structure in *. destruct (r_kind r); auto; discriminate. }
      eapply lw_none_inv with (r := r) (e := EStructure vt c); eauto.
      unfold write_of. rewrite V, S, Br, K. reflexivity.
    + intros [H _]. rewrite H, CE. reflexivity.
Qed.

Lemma modes_preserve_other_kind : forall R dirs b we k e,
  let d1 := o_disk (check_step (update_flags UContent we) R dirs (Some b)) in
  let d2 := o_disk (check_step (update_flags UStructure we) R dirs (Some b)) in
  (is_structure_entry e = true ->
   (olookup k d1 = Some e <->
    lookup k (rekey b) = Some e /\
    forall r, In r R -> records r = true -> is_structure r = false -> key_of r <> k)) /\
  (is_content_entry e = true ->
   (olookup k d2 = Some e <->
    lookup k (rekey b) = Some e /\
    forall r, In r R -> records r = true -> baselinable r <> None -> key_of r <> k)).
Proof.
  intros R dirs b we k e d1 d2. subst d1 d2. rewrite !update_run_disk. cbn [olookup view]. split; intro H.
  - apply content_mode_preserves; assumption.
  - apply structure_mode_preserves; assumption.
Qed.

(* ------------------------------------------------------------------ updating twice *)
Lemma update_twice : forall m R ex k,
  lookup k (update_baseline_from_results R m (Some (update_baseline_from_results R m ex))) =
  lookup k (update_baseline_from_results R m ex).
Proof.
  intros m R ex k. destruct m.
  - unfold update_baseline_from_results. reflexivity.
  - unfold update_baseline_from_results at 1.
    rewrite lookup_fold_update by discriminate. cbn [update_start existing_or_empty].
    rewrite lookup_filter_entries.
    unfold update_baseline_from_results.
    rewrite lookup_fold_update by discriminate. cbn [update_start].
    destruct (lw UContent k R); auto.
    rewrite lookup_filter_entries.
    destruct (lookup k (existing_or_empty ex)) as [e|]; auto.
    destruct (is_structure_entry e) eqn:S; auto. rewrite S. reflexivity.
  - unfold update_baseline_from_results at 1.
    rewrite lookup_fold_update by discriminate. cbn [update_start existing_or_empty].
    rewrite lookup_filter_entries.
    unfold update_baseline_from_results.
    rewrite lookup_fold_update by discriminate. cbn [update_start].
    destruct (lw UStructure k R); auto.
    rewrite lookup_filter_entries.
    destruct (lookup k (existing_or_empty ex)) as [e|]; auto.
    destruct (is_content_entry e) eqn:S; auto. rewrite S. reflexivity.
  - unfold update_baseline_from_results at 1. cbn [update_start existing_or_empty].
    rewrite fold_new_id; auto.
    intros r HI V Rc. unfold update_baseline_from_results. apply fold_new_contains; auto.
Qed.

Lemma update_idempotent : forall m R dirs disk0 we we',
  let d1 := o_disk (check_step (update_flags m we) R dirs disk0) in
  let d2 := o_disk (check_step (update_flags m we') R dirs d1) in
  forall k, olookup k d2 = olookup k d1.
Proof.
  intros m R dirs disk0 we we' d1 d2 k.
  pose proof (stable_results_all R) as HR. pose proof (view_is_stable disk0) as HD.
  subst d1 d2. rewrite !update_run_disk.
  rewrite (view_stable (Some _)) by (cbn; apply update_keys_stable; assumption).
  cbn [olookup]. apply update_twice.
Qed.

(* ------------------------------------------------------------------ histories *)
Definition ocontains (k : key) (ob : option baseline) : bool :=
  match ob with Some b => contains k b | None => false end.

Lemma lookup_ocontains : forall k ob e, olookup k ob = Some e -> ocontains k ob = true.
Proof. intros k [b|] e H; cbn in *; try discriminate. apply contains_lookup. eauto. Qed.

Lemma ratchet_sub : forall cli cfg rs ev ob k,
  ocontains k (ro_baseline (handle_baseline_ratchet cli cfg rs ev ob)) = true -> ocontains k ob = true.
Proof.
  intros cli cfg rs ev ob k. unfold handle_baseline_ratchet.
  cbv zeta. destruct (effective_ratchet cli cfg) as [mode|]; auto.
  destruct ob as [b|]; auto.
  destruct (retain_evaluated ev (check_baseline_ratchet rs b)) as [|s ss]; auto.
  destruct mode; auto. cbn [ro_baseline ocontains].
  intro H. apply contains_lookup in H. destruct H as [e H]. rewrite lookup_tighten in H.
  destruct (mem_key k (s :: ss)); try discriminate. apply contains_lookup. eauto.
Qed.

(* where the keys of the baseline file after a run come from: the file before, possibly
   re-keyed by a load, or a violating result of an updating run *)
Definition from_disk (k : key) (disk : option baseline) : Prop :=
  ocontains k disk = true \/ exists k0, ocontains k0 disk = true /\ k = norm_key k0.

Lemma view_from_disk : forall k disk, ocontains k (view disk) = true -> from_disk k disk.
Proof.
  intros k [b|]; cbn; [|discriminate]. intro H. right.
  apply contains_lookup in H. destruct H as [e H]. apply lookup_rekey_inv in H.
  destruct H as [k0 [HI E]]. exists k0. split; auto.
  apply In_keys_lookup in HI. apply contains_lookup. assumption.
Qed.

Lemma step_disk_keys : forall fl R dirs disk k,
  ocontains k (o_disk (check_step fl R dirs disk)) = true ->
  from_disk k disk \/
  (f_update fl <> None /\ In k (map key_of (filter records R))).
Proof.
  intros fl R dirs disk k. unfold check_step.
  destruct (load_for_run fl disk) as [loaded|] eqn:HL; cbn [o_disk]; [|left; left; assumption].
  assert (LD : forall k', ocontains k' loaded = true -> from_disk k' disk).
  { intros k'. unfold load_for_run in HL. destruct (f_baseline fl).
    - destruct disk as [b|]; [inversion HL; apply (view_from_disk k' (Some b))|].
      destruct (f_update fl); inversion HL; cbn; discriminate.
    - inversion HL. cbn. discriminate. }
  set (rs1 := match loaded with Some b => apply_baseline_comparison R b | None => R end).
  set (ro := handle_baseline_ratchet _ _ rs1 _ loaded).
  assert (D1 : forall k', ocontains k' (if ro_saved ro then ro_baseline ro else disk) = true -> from_disk k' disk).
  { intros k' H. destruct (ro_saved ro); [|left; assumption]. apply LD. subst ro. eapply ratchet_sub; eauto. }
  assert (VK : map key_of (filter records rs1) = map key_of (filter records R)).
  { subst rs1. destruct loaded; auto. rewrite apply_is_map. apply records_keys_apply. }
  destruct (f_update fl) as [m|] eqn:HU.
  - intro H. cbn [ocontains] in H. apply contains_lookup in H. destruct H as [e H].
    apply update_origin in H. destruct H as [H|H].
    + left. destruct (ro_baseline ro) as [b'|] eqn:RB; cbn [existing_or_empty] in H.
      * apply LD. subst ro. eapply ratchet_sub. rewrite RB. cbn. apply contains_lookup.
        destruct (lookup k b'); [eauto|congruence].
      * destruct (ro_saved ro); cbn in *; [congruence|].
        apply view_from_disk. destruct disk as [b'|]; cbn in *; [|congruence].
        apply contains_lookup. destruct (lookup k (rekey b')); [eauto|congruence].
    + right. split; [discriminate|]. rewrite <- VK. assumption.
  - intro H. left. apply D1. assumption.
Qed.

Section HistoryInv.
  Variable project : Type.
  Variable eval : project -> list result.
  Variable dirs_of : project -> list key.

  Notation op := (op project).
  Notation hstate := (hstate project).

  (* keys of the results that were violating, and had a key, when an update ran *)
  Definition op_written (st : hstate) (o : op) : list key :=
    match o with
    | Edit _ _ => []
    | Update _ _ _ => map key_of (filter records (eval (h_proj _ st)))
    | CheckWith _ fl s =>
      match f_update fl with
      | Some _ => map key_of (filter records (restrict s (eval (h_proj _ st))))
      | None => []
      end
    end.

  Fixpoint written_keys (ops : list op) (st : hstate) : list key :=
    match ops with
    | [] => []
    | o :: ops' => op_written st o ++ written_keys ops' (step project eval dirs_of st o)
    end.

  Lemma step_inv : forall st o k,
    ocontains k (h_disk _ (step project eval dirs_of st o)) = true ->
    from_disk k (h_disk _ st) \/ In k (op_written st o).
  Proof.
    intros st o k. destruct o as [p | m we | fl s]; cbn [step h_disk op_written].
    - intro H. left. left. assumption.
    - unfold run. intro H. apply step_disk_keys in H. destruct H as [H|[_ H]]; auto.
    - unfold run. intro H. apply step_disk_keys in H. destruct H as [H|[HU H]]; auto.
      right. destruct (f_update fl); [assumption|congruence].
  Qed.

  (* any property of keys that survives normalisation, holds of the keys of the start file and of
     the keys of the violating results at every update, holds of every key of the final file *)
  Lemma history_inv : forall (P : key -> Prop), (forall k, P k -> P (norm_key k)) ->
    forall ops st,
    (forall k, ocontains k (h_disk _ st) = true -> P k) ->
    (forall k, In k (written_keys ops st) -> P k) ->
    forall k, ocontains k (h_disk _ (run_history project eval dirs_of ops st)) = true -> P k.
  Proof.
    intros P HP. unfold run_history. induction ops as [|o ops IH]; intros st H0 HW k H; cbn [fold_left written_keys] in *; auto.
    apply (IH (step project eval dirs_of st o)); auto.
    - intros k' H'. apply step_inv in H'. destruct H' as [[H'|[k0 [H' E]]]|H'].
      + auto.
      + subst k'. auto.
      + apply HW. apply in_or_app. auto.
    - intros k' H'. apply HW. apply in_or_app. auto.
  Qed.
End HistoryInv.
