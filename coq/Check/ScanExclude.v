(* Check/ScanExclude.v: the two readings of [scanner] exclude.
   src/scanner/filter.rs (plain scanner, used when no [structure] section is configured): an entry is
   excluded iff some pattern matches its normalised path.
   src/scanner/structure_config.rs StructureScanConfig::is_scanner_excluded (structure-aware scanner): an
   entry is excluded iff some pattern matches its bare NAME or its path, or it is a directory whose name
   equals the last literal component of a pattern ending in /** (extract_dir_names).
   The glob matcher is oracle data (globset): the generic part is parameterised by the four per-entry
   verdicts; MiniGlob instantiates them for the two pattern shapes of the witnesses. Definitions only. *)
From Coq Require Import NArith List Bool.
Import ListNotations.

Section Generic.
  Variables pat entry : Type.
  Variable is_dir : entry -> bool.
  Variable on_path : pat -> entry -> bool.        (* the pattern matches the entry's normalised path *)
  Variable on_name : pat -> entry -> bool.        (* the pattern matches the entry's bare name *)
  Variable name_fallback : pat -> entry -> bool.  (* pattern ends in /**, its last literal component = the name *)
  Variable under_dir : pat -> entry -> bool.      (* pattern minus /** matches the path: all content is covered *)

  Definition plain_excluded (ps : list pat) (e : entry) : bool := existsb (fun p => on_path p e) ps.
  Definition struct_excluded (ps : list pat) (e : entry) : bool :=
    existsb (fun p => on_name p e || on_path p e) ps || (is_dir e && existsb (fun p => name_fallback p e) ps).

  (* the recorded defect class: a pattern takes effect through the bare name although it does not match
     the path (and, for the directory fallback, does not cover the directory's content either) *)
  Definition KnownBasename (ps : list pat) (e : entry) : Prop :=
    exists p, In p ps /\
      ((on_name p e = true /\ on_path p e = false) \/
       (is_dir e = true /\ name_fallback p e = true /\ on_path p e = false /\ under_dir p e = false)).
End Generic.

(* ---- a miniature matcher for the witnesses: names are numbers, a path is its list of components ---- *)
Inductive mpat := PUnder (dirs : list N) | PLit (comps : list N).   (* d1/d2/**  and  a/b/c *)
Record mentry := { e_path : list N; e_dir : bool }.

Fixpoint list_eqb (a b : list N) : bool :=
  match a, b with
  | [], [] => true
  | x :: a', y :: b' => N.eqb x y && list_eqb a' b'
  | _, _ => false
  end.
Fixpoint is_prefix (a b : list N) : bool :=
  match a, b with
  | [], _ => true
  | x :: a', y :: b' => N.eqb x y && is_prefix a' b'
  | _ :: _, [] => false
  end.
Definition strict_prefix (a b : list N) : bool := is_prefix a b && negb (list_eqb a b).
Definition m_match (p : mpat) (path : list N) : bool :=
  match p with PUnder ds => strict_prefix ds path | PLit cs => list_eqb cs path end.
Definition last_name (l : list N) : list N := match rev l with x :: _ => [x] | [] => [] end.
Definition m_on_path p e := m_match p (e_path e).
Definition m_on_name p e := m_match p (last_name (e_path e)).
Definition m_name_fallback p e :=
  match p with PUnder ds => negb (list_eqb ds []) && list_eqb (last_name ds) (last_name (e_path e)) | PLit _ => false end.
Definition m_under_dir p e := match p with PUnder ds => is_prefix ds (e_path e) | PLit _ => false end.
