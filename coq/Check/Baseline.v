(* Check/Baseline.v -- apply_baseline_comparison, update_baseline_from_results
   (src/commands/check/check_baseline_ops.rs) and the order of operations of
   run_check_with_context, runner.rs:330-392 (comparison, ratchet, update, exit code) as
   [check_step]; histories of operations. Definitions only. *)
From Coq Require Import NArith List Bool.
From SG Require Import Check.Results Check.BMap Check.ExitCode Check.Ratchet.
Import ListNotations.
Open Scope N_scope.

(* ---- apply_baseline_comparison: any Failed result whose key is in the baseline *)
Definition apply_baseline_comparison (results : list result) (b : baseline) : list result :=
  map (fun r => if is_failed r && contains (key_of r) b then into_grandfathered r else r) results.

(* ---- update_baseline_from_results *)
Inductive umode := UAll | UContent | UStructure | UNew.

(* parse_structure_violation_from_result: only FileCount / DirCount are baselinable *)
Definition baselinable (r : result) : option (svt * N) :=
  match r_kind r with
  | Structure FileCount => Some (Files, r_code r)
  | Structure DirCount => Some (Dirs, r_code r)
  | _ => None
  end.

Definition existing_or_empty (existing : option baseline) : baseline :=
  match existing with Some b => b | None => empty end.

(* new: start from the existing baseline; content / structure: keep the entries of the other
   kind (repair of D10); all: start empty *)
Definition update_start (mode : umode) (existing : option baseline) : baseline :=
  match mode with
  | UNew => existing_or_empty existing
  | UContent => filter_entries is_structure_entry (existing_or_empty existing)
  | UStructure => filter_entries is_content_entry (existing_or_empty existing)
  | UAll => empty
  end.

(* a result that is a violation: Failed, or Grandfathered (Failed until the comparison ran;
   repair of D9) *)
Definition violating (r : result) : bool := is_failed r || is_grandfathered r.

(* ... and it is recorded only if its path has a key (valid UTF-8; repair of D55: the update
   skips the result with a warning) *)
Definition records (r : result) : bool := violating r && has_key r.

Definition update_step (mode : umode) (nb : baseline) (r : result) : baseline :=
  if negb (records r) then nb
  else
    let k := key_of r in
    let is_s := is_structure r in
    let should_include :=
      match mode with
      | UAll => true
      | UContent => negb is_s
      | UStructure => is_s
      | UNew => negb (contains k nb)
      end in
    if negb should_include then nb
    else if is_s then
      match baselinable r with
      | Some (vt, c) => set k (EStructure vt c) nb
      | None => nb
      end
    else set k (EContent (r_code r) (r_hash r)) nb.

Definition update_baseline_from_results (results : list result) (mode : umode)
           (existing : option baseline) : baseline :=
  fold_left (update_step mode) results (update_start mode existing).

(* ---- one run of check, from the pre-baseline results on *)
Record flags := mkFlags {
  f_baseline : bool;              (* --baseline <the baseline file> given *)
  f_update : option umode;        (* --update-baseline <mode> *)
  f_ratchet_cli : option rmode;   (* --ratchet <mode> *)
  f_ratchet_cfg : option rmode;   (* [baseline] ratchet *)
  f_warn_only : bool;             (* --warn-only *)
  f_wae : bool;                   (* --warnings-as-errors || --strict || [check] warnings_as_errors *)
  f_fail_fast : bool              (* --fail-fast || [check] fail_fast: acts before check_step *)
}.

Record outcome := mkOutcome {
  o_results : list result;        (* results as reported *)
  o_exit : N;
  o_disk : option baseline;       (* the baseline file after the run *)
  o_stale : list key              (* stale paths the ratchet reported or removed *)
}.

(* load_baseline / load_baseline_optional (runner.rs:166-172), Baseline::load re-keying the
   entries (rekey): None = run without a baseline;
   Some None = error (file named by --baseline is missing and no update was requested) *)
Definition load_for_run (fl : flags) (disk : option baseline) : option (option baseline) :=
  if f_baseline fl then
    match disk, f_update fl with
    | Some b, _ => Some (Some (rekey b))
    | None, Some _ => Some None
    | None, None => None
    end
  else Some None.

(* [results] are the pre-baseline results of the run (after --files restriction and after the
   fail-fast loop), [dirs] the directories whose counts the structure block looked at, [disk] the
   baseline file before the run (for [dirs] see Ratchet.evaluated_of). All runs use the same file (the default path, named explicitly by
   --baseline when f_baseline is set). *)
Definition check_step (fl : flags) (results : list result) (dirs : list key)
           (disk : option baseline) : outcome :=
  match load_for_run fl disk with
  | None => mkOutcome [] EXIT_CONFIG_ERROR disk []
  | Some loaded =>
    (* 7. comparison *)
    let results1 := match loaded with
                    | Some b => apply_baseline_comparison results b
                    | None => results end in
    (* 7.0.1 ratchet, on the post-comparison results *)
    let ro := handle_baseline_ratchet (f_ratchet_cli fl) (f_ratchet_cfg fl) results1
                                      (evaluated_of results1 dirs) loaded in
    let disk1 := if ro_saved ro then ro_baseline ro else disk in
    (* 7.0.2 update, from the (possibly tightened) loaded baseline; when none was loaded the
       file about to be replaced is read (fixes/D30-update-reads-target.patch) *)
    let existing := match ro_baseline ro with Some b => Some b | None => view disk1 end in
    let disk2 := match f_update fl with
                 | Some mode => Some (update_baseline_from_results results1 mode existing)
                 | None => disk1 end in
    (* 10. exit code *)
    mkOutcome results1
              (determine_exit_code results1 (f_warn_only fl) (f_wae fl) (ro_failed ro))
              disk2 (ro_stale ro)
  end.

(* ---- which results a run evaluates *)
(* --files l : the content results of the listed files in the listed order (a file listed twice
   is processed twice), no structure result; a mask models the fail-fast loop dropping results *)
Record selection := mkSel {
  sel_files : option (list key);
  sel_mask : option (list bool)
}.

Definition sel_all : selection := mkSel None None.

Definition pick_files (ks : list key) (rs : list result) : list result :=
  flat_map (fun k => filter (fun r => negb (is_structure r) && str_eqb (r_path r) k) rs) ks.

Fixpoint mask_filter {A : Type} (m : list bool) (l : list A) : list A :=
  match l, m with
  | [], _ => []
  | x :: l', [] => x :: mask_filter [] l'
  | x :: l', true :: m' => x :: mask_filter m' l'
  | x :: l', false :: m' => mask_filter m' l'
  end.

Definition restrict (s : selection) (rs : list result) : list result :=
  let rs1 := match sel_files s with Some ks => pick_files ks rs | None => rs end in
  match sel_mask s with Some m => mask_filter m rs1 | None => rs1 end.

Definition restrict_dirs (s : selection) (dirs : list key) : list key :=
  match sel_files s with Some _ => [] | None => dirs end.

(* ---- histories *)
Definition default_flags : flags := mkFlags false None None None false false false.

Definition update_flags (m : umode) (with_existing : bool) : flags :=
  mkFlags with_existing (Some m) None None false false false.

Section History.
  Variable project : Type.
  Variable eval : project -> list result.      (* pre-baseline results of a full run *)
  Variable dirs_of : project -> list key.      (* directories counted by a full run *)

  Inductive op :=
  | Edit (p : project)
  | Update (m : umode) (with_existing : bool)
  | CheckWith (fl : flags) (s : selection).

  Record hstate := mkH { h_proj : project; h_disk : option baseline }.

  Definition run (fl : flags) (s : selection) (st : hstate) : outcome :=
    check_step fl (restrict s (eval (h_proj st))) (restrict_dirs s (dirs_of (h_proj st))) (h_disk st).

  Definition step (st : hstate) (o : op) : hstate :=
    match o with
    | Edit p => mkH p (h_disk st)
    | Update m we => mkH (h_proj st) (o_disk (run (update_flags m we) sel_all st))
    | CheckWith fl s => mkH (h_proj st) (o_disk (run fl s st))
    end.

  Definition run_history (ops : list op) (st : hstate) : hstate := fold_left step ops st.
End History.
