(* Check/Proofs_Check.v -- lemmas shared by Properties_C09 / C10 / C11 (and usable for C01):
   string equality, the finite map, the exit code, the baseline comparison, and the
   characterisation of update_baseline_from_results as a sequence of map writes. *)
From Coq Require Import NArith List Bool Lia.
From SG Require Paths.Model Paths.Proofs.
From SG Require Import Check.Results Check.ExitCode Check.BMap Check.Ratchet Check.Baseline.
Import ListNotations.
Open Scope N_scope.

(* ------------------------------------------------------------------ strings *)
Lemma str_eqb_refl : forall a, str_eqb a a = true.
Proof. induction a as [|x a IH]; cbn; auto. rewrite N.eqb_refl, IH. reflexivity. Qed.

Lemma str_eqb_eq : forall a b, str_eqb a b = true <-> a = b.
Proof.
  induction a as [|x a IH]; destruct b as [|y b]; cbn; split; intro H; try discriminate; auto.
  - apply andb_true_iff in H. destruct H as [H1 H2]. apply N.eqb_eq in H1. apply IH in H2. subst. reflexivity.
  - inversion H; subst. rewrite N.eqb_refl. cbn. apply IH. reflexivity.
Qed.

Lemma str_eqb_neq : forall a b, str_eqb a b = false <-> a <> b.
Proof.
  intros a b. split; intro H.
  - intro E. apply str_eqb_eq in E. congruence.
  - destruct (str_eqb a b) eqn:E; auto. apply str_eqb_eq in E. contradiction.
Qed.

Lemma str_eqb_sym : forall a b, str_eqb a b = str_eqb b a.
Proof.
  intros a b. destruct (str_eqb a b) eqn:E.
  - apply str_eqb_eq in E. subst. symmetry. apply str_eqb_refl.
  - symmetry. apply str_eqb_neq. apply str_eqb_neq in E. congruence.
Qed.

Lemma mem_key_In : forall k l, mem_key k l = true <-> In k l.
Proof.
  unfold mem_key. intros k l. rewrite existsb_exists. split.
  - intros [x [H1 H2]]. apply str_eqb_eq in H2. subst. assumption.
  - intro H. exists k. split; auto. apply str_eqb_refl.
Qed.

Lemma mem_key_false : forall k l, mem_key k l = false <-> ~ In k l.
Proof.
  intros k l. split; intro H.
  - intro HI. apply mem_key_In in HI. congruence.
  - destruct (mem_key k l) eqn:E; auto. apply mem_key_In in E. contradiction.
Qed.

Lemma mem_key_cons : forall k a l, mem_key k (a :: l) = str_eqb k a || mem_key k l.
Proof. reflexivity. Qed.

(* ------------------------------------------------------------------ the finite map *)
Lemma lookup_remove : forall k k' b,
  lookup k (remove k' b) = if str_eqb k k' then None else lookup k b.
Proof.
  intros k k' b. induction b as [|[k2 e] b IH]; cbn.
  - destruct (str_eqb k k'); reflexivity.
  - destruct (str_eqb k' k2) eqn:E2.
    + rewrite IH. destruct (str_eqb k k') eqn:E1; auto.
      apply str_eqb_eq in E2. subst k2. rewrite E1. reflexivity.
    + cbn. destruct (str_eqb k k2) eqn:E3.
      * destruct (str_eqb k k') eqn:E1; auto.
        apply str_eqb_eq in E1. apply str_eqb_eq in E3. subst. rewrite str_eqb_refl in E2. discriminate.
      * apply IH.
Qed.

Lemma lookup_set : forall k k' e b,
  lookup k (set k' e b) = if str_eqb k k' then Some e else lookup k b.
Proof.
  intros. unfold set. cbn. destruct (str_eqb k k') eqn:E; auto.
  rewrite lookup_remove, E. reflexivity.
Qed.

Lemma lookup_filter_entries : forall f k b,
  lookup k (filter_entries f b) =
  match lookup k b with Some e => if f e then Some e else None | None => None end.
Proof.
  intros f k b. induction b as [|[k' e] b IH]; cbn; auto.
  fold (filter_entries f b).
  destruct (f e) eqn:F; cbn.
  - destruct (str_eqb k k') eqn:E.
    + rewrite F. reflexivity.
    + rewrite lookup_remove, E. apply IH.
  - rewrite lookup_remove. destruct (str_eqb k k') eqn:E.
    + rewrite F. reflexivity.
    + apply IH.
Qed.

Lemma lookup_In_keys : forall k b e, lookup k b = Some e -> In k (keys b).
Proof.
  intros k b. induction b as [|[k' e'] b IH]; cbn; intros e H; try discriminate.
  destruct (str_eqb k k') eqn:E.
  - apply str_eqb_eq in E. auto.
  - right. eapply IH; eauto.
Qed.

Lemma In_keys_lookup : forall k b, In k (keys b) -> exists e, lookup k b = Some e.
Proof.
  intros k b. induction b as [|[k' e'] b IH]; cbn; intro H; try contradiction.
  destruct (str_eqb k k') eqn:E; eauto.
  destruct H as [H|H]; auto. subst. rewrite str_eqb_refl in E. discriminate.
Qed.

Lemma contains_lookup : forall k b, contains k b = true <-> exists e, lookup k b = Some e.
Proof.
  unfold contains. intros k b. destruct (lookup k b); split; intro H; eauto; try discriminate.
  destruct H; discriminate.
Qed.

Lemma contains_false : forall k b, contains k b = false <-> lookup k b = None.
Proof. unfold contains. intros k b. destruct (lookup k b); split; intro H; auto; discriminate. Qed.

Lemma lookup_tighten : forall stale b k,
  lookup k (tighten_baseline b stale) = if mem_key k stale then None else lookup k b.
Proof.
  unfold tighten_baseline. induction stale as [|a stale IH]; intros b k; cbn [fold_left]; auto.
  rewrite IH, lookup_remove, mem_key_cons.
  destruct (mem_key k stale); destruct (str_eqb k a); reflexivity.
Qed.

(* ------------------------------------------------------------------ path_key is idempotent *)
Module PM := SG.Paths.Model.
Module PP := SG.Paths.Proofs.

Lemma split_piece_sub : forall p c x, In c (PM.split p) -> In x c -> In x p /\ x <> PM.c_slash.
Proof.
  induction p as [|a p IH]; intros c x HC HX.
  - cbn in HC. destruct HC as [E|[]]. subst c. contradiction.
  - cbn [PM.split] in HC. destruct (N.eqb a PM.c_slash) eqn:E.
    + destruct HC as [E0|HC]; [subst c; contradiction|].
      destruct (IH c x HC HX) as [H1 H2]. split; [right; assumption | assumption].
    + destruct (PM.split p) as [|h t] eqn:S.
      * destruct HC as [E0|[]]. subst c. destruct HX as [E1|[]]. subst x. split; [left; reflexivity|].
        intro E2. subst a. rewrite N.eqb_refl in E. discriminate.
      * destruct HC as [E0|HC].
        -- subst c. destruct HX as [E1|HX].
           ++ subst x. split; [left; reflexivity|]. intro E2. subst a. rewrite N.eqb_refl in E. discriminate.
           ++ destruct (IH h x (or_introl eq_refl) HX) as [H1 H2]. split; [right; assumption|assumption].
        -- destruct (IH c x (or_intror HC) HX) as [H1 H2]. split; [right; assumption|assumption].
Qed.

Lemma existsb_eqb_false : forall (a : N) l, (forall x, In x l -> x <> a) -> existsb (N.eqb a) l = false.
Proof.
  intros a l H. induction l as [|x l IH]; cbn; auto.
  rewrite IH by (intros y HY; apply H; right; assumption).
  destruct (N.eqb a x) eqn:E; auto. apply N.eqb_eq in E. exfalso. apply (H x); [left; reflexivity|auto].
Qed.

Lemma unbackslash_no_bslash : forall p x, In x (PM.unbackslash p) -> x <> PM.c_bslash.
Proof.
  intros p x H. unfold PM.unbackslash in H. apply in_map_iff in H. destruct H as [c [E _]].
  destruct (N.eqb c PM.c_bslash) eqn:B; subst x.
  - discriminate.
  - intro E. subst c. rewrite N.eqb_refl in B. discriminate.
Qed.

(* the components of any string without backslashes are clean *)
Lemma comps_clean : forall u, (forall x, In x u -> x <> PM.c_bslash) -> PM.clean_list (PM.comps u) = true.
Proof.
  intros u H. unfold PM.clean_list. apply forallb_forall. intros c HC.
  unfold PM.comps in HC. apply filter_In in HC. destruct HC as [HC K].
  unfold PM.clean. rewrite K. cbn [andb].
  rewrite (existsb_eqb_false PM.c_slash c) by (intros x HX; exact (proj2 (split_piece_sub u c x HC HX))).
  rewrite (existsb_eqb_false PM.c_bslash c) by (intros x HX; apply H; exact (proj1 (split_piece_sub u c x HC HX))).
  reflexivity.
Qed.

Lemma comps_slash_prefix : forall s, PM.comps (PM.c_slash :: s) = PM.comps s.
Proof. intro s. change (PM.c_slash :: s) with ([] ++ PM.c_slash :: s). rewrite PP.comps_app_slash. reflexivity. Qed.

Lemma norm_key_idem : forall p, norm_key (norm_key p) = norm_key p.
Proof.
  intro p. unfold norm_key at 2 3.
  set (u := PM.unbackslash p).
  assert (CL : PM.clean_list (PM.comps u) = true).
  { apply comps_clean. intros x HX. subst u. eapply unbackslash_no_bslash; eauto. }
  set (cs := PM.comps u) in *.
  assert (NB : existsb (N.eqb PM.c_bslash) (PM.join_slash cs) = false) by (apply PP.no_bslash_join; assumption).
  assert (UJ : PM.unbackslash (PM.join_slash cs) = PM.join_slash cs) by (apply PP.unbackslash_id; assumption).
  assert (NA : PM.is_abs (PM.join_slash cs) = false).
  { rewrite <- UJ. apply PP.join_clean_not_abs. assumption. }
  assert (CJ : PM.comps (PM.join_slash cs) = cs) by (apply PP.comps_join_clean; assumption).
  destruct (PM.is_abs u).
  - (* absolute: "/" ++ join cs, never empty *)
    cbn [app dot_if_empty]. unfold norm_key.
    change (PM.unbackslash (47 :: PM.join_slash cs)) with (47 :: PM.unbackslash (PM.join_slash cs)).
    rewrite UJ. cbn [PM.is_abs]. change (N.eqb 47 PM.c_slash) with true. cbn iota.
    change (47 :: PM.join_slash cs) with (PM.c_slash :: PM.join_slash cs).
    rewrite comps_slash_prefix, CJ. reflexivity.
  - cbn [app]. destruct (PM.join_slash cs) as [|x t] eqn:J.
    + reflexivity.
    + cbn [dot_if_empty]. unfold norm_key. rewrite UJ, NA, CJ. cbn [app]. rewrite J. reflexivity.
Qed.

Lemma norm_key_prefix : forall p, PM.is_abs (PM.unbackslash p) = false ->
  norm_key (46 :: 47 :: p) = norm_key p /\ norm_key (46 :: 92 :: p) = norm_key p.
Proof.
  intros p H. unfold norm_key.
  change (PM.unbackslash (46 :: 47 :: p)) with ([46] ++ PM.c_slash :: PM.unbackslash p).
  change (PM.unbackslash (46 :: 92 :: p)) with ([46] ++ PM.c_slash :: PM.unbackslash p).
  rewrite PP.comps_app_slash. rewrite H. split; reflexivity.
Qed.

Lemma key_of_stable : forall r, stable_key (key_of r).
Proof. intro r. unfold stable_key, key_of. apply norm_key_idem. Qed.

(* ------------------------------------------------------------------ re-keying on load *)
Lemma keys_rekey : forall b, keys (rekey b) = map norm_key (keys b).
Proof. intro b. unfold keys, rekey. rewrite !map_map. reflexivity. Qed.

Lemma rekey_stable : forall b, (forall k, In k (keys b) -> stable_key k) -> rekey b = b.
Proof.
  induction b as [|[k e] b IH]; intro H; cbn [rekey map fst snd]; auto.
  fold (rekey b). rewrite IH by (intros k' HI; apply H; right; assumption).
  rewrite (H k) by (left; reflexivity). reflexivity.
Qed.

Lemma lookup_rekey_inv : forall k b e, lookup k (rekey b) = Some e ->
  exists k0, In k0 (keys b) /\ norm_key k0 = k.
Proof.
  intros k b e H. apply lookup_In_keys in H. rewrite keys_rekey in H.
  apply in_map_iff in H. destruct H as [k0 [E HI]]. eauto.
Qed.

Definition stable_bl (b : baseline) : Prop := forall k, In k (keys b) -> stable_key k.
Definition ostable (ob : option baseline) : Prop := match ob with Some b => stable_bl b | None => True end.
Definition stable_results (rs : list result) : Prop := forall r, In r rs -> stable_key (key_of r).

Lemma stable_results_all : forall rs, stable_results rs.
Proof. intros rs r _. apply key_of_stable. Qed.

Lemma rekey_is_stable : forall b, stable_bl (rekey b).
Proof.
  intros b k HK. rewrite keys_rekey in HK. apply in_map_iff in HK.
  destruct HK as [k0 [E _]]. subst k. unfold stable_key. apply norm_key_idem.
Qed.

Lemma view_is_stable : forall ob, ostable (view ob).
Proof. intros [b|]; cbn; auto. apply rekey_is_stable. Qed.

Lemma view_stable : forall ob, ostable ob -> view ob = ob.
Proof. intros [b|] H; cbn; auto. rewrite rekey_stable; auto. Qed.

Definition olookup (k : key) (ob : option baseline) : option entry :=
  match ob with Some b => lookup k b | None => None end.

(* ------------------------------------------------------------------ exit code *)
Lemma warn_only_forces_0 : forall rs wae rf, determine_exit_code rs true wae rf = 0.
Proof. reflexivity. Qed.

Lemma exit_0_or_1 : forall rs wo wae rf,
  determine_exit_code rs wo wae rf = 0 \/ determine_exit_code rs wo wae rf = 1.
Proof.
  intros. unfold determine_exit_code. destruct wo; auto.
  destruct (existsb is_failed rs || wae && existsb is_warning rs || rf); auto.
Qed.

Lemma exit_1_iff : forall rs wo wae rf,
  determine_exit_code rs wo wae rf = 1 <->
  wo = false /\ ((exists r, In r rs /\ is_failed r = true) \/
                 (wae = true /\ exists r, In r rs /\ is_warning r = true) \/
                 rf = true).
Proof.
  intros rs wo wae rf. unfold determine_exit_code, EXIT_SUCCESS, EXIT_THRESHOLD_EXCEEDED.
  destruct wo.
  - split; [discriminate | intros [H _]; discriminate].
  - destruct (existsb is_failed rs) eqn:F; cbn.
    + split; auto. intros _. split; auto. left. apply existsb_exists in F. exact F.
    + destruct wae; cbn.
      * destruct (existsb is_warning rs) eqn:W; cbn.
        -- split; auto. intros _. split; auto. right. left. split; auto. apply existsb_exists in W. exact W.
        -- destruct rf; split; auto; try discriminate.
           intros [_ [H | [[_ H] | H]]]; try discriminate.
           ++ apply existsb_exists in H. congruence.
           ++ apply existsb_exists in H. congruence.
      * destruct rf; split; auto; try discriminate.
        intros [_ [H | [[H _] | H]]]; try discriminate.
        apply existsb_exists in H. congruence.
Qed.

Lemma exit_0_iff : forall rs wo wae rf,
  determine_exit_code rs wo wae rf = 0 <->
  wo = true \/ ((forall r, In r rs -> is_failed r = false) /\
                (wae = true -> forall r, In r rs -> is_warning r = false) /\ rf = false).
Proof.
  intros rs wo wae rf. destruct (exit_0_or_1 rs wo wae rf) as [E|E]; rewrite E; split; auto; try discriminate.
  - intros _. destruct wo; auto. right.
    assert (N1 : ~ (determine_exit_code rs false wae rf = 1)) by (rewrite E; discriminate).
    rewrite exit_1_iff in N1. repeat split.
    + intros r Hr. destruct (is_failed r) eqn:F; auto. exfalso. apply N1. split; auto. left. eauto.
    + intros Hw r Hr. destruct (is_warning r) eqn:W; auto. exfalso. apply N1. split; auto. right. left. split; eauto.
    + destruct rf; auto. exfalso. apply N1. auto.
  - intros [H | [H1 [H2 H3]]].
    + subst. cbn in E. discriminate.
    + apply exit_1_iff in E. destruct E as [_ [[r [Hr F]] | [[Hw [r [Hr W]]] | H]]].
      * rewrite H1 in F; auto. discriminate.
      * rewrite H2 in W; auto. discriminate.
      * congruence.
Qed.

(* ------------------------------------------------------------------ baseline comparison *)
Definition gf (b : baseline) (r : result) : result :=
  if is_failed r && contains (key_of r) b then into_grandfathered r else r.

Lemma apply_is_map : forall rs b, apply_baseline_comparison rs b = map (gf b) rs.
Proof. reflexivity. Qed.

Lemma gf_cases : forall b r,
  (is_failed r = true /\ contains (key_of r) b = true /\ gf b r = with_status r Grandfathered) \/
  ((is_failed r = false \/ contains (key_of r) b = false) /\ gf b r = r).
Proof.
  intros b r. unfold gf, into_grandfathered.
  destruct (is_failed r) eqn:F; cbn; auto.
  destruct (contains (key_of r) b) eqn:C; auto.
Qed.

Lemma key_of_gf : forall b r, key_of (gf b r) = key_of r.
Proof. intros b r. destruct (gf_cases b r) as [[_ [_ E]] | [_ E]]; rewrite E; reflexivity. Qed.

Lemma violating_gf : forall b r, violating (gf b r) = violating r.
Proof.
  intros b r. destruct (gf_cases b r) as [[F [_ E]] | [_ E]]; rewrite E; auto.
  unfold violating. rewrite F. reflexivity.
Qed.

Lemma is_warning_gf : forall b r, is_warning (gf b r) = is_warning r.
Proof.
  intros b r. destruct (gf_cases b r) as [[F [_ E]] | [_ E]]; rewrite E; auto.
  unfold is_warning, is_failed in *. cbn. destruct (r_status r); auto; discriminate.
Qed.

Lemma is_failed_gf : forall b r,
  is_failed (gf b r) = is_failed r && negb (contains (key_of r) b).
Proof.
  intros b r. destruct (gf_cases b r) as [[F [C E]] | [[F | C] E]]; rewrite E.
  - rewrite F, C. reflexivity.
  - rewrite F. reflexivity.
  - rewrite C. rewrite andb_true_r. reflexivity.
Qed.

Lemma failed_in_apply : forall b rs r',
  In r' (map (gf b) rs) -> is_failed r' = true ->
  In r' rs /\ contains (key_of r') b = false.
Proof.
  intros b rs r' HI F. apply in_map_iff in HI. destruct HI as [r [E HI]]. subst r'.
  rewrite is_failed_gf in F. apply andb_true_iff in F. destruct F as [F C].
  apply negb_true_iff in C.
  destruct (gf_cases b r) as [[_ [C' _]] | [_ E]]; [congruence|].
  rewrite E. auto.
Qed.

Lemma has_key_gf : forall b r, has_key (gf b r) = has_key r.
Proof. intros b r. destruct (gf_cases b r) as [[_ [_ E]] | [_ E]]; rewrite E; reflexivity. Qed.

Lemma records_gf : forall b r, records (gf b r) = records r.
Proof. intros b r. unfold records. rewrite violating_gf, has_key_gf. reflexivity. Qed.

Lemma records_violating : forall r, records r = true -> violating r = true.
Proof. intros r H. apply andb_true_iff in H. tauto. Qed.

Lemma records_has_key : forall r, records r = true -> has_key r = true.
Proof. intros r H. apply andb_true_iff in H. tauto. Qed.

Lemma update_step_gf : forall m b nb r, update_step m nb (gf b r) = update_step m nb r.
Proof.
  intros m b nb r. destruct (gf_cases b r) as [[F [_ E]] | [_ E]]; rewrite E; auto.
  unfold update_step, records, has_key, violating, is_failed, is_grandfathered, key_of, is_structure, baselinable in *.
  cbn. destruct (r_status r); try discriminate. reflexivity.
Qed.

Lemma fold_update_apply : forall m b rs s,
  fold_left (update_step m) (map (gf b) rs) s = fold_left (update_step m) rs s.
Proof.
  intros m b rs. induction rs as [|r rs IH]; intro s; cbn [map fold_left]; auto.
  rewrite update_step_gf. apply IH.
Qed.

Lemma violating_keys_apply : forall b rs,
  map key_of (filter violating (map (gf b) rs)) = map key_of (filter violating rs).
Proof.
  intros b rs. induction rs as [|r rs IH]; cbn [map filter]; auto.
  rewrite violating_gf. destruct (violating r); cbn [map]; rewrite ?key_of_gf, IH; reflexivity.
Qed.

Lemma records_keys_apply : forall b rs,
  map key_of (filter records (map (gf b) rs)) = map key_of (filter records rs).
Proof.
  intros b rs. induction rs as [|r rs IH]; cbn [map filter]; auto.
  rewrite records_gf. destruct (records r); cbn [map]; rewrite ?key_of_gf, IH; reflexivity.
Qed.

(* ------------------------------------------------------------------ update as map writes *)
(* a violation of this result can be written to a baseline: its path has a key (valid UTF-8) and it
   is a line-count, file-count or directory-count violation *)
Definition recordable (r : result) : bool :=
  has_key r && (negb (is_structure r) || match baselinable r with Some _ => true | None => false end).

(* what one result writes in modes all / content / structure *)
Definition write_of (m : umode) (r : result) : option (key * entry) :=
  if records r then
    if is_structure r then
      match m with
      | UAll | UStructure =>
        match baselinable r with
        | Some (vt, c) => Some (key_of r, EStructure vt c)
        | None => None
        end
      | _ => None
      end
    else
      match m with
      | UAll | UContent => Some (key_of r, EContent (r_code r) (r_hash r))
      | _ => None
      end
  else None.

Lemma update_step_write : forall m nb r, m <> UNew ->
  update_step m nb r = match write_of m r with Some (k, e) => set k e nb | None => nb end.
Proof.
  intros m nb r Hm. unfold update_step, write_of.
  destruct (records r); cbn; auto.
  destruct (is_structure r); destruct m; cbn; try congruence; auto;
    destruct (baselinable r) as [[vt c]|]; auto.
Qed.

(* the last write to key k, if any *)
Fixpoint lw (m : umode) (k : key) (rs : list result) : option entry :=
  match rs with
  | [] => None
  | r :: rs' =>
    match lw m k rs' with
    | Some e => Some e
    | None =>
      match write_of m r with
      | Some (k', e) => if str_eqb k k' then Some e else None
      | None => None
      end
    end
  end.

Lemma lookup_fold_update : forall m, m <> UNew -> forall rs s k,
  lookup k (fold_left (update_step m) rs s) =
  match lw m k rs with Some e => Some e | None => lookup k s end.
Proof.
  intros m Hm. induction rs as [|r rs IH]; intros s k; cbn [fold_left lw]; auto.
  rewrite IH. destruct (lw m k rs); auto.
  rewrite update_step_write by assumption.
  destruct (write_of m r) as [[k' e]|]; auto.
  rewrite lookup_set. destruct (str_eqb k k'); reflexivity.
Qed.

Lemma lw_some_inv : forall m k rs e, lw m k rs = Some e ->
  exists r, In r rs /\ write_of m r = Some (k, e).
Proof.
  intros m k. induction rs as [|r rs IH]; cbn; intros e H; try discriminate.
  destruct (lw m k rs) as [e'|] eqn:L.
  - inversion H; subst. destruct (IH e eq_refl) as [r' [HI HW]]. eauto.
  - destruct (write_of m r) as [[k' e']|] eqn:W; try discriminate.
    destruct (str_eqb k k') eqn:E; try discriminate.
    apply str_eqb_eq in E. inversion H; subst. exists r. split; auto.
Qed.

Lemma lw_none_inv : forall m k rs, lw m k rs = None ->
  forall r e, In r rs -> write_of m r <> Some (k, e).
Proof.
  intros m k. induction rs as [|r rs IH]; cbn; intros H r0 e HI; try contradiction.
  destruct (lw m k rs) eqn:L; try discriminate.
  destruct HI as [HI|HI].
  - subst r0. intro W. rewrite W in H. rewrite str_eqb_refl in H. discriminate.
  - apply IH; auto.
Qed.

Lemma lw_some_of_in : forall m k rs r e, In r rs -> write_of m r = Some (k, e) ->
  exists e', lw m k rs = Some e'.
Proof.
  intros m k rs r e HI W. destruct (lw m k rs) eqn:L; eauto.
  exfalso. eapply lw_none_inv; eauto.
Qed.

Lemma write_of_facts : forall m r k e, write_of m r = Some (k, e) ->
  records r = true /\ k = key_of r /\ recordable r = true /\
  (is_structure r = false -> e = EContent (r_code r) (r_hash r) /\ (m = UAll \/ m = UContent)) /\
  (is_structure r = true -> is_structure_entry e = true /\ (m = UAll \/ m = UStructure)).
Proof.
  intros m r k e. unfold write_of, recordable.
  destruct (records r) eqn:Rd; try discriminate. rewrite (records_has_key r Rd). cbn [andb].
  destruct (is_structure r) eqn:S; cbn.
  - destruct m; try discriminate; destruct (baselinable r) as [[vt c]|]; try discriminate;
      intro H; inversion H; subst; repeat split; auto; try discriminate; try (intro; discriminate).
  - destruct m; try discriminate; intro H; inversion H; subst; repeat split; auto; try discriminate; try (intro; discriminate).
Qed.

Lemma write_of_all : forall r, violating r = true -> recordable r = true ->
  exists e, write_of UAll r = Some (key_of r, e).
Proof.
  intros r V Rc. unfold write_of, recordable, records in *. rewrite V.
  apply andb_true_iff in Rc. destruct Rc as [HK Rc]. rewrite HK. cbn [andb].
  destruct (is_structure r); cbn in *; eauto.
  destruct (baselinable r) as [[vt c]|]; eauto. discriminate.
Qed.

(* ------------------------------------------------------------------ mode new *)
Lemma update_new_keeps : forall r nb k e,
  lookup k nb = Some e -> lookup k (update_step UNew nb r) = Some e.
Proof.
  intros r nb k e H. unfold update_step.
  destruct (records r); cbn; auto.
  destruct (contains (key_of r) nb) eqn:C; cbn; auto.
  assert (NE : str_eqb k (key_of r) = false).
  { apply str_eqb_neq. intro E. subst k. apply contains_false in C. congruence. }
  destruct (is_structure r).
  - destruct (baselinable r) as [[vt c]|]; auto. rewrite lookup_set, NE. assumption.
  - rewrite lookup_set, NE. assumption.
Qed.

Lemma fold_new_keeps : forall rs nb k e,
  lookup k nb = Some e -> lookup k (fold_left (update_step UNew) rs nb) = Some e.
Proof.
  induction rs as [|r rs IH]; intros nb k e H; cbn [fold_left]; auto.
  apply IH. apply update_new_keeps. assumption.
Qed.

Lemma update_new_origin : forall r nb k e,
  lookup k (update_step UNew nb r) = Some e ->
  lookup k nb = Some e \/ (records r = true /\ key_of r = k).
Proof.
  intros r nb k e. unfold update_step.
  destruct (records r) eqn:V; cbn; auto.
  destruct (contains (key_of r) nb); cbn; auto.
  destruct (is_structure r).
  - destruct (baselinable r) as [[vt c]|]; auto.
    rewrite lookup_set. destruct (str_eqb k (key_of r)) eqn:E; auto.
    apply str_eqb_eq in E. auto.
  - rewrite lookup_set. destruct (str_eqb k (key_of r)) eqn:E; auto.
    apply str_eqb_eq in E. auto.
Qed.

Lemma fold_new_origin : forall rs nb k e,
  lookup k (fold_left (update_step UNew) rs nb) = Some e ->
  lookup k nb = Some e \/ In k (map key_of (filter records rs)).
Proof.
  induction rs as [|r rs IH]; intros nb k e H; cbn [fold_left] in H; auto.
  apply IH in H. destruct H as [H|H].
  - apply update_new_origin in H. destruct H as [H|[V E]]; auto.
    right. cbn [filter]. rewrite V. cbn. auto.
  - right. cbn [filter]. destruct (records r); cbn; auto.
Qed.

Lemma update_new_sets : forall r nb, violating r = true -> recordable r = true ->
  contains (key_of r) (update_step UNew nb r) = true.
Proof.
  intros r nb V Rc. unfold update_step, records. rewrite V. cbn [andb].
  unfold recordable in Rc. apply andb_true_iff in Rc. destruct Rc as [HK Rc]. rewrite HK. cbn.
  destruct (contains (key_of r) nb) eqn:C; cbn; auto.
  destruct (is_structure r); cbn in Rc.
  - destruct (baselinable r) as [[vt c]|]; try discriminate.
    apply contains_lookup. rewrite lookup_set, str_eqb_refl. eauto.
  - apply contains_lookup. rewrite lookup_set, str_eqb_refl. eauto.
Qed.

Lemma fold_new_contains : forall rs nb r, In r rs -> violating r = true -> recordable r = true ->
  contains (key_of r) (fold_left (update_step UNew) rs nb) = true.
Proof.
  induction rs as [|a rs IH]; intros nb r HI V Rc; [contradiction|].
  cbn [fold_left]. destruct HI as [E|HI].
  - subst a. pose proof (update_new_sets r nb V Rc) as C.
    apply contains_lookup in C. destruct C as [e C].
    apply contains_lookup. exists e. apply fold_new_keeps. assumption.
  - apply IH; auto.
Qed.

Lemma fold_new_id : forall rs nb,
  (forall r, In r rs -> violating r = true -> recordable r = true -> contains (key_of r) nb = true) ->
  fold_left (update_step UNew) rs nb = nb.
Proof.
  induction rs as [|a rs IH]; intros nb H; cbn [fold_left]; auto.
  assert (S : update_step UNew nb a = nb).
  { unfold update_step. destruct (records a) eqn:V; cbn; auto.
    destruct (contains (key_of a) nb) eqn:C; cbn; auto.
    destruct (recordable a) eqn:Rc.
    - rewrite H in C; auto. discriminate. left. reflexivity. apply records_violating; assumption.
    - unfold recordable in Rc. rewrite (records_has_key a V) in Rc. cbn [andb] in Rc.
      destruct (is_structure a); cbn in Rc; try discriminate.
      destruct (baselinable a); try discriminate. reflexivity. }
  rewrite S. apply IH. intros r HI. apply H. right. assumption.
Qed.

(* ------------------------------------------------------------------ where keys of an update come from *)
Lemma update_origin : forall m rs ex k e,
  lookup k (update_baseline_from_results rs m ex) = Some e ->
  lookup k (existing_or_empty ex) <> None \/ In k (map key_of (filter records rs)).
Proof.
  intros m rs ex k e. unfold update_baseline_from_results.
  destruct m.
  - rewrite lookup_fold_update by discriminate.
    destruct (lw UAll k rs) eqn:L.
    + intros _. right. apply lw_some_inv in L. destruct L as [r [HI W]].
      apply write_of_facts in W. destruct W as [V [K _]]. subst k.
      apply in_map. apply filter_In. auto.
    + cbn. discriminate.
  - rewrite lookup_fold_update by discriminate.
    destruct (lw UContent k rs) eqn:L.
    + intros _. right. apply lw_some_inv in L. destruct L as [r [HI W]].
      apply write_of_facts in W. destruct W as [V [K _]]. subst k.
      apply in_map. apply filter_In. auto.
    + cbn [update_start]. rewrite lookup_filter_entries.
      destruct (lookup k (existing_or_empty ex)); try discriminate. intros _. left. discriminate.
  - rewrite lookup_fold_update by discriminate.
    destruct (lw UStructure k rs) eqn:L.
    + intros _. right. apply lw_some_inv in L. destruct L as [r [HI W]].
      apply write_of_facts in W. destruct W as [V [K _]]. subst k.
      apply in_map. apply filter_In. auto.
    + cbn [update_start]. rewrite lookup_filter_entries.
      destruct (lookup k (existing_or_empty ex)); try discriminate. intros _. left. discriminate.
  - intro H. apply fold_new_origin in H. destruct H as [H|H]; auto.
    left. cbn [update_start] in H. congruence.
Qed.

(* ------------------------------------------------------------------ check_step with the plain update flags *)
Lemma ratchet_none : forall rs ev ob, handle_baseline_ratchet None None rs ev ob = mkRO false ob false [].
Proof. reflexivity. Qed.

Lemma ratchet_no_baseline : forall cli cfg rs ev,
  handle_baseline_ratchet cli cfg rs ev None = mkRO false None false [].
Proof. intros. unfold handle_baseline_ratchet. destruct (effective_ratchet cli cfg); reflexivity. Qed.

Lemma update_run_disk : forall m we R dirs disk,
  o_disk (check_step (update_flags m we) R dirs disk) = Some (update_baseline_from_results R m (view disk)).
Proof.
  intros m we R dirs disk. unfold check_step, update_flags, load_for_run. cbn.
  destruct we; destruct disk as [b|]; cbn; unfold update_baseline_from_results;
    rewrite ?apply_is_map, ?fold_update_apply; reflexivity.
Qed.
