(* Properties_C09.v -- C09: baseline round trip and non-masking. Property theorems only; each is
   closed by [exact <lemma>] (Check/Proofs_C09.v) and followed by Print Assumptions.

   Model: Check/Results.v (CheckResult), BMap.v (baseline as a finite map read through lookup),
   Ratchet.v, Baseline.v (apply_baseline_comparison, update_baseline_from_results, check_step =
   runner.rs:330-392, histories), FailFast.v. The model is that of the tree WITH the repairs
   fixes/D09, D10, D12, D30, D08 (and D11 for the ratchet): keys are path_key of the result path
   ([norm_key]: backslash to slash, rebuilt from its components without the dot components, empty
   spelled dot; idempotent on every string, Proofs_Check.norm_key_idem) and a loaded baseline is re-keyed ([rekey], [view]).
   Before the repairs C09_update_idempotent,
   C09_modes_preserve_other_kind, C09_new_never_drops (without --baseline) and
   C09_unrecorded_always_fails (under fail-fast) were refuted by the faithful model and by the
   binary (witness histories in known_findings/C09.json, section fixed).
   Round 3: a path that is not valid UTF-8 has no key (fix D55: [has_key], [records]; before it the
   key was that of the lossy form and two such files shared an entry); a run that updates the
   baseline ignores fail-fast (fix D56: [effective_fail_fast], [run_loop]); the tool's own state
   files are not project entries (fix D53: scan stage, outside this model; tied on the CLI). One
   open class: a backslash in a file name is a separator for path_key on every platform, so two
   different files can share a key (D54, K09_backslash_name: C09_key_injective_refuted /
   _modulo_known).
   All statements quantify over arbitrary result lists, baselines, flags and histories. *)
From Coq Require Import NArith List Bool.
From SG Require Import Check.Results Check.ExitCode Check.BMap Check.Ratchet Check.Baseline
     Check.FailFast Check.Proofs_Check Check.Proofs_C09 Check.Proofs_C11 Check.Proofs_Keys.
Import ListNotations.
Open Scope N_scope.

(* After Update all on a state (with or without the existing baseline loaded, from any previous
   baseline file), a check with --baseline on the unchanged state (any other flags, any ratchet
   mode) reports every recorded line / file-count / dir-count violation as Grandfathered, finds
   nothing stale, leaves the file alone, and exits 1 exactly when a violation of another kind
   is still reported Failed or a warning exists under warnings-as-errors (and warn-only is off) *)
Theorem C09_roundtrip :
  forall (R : list result) (dirs : list key) (disk0 : option baseline) (we : bool) (fl : flags),
  f_baseline fl = true -> f_update fl = None ->
  let disk1 := o_disk (check_step (update_flags UAll we) R dirs disk0) in
  let out := check_step fl R dirs disk1 in
  (forall r, In r R -> is_failed r = true -> recordable r = true ->
             In (with_status r Grandfathered) (o_results out)) /\
  o_stale out = [] /\
  o_disk out = disk1 /\
  (o_exit out = 1 <->
   f_warn_only fl = false /\
   ((exists r, In r R /\ is_failed r = true /\ recordable r = false /\ In r (o_results out)) \/
    (f_wae fl = true /\ exists r, In r R /\ is_warning r = true))) /\
  (o_exit out = 0 \/ o_exit out = 1).
Proof. exact roundtrip. Qed.
Print Assumptions C09_roundtrip.

(* A violation the loaded baseline does not record (ff_trigger = Failed and key not contained;
   with no baseline every failure) makes the run exit 1 whatever the other flags (warn-only
   excepted), whatever else is grandfathered, and for EVERY fail-fast execution R' of the file
   loop (ff_sub; R' = R is the run without fail-fast); if it was evaluated it is reported Failed *)
Theorem C09_unrecorded_always_fails :
  forall fl R R' dirs' disk loaded r,
  load_for_run fl disk = Some loaded ->
  ff_sub loaded R R' ->
  In r R -> ff_trigger loaded r = true ->
  f_warn_only fl = false ->
  o_exit (check_step fl R' dirs' disk) = 1 /\
  (In r R' -> In r (o_results (check_step fl R' dirs' disk))).
Proof. exact unrecorded_always_fails. Qed.
Print Assumptions C09_unrecorded_always_fails.

(* grandfathering is a matter of the KEYS of the baseline: the figures an entry records (line count,
   hash, count) never decide, so an entry belongs to its path and to nothing else - a file that
   carries the bytes of a recorded file which has vanished is not recorded *)
Theorem C09_grandfathering_by_key_only :
  forall (b b' : baseline) (rs : list result),
  keys b = keys b' -> apply_baseline_comparison rs b = apply_baseline_comparison rs b'.
Proof. exact apply_keys_only. Qed.
Print Assumptions C09_grandfathering_by_key_only.

(* src/was is recorded with 12 lines and hash [7] and no longer exists; ./f fails with 12 lines and the
   same hash [7]: it stays Failed and the run exits 1, also as the only result of a fail-fast run *)
Example C09_renamed_file_is_not_recorded :
  let bl := Some [([119;97;115], EContent 12 [7])] in
  let f := mkResult [46;47;102] Content Failed 12 10 [7] in
  let fl := mkFlags true None None None false false true in
  map r_status (o_results (check_step fl [f] [] bl)) = [Failed] /\ o_exit (check_step fl [f] [] bl) = 1 /\
  ff_trigger (view bl) f = true.
Proof. vm_compute. repeat split; reflexivity. Qed.
Print Assumptions C09_renamed_file_is_not_recorded.

(* --update-baseline new never drops or rewrites an entry (of the file as loaded, i.e. under its
   normalised key), with or without --baseline; the only entries that may go are those an auto
   ratchet of the same run reported stale *)
Theorem C09_new_never_drops :
  forall fl R dirs b k e,
  f_update fl = Some UNew ->
  lookup k (rekey b) = Some e ->
  ~ In k (o_stale (check_step fl R dirs (Some b))) ->
  exists b', o_disk (check_step fl R dirs (Some b)) = Some b' /\ lookup k b' = Some e.
Proof. exact new_never_drops. Qed.
Print Assumptions C09_new_never_drops.

(* content mode: the structure entries afterwards are exactly those before (minus keys that now
   carry a content violation); structure mode symmetrically. [records r] = r is a violation and
   its path has a key *)
Theorem C09_modes_preserve_other_kind :
  forall R dirs b we k e,
  let d1 := o_disk (check_step (update_flags UContent we) R dirs (Some b)) in
  let d2 := o_disk (check_step (update_flags UStructure we) R dirs (Some b)) in
  (is_structure_entry e = true ->
   (olookup k d1 = Some e <->
    lookup k (rekey b) = Some e /\
    forall r, In r R -> records r = true -> is_structure r = false -> key_of r <> k)) /\
  (is_content_entry e = true ->
   (olookup k d2 = Some e <->
    lookup k (rekey b) = Some e /\
    forall r, In r R -> records r = true -> baselinable r <> None -> key_of r <> k)).
Proof. exact modes_preserve_other_kind. Qed.
Print Assumptions C09_modes_preserve_other_kind.

(* updating again on the unchanged state yields the same baseline, in every mode, whether the
   first and / or the second update loads the existing baseline *)
Theorem C09_update_idempotent :
  forall m R dirs disk0 we we',
  let d1 := o_disk (check_step (update_flags m we) R dirs disk0) in
  let d2 := o_disk (check_step (update_flags m we') R dirs d1) in
  forall k, olookup k d2 = olookup k d1.
Proof. exact update_idempotent. Qed.
Print Assumptions C09_update_idempotent.

(* reachable-state invariant: after ANY history of edits, updates and checks (any flags, any
   restriction of the evaluated set) from any start state, every key of the baseline file is a
   key of the start file or the key of a violating result at an update that ran in the history,
   possibly re-normalised by later loads. Stated as preservation of an arbitrary predicate that
   survives normalisation; for every project type and every evaluator *)
Theorem C09_history_inv :
  forall (project : Type) (eval : project -> list result) (dirs_of : project -> list key)
         (P : key -> Prop), (forall k, P k -> P (norm_key k)) ->
  forall (ops : list (op project)) (st : hstate project),
  (forall k, ocontains k (h_disk _ st) = true -> P k) ->
  (forall k, In k (written_keys project eval dirs_of ops st) -> P k) ->
  forall k, ocontains k (h_disk _ (run_history project eval dirs_of ops st)) = true -> P k.
Proof. exact history_inv. Qed.
Print Assumptions C09_history_inv.

(* spelling independence of the key (fixes D08, D39): the key function is idempotent on every
   string, so keys stay fixed however often the code normalises them; and a relative path, the
   same path behind "./" and behind ".\" have one key (for an absolute path the prefix makes it
   relative, so the hypothesis is needed). Repeated and trailing separators and interior "/./"
   are covered by the examples below and, in general, by SG.Paths (C08). *)
Theorem C09_key_spelling_invariant :
  forall p,
  norm_key (norm_key p) = norm_key p /\
  (SG.Paths.Model.is_abs (SG.Paths.Model.unbackslash p) = false ->
   norm_key (46 :: 47 :: p) = norm_key p /\ norm_key (46 :: 92 :: p) = norm_key p).
Proof. exact key_spelling_invariant. Qed.
Print Assumptions C09_key_spelling_invariant.

(* ---- D56: an updating run is never cut short by fail-fast. Whatever the loop of a run with
   --update-baseline hands on ([run_loop]: fail-fast by flag or configuration, any interleaving),
   it is the full list, so the file written is the one the run without fail-fast writes -- and the
   round trip C09_roundtrip holds after `check --update-baseline all --fail-fast` too *)
Theorem C09_update_run_not_truncated :
  forall fl ob R R', f_update fl <> None -> run_loop fl ob R R' -> R' = R.
Proof. exact update_run_not_truncated. Qed.
Print Assumptions C09_update_run_not_truncated.

Theorem C09_update_under_fail_fast_same_file :
  forall m we ff ob R R' dirs disk,
  run_loop (update_flags_ff m we ff) ob R R' ->
  o_disk (check_step (update_flags_ff m we ff) R' dirs disk) = o_disk (check_step (update_flags m we) R dirs disk).
Proof. exact update_under_fail_fast_same_file. Qed.
Print Assumptions C09_update_under_fail_fast_same_file.

(* ---- D55: paths that are not valid UTF-8. Every baseline file holds Unicode strings ([ovalid]:
   all keys are strings of scalar values) and every run keeps it so; a violation at a path without
   a key is never grandfathered -- reported Failed, exit 1, whatever the file holds, for every
   fail-fast execution -- and never recorded *)
Theorem C09_baseline_keys_stay_valid :
  forall fl R dirs disk, ovalid disk -> ovalid (o_disk (check_step fl R dirs disk)).
Proof. exact valid_step. Qed.
Print Assumptions C09_baseline_keys_stay_valid.

Theorem C09_baseline_keys_stay_valid_history :
  forall (project : Type) (eval : project -> list result) (dirs_of : project -> list key)
         (ops : list (op project)) (st : hstate project),
  ovalid (h_disk project st) -> ovalid (h_disk project (run_history project eval dirs_of ops st)).
Proof. exact valid_history. Qed.
Print Assumptions C09_baseline_keys_stay_valid_history.

Theorem C09_path_without_key_always_fails :
  forall fl R R' dirs disk loaded r,
  ovalid disk -> load_for_run fl disk = Some loaded -> ff_sub loaded R R' ->
  In r R -> is_failed r = true -> has_key r = false -> f_warn_only fl = false ->
  o_exit (check_step fl R' dirs disk) = 1 /\
  (In r R' -> In r (o_results (check_step fl R' dirs disk))).
Proof. exact no_key_always_fails. Qed.
Print Assumptions C09_path_without_key_always_fails.

(* the key of a path is a string of scalar values exactly when the path is *)
Theorem C09_key_valid_iff_path_valid : forall p, utf8_str (norm_key p) = utf8_str p.
Proof. exact utf8_norm_key. Qed.
Print Assumptions C09_key_valid_iff_path_valid.

(* ---- D54 (open, K09_backslash_name): is the key injective on files? Two path strings name one
   file on a POSIX file system when they have the same root marker and the same components
   ([posix_same]). Refuted with a backslash in a name; proved for paths without one. The
   executable classifier of the known class is [has_bslash p || has_bslash q]. *)
Theorem C09_key_injective_refuted :
  exists p q, ~ posix_same p q /\ norm_key p = norm_key q /\ has_bslash p = true /\ has_bslash q = false.
Proof. exact key_not_injective_with_backslash. Qed.
Print Assumptions C09_key_injective_refuted.

Theorem C09_key_injective_modulo_known :
  forall p q, has_bslash p || has_bslash q = false -> norm_key p = norm_key q -> posix_same p q.
Proof. exact key_injective_modulo_known. Qed.
Print Assumptions C09_key_injective_modulo_known.

(* ---- non-vacuity and witnesses *)
Definition fa : result := mkResult [46;47;97] Content Failed 12 10 [1].           (* ./a over *)
Definition fb : result := mkResult [46;47;98] Content Failed 12 10 [2].           (* ./b over *)
Definition wc : result := mkResult [46;47;99] Content Warning 9 10 [3].
Definition dF : result := mkResult [46] (Structure FileCount) Failed 3 1 [].
Definition dM : result := mkResult [46;47;100] (Structure MaxDepth) Failed 1 0 [].

(* round trip on a state with a content, a file-count, a depth violation and a warning:
   the first two are grandfathered, the depth violation keeps the run failing *)
Example C09_roundtrip_nonvacuous :
  let d1 := o_disk (check_step (update_flags UAll false) [fa; wc; dF; dM] [] None) in
  let out := check_step (mkFlags true None None None false false false) [fa; wc; dF; dM] [] d1 in
  map r_status (o_results out) = [Grandfathered; Warning; Grandfathered; Failed] /\ o_exit out = 1 /\
  o_exit (check_step (mkFlags true None None None false false false) [fa; wc; dF] []
            (o_disk (check_step (update_flags UAll true) [fa; wc; dF] [] d1))) = 0.
Proof. vm_compute. repeat split; reflexivity. Qed.
Print Assumptions C09_roundtrip_nonvacuous.

(* the former D12 witness: baseline {a}, a and b over; the sequential fail-fast run now goes on
   past the grandfathered a, meets b and exits 1 *)
Example C09_unrecorded_nonvacuous :
  let bl := Some [([97], EContent 12 [1])] in
  let fl := mkFlags true None None None false false true in
  ff_seq bl [fa; fb] = [fa; fb] /\ o_exit (check_step fl (ff_seq bl [fa; fb]) [] bl) = 1.
Proof. vm_compute. split; reflexivity. Qed.
Print Assumptions C09_unrecorded_nonvacuous.

(* the former D9 / D10 witnesses now behave *)
Example C09_update_nonvacuous :
  let b := update_baseline_from_results [fa; dF] UAll None in
  o_disk (check_step (update_flags UAll true) [fa; dF] [] (Some b)) = Some b /\
  olookup [46] (o_disk (check_step (update_flags UContent true) [fa; fb] [] (Some b))) = Some (EStructure Files 3) /\
  olookup [98] (o_disk (check_step (update_flags UContent false) [fa; fb] [] (Some b))) = Some (EContent 12 [2]).
Proof. vm_compute. repeat split; reflexivity. Qed.
Print Assumptions C09_update_nonvacuous.

(* the former D8 witness: the file listed as a.rs, ./a.rs or .\a.rs is grandfathered by the
   entry a legacy baseline spells ./a.rs (re-keyed on load); under the old key function
   (backslash to slash only) the first one stayed Failed *)
Example C09_key_spelling_nonvacuous :
  let bl := Some [([46;47;97], EContent 12 [1])] in
  let r1 := mkResult [97] Content Failed 12 10 [1] in
  let r2 := mkResult [46;47;97] Content Failed 12 10 [1] in
  let r3 := mkResult [46;92;97] Content Failed 12 10 [1] in
  map r_status (o_results (check_step (mkFlags true None None None false false false) [r1; r2; r3] [] bl))
  = [Grandfathered; Grandfathered; Grandfathered] /\
  map norm_char [97] <> map norm_char [46;47;97].
Proof. vm_compute. split; [reflexivity | discriminate]. Qed.
Print Assumptions C09_key_spelling_nonvacuous.

(* doubled and mixed prefixes, repeated / trailing separators, interior dot components: one key;
   the root directory marker and ".." stay *)
Example C09_key_spellings :
  norm_key [46;47;46;92;46;47;97] = [97] /\ norm_key [46;92] = [46] /\ norm_key [] = [46] /\
  norm_key [100;92;46;47;97] = [100;47;97] /\ norm_key [97;47] = [97] /\
  norm_key [100;47;47;97;47;46] = [100;47;97] /\ norm_key [47] = [47] /\ norm_key [47;97;47] = [47;97] /\
  norm_key [46;46;47;97] = [46;46;47;97].
Proof. vm_compute. repeat split; reflexivity. Qed.
Print Assumptions C09_key_spellings.

(* D56, the pre-repair behaviour: had the updating run been cut short (the sequential fail-fast
   run stops at the new failure a; b and z, grandfathered by the loaded baseline, are behind it),
   the rebuilt file would hold a only and the next check would fail; with the full list it passes *)
Definition fz : result := mkResult [46;47;122] Content Failed 12 10 [3].
Example C09_truncated_update_old_refuted :
  let bl := Some [([98], EContent 12 [2]); ([122], EContent 12 [3])] in
  let plain := mkFlags true None None None false false false in
  ff_seq bl [fa; fb; fz] = [fa] /\
  o_exit (check_step plain [fa; fb; fz] [] (o_disk (check_step (update_flags UAll true) [fa] [] bl))) = 1 /\
  o_exit (check_step plain [fa; fb; fz] [] (o_disk (check_step (update_flags UAll true) [fa; fb; fz] [] bl))) = 0 /\
  effective_fail_fast (update_flags_ff UAll true true) = false /\
  effective_fail_fast (mkFlags true None None None false false true) = true.
Proof. vm_compute. repeat split; reflexivity. Qed.
Print Assumptions C09_truncated_update_old_refuted.

(* D55: src/<ff>.rs (violating) and src/<fe>.rs are not valid UTF-8 (units DCFF / DCFE). The file
   holds the lossy key src/<U+FFFD>.rs written before the repair: neither path matches it, the
   violation fails the run, an update records nothing for it and keeps the file valid *)
Definition pff : str := [115;114;99;47;56575;46;114;115].
Definition pfe : str := [115;114;99;47;56574;46;114;115].
Definition lossy : key := [115;114;99;47;65533;46;114;115].
Example C09_no_key_nonvacuous :
  let rff := mkResult pff Content Failed 30 10 [] in
  let rfe := mkResult pfe Content Passed 1 10 [] in
  let bl := Some [(lossy, EContent 30 [])] in
  has_key rff = false /\ utf8_str lossy = true /\
  map r_status (o_results (check_step (mkFlags true None None None false false false) [rff; rfe] [] bl)) = [Failed; Passed] /\
  o_exit (check_step (mkFlags true None None None false false false) [rff; rfe] [] bl) = 1 /\
  o_disk (check_step (update_flags UAll false) [rff; rfe] [] None) = Some [] /\
  (* --files <fe> --ratchet strict / auto: the entry of the other file is not touched *)
  o_exit (check_step (mkFlags true None (Some RStrict) None false false false) [rfe] [] bl) = 0 /\
  o_disk (check_step (mkFlags true None (Some RAuto) None false false false) [rfe] [] bl) = bl.
Proof. vm_compute. repeat split; reflexivity. Qed.
Print Assumptions C09_no_key_nonvacuous.

(* D54, the masking it causes in the model as in the binary: the baseline records src/a/b.rs; a
   file literally named a\b.rs in src, over the limit, is reported grandfathered and the run
   passes; the hypotheses of the modulo theorem are satisfiable *)
Example C09_backslash_name_masks :
  let bl := Some [([115;114;99;47;97;47;98;46;114;115], EContent 30 [])] in
  let r := mkResult [46;47;115;114;99;47;97;92;98;46;114;115] Content Failed 30 10 [] in
  map r_status (o_results (check_step (mkFlags true None None None false false false) [r] [] bl)) = [Grandfathered] /\
  o_exit (check_step (mkFlags true None None None false false false) [r] [] bl) = 0 /\
  has_bslash [115;114;99;47;97] || has_bslash [46;47;115;114;99;47;47;97] = false /\
  norm_key [115;114;99;47;97] = norm_key [46;47;115;114;99;47;47;97].
Proof. vm_compute. repeat split; reflexivity. Qed.
Print Assumptions C09_backslash_name_masks.
