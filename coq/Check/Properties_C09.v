(* Properties_C09.v -- C09: baseline round trip and non-masking. Property theorems only; each is
   closed by [exact <lemma>] (Check/Proofs_C09.v) and followed by Print Assumptions.

   Model: Check/Results.v (CheckResult), BMap.v (baseline as a finite map read through lookup),
   Ratchet.v, Baseline.v (apply_baseline_comparison, update_baseline_from_results, check_step =
   runner.rs:330-392, histories), FailFast.v. The model is that of the tree WITH the repairs
   fixes/D09, D10, D12, D30, D08 (and D11 for the ratchet): keys are path_key of the result path
   ([norm_key]: backslash to slash, rebuilt from its components without the dot components, empty
   spelled dot; idempotent on every string, Proofs_Check.norm_key_idem) and a loaded baseline is re-keyed ([rekey], [view]).
   Before the repairs C09_update_idempotent,
   C09_modes_preserve_other_kind, C09_new_never_drops (without --baseline) and
   C09_unrecorded_always_fails (under fail-fast) were refuted by the faithful model and by the
   binary (witness histories in known_findings/C09.json, section fixed).
   All statements quantify over arbitrary result lists, baselines, flags and histories. *)
From Coq Require Import NArith List Bool.
From SG Require Import Check.Results Check.ExitCode Check.BMap Check.Ratchet Check.Baseline
     Check.FailFast Check.Proofs_Check Check.Proofs_C09.
Import ListNotations.
Open Scope N_scope.

(* After Update all on a state (with or without the existing baseline loaded, from any previous
   baseline file), a check with --baseline on the unchanged state (any other flags, any ratchet
   mode) reports every recorded line / file-count / dir-count violation as Grandfathered, finds
   nothing stale, leaves the file alone, and exits 1 exactly when a violation of another kind
   is still reported Failed or a warning exists under warnings-as-errors (and warn-only is off) *)
Theorem C09_roundtrip :
  forall (R : list result) (dirs : list key) (disk0 : option baseline) (we : bool) (fl : flags),
  f_baseline fl = true -> f_update fl = None ->
  let disk1 := o_disk (check_step (update_flags UAll we) R dirs disk0) in
  let out := check_step fl R dirs disk1 in
  (forall r, In r R -> is_failed r = true -> recordable r = true ->
             In (with_status r Grandfathered) (o_results out)) /\
  o_stale out = [] /\
  o_disk out = disk1 /\
  (o_exit out = 1 <->
   f_warn_only fl = false /\
   ((exists r, In r R /\ is_failed r = true /\ recordable r = false /\ In r (o_results out)) \/
    (f_wae fl = true /\ exists r, In r R /\ is_warning r = true))) /\
  (o_exit out = 0 \/ o_exit out = 1).
Proof. exact roundtrip. Qed.
Print Assumptions C09_roundtrip.

(* A violation the loaded baseline does not record (ff_trigger = Failed and key not contained;
   with no baseline every failure) makes the run exit 1 whatever the other flags (warn-only
   excepted), whatever else is grandfathered, and for EVERY fail-fast execution R' of the file
   loop (ff_sub; R' = R is the run without fail-fast); if it was evaluated it is reported Failed *)
Theorem C09_unrecorded_always_fails :
  forall fl R R' dirs' disk loaded r,
  load_for_run fl disk = Some loaded ->
  ff_sub loaded R R' ->
  In r R -> ff_trigger loaded r = true ->
  f_warn_only fl = false ->
  o_exit (check_step fl R' dirs' disk) = 1 /\
  (In r R' -> In r (o_results (check_step fl R' dirs' disk))).
Proof. exact unrecorded_always_fails. Qed.
Print Assumptions C09_unrecorded_always_fails.

(* --update-baseline new never drops or rewrites an entry (of the file as loaded, i.e. under its
   normalised key), with or without --baseline; the only entries that may go are those an auto
   ratchet of the same run reported stale *)
Theorem C09_new_never_drops :
  forall fl R dirs b k e,
  f_update fl = Some UNew ->
  lookup k (rekey b) = Some e ->
  ~ In k (o_stale (check_step fl R dirs (Some b))) ->
  exists b', o_disk (check_step fl R dirs (Some b)) = Some b' /\ lookup k b' = Some e.
Proof. exact new_never_drops. Qed.
Print Assumptions C09_new_never_drops.

(* content mode: the structure entries afterwards are exactly those before (minus keys that now
   carry a content violation); structure mode symmetrically *)
Theorem C09_modes_preserve_other_kind :
  forall R dirs b we k e,
  let d1 := o_disk (check_step (update_flags UContent we) R dirs (Some b)) in
  let d2 := o_disk (check_step (update_flags UStructure we) R dirs (Some b)) in
  (is_structure_entry e = true ->
   (olookup k d1 = Some e <->
    lookup k (rekey b) = Some e /\
    forall r, In r R -> violating r = true -> is_structure r = false -> key_of r <> k)) /\
  (is_content_entry e = true ->
   (olookup k d2 = Some e <->
    lookup k (rekey b) = Some e /\
    forall r, In r R -> violating r = true -> baselinable r <> None -> key_of r <> k)).
Proof. exact modes_preserve_other_kind. Qed.
Print Assumptions C09_modes_preserve_other_kind.

(* updating again on the unchanged state yields the same baseline, in every mode, whether the
   first and / or the second update loads the existing baseline *)
Theorem C09_update_idempotent :
  forall m R dirs disk0 we we',
  let d1 := o_disk (check_step (update_flags m we) R dirs disk0) in
  let d2 := o_disk (check_step (update_flags m we') R dirs d1) in
  forall k, olookup k d2 = olookup k d1.
Proof. exact update_idempotent. Qed.
Print Assumptions C09_update_idempotent.

(* reachable-state invariant: after ANY history of edits, updates and checks (any flags, any
   restriction of the evaluated set) from any start state, every key of the baseline file is a
   key of the start file or the key of a violating result at an update that ran in the history,
   possibly re-normalised by later loads. Stated as preservation of an arbitrary predicate that
   survives normalisation; for every project type and every evaluator *)
Theorem C09_history_inv :
  forall (project : Type) (eval : project -> list result) (dirs_of : project -> list key)
         (P : key -> Prop), (forall k, P k -> P (norm_key k)) ->
  forall (ops : list (op project)) (st : hstate project),
  (forall k, ocontains k (h_disk _ st) = true -> P k) ->
  (forall k, In k (written_keys project eval dirs_of ops st) -> P k) ->
  forall k, ocontains k (h_disk _ (run_history project eval dirs_of ops st)) = true -> P k.
Proof. exact history_inv. Qed.
Print Assumptions C09_history_inv.

(* spelling independence of the key (fixes D08, D39): the key function is idempotent on every
   string, so keys stay fixed however often the code normalises them; and a relative path, the
   same path behind "./" and behind ".\" have one key (for an absolute path the prefix makes it
   relative, so the hypothesis is needed). Repeated and trailing separators and interior "/./"
   are covered by the examples below and, in general, by SG.Paths (C08). *)
Theorem C09_key_spelling_invariant :
  forall p,
  norm_key (norm_key p) = norm_key p /\
  (SG.Paths.Model.is_abs (SG.Paths.Model.unbackslash p) = false ->
   norm_key (46 :: 47 :: p) = norm_key p /\ norm_key (46 :: 92 :: p) = norm_key p).
Proof. exact key_spelling_invariant. Qed.
Print Assumptions C09_key_spelling_invariant.

(* ---- non-vacuity and witnesses *)
Definition fa : result := mkResult [46;47;97] Content Failed 12 10 [1].           (* ./a over *)
Definition fb : result := mkResult [46;47;98] Content Failed 12 10 [2].           (* ./b over *)
Definition wc : result := mkResult [46;47;99] Content Warning 9 10 [3].
Definition dF : result := mkResult [46] (Structure FileCount) Failed 3 1 [].
Definition dM : result := mkResult [46;47;100] (Structure MaxDepth) Failed 1 0 [].

(* round trip on a state with a content, a file-count, a depth violation and a warning:
   the first two are grandfathered, the depth violation keeps the run failing *)
Example C09_roundtrip_nonvacuous :
  let d1 := o_disk (check_step (update_flags UAll false) [fa; wc; dF; dM] [] None) in
  let out := check_step (mkFlags true None None None false false false) [fa; wc; dF; dM] [] d1 in
  map r_status (o_results out) = [Grandfathered; Warning; Grandfathered; Failed] /\ o_exit out = 1 /\
  o_exit (check_step (mkFlags true None None None false false false) [fa; wc; dF] []
            (o_disk (check_step (update_flags UAll true) [fa; wc; dF] [] d1))) = 0.
Proof. vm_compute. repeat split; reflexivity. Qed.
Print Assumptions C09_roundtrip_nonvacuous.

(* the former D12 witness: baseline {a}, a and b over; the sequential fail-fast run now goes on
   past the grandfathered a, meets b and exits 1 *)
Example C09_unrecorded_nonvacuous :
  let bl := Some [([97], EContent 12 [1])] in
  let fl := mkFlags true None None None false false true in
  ff_seq bl [fa; fb] = [fa; fb] /\ o_exit (check_step fl (ff_seq bl [fa; fb]) [] bl) = 1.
Proof. vm_compute. split; reflexivity. Qed.
Print Assumptions C09_unrecorded_nonvacuous.

(* the former D9 / D10 witnesses now behave *)
Example C09_update_nonvacuous :
  let b := update_baseline_from_results [fa; dF] UAll None in
  o_disk (check_step (update_flags UAll true) [fa; dF] [] (Some b)) = Some b /\
  olookup [46] (o_disk (check_step (update_flags UContent true) [fa; fb] [] (Some b))) = Some (EStructure Files 3) /\
  olookup [98] (o_disk (check_step (update_flags UContent false) [fa; fb] [] (Some b))) = Some (EContent 12 [2]).
Proof. vm_compute. repeat split; reflexivity. Qed.
Print Assumptions C09_update_nonvacuous.

(* the former D8 witness: the file listed as a.rs, ./a.rs or .\a.rs is grandfathered by the
   entry a legacy baseline spells ./a.rs (re-keyed on load); under the old key function
   (backslash to slash only) the first one stayed Failed *)
Example C09_key_spelling_nonvacuous :
  let bl := Some [([46;47;97], EContent 12 [1])] in
  let r1 := mkResult [97] Content Failed 12 10 [1] in
  let r2 := mkResult [46;47;97] Content Failed 12 10 [1] in
  let r3 := mkResult [46;92;97] Content Failed 12 10 [1] in
  map r_status (o_results (check_step (mkFlags true None None None false false false) [r1; r2; r3] [] bl))
  = [Grandfathered; Grandfathered; Grandfathered] /\
  map norm_char [97] <> map norm_char [46;47;97].
Proof. vm_compute. split; [reflexivity | discriminate]. Qed.
Print Assumptions C09_key_spelling_nonvacuous.

(* doubled and mixed prefixes, repeated / trailing separators, interior dot components: one key;
   the root directory marker and ".." stay *)
Example C09_key_spellings :
  norm_key [46;47;46;92;46;47;97] = [97] /\ norm_key [46;92] = [46] /\ norm_key [] = [46] /\
  norm_key [100;92;46;47;97] = [100;47;97] /\ norm_key [97;47] = [97] /\
  norm_key [100;47;47;97;47;46] = [100;47;97] /\ norm_key [47] = [47] /\ norm_key [47;97;47] = [47;97] /\
  norm_key [46;46;47;97] = [46;46;47;97].
Proof. vm_compute. repeat split; reflexivity. Qed.
Print Assumptions C09_key_spellings.
