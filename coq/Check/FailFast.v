(* Check/FailFast.v -- the fail-fast loop of runner.rs:232-265 as a relation (definitions only).

   R is the list of pre-baseline file results a full run produces, in the order of the file list
   (rayon's collect preserves the order of the input: its documented contract, trusted). With
   fail_fast set, each worker executes, per file:
       if failure_detected.load(Relaxed) { return None }            -- result dropped
       r = process(file); if r.is_new_failure(baseline) { failure_detected.store(true, Relaxed) }
       return Some(r)
   where is_new_failure = Failed and not contained in the loaded baseline ([ff_trigger]; repair of
   D12, fixes/D12-failfast-skips-grandfathered.patch; before it the trigger was is_failed alone).
   [ff_sub ob R R'] says: R' is a sublist of R, and if anything was dropped then R' contains a
   triggering result. This over-approximates EVERY interleaving of the workers under Relaxed
   ordering, for any number of workers:
     - a result is never altered and never reordered, only dropped (filter_map + ordered
       collect), hence sublist;
     - a result is dropped only by a worker that READ true from the flag; the flag is
       initialised to false and true is only ever STORED by a worker that has just computed a
       triggering result r, and that worker returns Some(r) unconditionally afterwards; so whenever
       some result is missing, a triggering result is present in R'. Relaxed ordering can only delay
       the visibility of the store (fewer drops), it cannot make a load return a value that was
       never stored (no out-of-thin-air values for atomics).
   Nothing else is assumed: which results are dropped, and how many, is left arbitrary.
   The sequential schedules (one worker, files taken in list order) are [ff_seq]: the prefix up
   to and including the first triggering result.

   Structure results are appended after the loop and are never dropped; appending the same
   suffix to R and R' preserves ff_sub (lemma ff_sub_app in Proofs_C11.v). *)
From Coq Require Import NArith List Bool.
From SG Require Import Check.Results Check.BMap Check.ExitCode Check.Ratchet Check.Baseline.
Import ListNotations.
Open Scope N_scope.

Inductive sublist {A : Type} : list A -> list A -> Prop :=
| sl_nil : sublist [] []
| sl_skip : forall x l l', sublist l' l -> sublist l' (x :: l)
| sl_keep : forall x l l', sublist l' l -> sublist (x :: l') (x :: l).

(* [trigger r] = this result makes the worker set the flag *)
Definition ff_sub_gen (trigger : result -> bool) (R R' : list result) : Prop :=
  sublist R' R /\ (R' <> R -> exists r, In r R' /\ trigger r = true).

(* CheckFileResult::is_new_failure *)
Definition ff_trigger (ob : option baseline) (r : result) : bool :=
  is_failed r && negb (match ob with Some b => contains (key_of r) b | None => false end).

Definition ff_sub (ob : option baseline) (R R' : list result) : Prop := ff_sub_gen (ff_trigger ob) R R'.

(* the loop with and without fail_fast: without it the closure is a plain map, and the ordered
   collect returns R itself whatever the number of workers *)
Definition loop_results (fail_fast : bool) (ob : option baseline) (R R' : list result) : Prop :=
  if fail_fast then ff_sub ob R R' else R' = R.

(* runner.rs: fail_fast = (--fail-fast || [check] fail_fast) && args.update_baseline.is_none().
   A run that updates the baseline evaluates everything (repair of D56): the new baseline is
   built from the results of the run, so a truncated list would drop the entries of the files
   the short-circuit skipped. [f_fail_fast] is the first conjunct. *)
Definition effective_fail_fast (fl : flags) : bool :=
  f_fail_fast fl && match f_update fl with Some _ => false | None => true end.

(* what the file loop of a run with flags [fl] hands to check_step, R being the full list *)
Definition run_loop (fl : flags) (ob : option baseline) (R R' : list result) : Prop :=
  loop_results (effective_fail_fast fl) ob R R'.

(* update flags with fail-fast requested as well *)
Definition update_flags_ff (m : umode) (with_existing ff : bool) : flags :=
  mkFlags with_existing (Some m) None None false false ff.

(* one worker, list order *)
Fixpoint ff_seq_gen (trigger : result -> bool) (R : list result) : list result :=
  match R with
  | [] => []
  | r :: R' => if trigger r then [r] else r :: ff_seq_gen trigger R'
  end.
Definition ff_seq (ob : option baseline) (R : list result) : list result := ff_seq_gen (ff_trigger ob) R.

(* executable test: greedy subsequence matching is complete for sublist *)
Fixpoint sublistb (l' l : list result) : bool :=
  match l', l with
  | [], _ => true
  | _ :: _, [] => false
  | x :: t', y :: t => if result_eqb x y then sublistb t' t else sublistb l' t
  end.

Definition ff_subb_gen (trigger : result -> bool) (R R' : list result) : bool :=
  sublistb R' R && (N.eqb (N.of_nat (length R')) (N.of_nat (length R)) || existsb trigger R').
Definition ff_subb (ob : option baseline) (R R' : list result) : bool := ff_subb_gen (ff_trigger ob) R R'.
