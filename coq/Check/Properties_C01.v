(* Properties_C01.v -- C01: check is a sound and complete gate. Property theorems only.
   Model: Check/Pipeline.v ([check_run]) on top of Check/Baseline.v ([check_step]: baseline comparison,
   ratchet, update, exit code in the order of runner.rs). The scoping layer of the tool is summarised by
   one fact record per file ([in_scope] = survived the walk and the scanner excludes, selected by
   should_process, readable with a recognised language), whose faithfulness is established by the
   correspondence run of tools/props/c01.py against an independent re-computation from the project tree. *)
From Coq Require Import NArith List Bool.
From SG Require Import Check.Results Check.BMap Check.ExitCode Check.Ratchet Check.Baseline Check.Pipeline Check.Proofs_C01 Check.Compose Check.ScanExclude Check.Proofs_ScanExclude.
Import ListNotations.
Open Scope N_scope.

(* the per-path statuses are exactly those the rules assign; nothing else is reported *)
Theorem C01_statuses_exact : forall (fl : flags) (fs : list ffact) (sres : list result) (dirs : list key)
                                    (disk : option baseline) (l : option baseline),
  load_for_run fl disk = Some l ->
  let out := check_run false fl fs sres dirs disk in
  (forall f, In f fs -> in_scope f = true ->
     exists r, In r (o_results out) /\ r_path r = ff_path f /\ r_kind r = Content /\
               r_status r = spec_status l f /\ r_code r = ff_count f /\ r_limit r = ff_limit f) /\
  (forall r, In r (o_results out) ->
     (exists f, In f fs /\ in_scope f = true /\ r_path r = ff_path f /\ r_status r = spec_status l f) \/
     (exists s, In s sres /\ r_path r = r_path s /\ r_kind r = r_kind s /\ r_status r = spec_sstatus l s)).
Proof. exact statuses_exact. Qed.
Print Assumptions C01_statuses_exact.

(* exit 0 (without --warn-only) only if every in-scope file is within its limit or grandfathered and every
   failing structure result is grandfathered *)
Theorem C01_exit0_sound : forall (fl : flags) (fs : list ffact) (sres : list result) (dirs : list key)
                                 (disk : option baseline) (l : option baseline),
  load_for_run fl disk = Some l ->
  let out := check_run false fl fs sres dirs disk in
  o_exit out = 0 -> f_warn_only fl = false ->
  (forall f, In f fs -> in_scope f = true ->
     ff_count f <= ff_limit f \/ grandfathered_by l (ff_path f) = true) /\
  (forall s, In s sres -> r_status s = Failed -> grandfathered_by l (r_path s) = true).
Proof. exact exit0_sound. Qed.
Print Assumptions C01_exit0_sound.

(* exit 1 exactly when (not warn-only and) something failed and is not grandfathered, or a warning under
   warnings-as-errors, or a strict ratchet found the baseline outdated *)
Theorem C01_exit1_iff : forall (fl : flags) (fs : list ffact) (sres : list result) (dirs : list key)
                               (disk : option baseline) (l : option baseline),
  load_for_run fl disk = Some l ->
  let out := check_run false fl fs sres dirs disk in
  o_exit out = 1 <->
  f_warn_only fl = false /\
  ((exists r, In r (o_results out) /\ r_status r = Failed) \/
   (f_wae fl = true /\ exists r, In r (o_results out) /\ r_status r = Warning) \/
   ro_failed (handle_baseline_ratchet (f_ratchet_cli fl) (f_ratchet_cfg fl) (o_results out)
                (evaluated_of (o_results out) dirs) l) = true).
Proof. exact exit1_iff. Qed.
Print Assumptions C01_exit1_iff.

(* the ratchet can fail the run only in strict mode, with a loaded baseline holding a stale evaluated entry *)
Theorem C01_ratchet_fails_only_when_strict_and_stale : forall cli cfg rs ev ob,
  ro_failed (handle_baseline_ratchet cli cfg rs ev ob) = true ->
  effective_ratchet cli cfg = Some RStrict /\
  exists b, ob = Some b /\ retain_evaluated ev (check_baseline_ratchet rs b) <> [].
Proof. exact ratchet_failed_strict. Qed.
Print Assumptions C01_ratchet_fails_only_when_strict_and_stale.

Theorem C01_warn_only_forces_0 : forall (fl : flags) (fs : list ffact) (sres : list result) (dirs : list key)
                                        (disk : option baseline) (l : option baseline),
  load_for_run fl disk = Some l -> f_warn_only fl = true ->
  o_exit (check_run false fl fs sres dirs disk) = 0.
Proof. exact warn_only_forces_zero. Qed.
Print Assumptions C01_warn_only_forces_0.

(* 2 only for configuration or usage errors (here: an error flagged before the scan, or --baseline naming
   a missing file without --update-baseline) *)
Theorem C01_exit2_only_errors : forall (ce : bool) (fl : flags) (fs : list ffact) (sres : list result)
                                       (dirs : list key) (disk : option baseline),
  o_exit (check_run ce fl fs sres dirs disk) = 2 <-> ce = true \/ load_for_run fl disk = None.
Proof. exact exit2_only_errors. Qed.
Print Assumptions C01_exit2_only_errors.

(* ---- composition with the threshold model (C05): the per-file facts are computed, not assumed ----
   [check_command cfg a fl ins ...] builds the checker `check` builds from the configuration and the CLI
   overrides (Threshold.Model.check_checker), rejects what the post-override validation rejects, and derives
   every file's scope decision, effective count, limit and warn point from should_process /
   process_for_check / warn_limit_for on the real match vectors *)
Theorem C01_composed_statuses : forall cfg a fl ins sres dirs disk l,
  config_rejected cfg a = false ->
  load_for_run fl disk = Some l ->
  let ck := Threshold.Model.check_checker cfg a in
  let out := check_command cfg a fl ins sres dirs disk in
  forall f s, In f ins -> fi_scanned f = true -> fi_stats f = Some s ->
    Threshold.Model.should_process ck (fi_ev f) (fi_mv f) (fi_ext f) = true ->
    exists r, In r (o_results out) /\ r_path r = fi_path f /\ r_kind r = Content /\
      r_status r = adjust l (fi_path f) (conv (Threshold.Model.res_status (Threshold.Model.process_for_check ck (fi_mv f) s))) /\
      r_code r = Threshold.Model.sloc (Threshold.Model.res_stats (Threshold.Model.process_for_check ck (fi_mv f) s)) /\
      r_limit r = Threshold.Model.res_limit (Threshold.Model.process_for_check ck (fi_mv f) s).
Proof. exact composed_statuses. Qed.
Print Assumptions C01_composed_statuses.

Theorem C01_composed_config_error : forall cfg a fl ins sres dirs disk,
  config_rejected cfg a = true ->
  o_exit (check_command cfg a fl ins sres dirs disk) = 2 /\ o_results (check_command cfg a fl ins sres dirs disk) = [].
Proof. exact composed_config_error. Qed.
Print Assumptions C01_composed_config_error.

Theorem C01_composed_nothing_else_reported : forall cfg a fl ins sres dirs disk l,
  config_rejected cfg a = false -> load_for_run fl disk = Some l ->
  let ck := Threshold.Model.check_checker cfg a in
  forall r, In r (o_results (check_command cfg a fl ins sres dirs disk)) -> r_kind r = Content ->
    (forall s, In s sres -> r_kind s <> Content) ->
    exists f, In f ins /\ r_path r = fi_path f /\ fi_scanned f = true /\
              Threshold.Model.should_process ck (fi_ev f) (fi_mv f) (fi_ext f) = true /\ fi_stats f <> None.
Proof. exact composed_unselected_silent. Qed.
Print Assumptions C01_composed_nothing_else_reported.

(* ---- the [in_scope] fact and the scanner excludes: the two walkers read the same patterns differently ----
   plain scanner (no [structure] section): excluded iff a pattern matches the normalised path;
   structure-aware scanner: also when a pattern matches the bare name, or a directory's name equals the last
   literal component of a pattern ending in /** (Check/ScanExclude.v; matcher verdicts are oracle data).
   The second reading never keeps what the first drops ... *)
Theorem C01_structure_scanner_excludes_complete :
  forall (pat entry : Type) (is_dir : entry -> bool) (on_path on_name name_fallback : pat -> entry -> bool) ps e,
  plain_excluded pat entry on_path ps e = true ->
  struct_excluded pat entry is_dir on_path on_name name_fallback ps e = true.
Proof. exact struct_complete. Qed.
Print Assumptions C01_structure_scanner_excludes_complete.

(* ... but it drops entries no pattern matches (known finding K01_basename_exclude: docs/build/** prunes
   src/build, gen.rs drops src/gen.rs): the full statement is refuted by the witness ... *)
Theorem C01_scanner_excludes_agree_refuted :
  exists ps e, struct_excluded mpat mentry e_dir m_on_path m_on_name m_name_fallback ps e
               <> plain_excluded mpat mentry m_on_path ps e.
Proof. exact two_readings_differ. Qed.
Print Assumptions C01_scanner_excludes_agree_refuted.

(* ... and outside that class whatever it drops is matched on its path or is a directory whose whole content
   a pattern covers (so no countable file is lost) *)
Theorem C01_structure_scanner_excludes_sound_modulo_known :
  forall (pat entry : Type) (is_dir : entry -> bool) (on_path on_name name_fallback under_dir : pat -> entry -> bool) ps e,
  ~ KnownBasename pat entry is_dir on_path on_name name_fallback under_dir ps e ->
  struct_excluded pat entry is_dir on_path on_name name_fallback ps e = true ->
  plain_excluded pat entry on_path ps e = true \/ (is_dir e = true /\ exists p, In p ps /\ under_dir p e = true).
Proof. exact struct_sound_modulo_known. Qed.
Print Assumptions C01_structure_scanner_excludes_sound_modulo_known.

(* the project root itself is never excluded by a pattern that names at least one component, under either reading
   (D121, fix b1a9be7: the absolute spelling used to expose the name of the project directory to the patterns) *)
Theorem C01_root_never_excluded : forall ps, forallb names_something ps = true ->
  struct_excluded mpat mentry e_dir m_on_path m_on_name m_name_fallback ps root_entry = false /\
  plain_excluded mpat mentry m_on_path ps root_entry = false.
Proof. exact root_never_excluded. Qed.
Print Assumptions C01_root_never_excluded.

(* verdict trichotomy used by spec_status *)
Theorem C01_verdict_failed_iff : forall c lim w, verdict c lim w = Failed <-> lim < c.
Proof. exact verdict_failed_iff. Qed.
Print Assumptions C01_verdict_failed_iff.

Theorem C01_verdict_warning_iff : forall c lim w, verdict c lim w = Warning <-> w <= c /\ c <= lim.
Proof. exact verdict_warning_iff. Qed.
Print Assumptions C01_verdict_warning_iff.

(* non-vacuity: two files (one over its limit and grandfathered, one warned), one failing directory *)
Example C01_nonvacuous :
  let fa := mkFact [97] true true true 12 10 9 [] in
  let fb := mkFact [98] true true true 9 10 9 [] in
  let fc := mkFact [99] true false true 99 10 9 [] in
  let sd := mkResult [100] (Structure FileCount) Failed 5 3 [] in
  let bl := [([97], EContent 12 [])] in
  let fl := mkFlags true None None None false false false in
  load_for_run fl (Some bl) = Some (Some bl) /\
  map r_status (o_results (check_run false fl [fa; fb; fc] [sd] [] (Some bl))) = [Grandfathered; Warning; Failed] /\
  o_exit (check_run false fl [fa; fb; fc] [sd] [] (Some bl)) = 1.
Proof. vm_compute. repeat split; reflexivity. Qed.
Print Assumptions C01_nonvacuous.
