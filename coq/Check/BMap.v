(* Check/BMap.v -- the baseline as a finite map (src/baseline/mod.rs: Baseline.files :
   HashMap<String, BaselineEntry>). Definitions only.
   Representation: association list read through [lookup]; [set] removes older bindings, so a
   baseline built with [set]/[remove] from [] never has two bindings for one key. Every theorem is
   stated through [lookup] (extensional view), so HashMap iteration order is irrelevant by
   construction. *)
From Coq Require Import NArith List Bool.
From SG Require Import Check.Results.
Import ListNotations.
Open Scope N_scope.

Inductive svt := Files | Dirs.                       (* StructureViolationType *)
Inductive entry :=
| EContent (lines : N) (hash : str)                  (* BaselineEntry::Content { lines, hash } *)
| EStructure (v : svt) (count : N).                  (* BaselineEntry::Structure { violation_type, count } *)

Definition baseline := list (key * entry).

Definition empty : baseline := [].

Fixpoint lookup (k : key) (b : baseline) : option entry :=
  match b with
  | [] => None
  | (k', e) :: b' => if str_eqb k k' then Some e else lookup k b'
  end.

Definition contains (k : key) (b : baseline) : bool :=
  match lookup k b with Some _ => true | None => false end.

Fixpoint remove (k : key) (b : baseline) : baseline :=
  match b with
  | [] => []
  | (k', e) :: b' => if str_eqb k k' then remove k b' else (k', e) :: remove k b'
  end.

Definition set (k : key) (e : entry) (b : baseline) : baseline := (k, e) :: remove k b.

Definition keys (b : baseline) : list key := map fst b.

(* Baseline::load re-keys every entry through path_key (fix D08). Two entries of a legacy file
   whose keys collide after normalisation are merged by the HashMap in an unspecified order; here
   the first one in list order is the one lookup sees. *)
Definition rekey (b : baseline) : baseline := map (fun p => (norm_key (fst p), snd p)) b.
Definition view (disk : option baseline) : option baseline :=
  match disk with Some b => Some (rekey b) | None => None end.

Definition is_content_entry (e : entry) : bool :=
  match e with EContent _ _ => true | EStructure _ _ => false end.
Definition is_structure_entry (e : entry) : bool :=
  match e with EContent _ _ => false | EStructure _ _ => true end.

(* the entries of one kind (content / structure update modes keep the other kind). Written so
   that it is the HashMap filter for ANY association list, shadowed bindings included *)
Definition filter_entries (f : entry -> bool) (b : baseline) : baseline :=
  fold_right (fun p acc => if f (snd p) then (fst p, snd p) :: remove (fst p) acc
                           else remove (fst p) acc) [] b.

(* extensional equality and inclusion *)
Definition bl_eq (a b : baseline) : Prop := forall k, lookup k a = lookup k b.
Definition bl_sub (a b : baseline) : Prop := forall k e, lookup k a = Some e -> lookup k b = Some e.

Definition obl_sub (a b : option baseline) : Prop :=
  match a, b with
  | None, _ => True
  | Some x, Some y => bl_sub x y
  | Some x, None => bl_sub x []
  end.

Definition entry_eqb (a b : entry) : bool :=
  match a, b with
  | EContent l h, EContent l' h' => N.eqb l l' && str_eqb h h'
  | EStructure Files c, EStructure Files c' | EStructure Dirs c, EStructure Dirs c' => N.eqb c c'
  | _, _ => false
  end.
