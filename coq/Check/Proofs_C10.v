(* Check/Proofs_C10.v -- lemmas behind Properties_C10.v. *)
From Coq Require Import NArith List Bool Lia.
From SG Require Import Check.Results Check.ExitCode Check.BMap Check.Ratchet Check.Baseline
     Check.Proofs_Check.
Import ListNotations.
Open Scope N_scope.

Lemma no_members_nil : forall (A : Type) (l : list A), (forall x, ~ In x l) -> l = [].
Proof. intros A [|x l] H; auto. exfalso. apply (H x). left. reflexivity. Qed.

(* ------------------------------------------------------------------ what stale means *)
Lemma current_failures_spec : forall rs k,
  In k (current_failures rs) <-> exists r, In r rs /\ violating r = true /\ key_of r = k.
Proof.
  intros rs k. unfold current_failures. fold violating.
  change (fun r : result => is_failed r || is_grandfathered r) with violating.
  rewrite in_map_iff. split.
  - intros [r [E H]]. apply filter_In in H. destruct H. eauto.
  - intros [r [HI [V E]]]. exists r. split; auto. apply filter_In. auto.
Qed.

Lemma stale_spec : forall rs ev b k,
  In k (retain_evaluated ev (check_baseline_ratchet rs b)) <->
  In k (keys b) /\ In k ev /\ ~ In k (current_failures rs).
Proof.
  intros rs ev b k. unfold retain_evaluated, check_baseline_ratchet.
  rewrite !filter_In, mem_key_In, negb_true_iff, mem_key_false. tauto.
Qed.

Lemma handle_stale : forall cli cfg rs ev ob k,
  In k (ro_stale (handle_baseline_ratchet cli cfg rs ev ob)) ->
  exists b, ob = Some b /\ In k (retain_evaluated ev (check_baseline_ratchet rs b)).
Proof.
  intros cli cfg rs ev ob k. unfold handle_baseline_ratchet. cbv zeta.
  destruct (effective_ratchet cli cfg) as [mode|]; cbn; try tauto.
  destruct ob as [b|]; cbn; try tauto.
  destruct (retain_evaluated ev (check_baseline_ratchet rs b)) as [|s ss] eqn:S; cbn; try tauto.
  destruct mode; cbn [ro_stale]; intro H; exists b; rewrite S; auto.
Qed.

Lemma loaded_is_disk : forall fl disk b, load_for_run fl disk = Some (Some b) -> view disk = Some b.
Proof.
  intros fl disk b. unfold load_for_run. destruct (f_baseline fl); [|discriminate].
  destruct disk as [b'|]; [intro H; inversion H; reflexivity|].
  destruct (f_update fl); discriminate.
Qed.

Lemma tighten_stable : forall b stale, stable_bl b -> stable_bl (tighten_baseline b stale).
Proof.
  intros b stale H k HK. apply In_keys_lookup in HK. destruct HK as [e HK].
  rewrite lookup_tighten in HK. destruct (mem_key k stale); [discriminate|].
  apply H. eapply lookup_In_keys; eauto.
Qed.

Lemma keys_after_apply : forall b R, map key_of (map (gf b) R) = map key_of R.
Proof. intros b R. rewrite map_map. apply map_ext. intro r. apply key_of_gf. Qed.

Lemma is_structure_gf : forall b r, is_structure (gf b r) = is_structure r.
Proof.
  intros b r. destruct (gf_cases b r) as [[_ [_ E]] | [_ E]]; rewrite E; reflexivity.
Qed.

Lemma content_keys_after_apply : forall b R,
  map key_of (content_results (map (gf b) R)) = map key_of (content_results R).
Proof.
  intros b R. unfold content_results. induction R as [|r R IH]; [reflexivity|].
  cbn [map filter]. rewrite is_structure_gf.
  destruct (negb (is_structure r)); cbn [map]; rewrite ?key_of_gf, IH; reflexivity.
Qed.

Lemma content_results_incl : forall R k,
  In k (map key_of (content_results R)) -> In k (map key_of R).
Proof.
  intros R k H. apply in_map_iff in H. destruct H as [r [E H]]. apply filter_In in H.
  apply in_map_iff. exists r. tauto.
Qed.

Lemma current_failures_apply : forall b R, current_failures (map (gf b) R) = current_failures R.
Proof.
  intros b R. unfold current_failures.
  change (fun r : result => is_failed r || is_grandfathered r) with violating.
  apply violating_keys_apply.
Qed.

(* ------------------------------------------------------------------ stale only if evaluated and resolved *)
Definition okeys (ob : option baseline) : list key := match ob with Some b => keys b | None => [] end.

Lemma stale_evaluated_resolved : forall fl R dirs disk k,
  In k (o_stale (check_step fl R dirs disk)) ->
  In k (okeys (view disk)) /\
  In k (map key_of (content_results R) ++ dirs) /\
  (forall r, In r R -> key_of r = k -> violating r = false).
Proof.
  intros fl R dirs disk k. unfold check_step.
  destruct (load_for_run fl disk) as [loaded|] eqn:HL; cbn [o_stale]; [|contradiction].
  intro H. apply handle_stale in H. destruct H as [b [E H]]. subst loaded.
  apply loaded_is_disk in HL. rewrite HL. cbn [okeys].
  rewrite apply_is_map in H. apply stale_spec in H. destruct H as [HK [HE HC]].
  unfold evaluated_of in HE. rewrite content_keys_after_apply in HE.
  rewrite current_failures_apply in HC.
  repeat split; auto.
  intros r HI K. destruct (violating r) eqn:V; auto.
  exfalso. apply HC. apply current_failures_spec. eauto.
Qed.

(* ------------------------------------------------------------------ subset *)
Lemma subset_entries : forall fl R dirs disk,
  f_update fl = None ->
  o_disk (check_step fl R dirs disk) = disk \/
  (forall k e, olookup k (o_disk (check_step fl R dirs disk)) = Some e -> olookup k (view disk) = Some e).
Proof.
  intros fl R dirs disk HU. unfold check_step.
  destruct (load_for_run fl disk) as [loaded|] eqn:HL; cbn [o_disk]; auto.
  rewrite HU.
  set (rs1 := match loaded with Some b => apply_baseline_comparison R b | None => R end).
  unfold handle_baseline_ratchet. cbv zeta.
  destruct (effective_ratchet _ _) as [mode|]; cbn [ro_saved ro_baseline]; auto.
  destruct loaded as [b|]; cbn [ro_saved ro_baseline]; auto.
  destruct (retain_evaluated _ _) as [|s ss]; cbn [ro_saved ro_baseline]; auto.
  destruct mode; cbn [ro_saved ro_baseline]; auto.
  right. intros k e. apply loaded_is_disk in HL. rewrite HL. cbn [olookup]. rewrite lookup_tighten.
  destruct (mem_key k (s :: ss)); [discriminate|auto].
Qed.

Lemma no_add_without_update : forall fl R dirs disk,
  f_update fl = None ->
  (disk = None -> o_disk (check_step fl R dirs disk) = None) /\
  (o_disk (check_step fl R dirs disk) = disk \/
   forall k e, olookup k (o_disk (check_step fl R dirs disk)) = Some e -> olookup k (view disk) = Some e).
Proof.
  intros fl R dirs disk HU. split.
  - intro E. subst disk. unfold check_step, load_for_run. rewrite HU.
    destruct (f_baseline fl); cbn [o_disk]; auto.
    rewrite ratchet_no_baseline. reflexivity.
  - apply subset_entries. assumption.
Qed.

(* an entry that disappears was reported stale (hence evaluated and resolved) *)
Lemma removed_only_if_stale : forall fl R dirs disk k e,
  f_update fl = None -> o_exit (check_step fl R dirs disk) <> 2 ->
  ostable disk ->
  olookup k disk = Some e ->
  olookup k (o_disk (check_step fl R dirs disk)) = None ->
  In k (o_stale (check_step fl R dirs disk)).
Proof.
  intros fl R dirs disk k e HU. unfold check_step.
  destruct (load_for_run fl disk) as [loaded|] eqn:HL; cbn [o_disk o_stale o_exit].
  2:{ intros H. exfalso. apply H. reflexivity. }
  intros _ HS. rewrite HU.
  unfold handle_baseline_ratchet. cbv zeta.
  destruct (effective_ratchet _ _) as [mode|]; cbn [ro_saved ro_baseline ro_stale]; try congruence.
  destruct loaded as [b|]; cbn [ro_saved ro_baseline ro_stale]; try congruence.
  destruct (retain_evaluated _ _) as [|s ss]; cbn [ro_saved ro_baseline ro_stale]; try congruence.
  destruct mode; cbn [ro_saved ro_baseline ro_stale]; try congruence.
  apply loaded_is_disk in HL. rewrite view_stable in HL by assumption. subst disk.
  cbn [olookup]. rewrite lookup_tighten.
  destruct (mem_key k (s :: ss)) eqn:M; [|congruence].
  intros _ _. apply mem_key_In. assumption.
Qed.

(* ------------------------------------------------------------------ auto fixpoint *)
Lemma gf_tighten : forall b R stale,
  (forall k, In k stale -> ~ In k (current_failures (map (gf b) R))) ->
  map (gf (tighten_baseline b stale)) R = map (gf b) R.
Proof.
  intros b R stale H. apply map_ext_in. intros r HI.
  unfold gf. destruct (is_failed r) eqn:F; cbn; auto.
  assert (C : contains (key_of r) (tighten_baseline b stale) = contains (key_of r) b).
  { unfold contains. rewrite lookup_tighten.
    destruct (mem_key (key_of r) stale) eqn:M; auto.
    destruct (lookup (key_of r) b) eqn:L; auto.
    exfalso. apply mem_key_In in M. apply (H _ M).
    apply current_failures_spec. exists (gf b r). split; [apply in_map; assumption|].
    rewrite violating_gf, key_of_gf. unfold violating. rewrite F. auto. }
  rewrite C. reflexivity.
Qed.

Lemma check_step_auto : forall fl R dirs b0,
  f_baseline fl = true -> f_update fl = None ->
  effective_ratchet (f_ratchet_cli fl) (f_ratchet_cfg fl) = Some RAuto ->
  check_step fl R dirs (Some b0) =
  let b := rekey b0 in
  let rs1 := map (gf b) R in
  let stale := retain_evaluated (evaluated_of rs1 dirs) (check_baseline_ratchet rs1 b) in
  mkOutcome rs1 (determine_exit_code rs1 (f_warn_only fl) (f_wae fl) false)
            (match stale with [] => Some b0 | _ => Some (tighten_baseline b stale) end) stale.
Proof.
  intros fl R dirs b HB HU HM. unfold check_step, load_for_run. rewrite HB, HU.
  rewrite apply_is_map. unfold handle_baseline_ratchet. cbv zeta. rewrite HM.
  destruct (retain_evaluated _ _); reflexivity.
Qed.

Lemma auto_fixpoint : forall fl R dirs b0,
  f_baseline fl = true -> f_update fl = None ->
  effective_ratchet (f_ratchet_cli fl) (f_ratchet_cfg fl) = Some RAuto ->
  let out1 := check_step fl R dirs (Some b0) in
  let out2 := check_step fl R dirs (o_disk out1) in
  o_stale out2 = [] /\ o_disk out2 = o_disk out1 /\ o_results out2 = o_results out1 /\
  o_exit out2 = o_exit out1.
Proof.
  intros fl R dirs b0 HB HU HM. pose proof (rekey_is_stable b0) as HSt. cbv zeta.
  rewrite (check_step_auto fl R dirs b0 HB HU HM). cbv zeta. cbn [o_disk o_stale o_results o_exit].
  set (b := rekey b0) in *.
  set (ev := evaluated_of (map (gf b) R) dirs).
  destruct (retain_evaluated ev (check_baseline_ratchet (map (gf b) R) b)) as [|s ss] eqn:S.
  - rewrite (check_step_auto fl R dirs b0 HB HU HM). cbv zeta. fold b. fold ev. rewrite S.
    cbn [o_disk o_stale o_results o_exit]. auto.
  - set (st := s :: ss) in *. set (b1 := tighten_baseline b st).
    assert (HS : forall k, In k st -> In k (keys b) /\ In k ev /\ ~ In k (current_failures (map (gf b) R))).
    { intros k HI. apply stale_spec. rewrite S. assumption. }
    assert (G : map (gf b1) R = map (gf b) R).
    { apply gf_tighten. intros k HI. apply HS. assumption. }
    assert (RK : rekey b1 = b1).
    { apply rekey_stable. apply tighten_stable. assumption. }
    rewrite (check_step_auto fl R dirs b1 HB HU HM). cbv zeta. rewrite RK, G. fold ev.
    assert (N : retain_evaluated ev (check_baseline_ratchet (map (gf b) R) b1) = []).
    { apply no_members_nil. intros k HI. apply stale_spec in HI. destruct HI as [HK [HE HC]].
      apply In_keys_lookup in HK. destruct HK as [e HK]. subst b1. rewrite lookup_tighten in HK.
      destruct (mem_key k st) eqn:M; [discriminate|].
      apply mem_key_false in M. apply M. rewrite <- S. apply stale_spec.
      split; [eapply lookup_In_keys; eauto|auto]. }
    rewrite N. cbn [o_disk o_stale o_results o_exit]. auto.
Qed.

(* ------------------------------------------------------------------ strict *)
Lemma strict_fails_only_for_resolved : forall fl R dirs disk,
  o_exit (check_step fl R dirs disk) = 1 ->
  f_warn_only fl = false /\
  ((exists r, In r (o_results (check_step fl R dirs disk)) /\ is_failed r = true) \/
   (f_wae fl = true /\ exists r, In r R /\ is_warning r = true) \/
   (effective_ratchet (f_ratchet_cli fl) (f_ratchet_cfg fl) = Some RStrict /\
    exists k, In k (okeys (view disk)) /\ In k (map key_of (content_results R) ++ dirs) /\
              (forall r, In r R -> key_of r = k -> violating r = false))).
Proof.
  intros fl R dirs disk H.
  pose proof (stale_evaluated_resolved fl R dirs disk) as SE.
  unfold check_step in *.
  destruct (load_for_run fl disk) as [loaded|] eqn:HL; cbn [o_exit o_results o_stale] in *; [|discriminate].
  set (rs1 := match loaded with Some b => apply_baseline_comparison R b | None => R end) in *.
  apply exit_1_iff in H. destruct H as [W [H | [[HW [r [HI Wn]]] | H]]]; split; auto.
  - right. left. split; auto. subst rs1. destruct loaded as [b|]; eauto.
    rewrite apply_is_map in HI. apply in_map_iff in HI. destruct HI as [r0 [E HI]]. subst r.
    rewrite is_warning_gf in Wn. eauto.
  - right. right.
    revert H SE. unfold handle_baseline_ratchet. cbv zeta.
    destruct (effective_ratchet _ _) as [mode|]; cbn [ro_failed ro_stale]; try discriminate.
    destruct loaded as [b|]; cbn [ro_failed ro_stale]; try discriminate.
    destruct (retain_evaluated _ _) as [|s ss]; cbn [ro_failed ro_stale]; try discriminate.
    destruct mode; cbn [ro_failed ro_stale]; try discriminate.
    intros _ SE. split; auto. exists s. apply SE. left. reflexivity.
Qed.
