(* Check/Compose.v -- C01 composed with C05: the per-file facts of the pipeline are no longer free
   parameters but are computed by the threshold model (Threshold/Model.v: should_process, last-match
   limits, warn points, skip flags, effective counts, post-override validation). *)
From Coq Require Import NArith List Bool Lia.
From SG Require Import Check.Results Check.BMap Check.ExitCode Check.Ratchet Check.Baseline Check.Pipeline Check.Proofs_C01.
From SG Require Threshold.Model.
Import ListNotations.
Open Scope N_scope.

(* the threshold model is referred to by its qualified name (no module alias: monolithic extraction of
   check_command cannot go through an alias of a file-level module) *)

(* what the walk and the counter deliver for one file *)
Record finput := mkIn {
  fi_path : str;
  fi_scanned : bool;                 (* yielded by the walk *)
  fi_ev : list bool;                 (* content.exclude match vector (real globset) *)
  fi_mv : list bool;                 (* content.rules match vector *)
  fi_ext : option Threshold.Model.str;             (* Path::extension *)
  fi_stats : option Threshold.Model.line_stats;    (* None: unreadable, no recognised language, or ignore-file *)
  fi_hash : str
}.

Definition conv (s : Threshold.Model.status) : status :=
  match s with Threshold.Model.Passed => Passed | Threshold.Model.Warning => Warning | Threshold.Model.Failed => Failed end.

Definition fact_of (ck : Threshold.Model.checker) (f : finput) : ffact :=
  let sel := Threshold.Model.should_process ck (fi_ev f) (fi_mv f) (fi_ext f) in
  match fi_stats f with
  | Some s =>
      let r := Threshold.Model.process_for_check ck (fi_mv f) s in
      mkFact (fi_path f) (fi_scanned f) sel true (Threshold.Model.sloc (Threshold.Model.res_stats r)) (Threshold.Model.res_limit r)
             (Threshold.Model.warn_limit_for ck (fi_mv f) (Threshold.Model.res_limit r)) (fi_hash f)
  | None => mkFact (fi_path f) (fi_scanned f) sel false 0 0 0 (fi_hash f)
  end.

(* the whole `check` command on a configuration, CLI overrides and a scanned tree *)
Definition config_rejected (cfg : Threshold.Model.config) (a : Threshold.Model.cli_overrides) : bool :=
  negb (Threshold.Model.validate_content cfg) || negb (Threshold.Model.validate_content (Threshold.Model.apply_cli_overrides cfg a)).

Definition check_command (cfg : Threshold.Model.config) (a : Threshold.Model.cli_overrides) (fl : flags) (ins : list finput)
           (sres : list result) (dirs : list key) (disk : option baseline) : outcome :=
  check_run (config_rejected cfg a) fl (map (fact_of (Threshold.Model.check_checker cfg a)) ins) sres dirs disk.

Lemma verdict_conv : forall c lim w, verdict c lim w = conv (Threshold.Model.verdict c lim w).
Proof. intros. unfold verdict, Threshold.Model.verdict. destruct (lim <? c); [reflexivity|]. destruct (w <=? c); reflexivity. Qed.

Lemma fact_verdict : forall ck f s,
  fi_stats f = Some s ->
  verdict (ff_count (fact_of ck f)) (ff_limit (fact_of ck f)) (ff_warn (fact_of ck f)) =
  conv (Threshold.Model.res_status (Threshold.Model.process_for_check ck (fi_mv f) s)).
Proof.
  intros ck f s Hs. unfold fact_of. rewrite Hs. cbn [ff_count ff_limit ff_warn].
  rewrite verdict_conv. f_equal.
  unfold Threshold.Model.process_for_check. destruct (Threshold.Model.skip_settings_for ck (fi_mv f)) as [sc sb].
  unfold Threshold.Model.check. destruct (Threshold.Model.limit_for ck (fi_mv f)) as [limit reason]. reflexivity.
Qed.

Definition adjust (l : option baseline) (path : str) (s : status) : status :=
  match s with Failed => if grandfathered_by l path then Grandfathered else Failed | x => x end.

(* every scanned, selected, countable file is reported with the threshold model's verdict (adjusted by
   the baseline only), its effective count and its limit; files the configuration rejects are never evaluated *)
Theorem composed_statuses : forall cfg a fl ins sres dirs disk l,
  config_rejected cfg a = false ->
  load_for_run fl disk = Some l ->
  let ck := Threshold.Model.check_checker cfg a in
  let out := check_command cfg a fl ins sres dirs disk in
  forall f s, In f ins -> fi_scanned f = true -> fi_stats f = Some s ->
    Threshold.Model.should_process ck (fi_ev f) (fi_mv f) (fi_ext f) = true ->
    exists r, In r (o_results out) /\ r_path r = fi_path f /\ r_kind r = Content /\
      r_status r = adjust l (fi_path f) (conv (Threshold.Model.res_status (Threshold.Model.process_for_check ck (fi_mv f) s))) /\
      r_code r = Threshold.Model.sloc (Threshold.Model.res_stats (Threshold.Model.process_for_check ck (fi_mv f) s)) /\
      r_limit r = Threshold.Model.res_limit (Threshold.Model.process_for_check ck (fi_mv f) s).
Proof.
  intros cfg a fl ins sres dirs disk l Hrej Hl ck out f s Hin Hsc Hs Hsp.
  unfold out, check_command. rewrite Hrej.
  destruct (statuses_exact fl (map (fact_of ck) ins) sres dirs disk l Hl) as [Hfiles _].
  assert (Hinf : In (fact_of ck f) (map (fact_of ck) ins)) by (apply in_map; exact Hin).
  assert (Hscope : in_scope (fact_of ck f) = true).
  { unfold in_scope, fact_of. rewrite Hs. cbn. fold ck. now rewrite Hsc, Hsp. }
  destruct (Hfiles _ Hinf Hscope) as (r & Hr & Hp & Hk & Hst & Hc & Hlim).
  exists r. split; [exact Hr|].
  assert (Hpath : ff_path (fact_of ck f) = fi_path f) by (unfold fact_of; rewrite Hs; reflexivity).
  rewrite Hpath in Hp. split; [exact Hp|]. split; [exact Hk|]. split.
  - rewrite Hst. unfold spec_status, adjust. rewrite (fact_verdict ck f s Hs), Hpath.
    destruct (conv (Threshold.Model.res_status (Threshold.Model.process_for_check ck (fi_mv f) s))); reflexivity.
  - split.
    + rewrite Hc. unfold fact_of. rewrite Hs. reflexivity.
    + rewrite Hlim. unfold fact_of. rewrite Hs. reflexivity.
Qed.

Theorem composed_config_error : forall cfg a fl ins sres dirs disk,
  config_rejected cfg a = true ->
  o_exit (check_command cfg a fl ins sres dirs disk) = 2 /\ o_results (check_command cfg a fl ins sres dirs disk) = [].
Proof. intros cfg a fl ins sres dirs disk H. unfold check_command, check_run. rewrite H. split; reflexivity. Qed.

(* a file the configuration does not select is never reported *)
Theorem composed_unselected_silent : forall cfg a fl ins sres dirs disk l,
  config_rejected cfg a = false -> load_for_run fl disk = Some l ->
  let ck := Threshold.Model.check_checker cfg a in
  forall r, In r (o_results (check_command cfg a fl ins sres dirs disk)) -> r_kind r = Content ->
    (forall s, In s sres -> r_kind s <> Content) ->
    exists f, In f ins /\ r_path r = fi_path f /\ fi_scanned f = true /\
              Threshold.Model.should_process ck (fi_ev f) (fi_mv f) (fi_ext f) = true /\ fi_stats f <> None.
Proof.
  intros cfg a fl ins sres dirs disk l Hrej Hl ck r Hr Hk Hs.
  unfold check_command in Hr. rewrite Hrej in Hr.
  destruct (statuses_exact fl (map (fact_of ck) ins) sres dirs disk l Hl) as [_ Hall].
  destruct (Hall r Hr) as [(ff & Hin & Hscope & Hp & _)|(s & Hin & _ & Hks & _)].
  - apply in_map_iff in Hin as (f & Ef & Hf). subst ff. exists f. split; [exact Hf|].
    unfold in_scope, fact_of in Hscope. unfold fact_of in Hp.
    destruct (fi_stats f) as [st|] eqn:Est; cbn in Hscope, Hp.
    + apply andb_true_iff in Hscope as [H1 _]. apply andb_true_iff in H1 as [H1 H2].
      repeat split; try assumption. discriminate.
    + rewrite andb_false_r in Hscope. discriminate.
  - exfalso. apply (Hs s Hin). congruence.
Qed.
