(* Structure/Proofs_C06a.v -- lemmas for C06, part a: the scan fold.
   1. every walked entry is a short list of primitive map updates (ops); a fold of such updates has a
      closed form (present iff some update names the key; counters = number of updates of each kind;
      depth = the common depth), hence does not depend on the order of the entries;
   2. for the entry list of a tree with distinct sibling names the closed form equals the true counts. *)
From Coq Require Import ZArith NArith List Bool Lia Permutation.
From SG Require Import Structure.Tree Structure.Names Structure.Config Structure.Placement Structure.Scan.
Import ListNotations.
Open Scope Z_scope.

(* ---------- equality tests ---------- *)
Lemma str_eqb_eq : forall a b, str_eqb a b = true <-> a = b.
Proof.
  induction a as [|x a IH]; destruct b as [|y b]; simpl; split; intro H; try congruence; try reflexivity.
  - apply andb_true_iff in H. destruct H as [H1 H2]. apply N.eqb_eq in H1. apply IH in H2. subst. reflexivity.
  - inversion H; subst. apply andb_true_iff. split. apply N.eqb_refl. apply IH. reflexivity.
Qed.

Lemma path_eqb_eq : forall a b, path_eqb a b = true <-> a = b.
Proof.
  induction a as [|x a IH]; destruct b as [|y b]; simpl; split; intro H; try congruence; try reflexivity.
  - apply andb_true_iff in H. destruct H as [H1 H2]. apply str_eqb_eq in H1. apply IH in H2. subst. reflexivity.
  - inversion H; subst. apply andb_true_iff. split. apply str_eqb_eq. reflexivity. apply IH. reflexivity.
Qed.

Lemma path_eqb_refl : forall a, path_eqb a a = true.
Proof. intro a. apply path_eqb_eq. reflexivity. Qed.

Lemma path_eqb_neq : forall a b, path_eqb a b = false <-> a <> b.
Proof.
  intros a b. split; intro H.
  - intro E. apply path_eqb_eq in E. congruence.
  - destruct (path_eqb a b) eqn:E; [apply path_eqb_eq in E; contradiction | reflexivity].
Qed.

Lemma str_mem_In : forall s l, str_mem s l = true <-> In s l.
Proof.
  intros s l. unfold str_mem. rewrite existsb_exists. split.
  - intros [x [Hx E]]. apply str_eqb_eq in E. subst. exact Hx.
  - intro H. exists s. split. exact H. apply str_eqb_eq. reflexivity.
Qed.

(* ---------- the map ---------- *)
Lemma lookup_upsert : forall m p d0 f q,
  lookup (upsert m p d0 f) q =
  if path_eqb p q
  then Some (f (match lookup m p with Some s => s | None => mk_ds 0 0 d0 end))
  else lookup m q.
Proof.
  induction m as [|[k s] r IH]; intros p d0 f q; simpl.
  - destruct (path_eqb p q); reflexivity.
  - destruct (path_eqb k p) eqn:Ekp; simpl.
    + apply path_eqb_eq in Ekp. subst k.
      destruct (path_eqb p q); reflexivity.
    + destruct (path_eqb k q) eqn:Ekq.
      * apply path_eqb_eq in Ekq. subst k.
        destruct (path_eqb p q) eqn:Epq.
        -- apply path_eqb_eq in Epq. subst. rewrite path_eqb_refl in Ekp. discriminate.
        -- reflexivity.
      * rewrite IH. reflexivity.
Qed.

(* ---------- primitive updates ---------- *)
Inductive opk := OF | OD | OT.
Definition opk_eqb (a b : opk) : bool :=
  match a, b with OF, OF => true | OD, OD => true | OT, OT => true | _, _ => false end.
Definition op := (path * Z * opk)%type.
Definition okey (o : op) : path := fst (fst o).
Definition odep (o : op) : Z := snd (fst o).
Definition okind (o : op) : opk := snd o.
Definition opf (k : opk) : dirstats -> dirstats :=
  match k with OF => inc_files | OD => inc_dirs | OT => touch end.
Definition apply_op (m : dmap) (o : op) : dmap := upsert m (okey o) (odep o) (opf (okind o)).

Definition ops (e : entry) : list op :=
  match e_kind e with
  | KFile =>
      if scan_excluded (e_cols e) false then []
      else if count_excluded (e_cols e) then []
      else if 0 <? e_depth e then [(e_parent e, e_depth e - 1, OF)] else []
  | KDir =>
      if scan_excluded (e_cols e) true then []
      else (e_path e, e_depth e, OT)
           :: (if (0 <? e_depth e) && negb (count_excluded (e_cols e))
               then [(e_parent e, e_depth e - 1, OD)] else [])
  | KOther => []
  end.

Lemma step_ops : forall m e, step m e = fold_left apply_op (ops e) m.
Proof.
  intros m e. unfold step, ops.
  destruct (e_kind e).
  - destruct (scan_excluded (e_cols e) false); [reflexivity|].
    destruct (count_excluded (e_cols e)); [reflexivity|].
    destruct (0 <? e_depth e); reflexivity.
  - destruct (scan_excluded (e_cols e) true); [reflexivity|].
    destruct ((0 <? e_depth e) && negb (count_excluded (e_cols e))); reflexivity.
  - reflexivity.
Qed.

Lemma fold_step_ops : forall es m, fold_left step es m = fold_left apply_op (flat_map ops es) m.
Proof.
  induction es as [|e es IH]; intro m; simpl.
  - reflexivity.
  - rewrite fold_left_app. rewrite <- step_ops. apply IH.
Qed.

Fixpoint cnt (t : opk) (os : list op) (k : path) : Z :=
  match os with
  | [] => 0
  | o :: r => (if path_eqb (okey o) k && opk_eqb (okind o) t then 1 else 0) + cnt t r k
  end.

Definition has_key (os : list op) (k : path) : bool := existsb (fun o => path_eqb (okey o) k) os.

Definition bump (s : dirstats) (a b : Z) : dirstats := mk_ds (file_count s + a) (dir_count s + b) (depth s).

Definition consistent (dep : path -> Z) (os : list op) : Prop := Forall (fun o => odep o = dep (okey o)) os.

Lemma ops_closed : forall dep os, consistent dep os -> forall m k,
  lookup (fold_left apply_op os m) k =
  match lookup m k with
  | Some s => Some (bump s (cnt OF os k) (cnt OD os k))
  | None => if has_key os k then Some (mk_ds (cnt OF os k) (cnt OD os k) (dep k)) else None
  end.
Proof.
  intros dep os Hc. induction Hc as [|o os Ho Hc IH]; intros m k.
  - simpl. destruct (lookup m k) as [[a b c]|]; [|reflexivity]. unfold bump; simpl. repeat f_equal; lia.
  - simpl. rewrite IH. unfold apply_op. rewrite lookup_upsert.
    destruct (path_eqb (okey o) k) eqn:E.
    + apply path_eqb_eq in E. subst k. unfold has_key. simpl. rewrite ?path_eqb_refl. simpl.
      destruct (lookup m (okey o)) as [[a b c]|]; destruct (okind o); unfold bump, opf, inc_files, inc_dirs, touch;
        cbn [opk_eqb file_count dir_count depth]; rewrite ?Ho; f_equal; f_equal; lia.
    + unfold has_key. simpl. rewrite ?E. simpl. reflexivity.
Qed.

Lemma cnt_app : forall t a b k, cnt t (a ++ b) k = cnt t a k + cnt t b k.
Proof. induction a as [|o a IH]; intros b k; simpl. reflexivity. rewrite IH. lia. Qed.

Lemma has_key_app : forall a b k, has_key (a ++ b) k = has_key a k || has_key b k.
Proof. intros. unfold has_key. apply existsb_app. Qed.

Lemma cnt_perm : forall t a b k, Permutation a b -> cnt t a k = cnt t b k.
Proof. intros t a b k H. induction H; simpl; lia. Qed.

Lemma has_key_perm : forall a b k, Permutation a b -> has_key a k = has_key b k.
Proof.
  intros a b k H. unfold has_key. induction H; simpl.
  - reflexivity.
  - rewrite IHPermutation. reflexivity.
  - destruct (path_eqb (okey y) k); destruct (path_eqb (okey x) k); reflexivity.
  - congruence.
Qed.

Lemma consistent_perm : forall dep a b, Permutation a b -> consistent dep a -> consistent dep b.
Proof. intros dep a b H Hc. unfold consistent in *. eapply Permutation_Forall; eauto. Qed.

(* the closed form of a whole scan *)
Definition closed (dep : path -> Z) (os : list op) (k : path) : option dirstats :=
  if has_key os k then Some (mk_ds (cnt OF os k) (cnt OD os k) (dep k)) else None.

Lemma scan_counts_closed : forall dep es k,
  consistent dep (flat_map ops es) -> lookup (scan_counts es) k = closed dep (flat_map ops es) k.
Proof.
  intros dep es k Hc. unfold scan_counts. rewrite fold_step_ops.
  rewrite (ops_closed dep _ Hc). simpl. reflexivity.
Qed.

Lemma scan_counts_perm : forall dep es es' k,
  Permutation es es' -> consistent dep (flat_map ops es) ->
  lookup (scan_counts es') k = lookup (scan_counts es) k.
Proof.
  intros dep es es' k Hp Hc.
  assert (Hp' : Permutation (flat_map ops es) (flat_map ops es')) by (apply Permutation_flat_map; exact Hp).
  rewrite (scan_counts_closed dep es k Hc).
  rewrite (scan_counts_closed dep es' k (consistent_perm _ _ _ Hp' Hc)).
  unfold closed. rewrite (has_key_perm _ _ k Hp'), (cnt_perm OF _ _ k Hp'), (cnt_perm OD _ _ k Hp'). reflexivity.
Qed.

(* ---------- trees ---------- *)
Section tree_induction.
  Variable P : tree -> Prop.
  Hypothesis HF : forall n c, P (File n c).
  Hypothesis HO : forall n c, P (Other n c).
  Hypothesis HD : forall n c ch, Forall P ch -> P (Dir n c ch).
  Fixpoint tree_ind' (t : tree) : P t :=
    match t with
    | File n c => HF n c
    | Other n c => HO n c
    | Dir n c ch =>
        HD n c ch ((fix go (l : list tree) : Forall P l :=
                      match l with
                      | [] => Forall_nil P
                      | x :: r => Forall_cons x (tree_ind' x) (go r)
                      end) ch)
    end.
End tree_induction.

Definition dep (k : path) : Z := Z.of_nat (length k) - 1.

Definition tops (pp : path) (a b : list bool) (d : Z) (t : tree) : list op :=
  flat_map ops (entries_aux pp a b d t).

Lemma flat_map_flat_map : forall {A B C} (f : B -> list C) (g : A -> list B) (l : list A),
  flat_map f (flat_map g l) = flat_map (fun x => flat_map f (g x)) l.
Proof.
  intros A B C f g l. induction l as [|x l IH]; simpl. reflexivity.
  rewrite flat_map_app, IH. reflexivity.
Qed.

Lemma tops_dir : forall pp a b d n c ch,
  pruned_dir c = false ->
  tops pp a b d (Dir n c ch) =
  ((n :: pp, d, OT) :: (if (0 <? d) && negb (count_excluded c) then [(pp, d - 1, OD)] else []))
  ++ flat_map (tops (n :: pp) (c_scope c) (c_scope c) (d + 1)) ch.
Proof.
  intros pp a b d n c ch Hp. unfold tops at 1. simpl. rewrite Hp. simpl.
  unfold pruned_dir in Hp. apply orb_false_iff in Hp. destruct Hp as [_ Hse].
  unfold ops at 1. simpl. rewrite Hse. unfold e_parent; simpl.
  rewrite flat_map_flat_map. unfold tops.
  destruct ((0 <? d) && negb (count_excluded c)); reflexivity.
Qed.

Lemma tops_dir_pruned : forall pp a b d n c ch, pruned_dir c = true -> tops pp a b d (Dir n c ch) = [].
Proof. intros. unfold tops. simpl. rewrite H. reflexivity. Qed.

Lemma tops_file : forall pp a b d n c,
  tops pp a b d (File n c) =
  if counted_file (File n c) && (0 <? d) then [(pp, d - 1, OF)] else [].
Proof.
  intros. unfold tops. simpl. destruct (c_skip c); simpl; [reflexivity|].
  unfold ops; simpl. unfold e_parent; simpl.
  destruct (scan_excluded c false); simpl; [reflexivity|].
  destruct (count_excluded c); simpl; [reflexivity|].
  destruct (0 <? d); reflexivity.
Qed.

Lemma tops_other : forall pp a b d n c, tops pp a b d (Other n c) = [].
Proof. intros. unfold tops. simpl. destruct (c_skip c); reflexivity. Qed.

Definition under (q k : path) : Prop := exists l, k = l ++ q.

Lemma under_refl : forall q, under q q.
Proof. intro q. exists []. reflexivity. Qed.

Lemma under_cons : forall x q k, under (x :: q) k -> under q k.
Proof. intros x q k [l H]. exists (l ++ [x]). rewrite <- app_assoc. exact H. Qed.

Lemma under_length : forall q k, under q k -> (length q <= length k)%nat.
Proof. intros q k [l H]. subst. rewrite app_length. lia. Qed.

Lemma under_cons_neq : forall x q, ~ under (x :: q) q.
Proof. intros x q H. apply under_length in H. simpl in H. lia. Qed.

Lemma under_sep : forall x y q k, under (x :: q) k -> under (y :: q) k -> x = y.
Proof.
  intros x y q k [l1 H1] [l2 H2]. subst k.
  assert (E : (l1 ++ [x]) ++ q = (l2 ++ [y]) ++ q) by (rewrite <- !app_assoc; exact H2).
  apply app_inv_tail in E. apply app_inj_tail in E. destruct E; congruence.
Qed.

(* a key strictly below q lies below exactly one child name *)
Lemma under_strict : forall q k, under q k -> k <> q -> exists x, under (x :: q) k.
Proof.
  intros q k [l H] Hne. subst k.
  destruct (exists_last (l := l)) as [l' [x E]].
  - intro E. subst l. apply Hne. reflexivity.
  - subst l. exists x. exists l'. rewrite <- app_assoc. reflexivity.
Qed.

(* where the updates of a subtree land *)
Lemma tops_keys : forall t pp a b d o,
  In o (tops pp a b d t) -> okey o = pp \/ under (tname t :: pp) (okey o).
Proof.
  induction t as [n c|n c|n c ch IH] using tree_ind'; intros pp a b d o Hin.
  - rewrite tops_file in Hin. destruct (counted_file (File n c) && (0 <? d)); simpl in Hin; [|contradiction].
    destruct Hin as [<-|[]]. left. reflexivity.
  - rewrite tops_other in Hin. contradiction.
  - destruct (pruned_dir c) eqn:Hp.
    + rewrite tops_dir_pruned in Hin by exact Hp. contradiction.
    + rewrite tops_dir in Hin by exact Hp. apply in_app_or in Hin. destruct Hin as [Hin|Hin].
      * simpl in Hin. destruct Hin as [<-|Hin].
        -- right. apply under_refl.
        -- destruct ((0 <? d) && negb (count_excluded c)); simpl in Hin; [|contradiction].
           destruct Hin as [<-|[]]. left. reflexivity.
      * apply in_flat_map in Hin. destruct Hin as [x [Hx Ho]].
        rewrite Forall_forall in IH. specialize (IH x Hx _ _ _ _ _ Ho). simpl.
        destruct IH as [E|U].
        -- right. rewrite E. apply under_refl.
        -- right. apply under_cons in U. exact U.
Qed.

Lemma tops_consistent : forall t pp a b d,
  0 < d -> d = Z.of_nat (length pp) -> consistent dep (tops pp a b d t).
Proof.
  induction t as [n c|n c|n c ch IH] using tree_ind'; intros pp a b d Hd Hl.
  - rewrite tops_file. assert (Hd' : (0 <? d) = true) by (apply Z.ltb_lt; exact Hd). rewrite Hd', andb_true_r.
    destruct (counted_file (File n c)); constructor; [|constructor].
    unfold odep, okey, dep; cbn [fst snd]. lia.
  - rewrite tops_other. constructor.
  - destruct (pruned_dir c) eqn:Hp.
    + rewrite tops_dir_pruned by exact Hp. constructor.
    + rewrite tops_dir by exact Hp. apply Forall_app. split.
      * constructor. unfold odep, okey, dep; cbn [fst snd length]; rewrite ?Nat2Z.inj_succ; lia.
        destruct ((0 <? d) && negb (count_excluded c)); constructor; [|constructor].
        unfold odep, okey, dep; cbn [fst snd length]; lia.
      * apply Forall_flat_map. rewrite Forall_forall in IH |- *. intros x Hx.
        apply IH. exact Hx. lia. cbn [length]; rewrite Nat2Z.inj_succ; lia.
Qed.

Lemma no_key : forall os k, (forall o, In o os -> okey o <> k) ->
  has_key os k = false /\ (forall t, cnt t os k = 0).
Proof.
  induction os as [|o os IH]; intros k H.
  - split; reflexivity.
  - destruct (IH k) as [H1 H2]. intros o' Ho'. apply H. right. exact Ho'.
    assert (E : path_eqb (okey o) k = false) by (apply path_eqb_neq; apply H; left; reflexivity).
    split; [|intro t]; simpl; rewrite E; simpl. exact H1. rewrite H2. reflexivity.
Qed.

(* ---------- the declarative side ---------- *)
Definition node := (path * Z * list tree)%type.

Fixpoint node_lookup (ns : list node) (k : path) : option (Z * list tree) :=
  match ns with
  | [] => None
  | (p, d, ch) :: r => if path_eqb p k then Some (d, ch) else node_lookup r k
  end.

Lemma node_lookup_app : forall a b k,
  node_lookup (a ++ b) k = match node_lookup a k with Some x => Some x | None => node_lookup b k end.
Proof.
  induction a as [|[[p d] ch] a IH]; intros b k; simpl. reflexivity.
  destruct (path_eqb p k). reflexivity. apply IH.
Qed.

Lemma lookup_true_counts : forall ns k,
  lookup (map true_stats ns) k =
  match node_lookup ns k with
  | Some (d, ch) => Some (mk_ds (count_if counted_file ch) (count_if counted_dir ch) d)
  | None => None
  end.
Proof.
  induction ns as [|[[p d] ch] ns IH]; intro k; simpl. reflexivity.
  destruct (path_eqb p k). reflexivity. apply IH.
Qed.

Lemma nodes_dir : forall pp d n c ch, pruned_dir c = false ->
  dir_nodes_aux pp d (Dir n c ch) = (n :: pp, d, ch) :: flat_map (dir_nodes_aux (n :: pp) (d + 1)) ch.
Proof. intros. simpl. rewrite H. reflexivity. Qed.

Lemma nodes_keys : forall t pp d x, In x (dir_nodes_aux pp d t) -> under (tname t :: pp) (fst (fst x)).
Proof.
  induction t as [n c|n c|n c ch IH] using tree_ind'; intros pp d x Hin; simpl in Hin; try contradiction.
  destruct (pruned_dir c); [contradiction|].
  destruct Hin as [<-|Hin].
  - simpl. apply under_refl.
  - apply in_flat_map in Hin. destruct Hin as [y [Hy Hx]].
    rewrite Forall_forall in IH. specialize (IH y Hy _ _ _ Hx). simpl. apply under_cons in IH. exact IH.
Qed.

Lemma node_lookup_none : forall ns k, (forall x, In x ns -> fst (fst x) <> k) -> node_lookup ns k = None.
Proof.
  induction ns as [|[[p d] ch] ns IH]; intros k H; simpl. reflexivity.
  assert (E : path_eqb p k = false) by (apply path_eqb_neq; apply (H (p, d, ch)); left; reflexivity).
  rewrite E. apply IH. intros x Hx. apply H. right. exact Hx.
Qed.

(* what a subtree contributes to its own parent's key *)
Lemma tops_parent_counts : forall t pp a b d, 0 < d ->
  cnt OF (tops pp a b d t) pp = (if counted_file t then 1 else 0) /\
  cnt OD (tops pp a b d t) pp = (if counted_dir t then 1 else 0).
Proof.
  intros t pp a b d Hd. destruct t as [n c|n c ch|n c].
  - rewrite tops_file. assert (Hd' : (0 <? d) = true) by (apply Z.ltb_lt; exact Hd). rewrite Hd', andb_true_r.
    destruct (counted_file (File n c)); simpl; rewrite ?path_eqb_refl; simpl; split; reflexivity.
  - destruct (pruned_dir c) eqn:Hp.
    + rewrite tops_dir_pruned by exact Hp. simpl. rewrite Hp. simpl. split; reflexivity.
    + rewrite tops_dir by exact Hp. rewrite !cnt_app.
      assert (Hrest : forall t0, cnt t0 (flat_map (tops (n :: pp) (c_scope c) (c_scope c) (d + 1)) ch) pp = 0).
      { apply no_key. intros o Ho. apply in_flat_map in Ho. destruct Ho as [x [Hx Ho]].
        apply tops_keys in Ho. intro E. destruct Ho as [E'|U].
        - rewrite E in E'. apply (under_cons_neq n pp). rewrite <- E'. apply under_refl.
        - rewrite E in U. apply under_cons in U. apply (under_cons_neq n pp). exact U. }
      rewrite !Hrest. unfold counted_file, counted_dir. rewrite Hp.
      cbn [cnt app okey okind fst snd opk_eqb negb andb]. rewrite !andb_false_r.
      apply Z.ltb_lt in Hd. rewrite Hd. cbn [andb].
      destruct (count_excluded c); cbn [negb cnt okey okind fst snd opk_eqb]; rewrite ?path_eqb_refl; cbn [andb];
        split; reflexivity.
  - rewrite tops_other. simpl. split; reflexivity.
Qed.

(* statement about one key below a subtree *)
Definition agrees (os : list op) (ns : list node) (k : path) : Prop :=
  match node_lookup ns k with
  | Some (dk, ch) =>
      has_key os k = true /\ cnt OF os k = count_if counted_file ch /\ cnt OD os k = count_if counted_dir ch /\ dk = dep k
  | None => has_key os k = false /\ cnt OF os k = 0 /\ cnt OD os k = 0
  end.

Lemma agrees_nothing : forall os ns k,
  (forall o, In o os -> okey o <> k) -> (forall x, In x ns -> fst (fst x) <> k) -> agrees os ns k.
Proof.
  intros os ns k H1 H2. unfold agrees. rewrite (node_lookup_none ns k H2).
  destruct (no_key os k H1) as [A B]. repeat split; auto.
Qed.

Lemma agrees_app_l : forall os1 ns1 os2 ns2 k,
  agrees os1 ns1 k -> (forall o, In o os2 -> okey o <> k) -> (forall x, In x ns2 -> fst (fst x) <> k) ->
  agrees (os1 ++ os2) (ns1 ++ ns2) k.
Proof.
  intros os1 ns1 os2 ns2 k H H1 H2. unfold agrees in *.
  rewrite node_lookup_app, has_key_app, !cnt_app.
  destruct (no_key os2 k H1) as [A B]. rewrite A, !B, (node_lookup_none ns2 k H2).
  destruct (node_lookup ns1 k) as [[dk ch]|].
  - destruct H as [h1 [h2 [h3 h4]]]. rewrite h1. repeat split; auto; lia.
  - destruct H as [h1 [h2 h3]]. rewrite h1. repeat split; auto; lia.
Qed.

Lemma agrees_app_r : forall os1 ns1 os2 ns2 k,
  (forall o, In o os1 -> okey o <> k) -> (forall x, In x ns1 -> fst (fst x) <> k) -> agrees os2 ns2 k ->
  agrees (os1 ++ os2) (ns1 ++ ns2) k.
Proof.
  intros os1 ns1 os2 ns2 k H1 H2 H. unfold agrees in *.
  rewrite node_lookup_app, has_key_app, !cnt_app.
  destruct (no_key os1 k H1) as [A B]. rewrite A, !B, (node_lookup_none ns1 k H2). simpl.
  destruct (node_lookup ns2 k) as [[dk ch]|]; exact H.
Qed.

Lemma count_if_cons : forall {A} (f : A -> bool) x l, count_if f (x :: l) = (if f x then 1 else 0) + count_if f l.
Proof. intros. unfold count_if. cbn [filter]. destruct (f x); cbn [length]; rewrite ?Nat2Z.inj_succ; lia. Qed.

Lemma names_distinct_cons : forall x l, names_distinct (x :: l) = true -> ~ In x l /\ names_distinct l = true.
Proof.
  intros x l H. simpl in H. apply andb_true_iff in H. destruct H as [H1 H2]. split; [|exact H2].
  intro Hin. apply str_mem_In in Hin. rewrite Hin in H1. discriminate.
Qed.

(* a subtree whose name is not x says nothing about keys below x :: q *)
Lemma other_child_silent : forall t q a b d x k,
  under (x :: q) k -> tname t <> x ->
  (forall o, In o (tops q a b d t) -> okey o <> k) /\
  (forall y, In y (dir_nodes_aux q d t) -> fst (fst y) <> k).
Proof.
  intros t q a b d x k Hu Hne. split.
  - intros o Ho E. apply tops_keys in Ho. rewrite E in Ho. destruct Ho as [E'|U].
    + subst k. apply (under_cons_neq x q). exact Hu.
    + apply Hne. symmetry. eapply under_sep; eauto.
  - intros y Hy E. apply nodes_keys in Hy. rewrite E in Hy. apply Hne. symmetry. eapply under_sep; eauto.
Qed.

Lemma rootops_self : forall (q pp : path) (d : Z) (bb : bool),
  pp <> q ->
  let ro := (q, d, OT) :: (if bb then [(pp, d - 1, OD)] else []) in
  has_key ro q = true /\ cnt OF ro q = 0 /\ cnt OD ro q = 0.
Proof.
  intros q pp d bb Hne ro. apply path_eqb_neq in Hne.
  unfold ro, has_key. destruct bb; cbn [existsb cnt okey okind fst snd opk_eqb];
    rewrite ?path_eqb_refl, ?Hne; cbn [andb orb]; repeat split; reflexivity.
Qed.

Lemma subtree_agrees : forall t pp a b d k,
  wf_tree t = true -> 0 <= d -> d = Z.of_nat (length pp) -> under (tname t :: pp) k ->
  agrees (tops pp a b d t) (dir_nodes_aux pp d t) k.
Proof.
  induction t as [n c|n c|n c ch IH] using tree_ind'; intros pp a b d k Hwf Hd Hl Hu.
  - apply agrees_nothing.
    + intros o Ho E. rewrite tops_file in Ho. destruct (counted_file (File n c) && (0 <? d)); simpl in Ho; [|contradiction].
      destruct Ho as [<-|[]]. unfold okey in E; simpl in E. subst k. apply (under_cons_neq n pp). exact Hu.
    + simpl. tauto.
  - rewrite tops_other. apply agrees_nothing; simpl; tauto.
  - simpl in Hu. destruct (pruned_dir c) eqn:Hp.
    + rewrite tops_dir_pruned by exact Hp. apply agrees_nothing. simpl; tauto. simpl. rewrite Hp. simpl. tauto.
    + rewrite tops_dir, nodes_dir by exact Hp.
      simpl in Hwf. apply andb_true_iff in Hwf. destruct Hwf as [Hnd Hwfc].
      rewrite forallb_forall in Hwfc.
      assert (Hlq : Z.of_nat (length (n :: pp)) = d + 1) by (cbn [length]; rewrite Nat2Z.inj_succ; lia).
      assert (Hppq : pp <> n :: pp).
      { intro E. apply (under_cons_neq n pp). rewrite E at 2. apply under_refl. }
      remember (n :: pp) as q eqn:Hq.
      set (f := tops q (c_scope c) (c_scope c) (d + 1)).
      set (g := dir_nodes_aux q (d + 1)).
      destruct (path_eqb q k) eqn:Eqk.
      * (* the directory itself *)
        apply path_eqb_eq in Eqk. subst k.
        unfold agrees. cbn [node_lookup]. rewrite path_eqb_refl.
        rewrite has_key_app, !cnt_app.
        assert (Hsum : cnt OF (flat_map f ch) q = count_if counted_file ch /\ cnt OD (flat_map f ch) q = count_if counted_dir ch).
        { clear - Hd. assert (Hd1 : 0 < d + 1) by lia. induction ch as [|x ch IHc]; simpl.
          - split; reflexivity.
          - rewrite !cnt_app, !count_if_cons. destruct IHc as [I1 I2]. rewrite I1, I2.
            destruct (tops_parent_counts x q (c_scope c) (c_scope c) (d + 1) Hd1) as [P1 P2].
            unfold f. rewrite P1, P2. split; reflexivity. }
        destruct Hsum as [S1 S2]. rewrite S1, S2.
        apply path_eqb_neq in Hppq.
        unfold has_key at 1. cbn [existsb cnt okey okind fst snd opk_eqb]. rewrite !path_eqb_refl. cbn [andb orb].
        destruct ((0 <? d) && negb (count_excluded c)); cbn [cnt okey okind fst snd opk_eqb]; rewrite ?Hppq; cbn [andb];
          (repeat split; try lia; unfold dep; lia).
      * (* a key strictly below *)
        apply path_eqb_neq in Eqk.
        destruct (under_strict q k Hu (fun E => Eqk (eq_sym E))) as [x Hx].
        change ((q, d, ch) :: flat_map g ch) with ([(q, d, ch)] ++ flat_map g ch).
        apply agrees_app_r.
        -- intros o Ho E. simpl in Ho. destruct Ho as [<-|Ho].
           ++ apply Eqk. exact E.
           ++ destruct ((0 <? d) && negb (count_excluded c)); simpl in Ho; [|contradiction].
              destruct Ho as [<-|[]]. unfold okey in E; simpl in E. subst k.
              apply (under_cons_neq n pp). rewrite <- Hq. exact Hu.
        -- intros y [<-|[]]. simpl. exact Eqk.
        -- (* children *)
           assert (Hd1 : 0 < d + 1) by lia.
           assert (Hl1 : d + 1 = Z.of_nat (length q)) by lia.
           clear Eqk Hu. revert Hnd Hwfc IH.
           induction ch as [|y ch IHc]; intros Hnd Hwfc IH; simpl.
           ++ unfold agrees. simpl. repeat split; reflexivity.
           ++ apply names_distinct_cons in Hnd. destruct Hnd as [Hnotin Hnd].
              pose proof (Forall_inv IH) as IHy. pose proof (Forall_inv_tail IH) as IHrest.
              destruct (str_eqb (tname y) x) eqn:Eyx.
              ** apply str_eqb_eq in Eyx.
                 apply agrees_app_l.
                 --- unfold f, g. apply IHy. apply Hwfc. left. reflexivity. lia. exact Hl1.
                     rewrite Eyx. exact Hx.
                 --- intros o Ho E. apply in_flat_map in Ho. destruct Ho as [z [Hz Ho]].
                     assert (Hzx : tname z <> x).
                     { intro Ez. apply Hnotin. rewrite Eyx, <- Ez. apply in_map. exact Hz. }
                     destruct (other_child_silent z q (c_scope c) (c_scope c) (d + 1) x k Hx Hzx) as [S _].
                     apply (S o Ho E).
                 --- intros w Hw E. apply in_flat_map in Hw. destruct Hw as [z [Hz Hw]].
                     assert (Hzx : tname z <> x).
                     { intro Ez. apply Hnotin. rewrite Eyx, <- Ez. apply in_map. exact Hz. }
                     destruct (other_child_silent z q (c_scope c) (c_scope c) (d + 1) x k Hx Hzx) as [_ S].
                     apply (S w Hw E).
              ** assert (Hyx : tname y <> x).
                 { intro E. apply str_eqb_eq in E. congruence. }
                 destruct (other_child_silent y q (c_scope c) (c_scope c) (d + 1) x k Hx Hyx) as [S1 S2].
                 apply agrees_app_r; [exact S1 | exact S2 |].
                 apply IHc. exact Hnd. intros z Hz. apply Hwfc. right. exact Hz. exact IHrest.
Qed.
