(* Structure/Limits.v -- StructureChecker::{resolve_limits, check, calculate_warn_limit, explain}
   (checker/structure/mod.rs:98-290, 513-585) and calculate_base_depth (builder.rs:100-115) (C06).
   Scope matching (on the normalised path, fixes/D07) is the oracle column c_scope of the directory. Definitions only. *)
From Coq Require Import ZArith NArith List Bool.
From SG Require Import Structure.Tree Structure.Names Structure.Config Structure.F64 Structure.Scan.
Import ListNotations.
Open Scope Z_scope.

Definition or_else {A} (a b : option A) : option A := match a with Some _ => a | None => b end.

(* calculate_base_depth: components before the first one that has a glob metacharacter *)
Definition is_sep (c : N) : bool := N.eqb c SLASH || N.eqb c BSLASH.
Definition is_meta (c : N) : bool := N.eqb c 42 || N.eqb c 63 || N.eqb c 91 || N.eqb c 123.   (* * ? [ { *)

Fixpoint base_depth_aux (comps : list str) (acc : Z) : Z :=
  match comps with
  | [] => acc
  | c :: r =>
      match c with
      | [] => base_depth_aux r acc
      | _ => if existsb is_meta c then acc else base_depth_aux r (acc + 1)
      end
  end.
Definition base_depth (scope : str) : Z := base_depth_aux (split_chars is_sep scope) 0.

Record limits := mk_limits {
  l_max_files : option Z;
  l_max_dirs : option Z;
  l_max_depth : option Z;
  l_relative : bool;
  l_base_depth : Z;
  l_warn_threshold : option Z;
  l_warn_files_at : option Z;
  l_warn_dirs_at : option Z;
  l_warn_files_threshold : option Z;
  l_warn_dirs_threshold : option Z
}.

Definition global_limits (cfg : config) : limits :=
  mk_limits (max_files cfg) (max_dirs cfg) (max_depth cfg) false 0
            (warn_threshold cfg) (warn_files_at cfg) (warn_dirs_at cfg)
            (warn_files_threshold cfg) (warn_dirs_threshold cfg).

Definition rule_limits (cfg : config) (r : srule) : limits :=
  mk_limits (or_else (sr_max_files r) (max_files cfg))
            (or_else (sr_max_dirs r) (max_dirs cfg))
            (or_else (sr_max_depth r) (max_depth cfg))
            (sr_relative r) (base_depth (sr_scope r))
            (or_else (sr_warn_threshold r) (warn_threshold cfg))
            (or_else (sr_warn_files_at r) (warn_files_at cfg))
            (or_else (sr_warn_dirs_at r) (warn_dirs_at cfg))
            (or_else (sr_warn_files_threshold r) (warn_files_threshold cfg))
            (or_else (sr_warn_dirs_threshold r) (warn_dirs_threshold cfg)).

(* rules zipped with the directory's scope column *)
Fixpoint zip_scope (rs : list (Z * srule)) (sc : list bool) : list (Z * srule * bool) :=
  match rs with
  | [] => []
  | x :: rs' => (x, hd false sc) :: zip_scope rs' (tl sc)
  end.

(* self.rules.iter().rev().find(matches): the LAST declared rule whose scope matches *)
Definition last_match (cfg : config) (scope : list bool) : option (Z * srule) :=
  match find (fun x => snd x) (rev (zip_scope (indexed (rules cfg)) scope)) with
  | Some (ir, _) => Some ir
  | None => None
  end.

Definition resolve_limits (cfg : config) (scope : list bool) : limits :=
  match last_match cfg scope with
  | Some (_, r) => rule_limits cfg r
  | None => global_limits cfg
  end.

(* abs as usize *)
Definition as_usize (z : Z) : Z := z mod 2 ^ 64.

(* calculate_warn_limit: absolute, else per-metric percentage, else warn_threshold, else 0.8 *)
Definition calc_warn_limit (limit : Z) (abs pct gl : option Z) : Z :=
  match abs with
  | Some a => as_usize a
  | None =>
      match pct with
      | Some p => warn_point limit p
      | None => match gl with
                | Some g => warn_point limit g
                | None => warn_point limit DEFAULT_WARN_BITS
                end
      end
  end.

(* does a count inside the limit reach the warn point?  reaches_warn_point (mod.rs): an absolute
   warn count is inclusive, a percentage warn point exclusive *)
Definition warn_reached (count limit : Z) (abs pct gl : option Z) : bool :=
  match abs with
  | Some _ => calc_warn_limit limit abs pct gl <=? count
  | None => calc_warn_limit limit abs pct gl <? count
  end.

Definition lv (p : path) (k : vkind) (actual limit : Z) (w : bool) : violation :=
  mk_violation p k actual limit w None.

Definition check_count (p : path) (k : vkind) (count : Z) (lim : option Z) (abs pct gl : option Z)
  : list violation :=
  match lim with
  | None => []
  | Some limit =>
      if limit =? UNLIMITED then []
      else if limit <? count then [lv p k count limit false]
      else if warn_reached count limit abs pct gl then [lv p k count limit true]
      else []
  end.

(* relative depth (fixes/D47): both figures are counted from the PROJECT root -- the components of the
   normalised directory path minus the leading literal components of the scope -- so the answer does not
   depend on where the scan root lies; the plain depth is stats.depth, the distance from the scan root *)
Definition effective_depth (l : limits) (p : path) (d : Z) : Z :=
  if l_relative l then Z.max 0 (norm_len p - l_base_depth l) else d.

Definition check_depth (p : path) (l : limits) (d : Z) : list violation :=
  match l_max_depth l with
  | None => []
  | Some limit =>
      if limit =? UNLIMITED then []
      else
        let w := warn_point limit (match l_warn_threshold l with Some t => t | None => DEFAULT_WARN_BITS end) in
        let ed := effective_depth l p d in
        if limit <? ed then [lv p VMaxDepth ed limit false]
        else if w <? ed then [lv p VMaxDepth ed limit true]
        else []
  end.

(* the checks of one directory, in the order the code pushes them *)
Definition check_dir (l : limits) (p : path) (s : dirstats) : list violation :=
  check_count p VFileCount (file_count s) (l_max_files l)
              (l_warn_files_at l) (l_warn_files_threshold l) (l_warn_threshold l)
  ++ check_count p VDirCount (dir_count s) (l_max_dirs l)
              (l_warn_dirs_at l) (l_warn_dirs_threshold l) (l_warn_threshold l)
  ++ check_depth p l (depth s).

(* StructureChecker::check over a dir_stats map; scope_of gives the oracle column of each key *)
Definition check_all (cfg : config) (scope_of : path -> list bool) (m : dmap) : list violation :=
  flat_map (fun ps => check_dir (resolve_limits cfg (scope_of (fst ps))) (fst ps) (snd ps)) m.

(* ---- explain ---- *)
Record explanation := mk_expl {
  ex_matched : option Z;              (* index of the rule named, None = [structure] defaults *)
  ex_max_files : option Z;
  ex_max_dirs : option Z;
  ex_max_depth : option Z;
  ex_warn_threshold : Z               (* bits *)
}.

(* explain computes the matched index on its own (enumerate().rev().find) and the limits through
   resolve_limits *)
Definition explain_index (cfg : config) (scope : list bool) : option Z :=
  match find (fun x => snd x) (rev (zip_scope (indexed (rules cfg)) scope)) with
  | Some ((i, _), _) => Some i
  | None => None
  end.

Definition explain (cfg : config) (scope : list bool) : explanation :=
  let l := resolve_limits cfg scope in
  mk_expl (explain_index cfg scope) (l_max_files l) (l_max_dirs l) (l_max_depth l)
          (match l_warn_threshold l with Some t => t | None => DEFAULT_WARN_BITS end).
