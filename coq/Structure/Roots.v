(* Structure/Roots.v -- resolve_scan_paths / drop_covered_roots (commands/context.rs, fixes/D50): of the
   requested scan roots only the outermost are walked, and of several spellings of one root the first.
   A root is represented by its MARKED NORMALISED KEY, root first: the components of
   normalize_for_matching(root) (computed by the harness with the real normaliser; that function is the
   subject of C08) preceded by a marker component -- a single dot for a key relative to the current
   directory, a single slash for an absolute key.  With the marker, the component-wise Path::starts_with
   together with the guard of the code (the empty key, the current directory, covers relative keys only)
   is plain list prefix.  Keys with a parent-directory component are never dropped and never cover.
   Definitions only. *)
From Coq Require Import ZArith NArith List Bool Arith.
From SG Require Import Structure.Tree.
Import ListNotations.
Open Scope nat_scope.

Notation rkey := (list str) (only parsing).

Fixpoint prefix (a b : rkey) : bool :=
  match a, b with
  | [], _ => true
  | x :: a', y :: b' => str_eqb x y && prefix a' b'
  | _ :: _, [] => false
  end.

Definition is_parent_comp (s : str) : bool := str_eqb s [46%N; 46%N].
Definition comparable (k : rkey) : bool := negb (existsb is_parent_comp k).

(* covers outer inner *)
Definition covers (o i : rkey) : bool := comparable o && comparable i && prefix o i.

(* does requested root j make requested root i superfluous: it covers it, and it is a different key or an
   earlier spelling of the same key *)
Definition beats (keys : list rkey) (i : nat) (ki : rkey) (j : nat) : bool :=
  negb (Nat.eqb j i) &&
  match nth_error keys j with
  | Some kj => covers kj ki && (negb (path_eqb ki kj) || Nat.ltb j i)
  | None => false
  end.

Definition is_covered (keys : list rkey) (i : nat) : bool :=
  match nth_error keys i with
  | Some ki => existsb (beats keys i ki) (seq 0 (length keys))
  | None => false
  end.

(* indices of the roots that are walked, in the order given *)
Definition kept (keys : list rkey) : list nat :=
  filter (fun i => negb (is_covered keys i)) (seq 0 (length keys)).
