(* Structure/F64.v -- the binary64 arithmetic of the structure warn point:
   ((limit as f64) * t).ceil() as usize, through Coq.Floats.SpecFloat (axiom-free).
   A float travels as its bit pattern (f64::to_bits). Definitions only. *)
From Coq Require Import ZArith Floats.SpecFloat.
Open Scope Z_scope.

Definition USIZE_MAX : Z := 2 ^ 64 - 1.

Definition f64_of_bits (b : Z) : spec_float :=
  let s := Z.testbit b 63 in
  let e := Z.land (Z.shiftr b 52) 2047 in
  let m := Z.land b (2 ^ 52 - 1) in
  if e =? 0 then (if m =? 0 then S754_zero s else S754_finite s (Z.to_pos m) (-1074))
  else if e =? 2047 then (if m =? 0 then S754_infinity s else S754_nan)
  else S754_finite s (Z.to_pos (m + 2 ^ 52)) (e - 1075).

(* i64 as f64: round to nearest even *)
Definition f64_of_Z (z : Z) : spec_float := binary_normalize 53 1024 z 0 false.

(* f.ceil() as usize: NaN and negatives give 0, large values saturate *)
Definition ceil_usize (f : spec_float) : Z :=
  match f with
  | S754_zero _ => 0
  | S754_nan => 0
  | S754_infinity s => if s then 0 else USIZE_MAX
  | S754_finite s m e =>
      if s then 0
      else
        let v := if 0 <=? e then Z.pos m * 2 ^ e
                 else (Z.pos m + 2 ^ (- e) - 1) / 2 ^ (- e) in
        Z.min v USIZE_MAX
  end.

Definition warn_point (limit : Z) (bits : Z) : Z :=
  ceil_usize (SFmul 53 1024 (f64_of_Z limit) (f64_of_bits bits)).

(* 0.8_f64.to_bits() *)
Definition DEFAULT_WARN_BITS : Z := 4605380978949069210.
