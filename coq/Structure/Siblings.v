(* Structure/Siblings.v -- StructureChecker::check_siblings, derive_sibling_path and
   extract_stem_from_pattern (checker/structure/mod.rs:301-507) (C07).
   Which sibling entries apply to a directory (fixes/D81): those of the LAST declared structure rule whose scope
   matches the normalised parent path (oracle column c_scope of the parent, carried by the entry as e_plim), the
   rule explain names and whose limits and allow/deny lists apply.  Sibling entries do NOT accumulate over all
   matching rules: a matching rule declared earlier is superseded as a whole.  The file matcher of a directed
   rule is the oracle column c_sib.  File names are valid UTF-8 (non-UTF-8 names are skipped by the code and
   are not modelled). Definitions only. *)
From Coq Require Import ZArith NArith List Bool Arith.
From SG Require Import Structure.Tree Structure.Names Structure.Config Structure.Limits.
Import ListNotations.
Open Scope Z_scope.

(* parent.join(name) as a walked path, compared the way PathBuf compares (by components).
   An absolute name replaces the parent and can never equal a walked (relative) path. *)
Definition join_name (parent : path) (nm : str) : option path :=
  match nm with
  | c :: _ => if N.eqb c SLASH then None
              else Some (rev (filter (fun x => nonempty x && negb (str_eqb x [DOT]))
                                     (split_chars (N.eqb SLASH) nm)) ++ parent)
  | [] => Some parent
  end.

Definition in_files (files : list path) (o : option path) : bool :=
  match o with Some p => path_mem p files | None => false end.

(* derive_sibling_path *)
Definition derive_sibling (e : entry) (template : str) : option (option path) :=
  match file_stem (e_name e) with
  | Some stem => Some (join_name (e_parent e) (replace_all STEM stem template))
  | None => None
  end.

(* extract_stem_from_pattern *)
Definition extract_stem (name pat : str) : option str :=
  match split_on STEM pat with
  | [pre; suf] =>
      if prefixb pre name && suffixb suf name then
        let a := length pre in
        let b := (length name - length suf)%nat in
        if (b <=? a)%nat then None else Some (firstn (b - a) (skipn a name))
      else None
  | _ => None
  end.

(* Iterator::min_by_key: the FIRST element with the smallest key *)
Fixpoint argmin_first {A} (key : A -> nat) (l : list A) (best : A) : A :=
  match l with
  | [] => best
  | x :: r => if (key x <? key best)%nat then argmin_first key r x else argmin_first key r best
  end.

Definition sv (e : entry) (k : vkind) (w : bool) (i : Z) : violation :=
  mk_violation (e_path e) k 1 1 w (Some (RRule i)).

Definition group_missing (files : list path) (parent : path) (pats : list str) (stem : str) : list str :=
  filter (fun p => negb (in_files files (join_name parent (replace_all STEM stem p)))) pats.

(* one sibling entry of rule i applied to one file; fm = the directed file matcher's answer *)
Definition sibling_one (files : list path) (e : entry) (i : Z) (s : sibling) (fm : bool) : list violation :=
  match s with
  | SDirected _ templates w =>
      if fm then
        flat_map (fun t =>
                    match derive_sibling e t with
                    | Some exp => if in_files files exp then [] else [sv e (VMissingSibling t) w i]
                    | None => []
                    end) templates
      else []
  | SGroup pats w =>
      let stems := flat_map (fun p => match extract_stem (e_name e) p with Some s => [s] | None => [] end) pats in
      match stems with
      | [] => []
      | s0 :: rest =>
          let best := argmin_first (fun s => length (group_missing files (e_parent e) pats s)) rest s0 in
          let missing := group_missing files (e_parent e) pats best in
          match missing with
          | [] => []
          | _ => [sv e (VGroupIncomplete missing) w i]
          end
      end
  end.

Fixpoint sibling_rule (files : list path) (e : entry) (i : Z) (sibs : list sibling) (fms : list bool)
  : list violation :=
  match sibs with
  | [] => []
  | s :: r => sibling_one files e i s (hd false fms) ++ sibling_rule files e i r (tl fms)
  end.

(* the compiled sibling entries carry the index of their declaring rule; those of rule number [consulted]
   are kept, in declaration order (filter rule_index == consulted) *)
Fixpoint sibling_rules (files : list path) (e : entry) (rs : list (Z * srule))
         (cols : list (list bool)) (consulted : Z) : list violation :=
  match rs with
  | [] => []
  | (i, r) :: rs' =>
      (if Z.eqb i consulted then sibling_rule files e i (sr_siblings r) (hd [] cols) else [])
      ++ sibling_rules files e rs' (tl cols) consulted
  end.

(* the consulted rule: self.rules.iter().rposition(scope matches the parent), i.e. Limits.last_match *)
Definition sibling_entry (cfg : config) (files : list path) (e : entry) : list violation :=
  match last_match cfg (e_plim e) with
  | Some (i, _) => sibling_rules files e (indexed (rules cfg)) (c_sib (e_cols e)) i
  | None => []
  end.

(* the behaviour before fixes/D81, kept for the witness in Properties_C07: the entries of EVERY rule whose
   scope matches were applied, superseded rules included *)
Fixpoint sibling_rules_accumulating (files : list path) (e : entry) (rs : list (Z * srule)) (sc : list bool)
         (cols : list (list bool)) : list violation :=
  match rs with
  | [] => []
  | (i, r) :: rs' =>
      (if hd false sc then sibling_rule files e i (sr_siblings r) (hd [] cols) else [])
      ++ sibling_rules_accumulating files e rs' (tl sc) (tl cols)
  end.

(* check_siblings over the scanned files (es = the walked entries, files = ScanResult.files) *)
Definition is_scanned_file (files : list path) (e : entry) : bool :=
  match e_kind e with KFile => path_mem (e_path e) files | _ => false end.

Definition check_siblings (cfg : config) (files : list path) (es : list entry) : list violation :=
  flat_map (sibling_entry cfg files) (filter (is_scanned_file files) es).
