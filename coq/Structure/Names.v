(* Structure/Names.v -- std::path::Path::{extension, file_stem} on one file name, and the str
   functions the sibling rules use (str::replace, split, starts_with, ends_with, contains).
   Characters are Unicode scalar values.  Tied to std by the harness mode pathfns. Definitions only. *)
From Coq Require Import ZArith NArith List Bool.
From SG Require Import Structure.Tree.
Import ListNotations.
Open Scope Z_scope.

Definition DOT : N := 46%N.
Definition SLASH : N := 47%N.
Definition BSLASH : N := 92%N.

(* split at the LAST dot: (before, after) *)
Fixpoint rsplit_dot (s : str) : option (str * str) :=
  match s with
  | [] => None
  | c :: r =>
      match rsplit_dot r with
      | Some (b, a) => Some (c :: b, a)
      | None => if N.eqb c DOT then Some ([], r) else None
      end
  end.

(* rsplit_file_at_dot of std (library/std/src/path.rs): (before, after) as options *)
Definition rsplit_file_at_dot (name : str) : option str * option str :=
  if str_eqb name [DOT; DOT] then (Some name, None)
  else match rsplit_dot name with
       | None => (Some name, None)
       | Some (b, a) => match b with [] => (Some name, None) | _ => (Some b, Some a) end
       end.

(* Path::extension: .gitignore -> None, foo. -> Some [], a.tar.gz -> gz, ..x -> x *)
Definition extension (name : str) : option str := snd (rsplit_file_at_dot name).

(* Path::file_stem = before.or(after) *)
Definition file_stem (name : str) : option str :=
  match rsplit_file_at_dot name with
  | (Some b, _) => Some b
  | (None, a) => a
  end.

(* format!(".{}", ext) *)
Definition ext_with_dot (name : str) : option str := option_map (cons DOT) (extension name).

(* the extension test shared by every extension list: list non-empty, extension present and listed *)
Definition ext_in (l : list str) (name : str) : option str :=
  match l with
  | [] => None
  | _ => match ext_with_dot name with
         | Some e => if str_mem e l then Some e else None
         | None => None
         end
  end.

Fixpoint prefixb (p s : str) : bool :=
  match p, s with
  | [], _ => true
  | x :: p', y :: s' => N.eqb x y && prefixb p' s'
  | _ :: _, [] => false
  end.

Definition suffixb (p s : str) : bool := prefixb (rev p) (rev s).

(* str::replace(needle, rep): non-overlapping occurrences, left to right (needle non-empty) *)
Fixpoint replace_aux (needle rep : str) (skip : nat) (s : str) : str :=
  match s with
  | [] => []
  | c :: r =>
      match skip with
      | S k => replace_aux needle rep k r
      | O => if prefixb needle s then rep ++ replace_aux needle rep (length needle - 1) r
             else c :: replace_aux needle rep O r
      end
  end.
Definition replace_all (needle rep s : str) : str :=
  match needle with [] => s | _ => replace_aux needle rep O s end.

(* str::split(needle): the pieces between non-overlapping occurrences (needle non-empty) *)
Fixpoint split_aux (needle : str) (skip : nat) (cur : str) (s : str) : list str :=
  match s with
  | [] => [rev cur]
  | c :: r =>
      match skip with
      | S k => split_aux needle k cur r
      | O => if prefixb needle s
             then match length needle with
                  | S k => rev cur :: split_aux needle k [] r
                  | O => [rev cur]
                  end
             else split_aux needle O (c :: cur) r
      end
  end.
Definition split_on (needle s : str) : list str :=
  match needle with [] => [s] | _ => split_aux needle O [] s end.

Definition contains_sub (needle s : str) : bool :=
  match split_on needle s with [_] => false | _ => true end.

(* the placeholder {stem} *)
Definition STEM : str := [123; 115; 116; 101; 109; 125]%N.

(* split one name at a single character *)
Fixpoint split_char_aux (sep : N -> bool) (cur : str) (s : str) : list str :=
  match s with
  | [] => [rev cur]
  | c :: r => if sep c then rev cur :: split_char_aux sep [] r else split_char_aux sep (c :: cur) r
  end.
Definition split_chars (sep : N -> bool) (s : str) : list str := split_char_aux sep [] s.
