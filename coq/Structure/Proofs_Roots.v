(* Structure/Proofs_Roots.v -- lemmas about Roots.kept: the walked roots are requested roots, no walked root
   lies at or below another walked root (so no path is reached by two walks), and every requested root is at
   or below a walked one (so nothing requested is lost). *)
From Coq Require Import ZArith NArith List Bool Arith Lia.
From SG Require Import Structure.Tree Structure.Roots Structure.Proofs_C06a.
Import ListNotations.
Open Scope nat_scope.

Lemma prefix_refl : forall a, prefix a a = true.
Proof. induction a as [|x a IH]; simpl. reflexivity. rewrite IH. replace (str_eqb x x) with true. reflexivity. symmetry. apply str_eqb_eq. reflexivity. Qed.

Lemma prefix_trans : forall a b c, prefix a b = true -> prefix b c = true -> prefix a c = true.
Proof.
  induction a as [|x a IH]; intros b c H1 H2. reflexivity.
  destruct b as [|y b]; [discriminate|]. destruct c as [|z c]; [discriminate|]. simpl in *.
  apply andb_true_iff in H1. destruct H1 as [E1 P1]. apply andb_true_iff in H2. destruct H2 as [E2 P2].
  apply str_eqb_eq in E1. apply str_eqb_eq in E2. subst. rewrite (IH b c P1 P2).
  replace (str_eqb z z) with true. reflexivity. symmetry. apply str_eqb_eq. reflexivity.
Qed.

Lemma prefix_length : forall a b, prefix a b = true -> length a <= length b.
Proof.
  induction a as [|x a IH]; intros b H; simpl. lia.
  destruct b as [|y b]; [discriminate|]. simpl in *. apply andb_true_iff in H. destruct H as [_ H].
  specialize (IH b H). lia.
Qed.

Lemma prefix_same_length : forall a b, prefix a b = true -> length a = length b -> a = b.
Proof.
  induction a as [|x a IH]; intros b H L.
  - destruct b; [reflexivity|discriminate].
  - destruct b as [|y b]; [discriminate|]. simpl in *. apply andb_true_iff in H. destruct H as [E H].
    apply str_eqb_eq in E. subst. f_equal. apply IH. exact H. lia.
Qed.

(* two prefixes of one path are comparable *)
Lemma prefix_comparable : forall a b p, prefix a p = true -> prefix b p = true -> prefix a b = true \/ prefix b a = true.
Proof.
  induction a as [|x a IH]; intros b p Ha Hb. left. reflexivity.
  destruct b as [|y b]. right. reflexivity.
  destruct p as [|z p]; [discriminate|]. simpl in *.
  apply andb_true_iff in Ha. destruct Ha as [E1 P1]. apply andb_true_iff in Hb. destruct Hb as [E2 P2].
  apply str_eqb_eq in E1. apply str_eqb_eq in E2. subst.
  replace (str_eqb z z) with true by (symmetry; apply str_eqb_eq; reflexivity). simpl.
  exact (IH b p P1 P2).
Qed.

Lemma covers_trans : forall a b c, covers a b = true -> covers b c = true -> covers a c = true.
Proof.
  unfold covers. intros a b c H1 H2.
  apply andb_true_iff in H1. destruct H1 as [H1 P1]. apply andb_true_iff in H1. destruct H1 as [Ca Cb].
  apply andb_true_iff in H2. destruct H2 as [H2 P2]. apply andb_true_iff in H2. destruct H2 as [_ Cc].
  rewrite Ca, Cc, (prefix_trans a b c P1 P2). reflexivity.
Qed.

Lemma covers_prefix : forall a b, covers a b = true -> prefix a b = true.
Proof. unfold covers. intros a b H. apply andb_true_iff in H. tauto. Qed.

Lemma in_kept : forall keys i, In i (kept keys) <-> i < length keys /\ is_covered keys i = false.
Proof.
  intros. unfold kept. rewrite filter_In, in_seq, negb_true_iff. simpl. split.
  - intros [[_ H1] H2]. split. exact H1. exact H2.
  - intros [H1 H2]. split. split. apply Nat.le_0_l. exact H1. exact H2.
Qed.

(* the walked roots are requested roots, each once, in the order given *)
Lemma kept_requested : forall keys i, In i (kept keys) -> exists k, nth_error keys i = Some k.
Proof.
  intros keys i H. apply in_kept in H. destruct H as [H _].
  destruct (nth_error keys i) eqn:E. eauto. apply nth_error_None in E. lia.
Qed.

Lemma kept_nodup : forall keys, NoDup (kept keys).
Proof. intro keys. unfold kept. apply NoDup_filter. apply seq_NoDup. Qed.

Lemma beats_spec : forall keys i ki j,
  beats keys i ki j = true <->
  j <> i /\ exists kj, nth_error keys j = Some kj /\ covers kj ki = true /\ (ki <> kj \/ j < i).
Proof.
  intros. unfold beats. split.
  - intro H. apply andb_true_iff in H. destruct H as [N H]. apply negb_true_iff, Nat.eqb_neq in N.
    split. exact N. destruct (nth_error keys j) as [kj|]; [|discriminate]. exists kj. split. reflexivity.
    apply andb_true_iff in H. destruct H as [C O]. split. exact C.
    apply orb_true_iff in O. destruct O as [O|O].
    + left. apply negb_true_iff, path_eqb_neq in O. exact O.
    + right. apply Nat.ltb_lt. exact O.
  - intros [N [kj [E [C O]]]]. rewrite E, C. apply andb_true_iff. split.
    + apply negb_true_iff, Nat.eqb_neq. exact N.
    + simpl. apply orb_true_iff. destruct O as [O|O].
      * left. apply negb_true_iff, path_eqb_neq. exact O.
      * right. apply Nat.ltb_lt. exact O.
Qed.

Lemma not_covered_spec : forall keys i ki,
  nth_error keys i = Some ki -> is_covered keys i = false ->
  forall j kj, nth_error keys j = Some kj -> j <> i -> covers kj ki = true -> ki = kj /\ i < j.
Proof.
  intros keys i ki Ei H j kj Ej N C. unfold is_covered in H. rewrite Ei in H.
  assert (Hj : j < length keys) by (apply nth_error_Some; congruence).
  assert (B : beats keys i ki j = false).
  { destruct (beats keys i ki j) eqn:B; [|reflexivity].
    assert (X : existsb (beats keys i ki) (seq 0 (length keys)) = true).
    { apply existsb_exists. exists j. split. apply in_seq. lia. exact B. }
    congruence. }
  destruct (path_eqb ki kj) eqn:Q.
  - apply path_eqb_eq in Q. split. exact Q.
    destruct (Nat.lt_ge_cases j i) as [L|L]; [|lia].
    exfalso. assert (T : beats keys i ki j = true).
    { apply beats_spec. split. exact N. exists kj. auto. }
    congruence.
  - exfalso. apply path_eqb_neq in Q. assert (T : beats keys i ki j = true).
    { apply beats_spec. split. exact N. exists kj. auto. }
    congruence.
Qed.

(* no walked root lies at or below another walked root *)
Lemma kept_antichain : forall keys i j ki kj,
  In i (kept keys) -> In j (kept keys) -> i <> j ->
  nth_error keys i = Some ki -> nth_error keys j = Some kj -> covers ki kj = false.
Proof.
  intros keys i j ki kj Hi Hj N Ei Ej.
  apply in_kept in Hi. destruct Hi as [_ Ci]. apply in_kept in Hj. destruct Hj as [_ Cj].
  destruct (covers ki kj) eqn:C; [|reflexivity]. exfalso.
  destruct (not_covered_spec keys j kj Ej Cj i ki Ei N C) as [Q L]. subst ki.
  destruct (not_covered_spec keys i kj Ei Ci j kj Ej (not_eq_sym N) C) as [_ L2]. lia.
Qed.

(* hence no path is reached by two walks: the keys of two different walked (comparable) roots are never both
   prefixes of one path *)
Lemma kept_walks_disjoint : forall keys i j ki kj p,
  In i (kept keys) -> In j (kept keys) -> i <> j ->
  nth_error keys i = Some ki -> nth_error keys j = Some kj ->
  comparable ki = true -> comparable kj = true ->
  prefix ki p = true -> prefix kj p = true -> False.
Proof.
  intros keys i j ki kj p Hi Hj N Ei Ej Ci Cj Pi Pj.
  destruct (prefix_comparable ki kj p Pi Pj) as [P|P].
  - pose proof (kept_antichain keys i j ki kj Hi Hj N Ei Ej) as A.
    unfold covers in A. rewrite Ci, Cj, P in A. discriminate.
  - pose proof (kept_antichain keys j i kj ki Hj Hi (not_eq_sym N) Ej Ei) as A.
    unfold covers in A. rewrite Ci, Cj, P in A. discriminate.
Qed.

(* nothing requested is lost: every requested root is walked itself or lies at or below a walked root *)
Lemma kept_cover_aux : forall keys L,
  forall i ki, nth_error keys i = Some ki -> length ki = L ->
  exists j kj, In j (kept keys) /\ nth_error keys j = Some kj /\ (j = i \/ covers kj ki = true).
Proof.
  intros keys L. induction L as [L IHL] using lt_wf_ind.
  intro i. induction i as [i IHi] using lt_wf_ind. intros ki Ei Len.
  destruct (is_covered keys i) eqn:C.
  - unfold is_covered in C. rewrite Ei in C. apply existsb_exists in C. destruct C as [j [_ B]].
    apply beats_spec in B. destruct B as [N [kj [Ej [Cv O]]]].
    assert (P := covers_prefix kj ki Cv). pose proof (prefix_length kj ki P) as Le.
    assert (R : exists h kh, In h (kept keys) /\ nth_error keys h = Some kh /\ (h = j \/ covers kh kj = true)).
    { destruct (Nat.eq_dec (length kj) (length ki)) as [Q|Q].
      - pose proof (prefix_same_length kj ki P Q) as Eq. subst kj.
        destruct O as [O|O]; [congruence|]. apply (IHi j O ki Ej Len).
      - apply (IHL (length kj)) with (i := j) (ki := kj). lia. exact Ej. reflexivity. }
    destruct R as [h [kh [Hk [Eh Hh]]]]. exists h, kh. split. exact Hk. split. exact Eh. right.
    destruct Hh as [->|Hh].
    + rewrite Ej in Eh. inversion Eh. subst. exact Cv.
    + eapply covers_trans. exact Hh. exact Cv.
  - exists i, ki. split. apply in_kept. split. apply nth_error_Some. congruence. exact C. split. exact Ei. left. reflexivity.
Qed.

Lemma kept_cover : forall keys i ki, nth_error keys i = Some ki ->
  exists j kj, In j (kept keys) /\ nth_error keys j = Some kj /\ (j = i \/ covers kj ki = true).
Proof. intros keys i ki E. eapply kept_cover_aux. exact E. reflexivity. Qed.

(* a single requested root is walked; a repeated root is walked once *)
Lemma kept_single : forall k, kept [k] = [0].
Proof. intro k. unfold kept, is_covered, beats. simpl. reflexivity. Qed.
