(* Structure/Proofs_C07.v -- lemmas for C07: the ladders against the declarative clause list, rule
   selection against explain, at-most-once, sibling and group rules. *)
From Coq Require Import ZArith NArith List Bool Lia Permutation Arith.
From SG Require Import Structure.Tree Structure.Names Structure.Config Structure.Placement Structure.Scan
     Structure.F64 Structure.Limits Structure.Siblings Structure.Spec Structure.Proofs_C06a Structure.Proofs_C06b.
Import ListNotations.
Open Scope Z_scope.

(* ---------- rule selection ---------- *)
Lemma find_map : forall {A B} (p : B -> bool) (f : A -> B) l,
  find p (map f l) = option_map f (find (fun x => p (f x)) l).
Proof.
  intros A B p f l. induction l as [|x l IH]; simpl. reflexivity.
  destruct (p (f x)). reflexivity. exact IH.
Qed.

Lemma zip3_fst : forall rs sc rcs, map fst (zip3 rs sc rcs) = zip_scope rs sc.
Proof.
  induction rs as [|[i r] rs IH]; intros sc rcs; simpl. reflexivity.
  rewrite IH. reflexivity.
Qed.

Lemma nth_rcols_tl : forall j l, 0 <= j -> nth_rcols (j + 1) l = nth_rcols j (tl l).
Proof.
  intros j l Hj. destruct l as [|x l]; simpl.
  - destruct j; reflexivity.
  - assert (E : j + 1 =? 0 = false) by (apply Z.eqb_neq; lia). rewrite E.
    replace (j + 1 - 1) with j by lia. reflexivity.
Qed.

Lemma zip3_nth : forall rs i sc rcs x,
  In x (zip3 (indexed_from i rs) sc rcs) ->
  i <= fst (fst (fst x)) /\ snd x = nth_rcols (fst (fst (fst x)) - i) rcs.
Proof.
  induction rs as [|r rs IH]; intros i sc rcs x Hx; simpl in Hx. contradiction.
  destruct Hx as [<-|Hx].
  - simpl. split. lia. rewrite Z.sub_diag. destruct rcs; reflexivity.
  - destruct (IH (i + 1) (tl sc) (tl rcs) x Hx) as [H1 H2]. split. lia.
    rewrite H2. replace (fst (fst (fst x)) - i) with ((fst (fst (fst x)) - (i + 1)) + 1) by lia.
    rewrite nth_rcols_tl by lia. reflexivity.
Qed.

(* the rule the scanner consults is the rule Spec.consulted_spec (= explain) selects *)
Lemma find_rule_spec : forall cfg sc rcs, find_rule cfg sc rcs = consulted_spec cfg sc rcs.
Proof.
  intros cfg sc rcs. unfold find_rule, consulted_spec, last_match, placement_rules.
  rewrite <- (zip3_fst (indexed (rules cfg)) sc rcs). rewrite <- map_rev. rewrite find_map.
  destruct (find (fun x => snd (fst x)) (rev (zip3 (indexed (rules cfg)) sc rcs))) as [[[[i r] b] rc]|] eqn:E; simpl.
  - apply find_some in E. destruct E as [Hin _]. apply in_rev in Hin.
    unfold indexed in Hin. apply zip3_nth in Hin. simpl in Hin. destruct Hin as [_ H2].
    rewrite H2. rewrite Z.sub_0_r. reflexivity.
  - reflexivity.
Qed.

Lemma rule_consulted_is_explains : forall cfg sc rcs,
  option_map (fun x => fst (fst x)) (find_rule cfg sc rcs) = ex_matched (explain cfg sc).
Proof.
  intros. rewrite find_rule_spec. unfold consulted_spec. simpl. rewrite explain_index_last_match.
  destruct (last_match cfg sc) as [[i r]|]; reflexivity.
Qed.

(* ---------- the ladders ---------- *)
Lemma file_ladder_spec : forall cfg name c sc, file_ladder cfg name c sc = forbidden_spec cfg name c sc.
Proof.
  intros. unfold file_ladder, forbidden_spec. rewrite find_rule_spec.
  destruct (consulted_spec cfg sc (c_r c)) as [[[i r] rc]|]; unfold first_some; simpl;
    destruct (has_global_file_allowlist cfg); simpl;
    destruct (file_matches_global_allow cfg name (c_g c)); simpl;
    try destruct (r_has_allowlist r); simpl;
    try destruct (r_file_matches r name rc); simpl;
    destruct (file_matches_global_deny cfg name (c_g c)); simpl;
    try destruct (r_file_matches_deny r name rc); simpl;
    try destruct (r_naming rc); try destruct (sr_naming r); reflexivity.
Qed.

Lemma dir_ladder_spec : forall cfg c sc, dir_ladder cfg c sc = forbidden_dir_spec cfg c sc.
Proof.
  intros. unfold dir_ladder, forbidden_dir_spec. rewrite find_rule_spec.
  destruct (consulted_spec cfg sc (c_r c)) as [[[i r] rc]|]; unfold first_some, or_else; simpl;
    destruct (has_global_dir_allowlist cfg); simpl;
    destruct (g_allow_dirs (c_g c)); simpl;
    try destruct (r_has_dir_allowlist r); simpl;
    try destruct (r_allow_dirs rc); simpl;
    destruct (dir_matches_global_deny (c_g c)); simpl;
    destruct (dir_matches_global_deny_basename (c_g c)); simpl;
    try destruct (r_dir_matches_deny rc); reflexivity.
Qed.

(* C07_file_exact (entry level): under equal answers at the placement site and the explain site *)
Lemma entry_violations_spec : forall cfg e,
  e_pplc e = e_plim e -> entry_violations cfg e = spec_entry_violations cfg e.
Proof.
  intros cfg e H. unfold entry_violations, spec_entry_violations. rewrite H.
  destruct (e_kind e).
  - rewrite file_ladder_spec. reflexivity.
  - rewrite dir_ladder_spec.
    destruct (scan_excluded (e_cols e) true); simpl; [reflexivity|].
    destruct (is_project_root (e_path e)); reflexivity.
  - reflexivity.
Qed.

Lemma scan_violations_spec : forall cfg es,
  (forall e, In e es -> e_pplc e = e_plim e) -> scan_violations cfg es = spec_scan_violations cfg es.
Proof.
  intros cfg es H. unfold scan_violations, spec_scan_violations.
  induction es as [|e es IH]; simpl. reflexivity.
  rewrite entry_violations_spec by (apply H; left; reflexivity).
  rewrite IH. reflexivity. intros x Hx. apply H. right. exact Hx.
Qed.

(* ---------- at most once ---------- *)
Lemma entry_at_most_one : forall cfg e, (length (entry_violations cfg e) <= 1)%nat.
Proof.
  intros cfg e. unfold entry_violations. destruct (e_kind e).
  - destruct (scan_excluded (e_cols e) false); simpl; [lia|].
    destruct (file_ladder cfg (e_name e) (e_cols e) (e_pplc e)) as [[k rr]|]; simpl; lia.
  - destruct (scan_excluded (e_cols e) true); simpl; [lia|].
    destruct (is_project_root (e_path e)); simpl; [lia|].
    destruct (dir_ladder cfg (e_cols e) (e_pplc e)) as [[k rr]|]; simpl; lia.
  - simpl. lia.
Qed.

Lemma file_entry_at_most_one : forall cfg e, e_kind e = KFile -> (length (entry_violations cfg e) <= 1)%nat.
Proof. intros cfg e _. apply entry_at_most_one. Qed.

Lemma entry_violation_path : forall cfg e v, In v (entry_violations cfg e) -> v_path v = e_path e.
Proof.
  intros cfg e v H. unfold entry_violations in H. destruct (e_kind e).
  - destruct (scan_excluded (e_cols e) false); simpl in H; [contradiction|].
    destruct (file_ladder cfg (e_name e) (e_cols e) (e_pplc e)) as [[k rr]|]; simpl in H; [|contradiction].
    destruct H as [<-|[]]. reflexivity.
  - destruct (scan_excluded (e_cols e) true); simpl in H; [contradiction|].
    destruct (is_project_root (e_path e)); simpl in H; [contradiction|].
    destruct (dir_ladder cfg (e_cols e) (e_pplc e)) as [[k rr]|]; simpl in H; [|contradiction].
    destruct H as [<-|[]]. reflexivity.
  - contradiction.
Qed.

Definition at_path (p : path) (vs : list violation) : list violation :=
  filter (fun v => path_eqb (v_path v) p) vs.

Lemma at_path_other : forall cfg e p, e_path e <> p -> at_path p (entry_violations cfg e) = [].
Proof.
  intros cfg e p H. unfold at_path.
  assert (G : forall vs, (forall v, In v vs -> v_path v = e_path e) -> filter (fun v => path_eqb (v_path v) p) vs = []).
  { induction vs as [|v vs IH]; intro Hv; simpl. reflexivity.
    assert (E : path_eqb (v_path v) p = false).
    { apply path_eqb_neq. rewrite (Hv v) by (left; reflexivity). exact H. }
    rewrite E. apply IH. intros w Hw. apply Hv. right. exact Hw. }
  apply G. intros v Hv. eapply entry_violation_path. exact Hv.
Qed.

Lemma filter_len_le : forall {A} (f : A -> bool) l, (length (filter f l) <= length l)%nat.
Proof. intros A f l. induction l as [|x l IH]; simpl. lia. destruct (f x); simpl; lia. Qed.

Lemma at_path_app : forall p a b, at_path p (a ++ b) = at_path p a ++ at_path p b.
Proof. intros. unfold at_path. apply filter_app. Qed.

Lemma at_path_absent : forall cfg es p,
  ~ In p (map e_path es) -> at_path p (flat_map (entry_violations cfg) es) = [].
Proof.
  intros cfg es p. induction es as [|y es IH]; intro H; simpl. reflexivity.
  rewrite at_path_app. rewrite at_path_other.
  - simpl. apply IH. intro Hin. apply H. simpl. right. exact Hin.
  - intro E. apply H. simpl. left. exact E.
Qed.

(* distinct paths: an entry (file or directory) is reported at most once in a whole scan *)
Lemma entry_at_most_once : forall cfg es e,
  NoDup (map e_path es) -> In e es ->
  (length (at_path (e_path e) (scan_violations cfg es)) <= 1)%nat.
Proof.
  intros cfg es e Hnd Hin. unfold scan_violations.
  induction es as [|x es IH]; simpl in *. contradiction.
  inversion Hnd as [|? ? Hnotin Hnd']; subst.
  rewrite at_path_app, app_length.
  destruct Hin as [->|Hin].
  - rewrite (at_path_absent cfg es (e_path e) Hnotin). simpl. rewrite Nat.add_0_r.
    eapply Nat.le_trans. unfold at_path. apply filter_len_le. apply entry_at_most_one.
  - assert (Hx : e_path x <> e_path e).
    { intro E. apply Hnotin. rewrite E. apply in_map. exact Hin. }
    rewrite (at_path_other cfg x (e_path e) Hx). simpl.
    apply IH; assumption.
Qed.

Lemma file_at_most_once : forall cfg es e,
  NoDup (map e_path es) -> In e es -> e_kind e = KFile ->
  (length (at_path (e_path e) (scan_violations cfg es)) <= 1)%nat.
Proof. intros cfg es e Hnd Hin _. apply entry_at_most_once; assumption. Qed.

(* ---------- lists combine by OR ---------- *)
Lemma lists_combine_by_or : forall cfg r name g rc,
  (r_file_matches r name rc =
     is_some (ext_in (sr_allow_ext r) name) || r_allow_files rc || r_allow_pat_name rc || r_allow_pat_path rc)
  /\ (is_some (r_file_matches_deny r name rc) =
     is_some (ext_in (sr_deny_ext r) name) || is_some (r_deny_files rc) || is_some (r_deny_pat_name rc) || is_some (r_deny_pat_path rc))
  /\ (file_matches_global_allow cfg name g = is_some (ext_in (allow_ext cfg) name) || g_allow_files g)
  /\ (is_some (file_matches_global_deny cfg name g) =
     is_some (ext_in (deny_ext cfg) name) || is_some (g_deny_files g) || is_some (g_deny_pat_name g) || is_some (g_deny_pat_path g))
  /\ (r_has_allowlist r = nonempty (sr_allow_ext r) || (0 <? sr_allow_patterns r) || (0 <? sr_allow_files r)).
Proof.
  intros. repeat split; try reflexivity.
  - unfold r_file_matches_deny. destruct (ext_in (sr_deny_ext r) name); simpl; [reflexivity|].
    destruct (r_deny_files rc); simpl; [reflexivity|].
    destruct (r_deny_pat_name rc); simpl; [reflexivity|].
    destruct (r_deny_pat_path rc); reflexivity.
  - unfold file_matches_global_deny. destruct (ext_in (deny_ext cfg) name); simpl; [reflexivity|].
    destruct (g_deny_files g); simpl; [reflexivity|].
    destruct (g_deny_pat_name g); simpl; [reflexivity|].
    destruct (g_deny_pat_path g); reflexivity.
Qed.

(* an extension list matches iff the list is non-empty, the name has an extension and .ext is listed *)
Lemma ext_in_iff : forall l name e,
  ext_in l name = Some e <-> l <> [] /\ ext_with_dot name = Some e /\ In e l.
Proof.
  intros l name e. unfold ext_in. destruct l as [|x l].
  - split. discriminate. intros [H _]. congruence.
  - destruct (ext_with_dot name) as [e'|].
    + destruct (str_mem e' (x :: l)) eqn:M.
      * split.
        -- intro H. inversion H; subst. apply str_mem_In in M. repeat split; auto. discriminate.
        -- intros [_ [H _]]. exact H.
      * split. discriminate. intros [_ [H Hin]]. inversion H; subst.
        apply str_mem_In in Hin. congruence.
    + split. discriminate. intros [_ [H _]]. discriminate.
Qed.

(* ---------- naming only for otherwise permitted files ---------- *)
Lemma naming_only_if_permitted : forall cfg name c sc rr,
  forbidden_spec cfg name c sc = Some (VNaming, rr) ->
  exists i r rc,
    consulted_spec cfg sc (c_r c) = Some (i, r, rc) /\ rr = RRule i /\ sr_naming r = true /\ r_naming rc = false
    /\ r_file_matches_deny r name rc = None
    /\ (r_has_allowlist r = true -> r_file_matches r name rc = true)
    /\ (has_global_file_allowlist cfg = true -> file_matches_global_allow cfg name (c_g c) = true)
    /\ (has_global_file_allowlist cfg = false ->
        (r_has_allowlist r && r_file_matches r name rc = true) \/ file_matches_global_deny cfg name (c_g c) = None).
Proof.
  intros cfg name c sc rr H. unfold forbidden_spec in H.
  destruct (consulted_spec cfg sc (c_r c)) as [[[i r] rc]|]; unfold first_some in H; simpl in H.
  - exists i, r, rc.
    destruct (has_global_file_allowlist cfg); simpl in H;
      destruct (file_matches_global_allow cfg name (c_g c)); simpl in H; try discriminate;
      destruct (r_has_allowlist r) eqn:Ha; simpl in H;
      destruct (r_file_matches r name rc) eqn:Hm; simpl in H; try discriminate;
      destruct (file_matches_global_deny cfg name (c_g c)) eqn:Hg; simpl in H; try discriminate;
      destruct (r_file_matches_deny r name rc); simpl in H; try discriminate;
      destruct (sr_naming r); simpl in H; try discriminate;
      destruct (r_naming rc); simpl in H; try discriminate;
      inversion H; subst; repeat split; auto; try discriminate; try (intro; discriminate).
  - destruct (has_global_file_allowlist cfg); simpl in H;
      destruct (file_matches_global_allow cfg name (c_g c)); simpl in H; try discriminate;
      destruct (file_matches_global_deny cfg name (c_g c)); simpl in H; discriminate.
Qed.

(* a deny entry beats an allow entry of the same rule; a scope allowlist entry overrides a global deny *)
Lemma deny_beats_allow : forall cfg name c sc i r rc m,
  consulted_spec cfg sc (c_r c) = Some (i, r, rc) -> r_file_matches_deny r name rc = Some m ->
  exists k rr, forbidden_spec cfg name c sc = Some (k, rr) /\ k <> VNaming /\
    (rr = RRule i -> k = VDeniedFile m).
Proof.
  intros cfg name c sc i r rc m Hc Hd. unfold forbidden_spec. rewrite Hc. unfold first_some. simpl. rewrite Hd. simpl.
  destruct (has_global_file_allowlist cfg); simpl.
  - destruct (file_matches_global_allow cfg name (c_g c)); simpl.
    + exists (VDeniedFile m), (RRule i). repeat split; try discriminate. 
    + exists VDisallowedFile, RGlobal. repeat split; discriminate.
  - destruct (r_has_allowlist r && r_file_matches r name rc); simpl.
    + exists (VDeniedFile m), (RRule i). repeat split; discriminate.
    + destruct (file_matches_global_deny cfg name (c_g c)) as [m'|]; simpl.
      * exists (VDeniedFile m'), RGlobal. repeat split; discriminate.
      * exists (VDeniedFile m), (RRule i). repeat split; discriminate.
Qed.

Lemma scoped_allow_overrides_global_deny : forall cfg name c sc i r rc,
  has_global_file_allowlist cfg = false ->
  consulted_spec cfg sc (c_r c) = Some (i, r, rc) ->
  r_has_allowlist r = true -> r_file_matches r name rc = true ->
  forall m, forbidden_spec cfg name c sc <> Some (VDeniedFile m, RGlobal).
Proof.
  intros cfg name c sc i r rc Hg Hc Ha Hm m. unfold forbidden_spec. rewrite Hc, Hg, Ha, Hm. unfold first_some. simpl.
  destruct (r_file_matches_deny r name rc); simpl; try discriminate.
  destruct (sr_naming r && negb (r_naming rc)); discriminate.
Qed.

(* ---------- siblings ---------- *)
Lemma directed_sibling : forall files e i me ts w fm v,
  In v (sibling_one files e i (SDirected me ts w) fm) <->
  fm = true /\ exists t, In t ts /\ v = sv e (VMissingSibling t) w i /\
    exists stem, file_stem (e_name e) = Some stem /\
      in_files files (join_name (e_parent e) (replace_all STEM stem t)) = false.
Proof.
  intros files e i me ts w fm v. cbn [sibling_one]. destruct fm.
  - rewrite in_flat_map. split.
    + intros [t [Ht Hv]]. split; [reflexivity|]. exists t. split; [exact Ht|].
      unfold derive_sibling in Hv. destruct (file_stem (e_name e)) as [stem|]; [|contradiction].
      destruct (in_files files _) eqn:E; [contradiction|].
      destruct Hv as [<-|[]]. split; [reflexivity|]. exists stem. split; [reflexivity|exact E].
    + intros [_ [t [Ht [-> [stem [Hs Hf]]]]]]. exists t. split; [exact Ht|].
      unfold derive_sibling. rewrite Hs, Hf. left. reflexivity.
  - split. contradiction. intros [H _]. discriminate.
Qed.

Lemma argmin_first_in : forall {A} (key : A -> nat) l b, argmin_first key l b = b \/ In (argmin_first key l b) l.
Proof.
  intros A key l. induction l as [|x l IH]; intro b; simpl. left. reflexivity.
  destruct (key x <? key b)%nat.
  - destruct (IH x) as [->|H]. right. left. reflexivity. right. right. exact H.
  - destruct (IH b) as [->|H]. left. reflexivity. right. right. exact H.
Qed.

Lemma argmin_first_le : forall {A} (key : A -> nat) l b,
  (key (argmin_first key l b) <= key b)%nat /\ forall x, In x l -> (key (argmin_first key l b) <= key x)%nat.
Proof.
  intros A key l. induction l as [|x l IH]; intro b; simpl. split. lia. intros x [].
  destruct (key x <? key b)%nat eqn:E.
  - apply Nat.ltb_lt in E. destruct (IH x) as [H1 H2]. split. lia.
    intros y [<-|Hy]. exact H1. apply H2. exact Hy.
  - apply Nat.ltb_ge in E. destruct (IH b) as [H1 H2]. split. exact H1.
    intros y [<-|Hy]. lia. apply H2. exact Hy.
Qed.

Definition group_stems (name : str) (pats : list str) : list str :=
  flat_map (fun p => match extract_stem name p with Some s => [s] | None => [] end) pats.

(* a file of a group is reported iff it matches some pattern and EVERY candidate stem leaves a member
   missing; the report lists the missing members of the first most complete stem *)
Lemma group_rule : forall files e i pats w fm,
  (sibling_one files e i (SGroup pats w) fm <> [] <->
   group_stems (e_name e) pats <> [] /\
   forall s, In s (group_stems (e_name e) pats) -> group_missing files (e_parent e) pats s <> [])
  /\ (length (sibling_one files e i (SGroup pats w) fm) <= 1)%nat.
Proof.
  intros files e i pats w fm. cbn [sibling_one]. fold (group_stems (e_name e) pats).
  destruct (group_stems (e_name e) pats) as [|s0 rest] eqn:Es.
  - split. split. intro H. contradiction. intros [H _]. contradiction. simpl. lia.
  - set (key := fun s => length (group_missing files (e_parent e) pats s)).
    set (best := argmin_first key rest s0).
    destruct (argmin_first_le key rest s0) as [L1 L2]. fold best in L1, L2.
    destruct (group_missing files (e_parent e) pats best) eqn:Eb.
    + split; [|simpl; lia]. split. intro H. contradiction.
      intros [_ H]. exfalso.
      destruct (argmin_first_in key rest s0) as [E|Hin].
      * fold best in E. apply (H best). left. symmetry. exact E. exact Eb.
      * fold best in Hin. apply (H best). right. exact Hin. exact Eb.
    + split; [|simpl; lia]. split.
      * intros _. split. discriminate. intros s1 [<-|Hs] Hm.
        -- unfold key in L1. rewrite Hm, Eb in L1. simpl in L1. lia.
        -- specialize (L2 s1 Hs). unfold key in L2. rewrite Hm, Eb in L2. simpl in L2. lia.
      * intros _. discriminate.
Qed.

(* ---------- the walked entries of a well-formed tree have pairwise distinct paths ---------- *)
Lemma entries_under : forall t pp a b d e,
  In e (entries_aux pp a b d t) -> under (tname t :: pp) (e_path e).
Proof.
  induction t as [n c|n c|n c ch IH] using tree_ind'; intros pp a b d e Hin; simpl in Hin.
  - destruct (c_skip c); simpl in Hin; [contradiction|]. destruct Hin as [<-|[]]. apply under_refl.
  - destruct (c_skip c); simpl in Hin; [contradiction|]. destruct Hin as [<-|[]]. apply under_refl.
  - destruct (pruned_dir c); simpl in Hin; [contradiction|]. destruct Hin as [<-|Hin]. apply under_refl.
    apply in_flat_map in Hin. destruct Hin as [x [Hx He]].
    rewrite Forall_forall in IH. specialize (IH x Hx _ _ _ _ _ He). simpl. apply under_cons in IH. exact IH.
Qed.

Lemma nodup_app : forall {A} (l1 l2 : list A),
  NoDup l1 -> NoDup l2 -> (forall x, In x l1 -> ~ In x l2) -> NoDup (l1 ++ l2).
Proof.
  intros A l1 l2 H1 H2 Hd. induction H1 as [|x l1 Hx H1 IH]; simpl. exact H2.
  constructor.
  - intro Hin. apply in_app_or in Hin. destruct Hin as [Hin|Hin]. contradiction.
    apply (Hd x). left. reflexivity. exact Hin.
  - apply IH. intros y Hy. apply Hd. right. exact Hy.
Qed.

Lemma entries_paths_nodup_aux : forall t pp a b d,
  wf_tree t = true -> NoDup (map e_path (entries_aux pp a b d t)).
Proof.
  induction t as [n c|n c|n c ch IH] using tree_ind'; intros pp a b d Hwf; simpl.
  - destruct (c_skip c); simpl; repeat constructor. intros [].
  - destruct (c_skip c); simpl; repeat constructor. intros [].
  - destruct (pruned_dir c); simpl. constructor.
    simpl in Hwf. apply andb_true_iff in Hwf. destruct Hwf as [Hnd Hwfc]. rewrite forallb_forall in Hwfc.
    constructor.
    + intro Hin. apply in_map_iff in Hin. destruct Hin as [e [Ee He]].
      apply in_flat_map in He. destruct He as [x [_ He]]. apply entries_under in He. rewrite Ee in He.
      apply (under_cons_neq (tname x) (n :: pp)). exact He.
    + revert Hnd Hwfc IH. generalize (c_scope c) (c_scope c). intros a' b'.
      induction ch as [|y ch IHc]; intros Hnd Hwfc IH; simpl. constructor.
      apply names_distinct_cons in Hnd. destruct Hnd as [Hnotin Hnd].
      rewrite map_app. apply nodup_app.
      * apply (Forall_inv IH). apply Hwfc. left. reflexivity.
      * apply IHc. exact Hnd. intros z Hz. apply Hwfc. right. exact Hz. exact (Forall_inv_tail IH).
      * intros p Hp1 Hp2. apply in_map_iff in Hp1. destruct Hp1 as [e1 [E1 He1]].
        apply in_map_iff in Hp2. destruct Hp2 as [e2 [E2 He2]].
        apply in_flat_map in He2. destruct He2 as [z [Hz He2]].
        apply entries_under in He1. apply entries_under in He2. rewrite E1 in He1. rewrite E2 in He2.
        apply Hnotin. rewrite (under_sep _ _ _ _ He1 He2). apply in_map. exact Hz.
Qed.

Lemma entry_at_most_once_tree : forall cfg rp rl t es e,
  wf_tree t = true -> Permutation (entries rp rl t) es -> In e es ->
  (length (at_path (e_path e) (scan_violations cfg es)) <= 1)%nat.
Proof.
  intros cfg rp rl t es e Hwf Hp Hin. apply entry_at_most_once; auto.
  eapply Permutation_NoDup. apply Permutation_map. exact Hp.
  apply entries_paths_nodup_aux. exact Hwf.
Qed.

(* a path that no walked entry carries is never reported *)
Lemma nothing_else_reported : forall cfg es v,
  In v (scan_violations cfg es) -> exists e, In e es /\ v_path v = e_path e.
Proof.
  intros cfg es v H. unfold scan_violations in H. apply in_flat_map in H.
  destruct H as [e [He Hv]]. exists e. split. exact He. eapply entry_violation_path. exact Hv.
Qed.

(* fixes/D49: a count-excluded file is placed exactly like a counted one *)
Lemma count_exclude_does_not_exempt : forall cfg k p d c1 c2 a b,
  c_se_name c1 = c_se_name c2 -> c_se_path c1 = c_se_path c2 -> c_se_dir c1 = c_se_dir c2 ->
  c_g c1 = c_g c2 -> c_r c1 = c_r c2 ->
  map v_kind (entry_violations cfg (mk_entry k p d c1 a b)) = map v_kind (entry_violations cfg (mk_entry k p d c2 a b)).
Proof.
  intros cfg k p d c1 c2 a b H1 H2 H3 H4 H5. unfold entry_violations, scan_excluded, file_ladder, dir_ladder, e_name.
  cbn [e_kind e_cols e_pplc e_path]. rewrite H1, H2, H3, H4, H5. reflexivity.
Qed.

(* fixes/D51: the project root is never reported by the directory lists *)
Lemma project_root_not_placed : forall cfg e,
  e_kind e = KDir -> is_project_root (e_path e) = true -> entry_violations cfg e = [].
Proof.
  intros cfg e Hk Hr. unfold entry_violations. rewrite Hk, Hr.
  destruct (scan_excluded (e_cols e) true); reflexivity.
Qed.

Lemma file_at_most_once_tree : forall cfg rp rl t es e,
  wf_tree t = true -> Permutation (entries rp rl t) es -> In e es -> e_kind e = KFile ->
  (length (at_path (e_path e) (scan_violations cfg es)) <= 1)%nat.
Proof.
  intros cfg rp rl t es e Hwf Hp Hin Hk. apply file_at_most_once; auto.
  eapply Permutation_NoDup. apply Permutation_map. exact Hp.
  apply entries_paths_nodup_aux. exact Hwf.
Qed.

(* ---------- both sites see the same scope column (fixes/D07: every site matches the normalised path) ---------- *)
Lemma entries_sites_agree : forall t pp a d e,
  In e (entries_aux pp a a d t) -> e_pplc e = e_plim e.
Proof.
  induction t as [n c|n c|n c ch IH] using tree_ind'; intros pp a d e Hin; simpl in Hin.
  - destruct (c_skip c); simpl in Hin; [contradiction|]. destruct Hin as [<-|[]]. reflexivity.
  - destruct (c_skip c); simpl in Hin; [contradiction|]. destruct Hin as [<-|[]]. reflexivity.
  - destruct (pruned_dir c); simpl in Hin; [contradiction|]. destruct Hin as [<-|Hin]. reflexivity.
    apply in_flat_map in Hin. destruct Hin as [x [Hx He]].
    rewrite Forall_forall in IH. exact (IH x Hx _ _ _ _ He).
Qed.

Lemma scan_exact_tree : forall cfg rs t es,
  Permutation (entries rs rs t) es -> scan_violations cfg es = spec_scan_violations cfg es.
Proof.
  intros cfg rs t es Hp. apply scan_violations_spec. intros e He.
  apply (entries_sites_agree t [] rs 0 e). unfold entries in Hp.
  eapply Permutation_in. apply Permutation_sym. exact Hp. exact He.
Qed.

(* ---------- known finding K07_file_root_sibling (D52): companions are looked up among the SCANNED files; a file
   given as a scan root is scanned alone ---------- *)
Lemma path_mem_In : forall p l, path_mem p l = true <-> In p l.
Proof.
  intros p l. unfold path_mem. rewrite existsb_exists. split.
  - intros [x [Hx E]]. apply path_eqb_eq in E. subst. exact Hx.
  - intro H. exists p. split. exact H. apply path_eqb_refl.
Qed.

(* the known class, executable: some file that is visible in the tree was not scanned *)
Definition partial_scan (files vis : list path) : bool := negb (forallb (fun p => path_mem p files) vis).

Lemma directed_sibling_modulo_partial_scan : forall files vis e i me ts w fm,
  (forall p, path_mem p files = true -> path_mem p vis = true) ->
  partial_scan files vis = false ->
  sibling_one files e i (SDirected me ts w) fm = sibling_one vis e i (SDirected me ts w) fm.
Proof.
  intros files vis e i me ts w fm Hsub Hp. unfold partial_scan in Hp. apply negb_false_iff in Hp.
  rewrite forallb_forall in Hp.
  assert (E : forall p, path_mem p files = path_mem p vis).
  { intro p. destruct (path_mem p vis) eqn:V.
    - apply Hp. apply path_mem_In. exact V.
    - destruct (path_mem p files) eqn:F; [|reflexivity]. rewrite (Hsub p F) in V. discriminate. }
  assert (E2 : forall o, in_files files o = in_files vis o).
  { intros [p|]; simpl; [apply E|reflexivity]. }
  simpl. destruct fm; [|reflexivity]. apply flat_map_ext. intro t.
  destruct (derive_sibling e t); [rewrite E2|]; reflexivity.
Qed.

(* ---------- which sibling entries apply (fixes/D81): those of the rule explain names, of no other ---------- *)
Lemma sibling_one_rule : forall files e i s fm v,
  In v (sibling_one files e i s fm) -> v_rule v = Some (RRule i) /\ v_path v = e_path e.
Proof.
  intros files e i s fm v H. destruct s as [me ts w|pats w]; cbn [sibling_one] in H.
  - destruct fm; [|contradiction]. apply in_flat_map in H. destruct H as [t [_ Hv]].
    destruct (derive_sibling e t) as [exp|]; [|contradiction].
    destruct (in_files files exp); [contradiction|]. destruct Hv as [<-|[]]. split; reflexivity.
  - destruct (flat_map _ pats) as [|s0 rest]; [contradiction|].
    destruct (group_missing files (e_parent e) pats _) as [|m ms]; [contradiction|].
    destruct H as [<-|[]]. split; reflexivity.
Qed.

Lemma sibling_rule_rule : forall files e i sibs fms v,
  In v (sibling_rule files e i sibs fms) -> v_rule v = Some (RRule i) /\ v_path v = e_path e.
Proof.
  intros files e i sibs. induction sibs as [|s r IH]; intros fms v H; cbn [sibling_rule] in H.
  - contradiction.
  - apply in_app_or in H. destruct H as [H|H]. eapply sibling_one_rule; exact H. eapply IH; exact H.
Qed.

Lemma sibling_rules_rule : forall files e rs cols k v,
  In v (sibling_rules files e rs cols k) -> v_rule v = Some (RRule k) /\ v_path v = e_path e.
Proof.
  intros files e rs. induction rs as [|[i r] rs IH]; intros cols k v H; cbn [sibling_rules] in H.
  - contradiction.
  - apply in_app_or in H. destruct H as [H|H].
    + destruct (Z.eqb i k) eqn:E; [|contradiction]. apply Z.eqb_eq in E. subst i.
      eapply sibling_rule_rule; exact H.
    + eapply IH; exact H.
Qed.

(* every sibling report of a file names the rule explain names for the file's directory *)
Lemma sibling_rule_is_explains : forall cfg files e v,
  In v (sibling_entry cfg files e) ->
  exists i, v_rule v = Some (RRule i) /\ ex_matched (explain cfg (e_plim e)) = Some i /\ v_path v = e_path e.
Proof.
  intros cfg files e v H. unfold sibling_entry in H. cbn [explain ex_matched].
  rewrite explain_index_last_match.
  destruct (last_match cfg (e_plim e)) as [[i r]|]; [|contradiction].
  apply sibling_rules_rule in H. destruct H as [H1 H2]. exists i. repeat split; assumption.
Qed.

(* a directory for which explain names no rule has no sibling requirement *)
Lemma sibling_none_without_rule : forall cfg files e,
  ex_matched (explain cfg (e_plim e)) = None -> sibling_entry cfg files e = [].
Proof.
  intros cfg files e H. cbn [explain ex_matched] in H. rewrite explain_index_last_match in H.
  unfold sibling_entry. destruct (last_match cfg (e_plim e)) as [[i r]|]; [discriminate|reflexivity].
Qed.

(* and the consulted rule's entries are all applied: when rule i is the one explain names and it is the i-th
   declared rule, the reports are exactly those of its own sibling entries *)
Lemma sibling_rules_select : forall files e rs cols k n r,
  (forall j, nth_error (map fst rs) j = Some k -> j = n) ->
  nth_error rs n = Some (k, r) ->
  sibling_rules files e rs cols k = sibling_rule files e k (sr_siblings r) (nth n cols []).
Proof.
  intros files e rs. induction rs as [|[i r0] rs IH]; intros cols k n r Hu Hn.
  - destruct n; discriminate.
  - cbn [sibling_rules]. destruct n as [|n].
    + simpl in Hn. injection Hn as -> ->. rewrite Z.eqb_refl.
      assert (T : sibling_rules files e rs (tl cols) k = []).
      { clear IH. assert (Hno : forall j, nth_error (map fst rs) j <> Some k).
        { intros j Hj. specialize (Hu (S j)). simpl in Hu. specialize (Hu Hj). discriminate. }
        clear Hu. generalize (tl cols). induction rs as [|[i2 r2] rs IH2]; intro cs; cbn [sibling_rules]. reflexivity.
        destruct (Z.eqb i2 k) eqn:E.
        - apply Z.eqb_eq in E. subst i2. exfalso. apply (Hno 0%nat). reflexivity.
        - simpl. apply IH2. intros j Hj. apply (Hno (S j)). exact Hj. }
      rewrite T, app_nil_r. destruct cols; reflexivity.
    + simpl in Hn. destruct (Z.eqb i k) eqn:E.
      * apply Z.eqb_eq in E. subst i. specialize (Hu 0%nat). simpl in Hu. specialize (Hu eq_refl). discriminate.
      * simpl. rewrite (IH (tl cols) k n r).
        -- destruct cols; [destruct n; reflexivity | reflexivity].
        -- intros j Hj. specialize (Hu (S j)). simpl in Hu. specialize (Hu Hj). injection Hu as ->. reflexivity.
        -- exact Hn.
Qed.
