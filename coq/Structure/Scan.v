(* Structure/Scan.v -- StructureScanState::{process_file, process_directory} (scanner/directory.rs
   195-232, 317-425) as a fold over the walked entries, and the declarative true counts of a tree (C06).
   dir_entries (a HashMap) is an association list; only lookups are observable. Definitions only. *)
From Coq Require Import ZArith NArith List Bool.
From SG Require Import Structure.Tree Structure.Names Structure.Config Structure.Placement.
Import ListNotations.
Open Scope Z_scope.

Record dirstats := mk_ds { file_count : Z; dir_count : Z; depth : Z }.

Definition dmap := list (path * dirstats).

Fixpoint lookup (m : dmap) (p : path) : option dirstats :=
  match m with
  | [] => None
  | (q, s) :: r => if path_eqb q p then Some s else lookup r p
  end.

(* entry(p).or_insert_with(|| DirStats{depth: d0, 0, 0}) followed by f on the record *)
Fixpoint upsert (m : dmap) (p : path) (d0 : Z) (f : dirstats -> dirstats) : dmap :=
  match m with
  | [] => [(p, f (mk_ds 0 0 d0))]
  | (q, s) :: r => if path_eqb q p then (q, f s) :: r else (q, s) :: upsert r p d0 f
  end.

Definition inc_files (s : dirstats) : dirstats := mk_ds (file_count s + 1) (dir_count s) (depth s).
Definition inc_dirs (s : dirstats) : dirstats := mk_ds (file_count s) (dir_count s + 1) (depth s).
Definition touch (s : dirstats) : dirstats := s.

(* one walked entry *)
Definition step (m : dmap) (e : entry) : dmap :=
  match e_kind e with
  | KFile =>
      if scan_excluded (e_cols e) false then m
      else if count_excluded (e_cols e) then m
      else if 0 <? e_depth e then upsert m (e_parent e) (e_depth e - 1) inc_files
      else m     (* fixes/D130: a file that is itself the scan root (depth 0): its parent was not walked and gets no record *)
  | KDir =>
      if scan_excluded (e_cols e) true then m
      else
        let m1 := upsert m (e_path e) (e_depth e) touch in
        if (0 <? e_depth e) && negb (count_excluded (e_cols e))
        then upsert m1 (e_parent e) (e_depth e - 1) inc_dirs
        else m1
  | KOther => m
  end.

Definition scan_counts (es : list entry) : dmap := fold_left step es [].

(* everything one scan produces *)
Record scan_result := mk_scan {
  s_stats : dmap;
  s_files : list path;
  s_violations : list violation
}.

(* scan_fold: the structure-aware scan over the entries in the order es (ANY order: see
   Properties_C06.C06_order_independent).  Without a scan configuration (structure not enabled)
   nothing is excluded and nothing is reported; that case is handled by the caller. *)
Definition scan_fold (cfg : config) (es : list entry) : scan_result :=
  mk_scan (scan_counts es) (scan_files es) (scan_violations cfg es).

(* ---- the declarative side: true figures of every scanned directory ---- *)
Definition counted_file (t : tree) : bool :=
  match t with
  | File _ c => negb (c_skip c) && negb (scan_excluded c false) && negb (count_excluded c)
  | _ => false
  end.
Definition counted_dir (t : tree) : bool :=
  match t with
  | Dir _ c _ => negb (pruned_dir c) && negb (count_excluded c)
  | _ => false
  end.

Definition count_if {A} (f : A -> bool) (l : list A) : Z := Z.of_nat (length (filter f l)).

(* (path, distance from the root, children) of every directory the scan reaches *)
Fixpoint dir_nodes_aux (pp : path) (d : Z) (t : tree) : list (path * Z * list tree) :=
  match t with
  | Dir n c ch =>
      if pruned_dir c then []
      else (n :: pp, d, ch) :: flat_map (dir_nodes_aux (n :: pp) (d + 1)) ch
  | _ => []
  end.
Definition dir_nodes (t : tree) : list (path * Z * list tree) := dir_nodes_aux [] 0 t.

Definition true_stats (x : path * Z * list tree) : path * dirstats :=
  match x with (p, d, ch) => (p, mk_ds (count_if counted_file ch) (count_if counted_dir ch) d) end.

Definition true_counts (t : tree) : dmap := map true_stats (dir_nodes t).
