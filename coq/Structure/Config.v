(* Structure/Config.v -- the [structure] configuration as the model sees it, the violation values,
   and StructureChecker::new's validation (checker/structure/validation.rs).  Glob and regex lists
   are represented by their LENGTH only (their matching is an oracle column); extension lists and
   sibling templates are real strings because the code compares / rewrites them itself.
   f64 values travel as their IEEE-754 bit pattern (f64::to_bits).  Definitions only. *)
From Coq Require Import ZArith NArith List Bool.
From SG Require Import Structure.Tree Structure.Names.
Import ListNotations.
Open Scope Z_scope.

Inductive sibling :=
| SDirected (match_empty : bool) (templates : list str) (warn : bool)
| SGroup (patterns : list str) (warn : bool).

Record srule := mk_srule {
  sr_scope : str;
  sr_max_files : option Z;
  sr_max_dirs : option Z;
  sr_max_depth : option Z;
  sr_relative : bool;
  sr_warn_threshold : option Z;
  sr_warn_files_at : option Z;
  sr_warn_dirs_at : option Z;
  sr_warn_files_threshold : option Z;
  sr_warn_dirs_threshold : option Z;
  sr_allow_ext : list str;
  sr_allow_patterns : Z;
  sr_allow_files : Z;
  sr_allow_dirs : Z;
  sr_deny_ext : list str;
  sr_deny_patterns : Z;
  sr_deny_files : Z;
  sr_deny_dirs : Z;
  sr_naming : bool;
  sr_siblings : list sibling
}.

Record config := mk_config {
  max_files : option Z;
  max_dirs : option Z;
  max_depth : option Z;
  warn_threshold : option Z;
  warn_files_at : option Z;
  warn_dirs_at : option Z;
  warn_files_threshold : option Z;
  warn_dirs_threshold : option Z;
  allow_ext : list str;
  allow_files : Z;
  allow_dirs : Z;
  deny_ext : list str;
  deny_patterns : Z;          (* all entries of deny_patterns, directory-only ones included *)
  deny_files : Z;
  deny_dirs : Z;
  rules : list srule
}.

Definition UNLIMITED : Z := -1.

(* ---- violations ---- *)
Inductive matched :=
| MExt (e : str)            (* the extension with its dot *)
| MFiles (i : Z)            (* index into the deny_files list *)
| MPat (i : Z)              (* index into the (file) deny_patterns list *)
| MDirPat (i : Z)           (* index into the directory-only deny patterns *)
| MDirs (i : Z).            (* index into deny_dirs *)

Inductive vkind :=
| VFileCount | VDirCount | VMaxDepth
| VDisallowedFile | VDisallowedDir
| VDeniedFile (m : matched) | VDeniedDir (m : matched)
| VNaming
| VMissingSibling (template : str)
| VGroupIncomplete (missing : list str).

Inductive rref := RGlobal | RRule (i : Z).    (* RRule i = structure.rules[i] *)

Record violation := mk_violation {
  v_path : path;
  v_kind : vkind;
  v_actual : Z;
  v_limit : Z;
  v_warn : bool;
  v_rule : option rref
}.

(* ---- is_enabled (config/model.rs:592, checker/structure/mod.rs:77) ---- *)
Definition checker_enabled (cfg : config) : bool :=
  is_some (max_files cfg) || is_some (max_dirs cfg) || is_some (max_depth cfg) || nonempty (rules cfg).

Definition scan_enabled (cfg : config) : bool :=
  checker_enabled cfg
  || nonempty (allow_ext cfg) || (0 <? allow_files cfg) || (0 <? allow_dirs cfg)
  || nonempty (deny_ext cfg) || (0 <? deny_patterns cfg) || (0 <? deny_files cfg) || (0 <? deny_dirs cfg).

(* ---- validation of StructureChecker::new ---- *)
Definition lim_ok (o : option Z) : bool := match o with Some l => UNLIMITED <=? l | None => true end.

Definition rule_limits_ok (r : srule) : bool :=
  lim_ok (sr_max_files r) && lim_ok (sr_max_dirs r) && lim_ok (sr_max_depth r).

Definition sibling_ok (s : sibling) : bool :=
  match s with
  | SDirected match_empty templates _ =>
      negb match_empty && nonempty templates
      && forallb (fun t => nonempty t && contains_sub STEM t) templates
  | SGroup pats _ =>
      (2 <=? Z.of_nat (length pats))
      && forallb (fun t => nonempty t && contains_sub STEM t) pats
  end.

Definition rule_has_allow (r : srule) : bool :=
  (0 <? sr_allow_files r) || (0 <? sr_allow_dirs r) || nonempty (sr_allow_ext r) || (0 <? sr_allow_patterns r).
Definition rule_has_deny (r : srule) : bool :=
  (0 <? sr_deny_files r) || (0 <? sr_deny_dirs r) || nonempty (sr_deny_ext r) || (0 <? sr_deny_patterns r).

Definition global_has_allow (cfg : config) : bool :=
  (0 <? allow_files cfg) || (0 <? allow_dirs cfg) || nonempty (allow_ext cfg).
Definition global_has_deny (cfg : config) : bool :=
  (0 <? deny_files cfg) || (0 <? deny_dirs cfg) || nonempty (deny_ext cfg) || (0 <? deny_patterns cfg).

Definition config_ok (cfg : config) : bool :=
  lim_ok (max_files cfg) && lim_ok (max_dirs cfg) && lim_ok (max_depth cfg)
  && forallb rule_limits_ok (rules cfg)
  && forallb (fun r => forallb sibling_ok (sr_siblings r)) (rules cfg)
  && negb (global_has_allow cfg && global_has_deny cfg)
  && forallb (fun r => negb (rule_has_allow r && rule_has_deny r)) (rules cfg).

(* ---- placement rules: commands/context.rs builds one AllowlistRule for EVERY structure rule, in
   declaration order (a rule without placement fields restricts nothing but can still be the one
   selected); the index into structure.rules is kept for reporting ---- *)
Definition has_placement (r : srule) : bool :=
  nonempty (sr_allow_ext r) || (0 <? sr_allow_patterns r) || (0 <? sr_allow_files r) || (0 <? sr_allow_dirs r)
  || nonempty (sr_deny_ext r) || (0 <? sr_deny_patterns r) || (0 <? sr_deny_files r) || (0 <? sr_deny_dirs r)
  || sr_naming r.

Fixpoint indexed_from {A} (i : Z) (l : list A) : list (Z * A) :=
  match l with [] => [] | x :: r => (i, x) :: indexed_from (i + 1) r end.
Definition indexed {A} (l : list A) : list (Z * A) := indexed_from 0 l.

Definition placement_rules (cfg : config) : list (Z * srule) := indexed (rules cfg).
