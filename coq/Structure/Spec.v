(* Structure/Spec.v -- what C06 and C07 REQUIRE, written independently of the code's control flow:
   the warn point of the property statement (at or above an absolute warn count, above the rounded-up
   percentage), and the documented placement ladder forbidden_spec as a list of guarded clauses
   evaluated for the rule that explain names for the directory (the last declared rule whose scope
   matches).  The check evaluates these on the implementation's own inputs (property oracle).
   Definitions only. *)
From Coq Require Import ZArith NArith List Bool.
From SG Require Import Structure.Tree Structure.Names Structure.Config Structure.Placement
     Structure.Scan Structure.F64 Structure.Limits.
Import ListNotations.
Open Scope Z_scope.

(* ---------------- C06 ---------------- *)
Definition pct_point (limit : Z) (pct gl : option Z) : Z := calc_warn_limit limit None pct gl.

Definition spec_warn_reached (count limit : Z) (abs pct gl : option Z) : bool :=
  match abs with
  | Some a => as_usize a <=? count                 (* at or above the absolute warn count *)
  | None => pct_point limit pct gl <? count        (* above the rounded-up percentage of the limit *)
  end.

Inductive verdict := Pass | Warn | Fail.

(* the verdict the property statement asks for, for one figure *)
Definition spec_verdict (count : Z) (lim : option Z) (abs pct gl : option Z) : verdict :=
  match lim with
  | None => Pass
  | Some limit =>
      if limit =? UNLIMITED then Pass
      else if limit <? count then Fail
      else if spec_warn_reached count limit abs pct gl then Warn
      else Pass
  end.

Definition spec_depth_verdict (l : limits) (p : path) (d : Z) : verdict :=
  match l_max_depth l with
  | None => Pass
  | Some limit =>
      if limit =? UNLIMITED then Pass
      else if limit <? effective_depth l p d then Fail
      else if pct_point limit None (l_warn_threshold l) <? effective_depth l p d then Warn
      else Pass
  end.

Definition of_verdict (p : path) (k : vkind) (count limit : Z) (v : verdict) : list violation :=
  match v with
  | Pass => []
  | Warn => [lv p k count limit true]
  | Fail => [lv p k count limit false]
  end.

Definition spec_check_dir (l : limits) (p : path) (s : dirstats) : list violation :=
  of_verdict p VFileCount (file_count s) (match l_max_files l with Some x => x | None => 0 end)
             (spec_verdict (file_count s) (l_max_files l) (l_warn_files_at l) (l_warn_files_threshold l) (l_warn_threshold l))
  ++ of_verdict p VDirCount (dir_count s) (match l_max_dirs l with Some x => x | None => 0 end)
             (spec_verdict (dir_count s) (l_max_dirs l) (l_warn_dirs_at l) (l_warn_dirs_threshold l) (l_warn_threshold l))
  ++ of_verdict p VMaxDepth (effective_depth l p (depth s)) (match l_max_depth l with Some x => x | None => 0 end)
             (spec_depth_verdict l p (depth s)).

Definition spec_check_all (cfg : config) (scope_of : path -> list bool) (m : dmap) : list violation :=
  flat_map (fun ps => spec_check_dir (resolve_limits cfg (scope_of (fst ps))) (fst ps) (snd ps)) m.

(* ---------------- C07 ---------------- *)
Definition first_some {A} (l : list (option A)) : option A :=
  fold_right (fun o acc => match o with Some _ => o | None => acc end) None l.

Fixpoint nth_rcols (i : Z) (l : list rcols) : rcols :=
  match l with
  | [] => rcols0
  | x :: r => if i =? 0 then x else nth_rcols (i - 1) r
  end.

(* the rule explain names for the directory whose scope column is [scope] (None = defaults), with the
   entry's list columns for that rule *)
Definition consulted_spec (cfg : config) (scope : list bool) (rcs : list rcols) : option (Z * srule * rcols) :=
  match last_match cfg scope with
  | Some (i, r) => Some (i, r, nth_rcols i rcs)
  | None => None
  end.

(* the documented ladder: the first applicable clause decides *)
Definition forbidden_spec (cfg : config) (name : str) (c : cols) (scope : list bool) : option (vkind * rref) :=
  let g := c_g c in
  let sr := consulted_spec cfg scope (c_r c) in
  let admits := match sr with
                | Some (_, r, rc) => r_has_allowlist r && r_file_matches r name rc
                | None => false
                end in
  first_some [
    (* 1. a global allowlist, and the file is not on it *)
    (if has_global_file_allowlist cfg && negb (file_matches_global_allow cfg name g)
     then Some (VDisallowedFile, RGlobal) else None);
    (* 2. a global deny entry matches, unless the scope's allowlist admits the file *)
    (if negb (has_global_file_allowlist cfg) && negb admits
     then option_map (fun m => (VDeniedFile m, RGlobal)) (file_matches_global_deny cfg name g) else None);
    (* 3. a deny entry of the scope's rule matches (deny beats allow inside a rule) *)
    (match sr with
     | Some (i, r, rc) => option_map (fun m => (VDeniedFile m, RRule i)) (r_file_matches_deny r name rc)
     | None => None
     end);
    (* 4. the scope's rule has an allowlist and the file is not on it *)
    (match sr with
     | Some (i, r, rc) => if r_has_allowlist r && negb (r_file_matches r name rc)
                          then Some (VDisallowedFile, RRule i) else None
     | None => None
     end);
    (* 5. otherwise permitted: the name must match the scope's naming pattern *)
    (match sr with
     | Some (i, r, rc) => if sr_naming r && negb (r_naming rc) then Some (VNaming, RRule i) else None
     | None => None
     end)
  ].

(* directories (fixes/D48): the same shape of ladder, the first applicable clause decides, so a directory is
   reported at most once *)
Definition forbidden_dir_spec (cfg : config) (c : cols) (scope : list bool) : option (vkind * rref) :=
  let g := c_g c in
  let sr := consulted_spec cfg scope (c_r c) in
  let admits := match sr with
                | Some (_, r, rc) => r_has_dir_allowlist r && r_allow_dirs rc
                | None => false
                end in
  first_some [
    (* 1. a global directory allowlist, and the directory is not on it *)
    (if has_global_dir_allowlist cfg && negb (g_allow_dirs g) then Some (VDisallowedDir, RGlobal) else None);
    (* 2. a global directory-only deny pattern, then a global deny_dirs name, unless the scope's allowlist
          admits the directory *)
    (if negb (has_global_dir_allowlist cfg) && negb admits
     then option_map (fun m => (VDeniedDir m, RGlobal))
                     (or_else (dir_matches_global_deny g) (dir_matches_global_deny_basename g))
     else None);
    (* 3. the scope's rule has a directory allowlist and the directory is not on it / 4. a deny_dirs entry
          of the scope's rule matches *)
    (match sr with
     | Some (i, r, rc) =>
         if r_has_dir_allowlist r
         then (if negb (r_allow_dirs rc) then Some (VDisallowedDir, RRule i) else None)
         else option_map (fun m => (VDeniedDir m, RRule i)) (r_dir_matches_deny rc)
     | None => None
     end)
  ].

(* which entries placement applies to at all: every scanned entry -- count_exclude keeps an entry out of the
   quotas only (fixes/D49) -- except the project root itself, which has no name inside the project
   (fixes/D51) *)
Definition spec_entry_violations (cfg : config) (e : entry) : list violation :=
  match e_kind e with
  | KFile =>
      if scan_excluded (e_cols e) false then []
      else match forbidden_spec cfg (e_name e) (e_cols e) (e_plim e) with
           | Some (k, rr) => [mkv (e_path e) k 0 rr]
           | None => []
           end
  | KDir =>
      if scan_excluded (e_cols e) true || is_project_root (e_path e) then []
      else match forbidden_dir_spec cfg (e_cols e) (e_plim e) with
           | Some (k, rr) => [mkv (e_path e) k 0 rr]
           | None => []
           end
  | KOther => []
  end.

Definition spec_scan_violations (cfg : config) (es : list entry) : list violation :=
  flat_map (spec_entry_violations cfg) es.
