(* Structure/Run.v -- the structure half of check (commands/check/runner.rs:229-318) and of
   explain <dir> put together from the pieces, plus the wire format of the correspondence check:
   a case arrives as a generic s-expression of integers (sx) and is decoded HERE, in Gallina, so the
   extracted driver and vm_compute inside Coq run literally the same decoder. Definitions only. *)
From Coq Require Import ZArith NArith List Bool.
From SG Require Import Structure.Tree Structure.Names Structure.Config Structure.Placement
     Structure.Scan Structure.F64 Structure.Limits Structure.Siblings Structure.Spec Structure.Roots.
Import ListNotations.
Open Scope Z_scope.

Record case := mk_case {
  cs_cfg : config;
  cs_rs : list bool;          (* scope column of the root's parent *)
  cs_tree : tree;
  cs_perm : list Z            (* order in which the entries are processed *)
}.

Record outcome := mk_outcome {
  o_ok : bool;                              (* StructureChecker::new accepted the configuration *)
  o_stats : dmap;
  o_files : list path;
  o_placement : list violation;
  o_limits : list violation;
  o_siblings : list violation;
  o_explain : list (path * explanation);
  o_spec_placement : list violation;        (* what C07 requires (Spec.forbidden_spec) *)
  o_spec_limits : list violation            (* what C06 requires (Spec.spec_check_dir) *)
}.

Definition apply_perm {A} (perm : list Z) (l : list A) : list A :=
  if Nat.eqb (length perm) (length l)
  then flat_map (fun i => match nth_error l (Z.to_nat i) with Some x => [x] | None => [] end) perm
  else l.

Definition scope_of_entries (es : list entry) (p : path) : list bool :=
  match find (fun e => match e_kind e with KDir => path_eqb (e_path e) p | _ => false end) es with
  | Some e => c_scope (e_cols e)
  | None => []
  end.

Definition explain_entries (cfg : config) (es : list entry) : list (path * explanation) :=
  flat_map (fun e => match e_kind e with
                     | KDir => if scan_excluded (e_cols e) true then []
                               else [(e_path e, explain cfg (c_scope (e_cols e)))]
                     | _ => []
                     end) es.

Definition run (c : case) : outcome :=
  let cfg := cs_cfg c in
  if negb (config_ok cfg) then mk_outcome false [] [] [] [] [] [] [] []
  else
    let es := apply_perm (cs_perm c) (entries (cs_rs c) (cs_rs c) (cs_tree c)) in
    let sc := scan_fold cfg es in
    let on := checker_enabled cfg in
    mk_outcome true (s_stats sc) (s_files sc)
               (if scan_enabled cfg then s_violations sc else [])
               (if on then check_all cfg (scope_of_entries es) (s_stats sc) else [])
               (if on then check_siblings cfg (s_files sc) es else [])
               (if on then explain_entries cfg es else [])
               (if scan_enabled cfg then spec_scan_violations cfg es else [])
               (if on then spec_check_all cfg (scope_of_entries es) (s_stats sc) else []).

(* ================= wire format ================= *)
Inductive sx := I (z : Z) | L (l : list sx).

Definition bind {A B} (o : option A) (f : A -> option B) : option B :=
  match o with Some a => f a | None => None end.
Notation "x <- e ;; k" := (bind e (fun x => k)) (at level 61, e at next level, right associativity).

Fixpoint all_some {A} (l : list (option A)) : option (list A) :=
  match l with
  | [] => Some []
  | Some x :: r => match all_some r with Some r' => Some (x :: r') | None => None end
  | None :: _ => None
  end.

Definition d_z (s : sx) : option Z := match s with I z => Some z | _ => None end.
Definition d_bool (s : sx) : option bool := match s with I z => Some (negb (z =? 0)) | _ => None end.
Definition d_list {A} (f : sx -> option A) (s : sx) : option (list A) :=
  match s with L l => all_some (map f l) | _ => None end.
Definition d_opt {A} (f : sx -> option A) (s : sx) : option (option A) :=
  match s with
  | L [] => Some None
  | L [x] => option_map Some (f x)
  | _ => None
  end.
Definition d_str : sx -> option str := d_list (fun s => option_map Z.to_N (d_z s)).
Definition d_oz : sx -> option (option Z) := d_opt d_z.

Definition d_gcols (s : sx) : option gcols :=
  match s with
  | L [a; b; c; d; e; f; g; h] =>
      a' <- d_bool a ;; b' <- d_bool b ;; c' <- d_oz c ;; d' <- d_oz d ;; e' <- d_oz e ;;
      f' <- d_oz f ;; g' <- d_oz g ;; h' <- d_oz h ;;
      Some (mk_gcols a' b' c' d' e' f' g' h')
  | _ => None
  end.

Definition d_rcols (s : sx) : option rcols :=
  match s with
  | L [a; b; c; d; e; f; g; h; i] =>
      a' <- d_bool a ;; b' <- d_bool b ;; c' <- d_bool c ;; d' <- d_bool d ;; e' <- d_oz e ;;
      f' <- d_oz f ;; g' <- d_oz g ;; h' <- d_oz h ;; i' <- d_bool i ;;
      Some (mk_rcols a' b' c' d' e' f' g' h' i')
  | _ => None
  end.

Definition d_cols (s : sx) : option cols :=
  match s with
  | L [a; b; c; d; e; f; g; i; j; k] =>
      a' <- d_bool a ;; b' <- d_bool b ;; c' <- d_bool c ;; d' <- d_bool d ;; e' <- d_bool e ;;
      f' <- d_bool f ;; g' <- d_list d_bool g ;; i' <- d_gcols i ;;
      j' <- d_list d_rcols j ;; k' <- d_list (d_list d_bool) k ;;
      Some (mk_cols a' b' c' d' e' f' g' i' j' k')
  | _ => None
  end.

Fixpoint d_tree (s : sx) : option tree :=
  match s with
  | L [I k; n; c; L ch] =>
      n' <- d_str n ;; c' <- d_cols c ;;
      if k =? 0 then Some (File n' c')
      else if k =? 1 then (ch' <- all_some (map d_tree ch) ;; Some (Dir n' c' ch'))
      else Some (Other n' c')
  | _ => None
  end.

Definition d_sibling (s : sx) : option sibling :=
  match s with
  | L [I 0; me; ts; w] => me' <- d_bool me ;; ts' <- d_list d_str ts ;; w' <- d_bool w ;; Some (SDirected me' ts' w')
  | L [I 1; ps; w] => ps' <- d_list d_str ps ;; w' <- d_bool w ;; Some (SGroup ps' w')
  | _ => None
  end.

Definition d_srule (s : sx) : option srule :=
  match s with
  | L [a; b; c; d; e; f; g; h; i; j; k; l; m; n; o; p; q; r; t; u] =>
      a' <- d_str a ;; b' <- d_oz b ;; c' <- d_oz c ;; d' <- d_oz d ;; e' <- d_bool e ;;
      f' <- d_oz f ;; g' <- d_oz g ;; h' <- d_oz h ;; i' <- d_oz i ;; j' <- d_oz j ;;
      k' <- d_list d_str k ;; l' <- d_z l ;; m' <- d_z m ;; n' <- d_z n ;;
      o' <- d_list d_str o ;; p' <- d_z p ;; q' <- d_z q ;; r' <- d_z r ;;
      t' <- d_bool t ;; u' <- d_list d_sibling u ;;
      Some (mk_srule a' b' c' d' e' f' g' h' i' j' k' l' m' n' o' p' q' r' t' u')
  | _ => None
  end.

Definition d_config (s : sx) : option config :=
  match s with
  | L [a; b; c; d; e; f; g; h; i; j; k; l; m; n; o; p] =>
      a' <- d_oz a ;; b' <- d_oz b ;; c' <- d_oz c ;; d' <- d_oz d ;; e' <- d_oz e ;;
      f' <- d_oz f ;; g' <- d_oz g ;; h' <- d_oz h ;;
      i' <- d_list d_str i ;; j' <- d_z j ;; k' <- d_z k ;;
      l' <- d_list d_str l ;; m' <- d_z m ;; n' <- d_z n ;; o' <- d_z o ;;
      p' <- d_list d_srule p ;;
      Some (mk_config a' b' c' d' e' f' g' h' i' j' k' l' m' n' o' p')
  | _ => None
  end.

Definition d_case (s : sx) : option case :=
  match s with
  | L [cfg; rs; t; perm] =>
      cfg' <- d_config cfg ;; rs' <- d_list d_bool rs ;;
      t' <- d_tree t ;; perm' <- d_list d_z perm ;;
      Some (mk_case cfg' rs' t' perm')
  | _ => None
  end.

(* ---- encoders ---- *)
Definition x_bool (b : bool) : sx := I (if b then 1 else 0).
Definition x_str (s : str) : sx := L (map (fun n => I (Z.of_N n)) s).
Definition x_path (p : path) : sx := L (map x_str (rev p)).       (* root first on the wire *)
Definition x_oz (o : option Z) : sx := match o with Some z => L [I z] | None => L [] end.

Definition x_matched (m : matched) : sx :=
  match m with
  | MExt e => L [I 0; x_str e]
  | MFiles i => L [I 1; I i]
  | MPat i => L [I 2; I i]
  | MDirPat i => L [I 3; I i]
  | MDirs i => L [I 4; I i]
  end.

Definition x_kind (k : vkind) : sx :=
  match k with
  | VFileCount => L [I 0]
  | VDirCount => L [I 1]
  | VMaxDepth => L [I 2]
  | VDisallowedFile => L [I 3]
  | VDisallowedDir => L [I 4]
  | VDeniedFile m => L [I 5; x_matched m]
  | VDeniedDir m => L [I 6; x_matched m]
  | VNaming => L [I 7]
  | VMissingSibling t => L [I 8; x_str t]
  | VGroupIncomplete ms => L [I 9; L (map x_str ms)]
  end.

Definition x_rref (r : option rref) : sx :=
  match r with
  | None => L []
  | Some RGlobal => L [I (-1)]
  | Some (RRule i) => L [I i]
  end.

Definition x_violation (v : violation) : sx :=
  L [x_path (v_path v); x_kind (v_kind v); I (v_actual v); I (v_limit v); x_bool (v_warn v); x_rref (v_rule v)].

Definition x_stat (ps : path * dirstats) : sx :=
  L [x_path (fst ps); I (file_count (snd ps)); I (dir_count (snd ps)); I (depth (snd ps))].

Definition x_expl (px : path * explanation) : sx :=
  let x := snd px in
  L [x_path (fst px); x_oz (ex_matched x); x_oz (ex_max_files x); x_oz (ex_max_dirs x); x_oz (ex_max_depth x);
     I (ex_warn_threshold x)].

Definition x_outcome (o : outcome) : sx :=
  L [x_bool (o_ok o);
     L (map x_stat (o_stats o));
     L (map x_path (o_files o));
     L (map x_violation (o_placement o));
     L (map x_violation (o_limits o));
     L (map x_violation (o_siblings o));
     L (map x_expl (o_explain o));
     L (map x_violation (o_spec_placement o));
     L (map x_violation (o_spec_limits o))].

(* the whole thing: decode, run, encode.  L [I (-1)] = undecodable case *)
Definition run_sx (s : sx) : sx :=
  match d_case s with
  | Some c => x_outcome (run c)
  | None => L [I (-1)]
  end.

(* StructureChecker::check on an arbitrary DirStats map: L [cfg; L [L [path; files; dirs; depth; scope] ..]] *)
Definition d_statrow (s : sx) : option (path * dirstats * list bool) :=
  match s with
  | L [p; f; d; dp; sc] =>
      p' <- d_list d_str p ;; f' <- d_z f ;; d' <- d_z d ;; dp' <- d_z dp ;; sc' <- d_list d_bool sc ;;
      Some (rev p', mk_ds f' d' dp', sc')
  | _ => None
  end.

Definition checkmap_sx (s : sx) : sx :=
  match s with
  | L [cfg; rows] =>
      match d_config cfg, d_list d_statrow rows with
      | Some c, Some rs =>
          if negb (config_ok c) then L [I 0]
          else
            let scope_of := fun p => match find (fun r => path_eqb (fst (fst r)) p) rs with
                                     | Some r => snd r | None => [] end in
            let m := map fst rs in
            let on := checker_enabled c in
            L [I 1;
               L (map x_violation (if on then check_all c scope_of m else []));
               L (map x_violation (if on then spec_check_all c scope_of m else []));
               L (map (fun r => x_expl (fst (fst r), explain c (snd r))) rs)]
      | _, _ => L [I (-1)]
      end
  | _ => L [I (-1)]
  end.

(* small entry points for the harness modes pathfns / warnpoint / basedepth *)
Definition pathfns_sx (s : sx) : sx :=
  match d_str s with
  | Some n => L [match extension n with Some e => L [x_str e] | None => L [] end;
                 match file_stem n with Some e => L [x_str e] | None => L [] end]
  | None => L [I (-1)]
  end.

Definition warnpoint_sx (s : sx) : sx :=
  match s with
  | L [I limit; I bits] => I (warn_point limit bits)
  | _ => L [I (-1)]
  end.

Definition basedepth_sx (s : sx) : sx :=
  match d_str s with Some n => I (base_depth n) | None => L [I (-1)] end.

Definition stemfns_sx (s : sx) : sx :=
  match s with
  | L [nm; pat; stem] =>
      match d_str nm, d_str pat, d_str stem with
      | Some n, Some p, Some st =>
          L [match extract_stem n p with Some e => L [x_str e] | None => L [] end;
             x_str (replace_all STEM st p)]
      | _, _, _ => L [I (-1)]
      end
  | _ => L [I (-1)]
  end.

(* resolve_scan_paths: L [key; ..] (marked normalised keys, root first) -> indices of the walked roots *)
Definition roots_sx (s : sx) : sx :=
  match d_list (d_list d_str) s with
  | Some keys => L (map (fun i => I (Z.of_nat i)) (kept keys))
  | None => L [I (-1)]
  end.
