(* Properties_C07.v -- C07: placement rules (deny/allow/naming/siblings) flag exactly the offending
   entries.  Property theorems only; each is closed by [exact <lemma>] and followed by Print Assumptions.
   Model: Structure/{Placement,Siblings}.v (the code after fixes/D06-placement-last-match.patch);
   what is required: Structure/Spec.v (forbidden_spec: the documented ladder, evaluated for the rule
   explain names).  Every glob / regex answer is an arbitrary oracle column, so the statements hold for
   every glob and regex semantics; no bound on names, trees or rule lists. *)
From Coq Require Import ZArith NArith List Bool Permutation.
From SG Require Import Structure.Tree Structure.Names Structure.Config Structure.Placement Structure.Scan
     Structure.F64 Structure.Limits Structure.Siblings Structure.Spec Structure.Proofs_C06a Structure.Proofs_C06b
     Structure.Proofs_C07.
Import ListNotations.
Open Scope Z_scope.

(* no file is reported twice: one walked file entry yields at most one placement violation, and in a
   whole scan of a tree with distinct sibling names (any processing order) at most one violation
   carries that file's path *)
Theorem C07_file_at_most_once : forall cfg rp rl t es e,
  wf_tree t = true -> Permutation (entries rp rl t) es -> In e es -> e_kind e = KFile ->
  (length (at_path (e_path e) (scan_violations cfg es)) <= 1)%nat.
Proof. exact file_at_most_once_tree. Qed.
Print Assumptions C07_file_at_most_once.

(* the decision ladder of the scanner IS the documented ladder, for files and for directories *)
Theorem C07_file_exact : forall cfg name c sc, file_ladder cfg name c sc = forbidden_spec cfg name c sc.
Proof. exact file_ladder_spec. Qed.
Print Assumptions C07_file_exact.

Theorem C07_dir_exact : forall cfg c sc, dir_ladder cfg c sc = forbidden_dir_spec cfg c sc.
Proof. exact dir_ladder_spec. Qed.
Print Assumptions C07_dir_exact.

(* hence a whole scan of a tree, in any processing order, reports exactly what the specification
   demands: every forbidden entry, with the rule that triggers it, and nothing permitted.  Since
   fixes/D07 the placement site and the explain site both match the normalised directory path, so the
   model has ONE scope column per directory and no side condition is left *)
Theorem C07_scan_exact : forall cfg rs t es,
  Permutation (entries rs rs t) es -> scan_violations cfg es = spec_scan_violations cfg es.
Proof. exact scan_exact_tree. Qed.
Print Assumptions C07_scan_exact.

(* the entry-list form, for arbitrary entry lists whose two parent-scope fields agree *)
Theorem C07_scan_exact_entries : forall cfg es,
  (forall e, In e es -> e_pplc e = e_plim e) -> scan_violations cfg es = spec_scan_violations cfg es.
Proof. exact scan_violations_spec. Qed.
Print Assumptions C07_scan_exact_entries.

(* extension / name / pattern lists combine by OR *)
Theorem C07_lists_combine_by_or : forall cfg r name g rc,
  (r_file_matches r name rc =
     is_some (ext_in (sr_allow_ext r) name) || r_allow_files rc || r_allow_pat_name rc || r_allow_pat_path rc)
  /\ (is_some (r_file_matches_deny r name rc) =
     is_some (ext_in (sr_deny_ext r) name) || is_some (r_deny_files rc) || is_some (r_deny_pat_name rc) || is_some (r_deny_pat_path rc))
  /\ (file_matches_global_allow cfg name g = is_some (ext_in (allow_ext cfg) name) || g_allow_files g)
  /\ (is_some (file_matches_global_deny cfg name g) =
     is_some (ext_in (deny_ext cfg) name) || is_some (g_deny_files g) || is_some (g_deny_pat_name g) || is_some (g_deny_pat_path g))
  /\ (r_has_allowlist r = nonempty (sr_allow_ext r) || (0 <? sr_allow_patterns r) || (0 <? sr_allow_files r)).
Proof. exact lists_combine_by_or. Qed.
Print Assumptions C07_lists_combine_by_or.

Theorem C07_extension_list : forall l name e,
  ext_in l name = Some e <-> l <> [] /\ ext_with_dot name = Some e /\ In e l.
Proof. exact ext_in_iff. Qed.
Print Assumptions C07_extension_list.

(* naming is checked only for otherwise permitted files *)
Theorem C07_naming_only_if_permitted : forall cfg name c sc rr,
  forbidden_spec cfg name c sc = Some (VNaming, rr) ->
  exists i r rc,
    consulted_spec cfg sc (c_r c) = Some (i, r, rc) /\ rr = RRule i /\ sr_naming r = true /\ r_naming rc = false
    /\ r_file_matches_deny r name rc = None
    /\ (r_has_allowlist r = true -> r_file_matches r name rc = true)
    /\ (has_global_file_allowlist cfg = true -> file_matches_global_allow cfg name (c_g c) = true)
    /\ (has_global_file_allowlist cfg = false ->
        (r_has_allowlist r && r_file_matches r name rc = true) \/ file_matches_global_deny cfg name (c_g c) = None).
Proof. exact naming_only_if_permitted. Qed.
Print Assumptions C07_naming_only_if_permitted.

(* a deny entry of the consulted rule is always reported, never as a naming problem, and when the
   report names that rule it is the deny entry (deny beats allow inside a rule) *)
Theorem C07_deny_beats_allow : forall cfg name c sc i r rc m,
  consulted_spec cfg sc (c_r c) = Some (i, r, rc) -> r_file_matches_deny r name rc = Some m ->
  exists k rr, forbidden_spec cfg name c sc = Some (k, rr) /\ k <> VNaming /\
    (rr = RRule i -> k = VDeniedFile m).
Proof. exact deny_beats_allow. Qed.
Print Assumptions C07_deny_beats_allow.

(* a scope's allowlist entry overrides a global deny *)
Theorem C07_scoped_allow_overrides_global_deny : forall cfg name c sc i r rc,
  has_global_file_allowlist cfg = false ->
  consulted_spec cfg sc (c_r c) = Some (i, r, rc) ->
  r_has_allowlist r = true -> r_file_matches r name rc = true ->
  forall m, forbidden_spec cfg name c sc <> Some (VDeniedFile m, RGlobal).
Proof. exact scoped_allow_overrides_global_deny. Qed.
Print Assumptions C07_scoped_allow_overrides_global_deny.

(* a directed sibling rule reports a matching file once per templated companion that is absent *)
Theorem C07_directed_sibling : forall files e i me ts w fm v,
  In v (sibling_one files e i (SDirected me ts w) fm) <->
  fm = true /\ exists t, In t ts /\ v = sv e (VMissingSibling t) w i /\
    exists stem, file_stem (e_name e) = Some stem /\
      in_files files (join_name (e_parent e) (replace_all STEM stem t)) = false.
Proof. exact directed_sibling. Qed.
Print Assumptions C07_directed_sibling.

(* a group rule reports a file iff the file matches a pattern of the group and EVERY candidate stem
   leaves some member missing (a file that completes the group under one of its stems is not flagged);
   at most one report per file and rule *)
Theorem C07_group : forall files e i pats w fm,
  (sibling_one files e i (SGroup pats w) fm <> [] <->
   group_stems (e_name e) pats <> [] /\
   forall s, In s (group_stems (e_name e) pats) -> group_missing files (e_parent e) pats s <> [])
  /\ (length (sibling_one files e i (SGroup pats w) fm) <= 1)%nat.
Proof. exact group_rule. Qed.
Print Assumptions C07_group.

(* the rule consulted for a directory is the one explain names for it (last declared match) *)
Theorem C07_rule_consulted_is_explains : forall cfg sc rcs,
  option_map (fun x => fst (fst x)) (find_rule cfg sc rcs) = ex_matched (explain cfg sc).
Proof. exact rule_consulted_is_explains. Qed.
Print Assumptions C07_rule_consulted_is_explains.

(* ---- non-vacuity: the D6 witness (rule 0 scope ** denies .bin, rule 1 allows .bin in src/gen):
   for src/gen/x.bin both rules match; the LAST one is consulted and admits the file ---- *)
Definition r_deny_bin : srule := mk_srule [42; 42]%N None None None false None None None None None [] 0 0 0 [[46; 98; 105; 110]%N] 0 0 0 false [].
Definition r_allow_bin : srule := mk_srule [115]%N None None None false None None None None None [[46; 98; 105; 110]%N] 0 0 0 [] 0 0 0 false [].
Definition cfg_d6 : config := mk_config None None None None None None None None [] 0 0 [] 0 0 0 [r_deny_bin; r_allow_bin].
Definition cols_d6 : cols := mk_cols false false false false false false []
  (mk_gcols false false None None None None None None) [rcols0; rcols0] [].

Example C07_example_last_rule_consulted :
  file_ladder cfg_d6 [120; 46; 98; 105; 110]%N cols_d6 [true; true] = None /\
  file_ladder cfg_d6 [120; 46; 98; 105; 110]%N cols_d6 [true; false] = Some (VDeniedFile (MExt [46; 98; 105; 110]%N), RRule 0) /\
  ex_matched (explain cfg_d6 [true; true]) = Some 1.
Proof. vm_compute. repeat split; reflexivity. Qed.
Print Assumptions C07_example_last_rule_consulted.

(* Path::extension / file_stem corner cases *)
Example C07_example_path_functions :
  extension [46; 103]%N = None /\ extension [102; 46]%N = Some [] /\ extension [97; 46; 116; 46; 103]%N = Some [103%N] /\
  extension [46; 46; 120]%N = Some [120%N] /\ file_stem [97; 46; 116; 46; 103]%N = Some [97; 46; 116]%N.
Proof. vm_compute. repeat split; reflexivity. Qed.
Print Assumptions C07_example_path_functions.

(* a group {stem}.a / {stem}.b with only x.a present is incomplete; with both present it is not *)
Definition e_xa : entry := mk_entry KFile [[120; 46; 97]%N; [116]%N] 1 cols_d6 [] [].
Definition grp : sibling := SGroup [[123; 115; 116; 101; 109; 125; 46; 97]%N; [123; 115; 116; 101; 109; 125; 46; 98]%N] false.
Example C07_example_group :
  sibling_one [[[120; 46; 97]%N; [116]%N]] e_xa 0 grp false
    = [sv e_xa (VGroupIncomplete [[123; 115; 116; 101; 109; 125; 46; 98]%N]) false 0] /\
  sibling_one [[[120; 46; 97]%N; [116]%N]; [[120; 46; 98]%N; [116]%N]] e_xa 0 grp false = [].
Proof. vm_compute. split; reflexivity. Qed.
Print Assumptions C07_example_group.
