(* Properties_C07.v -- C07: placement rules (deny/allow/naming/siblings) flag exactly the offending
   entries.  Property theorems only; each is closed by [exact <lemma>] and followed by Print Assumptions.
   Model: Structure/{Placement,Siblings}.v (the code after fixes/D06-placement-last-match.patch, D48, D49, D51, D81);
   what is required: Structure/Spec.v (forbidden_spec: the documented ladder, evaluated for the rule
   explain names).  Every glob / regex answer is an arbitrary oracle column, so the statements hold for
   every glob and regex semantics; no bound on names, trees or rule lists. *)
From Coq Require Import ZArith NArith List Bool Permutation.
From SG Require Import Structure.Tree Structure.Names Structure.Config Structure.Placement Structure.Scan
     Structure.F64 Structure.Limits Structure.Siblings Structure.Spec Structure.Proofs_C06a Structure.Proofs_C06b
     Structure.Proofs_C07 Structure.Roots Structure.Proofs_Roots.
Import ListNotations.
Open Scope Z_scope.

(* no file is reported twice: one walked file entry yields at most one placement violation, and in a
   whole scan of a tree with distinct sibling names (any processing order) at most one violation
   carries that file's path *)
Theorem C07_file_at_most_once : forall cfg rp rl t es e,
  wf_tree t = true -> Permutation (entries rp rl t) es -> In e es -> e_kind e = KFile ->
  (length (at_path (e_path e) (scan_violations cfg es)) <= 1)%nat.
Proof. exact file_at_most_once_tree. Qed.
Print Assumptions C07_file_at_most_once.

(* since fixes/D48 the same holds for directories: NO walked entry is reported twice, and nothing that was
   not walked is reported at all *)
Theorem C07_entry_at_most_once : forall cfg rp rl t es e,
  wf_tree t = true -> Permutation (entries rp rl t) es -> In e es ->
  (length (at_path (e_path e) (scan_violations cfg es)) <= 1)%nat.
Proof. exact entry_at_most_once_tree. Qed.
Print Assumptions C07_entry_at_most_once.

Theorem C07_only_walked_entries_reported : forall cfg es v,
  In v (scan_violations cfg es) -> exists e, In e es /\ v_path v = e_path e.
Proof. exact nothing_else_reported. Qed.
Print Assumptions C07_only_walked_entries_reported.

(* fixes/D49: count_exclude plays no part in placement (two entries that differ in the count_exclude columns
   only get the same verdict) *)
Theorem C07_count_exclude_does_not_exempt : forall cfg k p d c1 c2 a b,
  c_se_name c1 = c_se_name c2 -> c_se_path c1 = c_se_path c2 -> c_se_dir c1 = c_se_dir c2 ->
  c_g c1 = c_g c2 -> c_r c1 = c_r c2 ->
  map v_kind (entry_violations cfg (mk_entry k p d c1 a b)) = map v_kind (entry_violations cfg (mk_entry k p d c2 a b)).
Proof. exact count_exclude_does_not_exempt. Qed.
Print Assumptions C07_count_exclude_does_not_exempt.

(* fixes/D51: the project root (empty normalised path) is never reported by the directory lists *)
Theorem C07_project_root_not_placed : forall cfg e,
  e_kind e = KDir -> is_project_root (e_path e) = true -> entry_violations cfg e = [].
Proof. exact project_root_not_placed. Qed.
Print Assumptions C07_project_root_not_placed.

(* ---- several scan roots (fixes/D50): of the requested roots only the outermost are walked, the first of equal
   spellings; keys are the marked normalised keys of Structure/Roots.v ---- *)
(* the walked roots are requested roots, each walked once *)
Theorem C07_roots_walked_are_requested : forall keys,
  NoDup (kept keys) /\ forall i, In i (kept keys) -> exists k, nth_error keys i = Some k.
Proof. intro keys. split. apply kept_nodup. apply kept_requested. Qed.
Print Assumptions C07_roots_walked_are_requested.

(* no path is reached by two walks, so no entry is reported once per root: the keys of two different walked
   roots are never both component-wise prefixes of one path *)
Theorem C07_roots_walks_disjoint : forall keys i j ki kj p,
  In i (kept keys) -> In j (kept keys) -> i <> j ->
  nth_error keys i = Some ki -> nth_error keys j = Some kj ->
  comparable ki = true -> comparable kj = true ->
  prefix ki p = true -> prefix kj p = true -> False.
Proof. exact kept_walks_disjoint. Qed.
Print Assumptions C07_roots_walks_disjoint.

(* nothing requested is lost: every requested root is walked itself or lies at or below a walked root *)
Theorem C07_roots_cover : forall keys i ki, nth_error keys i = Some ki ->
  exists j kj, In j (kept keys) /\ nth_error keys j = Some kj /\ (j = i \/ covers kj ki = true).
Proof. exact kept_cover. Qed.
Print Assumptions C07_roots_cover.

(* src and src-tauri are different components: neither covers the other, both are walked; src twice, or src
   and a directory or file below it, is walked once *)
Definition k_src : list str := [[46]; [115; 114; 99]]%N.
Definition k_src_tauri : list str := [[46]; [115; 114; 99; 45; 116; 97; 117; 114; 105]]%N.
Definition k_src_a : list str := [[46]; [115; 114; 99]; [97]]%N.
Example C07_example_roots :
  kept [k_src; k_src_tauri] = [0; 1]%nat /\ kept [k_src; k_src] = [0]%nat /\ kept [k_src_a; k_src; k_src_a] = [1]%nat /\
  kept [[[46]]%N; k_src; [[47]; [120]]%N] = [0; 2]%nat /\ kept [k_src; [[46]; [46; 46]; [120]]%N; [[46]]%N] = [1; 2]%nat.
Proof. vm_compute. repeat split; reflexivity. Qed.
Print Assumptions C07_example_roots.

(* the decision ladder of the scanner IS the documented ladder, for files and for directories *)
Theorem C07_file_exact : forall cfg name c sc, file_ladder cfg name c sc = forbidden_spec cfg name c sc.
Proof. exact file_ladder_spec. Qed.
Print Assumptions C07_file_exact.

Theorem C07_dir_exact : forall cfg c sc, dir_ladder cfg c sc = forbidden_dir_spec cfg c sc.
Proof. exact dir_ladder_spec. Qed.
Print Assumptions C07_dir_exact.

(* hence a whole scan of a tree, in any processing order, reports exactly what the specification
   demands: every forbidden entry, with the rule that triggers it, and nothing permitted.  Since
   fixes/D07 the placement site and the explain site both match the normalised directory path, so the
   model has ONE scope column per directory and no side condition is left *)
Theorem C07_scan_exact : forall cfg rs t es,
  Permutation (entries rs rs t) es -> scan_violations cfg es = spec_scan_violations cfg es.
Proof. exact scan_exact_tree. Qed.
Print Assumptions C07_scan_exact.

(* the entry-list form, for arbitrary entry lists whose two parent-scope fields agree *)
Theorem C07_scan_exact_entries : forall cfg es,
  (forall e, In e es -> e_pplc e = e_plim e) -> scan_violations cfg es = spec_scan_violations cfg es.
Proof. exact scan_violations_spec. Qed.
Print Assumptions C07_scan_exact_entries.

(* extension / name / pattern lists combine by OR *)
Theorem C07_lists_combine_by_or : forall cfg r name g rc,
  (r_file_matches r name rc =
     is_some (ext_in (sr_allow_ext r) name) || r_allow_files rc || r_allow_pat_name rc || r_allow_pat_path rc)
  /\ (is_some (r_file_matches_deny r name rc) =
     is_some (ext_in (sr_deny_ext r) name) || is_some (r_deny_files rc) || is_some (r_deny_pat_name rc) || is_some (r_deny_pat_path rc))
  /\ (file_matches_global_allow cfg name g = is_some (ext_in (allow_ext cfg) name) || g_allow_files g)
  /\ (is_some (file_matches_global_deny cfg name g) =
     is_some (ext_in (deny_ext cfg) name) || is_some (g_deny_files g) || is_some (g_deny_pat_name g) || is_some (g_deny_pat_path g))
  /\ (r_has_allowlist r = nonempty (sr_allow_ext r) || (0 <? sr_allow_patterns r) || (0 <? sr_allow_files r)).
Proof. exact lists_combine_by_or. Qed.
Print Assumptions C07_lists_combine_by_or.

Theorem C07_extension_list : forall l name e,
  ext_in l name = Some e <-> l <> [] /\ ext_with_dot name = Some e /\ In e l.
Proof. exact ext_in_iff. Qed.
Print Assumptions C07_extension_list.

(* naming is checked only for otherwise permitted files *)
Theorem C07_naming_only_if_permitted : forall cfg name c sc rr,
  forbidden_spec cfg name c sc = Some (VNaming, rr) ->
  exists i r rc,
    consulted_spec cfg sc (c_r c) = Some (i, r, rc) /\ rr = RRule i /\ sr_naming r = true /\ r_naming rc = false
    /\ r_file_matches_deny r name rc = None
    /\ (r_has_allowlist r = true -> r_file_matches r name rc = true)
    /\ (has_global_file_allowlist cfg = true -> file_matches_global_allow cfg name (c_g c) = true)
    /\ (has_global_file_allowlist cfg = false ->
        (r_has_allowlist r && r_file_matches r name rc = true) \/ file_matches_global_deny cfg name (c_g c) = None).
Proof. exact naming_only_if_permitted. Qed.
Print Assumptions C07_naming_only_if_permitted.

(* a deny entry of the consulted rule is always reported, never as a naming problem, and when the
   report names that rule it is the deny entry (deny beats allow inside a rule) *)
Theorem C07_deny_beats_allow : forall cfg name c sc i r rc m,
  consulted_spec cfg sc (c_r c) = Some (i, r, rc) -> r_file_matches_deny r name rc = Some m ->
  exists k rr, forbidden_spec cfg name c sc = Some (k, rr) /\ k <> VNaming /\
    (rr = RRule i -> k = VDeniedFile m).
Proof. exact deny_beats_allow. Qed.
Print Assumptions C07_deny_beats_allow.

(* a scope's allowlist entry overrides a global deny *)
Theorem C07_scoped_allow_overrides_global_deny : forall cfg name c sc i r rc,
  has_global_file_allowlist cfg = false ->
  consulted_spec cfg sc (c_r c) = Some (i, r, rc) ->
  r_has_allowlist r = true -> r_file_matches r name rc = true ->
  forall m, forbidden_spec cfg name c sc <> Some (VDeniedFile m, RGlobal).
Proof. exact scoped_allow_overrides_global_deny. Qed.
Print Assumptions C07_scoped_allow_overrides_global_deny.

(* a directed sibling rule reports a matching file once per templated companion that is absent *)
Theorem C07_directed_sibling : forall files e i me ts w fm v,
  In v (sibling_one files e i (SDirected me ts w) fm) <->
  fm = true /\ exists t, In t ts /\ v = sv e (VMissingSibling t) w i /\
    exists stem, file_stem (e_name e) = Some stem /\
      in_files files (join_name (e_parent e) (replace_all STEM stem t)) = false.
Proof. exact directed_sibling. Qed.
Print Assumptions C07_directed_sibling.

(* KNOWN FINDING K07_file_root_sibling (D52).  The companion is looked up among the SCANNED files.  That is the
   set of visible files of the directory when the directory was walked; a file given as a scan root is scanned
   alone, and its companions, present on disk and visible, are reported missing: the claim that a matching file
   is reported only when a companion is absent among the visible files is refuted by the witness Button.tsx,
   Button.test.tsx with scan root Button.tsx ... *)
Definition cols_plain : cols := mk_cols false false false false false false []
  (mk_gcols false false None None None None None None) [] [].
Definition e_button : entry := mk_entry KFile [[66; 46; 116; 115; 120]%N; [99]%N] 0 cols_plain [] [].
Definition f_button : path := [[66; 46; 116; 115; 120]%N; [99]%N].
Definition f_button_test : path := [[66; 46; 116; 101; 115; 116; 46; 116; 115; 120]%N; [99]%N].
Definition t_test : str := [123; 115; 116; 101; 109; 125; 46; 116; 101; 115; 116; 46; 116; 115; 120]%N.
Theorem C07_directed_sibling_among_visible_refuted : exists files vis e i ts w,
  (forall p, path_mem p files = true -> path_mem p vis = true) /\
  sibling_one vis e i (SDirected false ts w) true = [] /\
  sibling_one files e i (SDirected false ts w) true <> [].
Proof.
  exists [f_button], [f_button; f_button_test], e_button, 0, [t_test], false. split; [|split].
  - intros p H. unfold path_mem in *. simpl in *. rewrite orb_false_r in H. rewrite H. reflexivity.
  - vm_compute. reflexivity.
  - vm_compute. discriminate.
Qed.
Print Assumptions C07_directed_sibling_among_visible_refuted.

(* ... and holds outside the class: when every visible file was scanned the report is the one computed on the
   visible files *)
Theorem C07_directed_sibling_modulo_known : forall files vis e i me ts w fm,
  (forall p, path_mem p files = true -> path_mem p vis = true) ->
  partial_scan files vis = false ->
  sibling_one files e i (SDirected me ts w) fm = sibling_one vis e i (SDirected me ts w) fm.
Proof. exact directed_sibling_modulo_partial_scan. Qed.
Print Assumptions C07_directed_sibling_modulo_known.

Example C07_example_partial_scan :
  partial_scan [f_button] [f_button; f_button_test] = true /\ partial_scan [f_button_test; f_button] [f_button; f_button_test] = false.
Proof. vm_compute. split; reflexivity. Qed.
Print Assumptions C07_example_partial_scan.

(* a group rule reports a file iff the file matches a pattern of the group and EVERY candidate stem
   leaves some member missing (a file that completes the group under one of its stems is not flagged);
   at most one report per file and rule *)
Theorem C07_group : forall files e i pats w fm,
  (sibling_one files e i (SGroup pats w) fm <> [] <->
   group_stems (e_name e) pats <> [] /\
   forall s, In s (group_stems (e_name e) pats) -> group_missing files (e_parent e) pats s <> [])
  /\ (length (sibling_one files e i (SGroup pats w) fm) <= 1)%nat.
Proof. exact group_rule. Qed.
Print Assumptions C07_group.

(* the rule consulted for a directory is the one explain names for it (last declared match) *)
Theorem C07_rule_consulted_is_explains : forall cfg sc rcs,
  option_map (fun x => fst (fst x)) (find_rule cfg sc rcs) = ex_matched (explain cfg sc).
Proof. exact rule_consulted_is_explains. Qed.
Print Assumptions C07_rule_consulted_is_explains.

(* fixes/D81: the sibling entries applied to a file are those of the rule explain names for the file's directory
   (last declared match) and of no other rule: every sibling report carries that rule, a directory for which
   explain names no rule has no sibling requirement, and all entries of the named rule are applied.  Sibling
   entries do not accumulate over the matching rules: a matching rule declared earlier is superseded as a whole,
   like its limits and its allow/deny lists *)
Theorem C07_sibling_rule_is_explains : forall cfg files e v,
  In v (sibling_entry cfg files e) ->
  exists i, v_rule v = Some (RRule i) /\ ex_matched (explain cfg (e_plim e)) = Some i /\ v_path v = e_path e.
Proof. exact sibling_rule_is_explains. Qed.
Print Assumptions C07_sibling_rule_is_explains.

Theorem C07_sibling_none_without_rule : forall cfg files e,
  ex_matched (explain cfg (e_plim e)) = None -> sibling_entry cfg files e = [].
Proof. exact sibling_none_without_rule. Qed.
Print Assumptions C07_sibling_none_without_rule.

Theorem C07_sibling_entries_of_named_rule : forall files e rs cols k n r,
  (forall j, nth_error (map fst rs) j = Some k -> j = n) ->
  nth_error rs n = Some (k, r) ->
  sibling_rules files e rs cols k = sibling_rule files e k (sr_siblings r) (nth n cols []).
Proof. exact sibling_rules_select. Qed.
Print Assumptions C07_sibling_entries_of_named_rule.

(* the D81 witness: rule 0 (scope src/STAR-STAR) requires {stem}.spec next to every .ts file, rule 1 (scope
   src/components) only sets max_files.  In src/components both scopes match, explain names rule 1, and a.ts
   needs no companion; where only rule 0 matches a.ts is reported by rule 0.  Before the repair the entries of
   every matching rule were applied (sibling_rules_accumulating): a.ts was reported by the superseded rule 0 *)
Definition t_spec : str := [123; 115; 116; 101; 109; 125; 46; 115; 112; 101; 99]%N.
Definition r_sib_ts : srule := mk_srule [115]%N None None None false None None None None None [] 0 0 0 [] 0 0 0 false
  [SDirected false [t_spec] false].
Definition r_max50 : srule := mk_srule [99]%N (Some 50) None None false None None None None None [] 0 0 0 [] 0 0 0 false [].
Definition cfg_d81 : config := mk_config None None None None None None None None [] 0 0 [] 0 0 0 [r_sib_ts; r_max50].
Definition cols_d81 : cols := mk_cols false false false false false false []
  (mk_gcols false false None None None None None None) [rcols0; rcols0] [[true]; []].
Definition p_ats : path := [[97; 46; 116; 115]%N; [99]%N].
Definition e_ats (plim : list bool) : entry := mk_entry KFile p_ats 1 cols_d81 plim plim.
Example C07_example_superseded_rule_has_no_siblings :
  sibling_entry cfg_d81 [p_ats] (e_ats [true; true]) = [] /\
  ex_matched (explain cfg_d81 [true; true]) = Some 1 /\
  sibling_entry cfg_d81 [p_ats] (e_ats [true; false]) = [sv (e_ats [true; false]) (VMissingSibling t_spec) false 0] /\
  sibling_rules_accumulating [p_ats] (e_ats [true; true]) (indexed (rules cfg_d81)) [true; true] [[true]; []]
    = [sv (e_ats [true; true]) (VMissingSibling t_spec) false 0].
Proof. vm_compute. repeat split; reflexivity. Qed.
Print Assumptions C07_example_superseded_rule_has_no_siblings.

(* ---- non-vacuity: the D6 witness (rule 0 scope ** denies .bin, rule 1 allows .bin in src/gen):
   for src/gen/x.bin both rules match; the LAST one is consulted and admits the file ---- *)
Definition r_deny_bin : srule := mk_srule [42; 42]%N None None None false None None None None None [] 0 0 0 [[46; 98; 105; 110]%N] 0 0 0 false [].
Definition r_allow_bin : srule := mk_srule [115]%N None None None false None None None None None [[46; 98; 105; 110]%N] 0 0 0 [] 0 0 0 false [].
Definition cfg_d6 : config := mk_config None None None None None None None None [] 0 0 [] 0 0 0 [r_deny_bin; r_allow_bin].
Definition cols_d6 : cols := mk_cols false false false false false false []
  (mk_gcols false false None None None None None None) [rcols0; rcols0] [].

Example C07_example_last_rule_consulted :
  file_ladder cfg_d6 [120; 46; 98; 105; 110]%N cols_d6 [true; true] = None /\
  file_ladder cfg_d6 [120; 46; 98; 105; 110]%N cols_d6 [true; false] = Some (VDeniedFile (MExt [46; 98; 105; 110]%N), RRule 0) /\
  ex_matched (explain cfg_d6 [true; true]) = Some 1.
Proof. vm_compute. repeat split; reflexivity. Qed.
Print Assumptions C07_example_last_rule_consulted.

(* Path::extension / file_stem corner cases *)
Example C07_example_path_functions :
  extension [46; 103]%N = None /\ extension [102; 46]%N = Some [] /\ extension [97; 46; 116; 46; 103]%N = Some [103%N] /\
  extension [46; 46; 120]%N = Some [120%N] /\ file_stem [97; 46; 116; 46; 103]%N = Some [97; 46; 116]%N.
Proof. vm_compute. repeat split; reflexivity. Qed.
Print Assumptions C07_example_path_functions.

(* a group {stem}.a / {stem}.b with only x.a present is incomplete; with both present it is not *)
Definition e_xa : entry := mk_entry KFile [[120; 46; 97]%N; [116]%N] 1 cols_d6 [] [].
Definition grp : sibling := SGroup [[123; 115; 116; 101; 109; 125; 46; 97]%N; [123; 115; 116; 101; 109; 125; 46; 98]%N] false.
Example C07_example_group :
  sibling_one [[[120; 46; 97]%N; [116]%N]] e_xa 0 grp false
    = [sv e_xa (VGroupIncomplete [[123; 115; 116; 101; 109; 125; 46; 98]%N]) false 0] /\
  sibling_one [[[120; 46; 97]%N; [116]%N]; [[120; 46; 98]%N; [116]%N]] e_xa 0 grp false = [].
Proof. vm_compute. split; reflexivity. Qed.
Print Assumptions C07_example_group.

(* the D48 witness: a directory matched by a global directory-only pattern, by a global deny_dirs name and by
   a deny_dirs name of the consulted rule is reported ONCE, by the first clause; the D49 witness: a denied
   file is reported whether or not count_exclude matches it *)
Definition cfg_d48 : config := mk_config None None None None None None None None [] 0 0 [] 1 0 1
  [mk_srule [115]%N None None None false None None None None None [] 0 0 0 [] 0 0 1 false []].
Definition cols_d48 (ce : bool) : cols := mk_cols false false false false ce false []
  (mk_gcols false false None None None (Some 0) None (Some 0)) [mk_rcols false false false false None None None (Some 0) true] [].
Definition cfg_d49 : config := mk_config None None None None None None None None [] 0 0 [[46; 101; 120; 101]%N] 0 0 0 [].
Example C07_example_directory_once :
  entry_violations cfg_d48 (mk_entry KDir [[98]; [115]]%N 1 (cols_d48 false) [true] [true])
    = [mkv [[98]; [115]]%N (VDeniedDir (MDirPat 0)) 0 RGlobal] /\
  entry_violations cfg_d48 (mk_entry KDir [[46]]%N 0 (cols_d48 false) [true] [true]) = [] /\
  entry_violations cfg_d49 (mk_entry KFile [[97; 46; 101; 120; 101]; [115]]%N 1 (cols_d48 true) [] [])
    = [mkv [[97; 46; 101; 120; 101]; [115]]%N (VDeniedFile (MExt [46; 101; 120; 101]%N)) 0 RGlobal].
Proof. vm_compute. repeat split; reflexivity. Qed.
Print Assumptions C07_example_directory_once.
