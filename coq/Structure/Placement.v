(* Structure/Placement.v -- the placement decision ladders of the scanner (C07):
   check_allowlist_violations (scanner/directory.rs:234-315), the placement half of
   process_directory / check_directory_placement, the list tests of scanner/allowlist.rs and
   scanner/structure_config.rs, and find_matching_allowlist_rule (structure_config.rs:326).
   Rule selection is last-declared-match (the D6 repair, fixes/D06-placement-last-match.patch). Definitions only. *)
From Coq Require Import ZArith NArith List Bool.
From SG Require Import Structure.Tree Structure.Names Structure.Config.
Import ListNotations.
Open Scope Z_scope.

(* ---- global lists (structure_config.rs) ---- *)
Definition has_global_file_allowlist (cfg : config) : bool :=
  nonempty (allow_ext cfg) || (0 <? allow_files cfg).
Definition has_global_dir_allowlist (cfg : config) : bool := 0 <? allow_dirs cfg.

Definition file_matches_global_allow (cfg : config) (name : str) (g : gcols) : bool :=
  is_some (ext_in (allow_ext cfg) name) || g_allow_files g.

Definition file_matches_global_deny (cfg : config) (name : str) (g : gcols) : option matched :=
  match ext_in (deny_ext cfg) name with
  | Some e => Some (MExt e)
  | None =>
  match g_deny_files g with
  | Some i => Some (MFiles i)
  | None =>
  match g_deny_pat_name g with
  | Some i => Some (MPat i)
  | None =>
  match g_deny_pat_path g with
  | Some i => Some (MPat i)
  | None => None
  end end end end.

Definition dir_matches_global_deny (g : gcols) : option matched :=
  match g_deny_dirpat_name g with
  | Some i => Some (MDirPat i)
  | None => match g_deny_dirpat_path g with Some i => Some (MDirPat i) | None => None end
  end.

Definition dir_matches_global_deny_basename (g : gcols) : option matched :=
  option_map MDirs (g_deny_dirs g).

(* ---- one rule's lists (allowlist.rs) ---- *)
Definition r_has_allowlist (r : srule) : bool :=
  nonempty (sr_allow_ext r) || (0 <? sr_allow_patterns r) || (0 <? sr_allow_files r).
Definition r_has_dir_allowlist (r : srule) : bool := 0 <? sr_allow_dirs r.

Definition r_file_matches (r : srule) (name : str) (rc : rcols) : bool :=
  is_some (ext_in (sr_allow_ext r) name) || r_allow_files rc || r_allow_pat_name rc || r_allow_pat_path rc.

Definition r_file_matches_deny (r : srule) (name : str) (rc : rcols) : option matched :=
  match ext_in (sr_deny_ext r) name with
  | Some e => Some (MExt e)
  | None =>
  match r_deny_files rc with
  | Some i => Some (MFiles i)
  | None =>
  match r_deny_pat_name rc with
  | Some i => Some (MPat i)
  | None =>
  match r_deny_pat_path rc with
  | Some i => Some (MPat i)
  | None => None
  end end end end.

Definition r_dir_matches_deny (rc : rcols) : option matched := option_map MDirs (r_deny_dirs rc).

(* ---- rule selection ---- *)
Definition rcols0 : rcols := mk_rcols false false false false None None None None true.

(* the placement rules zipped with the scope column of the directory and the entry's own columns *)
Fixpoint zip3 (rs : list (Z * srule)) (sc : list bool) (rcs : list rcols) : list (Z * srule * bool * rcols) :=
  match rs with
  | [] => []
  | (i, r) :: rs' =>
      (i, r, hd false sc, hd rcols0 rcs) :: zip3 rs' (tl sc) (tl rcs)
  end.

(* find_matching_allowlist_rule: the LAST declared rule whose scope matches the directory
   (iter().rev().find) *)
Definition find_rule (cfg : config) (scope : list bool) (rcs : list rcols) : option (Z * srule * rcols) :=
  match find (fun x => snd (fst x)) (rev (zip3 (placement_rules cfg) scope rcs)) with
  | Some (i, r, _, rc) => Some (i, r, rc)
  | None => None
  end.

Definition mkv (p : path) (k : vkind) (limit : Z) (rr : rref) : violation :=
  mk_violation p k 1 limit false (Some rr).

(* ---- file ladder: at most one violation ---- *)
Definition file_ladder (cfg : config) (name : str) (c : cols) (pscope : list bool) : option (vkind * rref) :=
  let mr := find_rule cfg pscope (c_r c) in
  let g := c_g c in
  let global_step : option (vkind * rref) :=
    if has_global_file_allowlist cfg then
      if negb (file_matches_global_allow cfg name g) then Some (VDisallowedFile, RGlobal) else None
    else
      let overridden :=
        match mr with
        | Some (_, r, rc) => r_has_allowlist r && r_file_matches r name rc
        | None => false
        end in
      if overridden then None
      else match file_matches_global_deny cfg name g with
           | Some m => Some (VDeniedFile m, RGlobal)
           | None => None
           end in
  match global_step with
  | Some v => Some v
  | None =>
      match mr with
      | None => None
      | Some (i, r, rc) =>
          match r_file_matches_deny r name rc with
          | Some m => Some (VDeniedFile m, RRule i)
          | None =>
              if r_has_allowlist r && negb (r_file_matches r name rc) then Some (VDisallowedFile, RRule i)
              else if negb (r_naming rc) && sr_naming r then Some (VNaming, RRule i)
              else None
          end
      end
  end.

(* ---- directory ladder (check_directory_placement, fixes/D48): at most one violation, the first clause
   that applies reports and returns ---- *)
Definition dir_ladder (cfg : config) (c : cols) (pscope : list bool) : option (vkind * rref) :=
  let mr := find_rule cfg pscope (c_r c) in
  let g := c_g c in
  let global_step : option (vkind * rref) :=
    if has_global_dir_allowlist cfg then
      if negb (g_allow_dirs g) then Some (VDisallowedDir, RGlobal) else None
    else
      let overridden :=
        match mr with
        | Some (_, r, rc) => r_has_dir_allowlist r && r_allow_dirs rc
        | None => false
        end in
      if overridden then None
      else match dir_matches_global_deny g with
           | Some m => Some (VDeniedDir m, RGlobal)
           | None => match dir_matches_global_deny_basename g with
                     | Some m => Some (VDeniedDir m, RGlobal)
                     | None => None
                     end
           end in
  match global_step with
  | Some v => Some v
  | None =>
      match mr with
      | None => None
      | Some (i, r, rc) =>
          if r_has_dir_allowlist r then
            if negb (r_allow_dirs rc) then Some (VDisallowedDir, RRule i) else None
          else match r_dir_matches_deny rc with
               | Some m => Some (VDeniedDir m, RRule i)
               | None => None
               end
      end
  end.

(* ---- violations one walked entry contributes (process_file / process_directory).  A count-excluded file
   is placed like any other (fixes/D49); the project root is exempt from the directory lists
   (fixes/D51: its normalised path is empty) ---- *)
Definition entry_violations (cfg : config) (e : entry) : list violation :=
  match e_kind e with
  | KFile =>
      if scan_excluded (e_cols e) false then []
      else match file_ladder cfg (e_name e) (e_cols e) (e_pplc e) with
           | Some (k, rr) => [mkv (e_path e) k 0 rr]
           | None => []
           end
  | KDir =>
      if scan_excluded (e_cols e) true then []
      else if is_project_root (e_path e) then []
      else match dir_ladder cfg (e_cols e) (e_pplc e) with
           | Some (k, rr) => [mkv (e_path e) k 0 rr]
           | None => []
           end
  | KOther => []
  end.

Definition scan_violations (cfg : config) (es : list entry) : list violation :=
  flat_map (entry_violations cfg) es.

(* ScanResult.files: pushed for every file that is not scanner-excluded and that the GlobFilter
   admits; the filter is built from the same exclude list and tests the raw path only *)
Definition entry_files (e : entry) : list path :=
  match e_kind e with
  | KFile => if scan_excluded (e_cols e) false then [] else
             if c_se_path (e_cols e) then [] else [e_path e]
  | _ => []
  end.
Definition scan_files (es : list entry) : list path := flat_map entry_files es.
