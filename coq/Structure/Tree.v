(* Structure/Tree.v -- directory trees, oracle columns and the walker's entry list (C06, C07).

   A project tree is an inductive value.  Everything the real code decides with the globset / regex /
   ignore crates enters as DATA: every node carries a record [cols] of boolean (or first-match index)
   oracle columns that the harness sgv-structure computes with the real compiled matchers of the
   real configuration.  Paths are kept LEAF FIRST (the head is the entry's own name, the tail is the
   parent path), so [parent] is [tl]. Definitions only. *)
From Coq Require Import ZArith NArith List Bool.
Import ListNotations.
Open Scope Z_scope.

Definition str := list N.
Definition path := list str.            (* leaf first; [] is the parent of the scan root *)

Fixpoint str_eqb (a b : str) : bool :=
  match a, b with
  | [], [] => true
  | x :: a', y :: b' => N.eqb x y && str_eqb a' b'
  | _, _ => false
  end.

Fixpoint path_eqb (a b : path) : bool :=
  match a, b with
  | [], [] => true
  | x :: a', y :: b' => str_eqb x y && path_eqb a' b'
  | _, _ => false
  end.

Definition str_mem (s : str) (l : list str) : bool := existsb (str_eqb s) l.
Definition path_mem (p : path) (l : list path) : bool := existsb (path_eqb p) l.

(* number of components of the NORMALISED path (output/path.rs normalize_for_matching rebuilds the path from
   its components and drops the current-directory ones; empty components do not exist for Path::components):
   the distance of the entry from the PROJECT root.  The project root itself (spelled with a dot, or absolutely
   and stripped of the current directory) has none. *)
Definition is_curdir (s : str) : bool :=
  match s with
  | [] => true
  | [c] => N.eqb c 46
  | _ => false
  end.
Definition norm_len (p : path) : Z := Z.of_nat (length (filter (fun s => negb (is_curdir s)) p)).
Definition is_project_root (p : path) : bool := norm_len p =? 0.

Definition is_some {A} (o : option A) : bool := match o with Some _ => true | None => false end.
Definition nonempty {A} (l : list A) : bool := match l with [] => false | _ => true end.

(* ---- oracle columns (computed by the harness with the real crates) ---- *)

(* global placement lists of [structure] *)
Record gcols := mk_gcols {
  g_allow_files : bool;              (* global_allow_files.is_match(name) *)
  g_allow_dirs : bool;               (* global_allow_dirs.is_match(name) *)
  g_deny_files : option Z;           (* first index of global_deny_files.matches(name) *)
  g_deny_pat_name : option Z;        (* global_deny_patterns (file patterns) on the name *)
  g_deny_pat_path : option Z;        (* ... on the whole path *)
  g_deny_dirpat_name : option Z;     (* directory-only patterns (trailing slash) on the name *)
  g_deny_dirpat_path : option Z;     (* ... on the whole path *)
  g_deny_dirs : option Z             (* deny_dirs basenames *)
}.

(* lists of one placement rule (one AllowlistRule) *)
Record rcols := mk_rcols {
  r_allow_files : bool;
  r_allow_pat_name : bool;
  r_allow_pat_path : bool;
  r_allow_dirs : bool;
  r_deny_files : option Z;
  r_deny_pat_name : option Z;
  r_deny_pat_path : option Z;
  r_deny_dirs : option Z;
  r_naming : bool                    (* filename_matches_naming_pattern (true when no regex) *)
}.

Record cols := mk_cols {
  c_skip : bool;                     (* the walker never yields it (ignore files; gitignore back-end) *)
  c_se_name : bool;                  (* scanner.exclude matches the name *)
  c_se_path : bool;                  (* scanner.exclude matches the normalised path *)
  c_se_dir : bool;                   (* name is one of scanner_exclude_dir_names *)
  c_ce_name : bool;                  (* structure.count_exclude matches the name *)
  c_ce_path : bool;                  (* ... the normalised path *)
  c_scope : list bool;               (* dirs: per structure rule, does the scope match the NORMALISED
                                        directory path.  Since fixes/D07 every site (resolve_limits, explain,
                                        sibling dir_matcher, AllowlistRule::matches_directory) asks this
                                        same question; the check verifies that they agree *)
  c_g : gcols;
  c_r : list rcols;                  (* per placement rule *)
  c_sib : list (list bool)           (* files: per structure rule, per sibling entry: file matcher on the name *)
}.

Inductive tree :=
| File (n : str) (c : cols)
| Dir (n : str) (c : cols) (ch : list tree)
| Other (n : str) (c : cols).        (* symlink, fifo, socket ...: neither is_file nor is_dir *)

Definition tname (t : tree) : str :=
  match t with File n _ => n | Dir n _ _ => n | Other n _ => n end.
Definition tcols (t : tree) : cols :=
  match t with File _ c => c | Dir _ c _ => c | Other _ c => c end.

(* is_scanner_excluded (structure_config.rs:298) and is_count_excluded (:319) *)
Definition scan_excluded (c : cols) (is_dir : bool) : bool :=
  c_se_name c || c_se_path c || (is_dir && c_se_dir c).
Definition count_excluded (c : cols) : bool := c_ce_name c || c_ce_path c.

(* a directory the walk does not descend into (ignore file, or filter_entry pruning) *)
Definition pruned_dir (c : cols) : bool := c_skip c || scan_excluded c true.

(* ---- the entry list of one walk ---- *)
Inductive kind := KFile | KDir | KOther.

Record entry := mk_entry {
  e_kind : kind;
  e_path : path;                     (* leaf first, never [] *)
  e_depth : Z;                       (* walkdir / ignore DirEntry::depth *)
  e_cols : cols;
  e_pplc : list bool;                (* scope column of the PARENT directory as the placement site sees it *)
  e_plim : list bool                 (* ... as the explain / sibling site sees it (the same column) *)
}.

Definition e_parent (e : entry) : path := tl (e_path e).
Definition e_name (e : entry) : str := hd [] (e_path e).

(* Pre-order entry list after pruning: what both walkers yield (siblings in OS order, hence the
   permutation argument of scan_fold).  pp = parent path, pplc/plim = the parent's scope columns. *)
Fixpoint entries_aux (pp : path) (pplc plim : list bool) (d : Z) (t : tree) : list entry :=
  match t with
  | File n c => if c_skip c then [] else [mk_entry KFile (n :: pp) d c pplc plim]
  | Other n c => if c_skip c then [] else [mk_entry KOther (n :: pp) d c pplc plim]
  | Dir n c ch =>
      if pruned_dir c then []
      else mk_entry KDir (n :: pp) d c pplc plim
           :: flat_map (entries_aux (n :: pp) (c_scope c) (c_scope c) (d + 1)) ch
  end.

(* rp, rl = scope column of the root's parent (the empty path) at the two sites *)
Definition entries (rp rl : list bool) (t : tree) : list entry := entries_aux [] rp rl 0 t.

(* sibling names are pairwise distinct everywhere (a file system guarantees it) *)
Fixpoint names_distinct (l : list str) : bool :=
  match l with [] => true | x :: r => negb (str_mem x r) && names_distinct r end.

Fixpoint wf_tree (t : tree) : bool :=
  match t with
  | Dir _ _ ch => names_distinct (map tname ch) && forallb wf_tree ch
  | _ => true
  end.
