(* Structure/Proofs_C06b.v -- lemmas for C06, part b: counts are exact for every processing order;
   the limit check; last-match resolution with inheritance; explain. *)
From Coq Require Import ZArith NArith List Bool Lia Permutation.
From SG Require Import Structure.Tree Structure.Names Structure.Config Structure.Placement Structure.Scan
     Structure.F64 Structure.Limits Structure.Spec Structure.Proofs_C06a.
Import ListNotations.
Open Scope Z_scope.

Definition is_dir_tree (t : tree) : bool := match t with Dir _ _ _ => true | _ => false end.

Lemma agrees_closed : forall os ns k,
  agrees os ns k -> closed dep os k = lookup (map true_stats ns) k.
Proof.
  intros os ns k H. unfold agrees in H. rewrite lookup_true_counts. unfold closed.
  destruct (node_lookup ns k) as [[dk ch]|].
  - destruct H as [h1 [h2 [h3 h4]]]. rewrite h1, h2, h3, h4. reflexivity.
  - destruct H as [h1 _]. rewrite h1. reflexivity.
Qed.

Lemma root_facts : forall rp rl n c ch,
  pruned_dir c = false ->
  let os := flat_map ops (entries rp rl (Dir n c ch)) in
  consistent dep os /\ (forall o, In o os -> under [n] (okey o)).
Proof.
  intros rp rl n c ch Hp os.
  assert (E : os = ([n], 0, OT) :: flat_map (tops [n] (c_scope c) (c_scope c) 1) ch).
  { unfold os, entries. fold (tops [] rp rl 0 (Dir n c ch)). rewrite tops_dir by exact Hp. reflexivity. }
  rewrite E. split.
  - constructor. reflexivity.
    apply Forall_flat_map. apply Forall_forall. intros x _. apply tops_consistent. lia. reflexivity.
  - intros o [<-|Ho]. apply under_refl.
    apply in_flat_map in Ho. destruct Ho as [x [_ Ho]]. apply tops_keys in Ho.
    destruct Ho as [->|U]. apply under_refl. apply under_cons in U. exact U.
Qed.

Lemma counts_exact_canonical : forall rp rl t k,
  wf_tree t = true -> is_dir_tree t = true ->
  closed dep (flat_map ops (entries rp rl t)) k = lookup (true_counts t) k.
Proof.
  intros rp rl t k Hwf Hroot. destruct t as [|n c ch|]; try discriminate.
  destruct (pruned_dir c) eqn:Hp.
  - unfold entries, true_counts, dir_nodes. simpl. rewrite Hp. reflexivity.
  - unfold true_counts, dir_nodes. apply agrees_closed.
    destruct (root_facts rp rl n c ch Hp) as [_ Hk].
    assert (Hdec : under [n] k \/ ~ under [n] k).
    { destruct (path_eqb (skipn (length k - 1) k) [n]) eqn:E.
      - left. apply path_eqb_eq in E. exists (firstn (length k - 1) k). rewrite <- E. symmetry. apply firstn_skipn.
      - right. intros [l Hl]. apply path_eqb_neq in E. apply E. subst k.
        rewrite app_length. simpl. replace (length l + 1 - 1)%nat with (length l) by lia.
        rewrite skipn_app, skipn_all, Nat.sub_diag. reflexivity. }
    destruct Hdec as [Hu|Hnu].
    + unfold entries. fold (tops [] rp rl 0 (Dir n c ch)). apply subtree_agrees; auto. lia.
    + apply agrees_nothing.
      * intros o Ho E. apply Hk in Ho. rewrite E in Ho. contradiction.
      * intros x Hx E. apply nodes_keys in Hx. simpl in Hx. rewrite E in Hx. contradiction.
Qed.

(* C06_counts_exact *)
Lemma counts_exact : forall rp rl t es k,
  wf_tree t = true -> is_dir_tree t = true -> Permutation (entries rp rl t) es ->
  lookup (scan_counts es) k = lookup (true_counts t) k.
Proof.
  intros rp rl t es k Hwf Hroot Hperm.
  assert (Hc : consistent dep (flat_map ops (entries rp rl t))).
  { destruct t as [|n c ch|]; try discriminate. destruct (pruned_dir c) eqn:Hp.
    - unfold entries. simpl. rewrite Hp. constructor.
    - apply (root_facts rp rl n c ch Hp). }
  rewrite (scan_counts_perm dep _ _ k Hperm Hc).
  rewrite (scan_counts_closed dep _ k Hc).
  apply counts_exact_canonical; assumption.
Qed.

(* C06_order_independent *)
Lemma order_independent : forall cfg rp rl t es1 es2,
  wf_tree t = true -> is_dir_tree t = true ->
  Permutation (entries rp rl t) es1 -> Permutation (entries rp rl t) es2 ->
  (forall k, lookup (s_stats (scan_fold cfg es1)) k = lookup (s_stats (scan_fold cfg es2)) k)
  /\ Permutation (s_violations (scan_fold cfg es1)) (s_violations (scan_fold cfg es2))
  /\ Permutation (s_files (scan_fold cfg es1)) (s_files (scan_fold cfg es2)).
Proof.
  intros cfg rp rl t es1 es2 Hwf Hroot H1 H2. simpl. split; [|split].
  - intro k. rewrite (counts_exact rp rl t es1 k), (counts_exact rp rl t es2 k); auto.
  - unfold scan_violations. apply Permutation_flat_map. eapply Permutation_trans; [apply Permutation_sym; exact H1 | exact H2].
  - unfold scan_files. apply Permutation_flat_map. eapply Permutation_trans; [apply Permutation_sym; exact H1 | exact H2].
Qed.

(* ---------- the limit check ---------- *)
Lemma check_count_spec : forall p k count lim abs pct gl,
  check_count p k count lim abs pct gl =
  of_verdict p k count (match lim with Some x => x | None => 0 end) (spec_verdict count lim abs pct gl).
Proof.
  intros. unfold check_count, spec_verdict. destruct lim as [limit|]; [|reflexivity].
  destruct (limit =? UNLIMITED); [reflexivity|].
  destruct (limit <? count); [reflexivity|].
  assert (E : warn_reached count limit abs pct gl = spec_warn_reached count limit abs pct gl).
  { unfold warn_reached, spec_warn_reached, pct_point. destruct abs; reflexivity. }
  rewrite E. destruct (spec_warn_reached count limit abs pct gl); reflexivity.
Qed.

Lemma check_depth_spec : forall p l d,
  check_depth p l d =
  of_verdict p VMaxDepth (effective_depth l p d) (match l_max_depth l with Some x => x | None => 0 end) (spec_depth_verdict l p d).
Proof.
  intros. unfold check_depth, spec_depth_verdict. destruct (l_max_depth l) as [limit|]; [|reflexivity].
  destruct (limit =? UNLIMITED); [reflexivity|].
  destruct (limit <? effective_depth l p d); [reflexivity|].
  unfold pct_point, calc_warn_limit.
  destruct (l_warn_threshold l); destruct (_ <? effective_depth l p d); reflexivity.
Qed.

Lemma check_dir_spec : forall l p s, check_dir l p s = spec_check_dir l p s.
Proof.
  intros. unfold check_dir, spec_check_dir. rewrite !check_count_spec, check_depth_spec. reflexivity.
Qed.

Lemma check_all_spec : forall cfg sc m, check_all cfg sc m = spec_check_all cfg sc m.
Proof.
  intros. unfold check_all, spec_check_all. induction m as [|x m IH]; simpl. reflexivity.
  rewrite check_dir_spec, IH. reflexivity.
Qed.

Lemma fail_iff : forall count lim abs pct gl,
  spec_verdict count lim abs pct gl = Fail <-> exists limit, lim = Some limit /\ limit <> UNLIMITED /\ limit < count.
Proof.
  intros. unfold spec_verdict. split.
  - destruct lim as [limit|]; [|discriminate].
    destruct (limit =? UNLIMITED) eqn:E1; [discriminate|].
    destruct (limit <? count) eqn:E2.
    + intros _. exists limit. apply Z.eqb_neq in E1. apply Z.ltb_lt in E2. auto.
    + destruct (spec_warn_reached count limit abs pct gl); discriminate.
  - intros [limit [-> [H1 H2]]]. apply Z.eqb_neq in H1. apply Z.ltb_lt in H2. rewrite H1, H2. reflexivity.
Qed.

Lemma warn_iff : forall count lim abs pct gl,
  spec_verdict count lim abs pct gl = Warn <->
  exists limit, lim = Some limit /\ limit <> UNLIMITED /\ count <= limit /\
    match abs with
    | Some a => as_usize a <= count
    | None => pct_point limit pct gl < count
    end.
Proof.
  intros. unfold spec_verdict. split.
  - destruct lim as [limit|]; [|discriminate].
    destruct (limit =? UNLIMITED) eqn:E1; [discriminate|].
    destruct (limit <? count) eqn:E2; [discriminate|].
    destruct (spec_warn_reached count limit abs pct gl) eqn:E3; [|discriminate].
    intros _. exists limit. apply Z.eqb_neq in E1. apply Z.ltb_ge in E2.
    repeat split; auto. unfold spec_warn_reached in E3. destruct abs.
    + apply Z.leb_le in E3. exact E3.
    + apply Z.ltb_lt in E3. exact E3.
  - intros [limit [-> [H1 [H2 H3]]]]. apply Z.eqb_neq in H1. rewrite H1.
    assert (E2 : limit <? count = false) by (apply Z.ltb_ge; exact H2). rewrite E2.
    unfold spec_warn_reached. destruct abs.
    + apply Z.leb_le in H3. rewrite H3. reflexivity.
    + apply Z.ltb_lt in H3. rewrite H3. reflexivity.
Qed.

Lemma zero_forbids : forall count abs pct gl,
  (0 < count -> spec_verdict count (Some 0) abs pct gl = Fail) /\
  (count = 0 -> spec_verdict count (Some 0) abs pct gl <> Fail).
Proof.
  intros. unfold spec_verdict. simpl. split; intro H.
  - apply Z.ltb_lt in H. rewrite H. reflexivity.
  - subst. simpl. destruct (spec_warn_reached 0 0 abs pct gl); discriminate.
Qed.

Lemma unlimited_disables : forall count abs pct gl l p d,
  spec_verdict count (Some UNLIMITED) abs pct gl = Pass /\ spec_verdict count None abs pct gl = Pass /\
  (l_max_depth l = Some UNLIMITED \/ l_max_depth l = None -> spec_depth_verdict l p d = Pass).
Proof.
  intros. repeat split; try reflexivity.
  intros [H|H]; unfold spec_depth_verdict; rewrite H; reflexivity.
Qed.

Lemma depth_fail_iff : forall l p d,
  spec_depth_verdict l p d = Fail <->
  exists limit, l_max_depth l = Some limit /\ limit <> UNLIMITED /\
    limit < (if l_relative l then Z.max 0 (norm_len p - l_base_depth l) else d).
Proof.
  intros. unfold spec_depth_verdict, effective_depth. split.
  - destruct (l_max_depth l) as [limit|]; [|discriminate].
    destruct (limit =? UNLIMITED) eqn:E1; [discriminate|].
    destruct (limit <? _) eqn:E2.
    + intros _. exists limit. apply Z.eqb_neq in E1. apply Z.ltb_lt in E2. auto.
    + match goal with |- (if ?b then _ else _) = _ -> _ => destruct b end; discriminate.
  - intros [limit [-> [H1 H2]]]. apply Z.eqb_neq in H1. apply Z.ltb_lt in H2. rewrite H1, H2. reflexivity.
Qed.

(* ---------- last declared match, with inheritance ---------- *)
Lemma find_app_none : forall {A} (f : A -> bool) l1 l2,
  (forall x, In x l1 -> f x = false) -> find f (l1 ++ l2) = find f l2.
Proof.
  intros A f l1 l2 H. induction l1 as [|x l1 IH]; simpl. reflexivity.
  rewrite (H x) by (left; reflexivity). apply IH. intros y Hy. apply H. right. exact Hy.
Qed.

Lemma find_rev_last : forall {A} (f : A -> bool) l1 x l2,
  f x = true -> (forall y, In y l2 -> f y = false) -> find f (rev (l1 ++ x :: l2)) = Some x.
Proof.
  intros A f l1 x l2 Hx H2. rewrite rev_app_distr. simpl. rewrite <- app_assoc.
  rewrite find_app_none. simpl. rewrite Hx. reflexivity.
  intros y Hy. apply H2. apply in_rev. exact Hy.
Qed.

Lemma find_rev_none : forall {A} (f : A -> bool) l, (forall y, In y l -> f y = false) -> find f (rev l) = None.
Proof.
  intros A f l H. rewrite <- (app_nil_r (rev l)). rewrite find_app_none. reflexivity.
  intros y Hy. apply H. apply in_rev. exact Hy.
Qed.

Lemma indexed_from_app : forall {A} (l1 l2 : list A) i,
  indexed_from i (l1 ++ l2) = indexed_from i l1 ++ indexed_from (i + Z.of_nat (length l1)) l2.
Proof.
  induction l1 as [|x l1 IH]; intros l2 i; simpl.
  - f_equal. lia.
  - rewrite IH. f_equal. f_equal. f_equal. lia.
Qed.

Lemma indexed_from_length : forall {A} (l : list A) i, length (indexed_from i l) = length l.
Proof. induction l as [|x l IH]; intro i; simpl. reflexivity. rewrite IH. reflexivity. Qed.

Lemma zip_scope_app : forall rs1 rs2 sc1 sc2, length sc1 = length rs1 ->
  zip_scope (rs1 ++ rs2) (sc1 ++ sc2) = zip_scope rs1 sc1 ++ zip_scope rs2 sc2.
Proof.
  induction rs1 as [|r rs1 IH]; intros rs2 sc1 sc2 Hl.
  - destruct sc1; [reflexivity|discriminate].
  - destruct sc1 as [|s sc1]; [discriminate|]. simpl. rewrite IH by (simpl in Hl; lia). reflexivity.
Qed.

Lemma zip_scope_false : forall rs sc, (forall b, In b sc -> b = false) ->
  forall x, In x (zip_scope rs sc) -> snd x = false.
Proof.
  induction rs as [|r rs IH]; intros sc H x Hx; simpl in Hx. contradiction.
  destruct Hx as [<-|Hx].
  - simpl. destruct sc as [|b sc]; simpl. reflexivity. apply H. left. reflexivity.
  - apply (IH (tl sc)). intros b Hb. apply H. destruct sc; simpl in Hb. contradiction. right. exact Hb. exact Hx.
Qed.

(* the shape of the zipped list when rules = rs1 ++ r :: rs2 and the column is sc1 ++ true :: sc2 *)
Lemma zip_last_shape : forall cfg rs1 r rs2 sc1 sc2,
  rules cfg = rs1 ++ r :: rs2 -> length sc1 = length rs1 ->
  zip_scope (indexed (rules cfg)) (sc1 ++ true :: sc2) =
  zip_scope (indexed_from 0 rs1) sc1
  ++ ((Z.of_nat (length rs1), r), true) :: zip_scope (indexed_from (Z.of_nat (length rs1) + 1) rs2) sc2.
Proof.
  intros cfg rs1 r rs2 sc1 sc2 Hr Hl. unfold indexed. rewrite Hr, indexed_from_app.
  rewrite zip_scope_app by (rewrite indexed_from_length; exact Hl). reflexivity.
Qed.

Lemma last_match_last : forall cfg rs1 r rs2 sc1 sc2,
  rules cfg = rs1 ++ r :: rs2 -> length sc1 = length rs1 -> (forall b, In b sc2 -> b = false) ->
  last_match cfg (sc1 ++ true :: sc2) = Some (Z.of_nat (length rs1), r).
Proof.
  intros cfg rs1 r rs2 sc1 sc2 Hr Hl H2. unfold last_match.
  rewrite (zip_last_shape cfg rs1 r rs2 sc1 sc2 Hr Hl).
  rewrite find_rev_last. reflexivity. reflexivity. apply zip_scope_false. exact H2.
Qed.

Lemma last_match_none : forall cfg sc, (forall b, In b sc -> b = false) -> last_match cfg sc = None.
Proof.
  intros cfg sc H. unfold last_match. rewrite find_rev_none. reflexivity. apply zip_scope_false. exact H.
Qed.

Lemma explain_index_last_match : forall cfg sc, explain_index cfg sc = option_map fst (last_match cfg sc).
Proof.
  intros. unfold explain_index, last_match.
  destruct (find _ _) as [[[i r] b]|]; reflexivity.
Qed.

Lemma last_rule_wins_with_inheritance : forall cfg rs1 r rs2 sc1 sc2,
  rules cfg = rs1 ++ r :: rs2 -> length sc1 = length rs1 -> (forall b, In b sc2 -> b = false) ->
  resolve_limits cfg (sc1 ++ true :: sc2) = rule_limits cfg r
  /\ l_max_files (rule_limits cfg r) = or_else (sr_max_files r) (max_files cfg)
  /\ l_max_dirs (rule_limits cfg r) = or_else (sr_max_dirs r) (max_dirs cfg)
  /\ l_max_depth (rule_limits cfg r) = or_else (sr_max_depth r) (max_depth cfg)
  /\ l_warn_threshold (rule_limits cfg r) = or_else (sr_warn_threshold r) (warn_threshold cfg)
  /\ l_warn_files_at (rule_limits cfg r) = or_else (sr_warn_files_at r) (warn_files_at cfg)
  /\ l_warn_dirs_at (rule_limits cfg r) = or_else (sr_warn_dirs_at r) (warn_dirs_at cfg).
Proof.
  intros cfg rs1 r rs2 sc1 sc2 H1 H2 H3. split.
  - unfold resolve_limits. rewrite (last_match_last cfg rs1 r rs2 sc1 sc2 H1 H2 H3). reflexivity.
  - repeat split; reflexivity.
Qed.

Lemma no_rule_globals : forall cfg sc, (forall b, In b sc -> b = false) -> resolve_limits cfg sc = global_limits cfg.
Proof. intros cfg sc H. unfold resolve_limits. rewrite (last_match_none cfg sc H). reflexivity. Qed.

Lemma explain_same_limits : forall cfg scope,
  ex_max_files (explain cfg scope) = l_max_files (resolve_limits cfg scope) /\
  ex_max_dirs (explain cfg scope) = l_max_dirs (resolve_limits cfg scope) /\
  ex_max_depth (explain cfg scope) = l_max_depth (resolve_limits cfg scope) /\
  ex_matched (explain cfg scope) = option_map fst (last_match cfg scope).
Proof. intros. repeat split; try reflexivity. apply explain_index_last_match. Qed.

(* ---------- relative depth is a function of the directory path, not of the scan root (fixes/D47) ---------- *)
Lemma relative_depth_root_independent : forall l p d1 d2,
  l_relative l = true -> effective_depth l p d1 = effective_depth l p d2.
Proof. intros l p d1 d2 H. unfold effective_depth. rewrite H. reflexivity. Qed.

Lemma norm_len_cons : forall x q, norm_len (x :: q) = (if is_curdir x then 0 else 1) + norm_len q.
Proof.
  intros. unfold norm_len. cbn [filter]. destruct (is_curdir x); cbn [negb length].
  - lia.
  - rewrite Nat2Z.inj_succ. lia.
Qed.

(* every entry strictly below the root carries a real name (a file system has no entry named dot) *)
Fixpoint proper_below (t : tree) : bool :=
  match t with
  | Dir _ _ ch => forallb (fun x => negb (is_curdir (tname x)) && proper_below x) ch
  | _ => true
  end.

(* the number of components of the normalised path of a walked entry is its distance from the scan root plus the
   number of components of the scan root itself: what the walker reports as depth and what the relative
   depth counts differ by a constant of the walk, the position of the scan root below the project root *)
Lemma entries_norm_len : forall t pp a b d e,
  proper_below t = true -> In e (entries_aux pp a b d t) ->
  norm_len (e_path e) - e_depth e = norm_len (tname t :: pp) - d.
Proof.
  induction t as [n c|n c|n c ch IH] using tree_ind'; intros pp a b d e Hp Hin; simpl in Hin.
  - destruct (c_skip c); simpl in Hin; [contradiction|]. destruct Hin as [<-|[]]. reflexivity.
  - destruct (c_skip c); simpl in Hin; [contradiction|]. destruct Hin as [<-|[]]. reflexivity.
  - destruct (pruned_dir c); simpl in Hin; [contradiction|]. destruct Hin as [<-|Hin]. reflexivity.
    apply in_flat_map in Hin. destruct Hin as [x [Hx He]].
    rewrite Forall_forall in IH. simpl in Hp. rewrite forallb_forall in Hp.
    specialize (Hp x Hx). apply andb_true_iff in Hp. destruct Hp as [Hn Hb].
    rewrite (IH x Hx _ _ _ _ _ Hb He). cbn [tname].
    rewrite (norm_len_cons (tname x)). apply negb_true_iff in Hn. rewrite Hn. lia.
Qed.

Lemma walk_norm_len : forall rp rl t e,
  proper_below t = true -> In e (entries rp rl t) ->
  norm_len (e_path e) = e_depth e + norm_len [tname t].
Proof.
  intros rp rl t e Hp Hin. unfold entries in Hin.
  pose proof (entries_norm_len t [] rp rl 0 e Hp Hin) as H. lia.
Qed.

(* ---------- a file given as scan root (fixes/D130): the walk yields the file alone, at depth 0; its parent
   directory was not walked and gets no record, whatever the exclusion columns say ---------- *)
Lemma file_root_no_stats : forall m e, e_kind e = KFile -> e_depth e = 0 -> step m e = m.
Proof.
  intros m e Hk Hd. unfold step. rewrite Hk, Hd.
  destruct (scan_excluded (e_cols e) false); [reflexivity|].
  destruct (count_excluded (e_cols e)); reflexivity.
Qed.

Lemma file_roots_no_stats : forall es,
  (forall e, In e es -> e_kind e = KFile /\ e_depth e = 0) -> scan_counts es = [].
Proof.
  intros es H. unfold scan_counts. assert (G : forall m, fold_left step es m = m).
  { induction es as [|e es IH]; intro m; simpl. reflexivity.
    destruct (H e (or_introl eq_refl)) as [Hk Hd]. rewrite (file_root_no_stats m e Hk Hd).
    apply IH. intros e' He'. apply H. right. exact He'. }
  apply G.
Qed.
