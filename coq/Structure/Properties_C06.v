(* Properties_C06.v -- C06: directory counts are exact; structure limits come from the last matching
   rule.  Property theorems only; each is closed by [exact <lemma>] and followed by Print Assumptions.
   Model: Structure/{Tree,Scan,Limits}.v (the code after fixes/D05-absolute-warn-count-inclusive.patch and
   fixes/D47-relative-depth-from-project-root.patch);
   what is required: Structure/Spec.v and Scan.true_counts.  Glob answers are arbitrary oracle columns
   of the tree, so every statement holds for EVERY glob semantics; no bound on width, depth or counts. *)
From Coq Require Import ZArith NArith List Bool Permutation.
From SG Require Import Structure.Tree Structure.Names Structure.Config Structure.Placement Structure.Scan
     Structure.F64 Structure.Limits Structure.Spec Structure.Proofs_C06a Structure.Proofs_C06b.
Import ListNotations.
Open Scope Z_scope.

(* For every tree with pairwise distinct sibling names whose root is a directory, and for EVERY order
   in which the walker may hand over the entries, the dir_stats map the scan builds is, key by key, the
   true figure of every scanned directory: number of immediate regular files / subdirectories that are
   not ignored, not scanner-excluded and not count-excluded, and the distance from the scan root;
   directories that are never reached have no record. *)
Theorem C06_counts_exact : forall (rp rl : list bool) (t : tree) (es : list entry) (k : path),
  wf_tree t = true -> is_dir_tree t = true -> Permutation (entries rp rl t) es ->
  lookup (scan_counts es) k = lookup (true_counts t) k.
Proof. exact counts_exact. Qed.
Print Assumptions C06_counts_exact.

(* Two processing orders give the same map, the same multiset of placement violations and the same
   multiset of scanned files *)
Theorem C06_order_independent : forall cfg rp rl t es1 es2,
  wf_tree t = true -> is_dir_tree t = true ->
  Permutation (entries rp rl t) es1 -> Permutation (entries rp rl t) es2 ->
  (forall k, lookup (s_stats (scan_fold cfg es1)) k = lookup (s_stats (scan_fold cfg es2)) k)
  /\ Permutation (s_violations (scan_fold cfg es1)) (s_violations (scan_fold cfg es2))
  /\ Permutation (s_files (scan_fold cfg es1)) (s_files (scan_fold cfg es2)).
Proof. exact order_independent. Qed.
Print Assumptions C06_order_independent.

(* the code's check of a whole map produces exactly the verdicts of the specification ... *)
Theorem C06_check_meets_spec : forall cfg scope_of m, check_all cfg scope_of m = spec_check_all cfg scope_of m.
Proof. exact check_all_spec. Qed.
Print Assumptions C06_check_meets_spec.

(* ... where a figure fails iff a limit is set, is not -1, and the figure exceeds it *)
Theorem C06_fail_iff : forall count lim abs pct gl,
  spec_verdict count lim abs pct gl = Fail <-> exists limit, lim = Some limit /\ limit <> UNLIMITED /\ limit < count.
Proof. exact fail_iff. Qed.
Print Assumptions C06_fail_iff.

(* 0 forbids any entry (and an empty directory does not fail) *)
Theorem C06_zero_forbids : forall count abs pct gl,
  (0 < count -> spec_verdict count (Some 0) abs pct gl = Fail) /\
  (count = 0 -> spec_verdict count (Some 0) abs pct gl <> Fail).
Proof. exact zero_forbids. Qed.
Print Assumptions C06_zero_forbids.

(* -1 (or no limit at all) disables the check, for counts and for depth *)
Theorem C06_unlimited_disables : forall count abs pct gl l p d,
  spec_verdict count (Some UNLIMITED) abs pct gl = Pass /\ spec_verdict count None abs pct gl = Pass /\
  (l_max_depth l = Some UNLIMITED \/ l_max_depth l = None -> spec_depth_verdict l p d = Pass).
Proof. exact unlimited_disables. Qed.
Print Assumptions C06_unlimited_disables.

(* warned iff within the limit and the warn point is reached: at or above an absolute warn count,
   above the rounded-up (binary64) percentage of the limit otherwise *)
Theorem C06_warn_iff : forall count lim abs pct gl,
  spec_verdict count lim abs pct gl = Warn <->
  exists limit, lim = Some limit /\ limit <> UNLIMITED /\ count <= limit /\
    match abs with
    | Some a => as_usize a <= count
    | None => pct_point limit pct gl < count
    end.
Proof. exact warn_iff. Qed.
Print Assumptions C06_warn_iff.

(* limits come from the LAST declared rule whose scope matches, unset fields inheriting the globals *)
Theorem C06_last_rule_wins_with_inheritance : forall cfg rs1 r rs2 sc1 sc2,
  rules cfg = rs1 ++ r :: rs2 -> length sc1 = length rs1 -> (forall b, In b sc2 -> b = false) ->
  resolve_limits cfg (sc1 ++ true :: sc2) = rule_limits cfg r
  /\ l_max_files (rule_limits cfg r) = or_else (sr_max_files r) (max_files cfg)
  /\ l_max_dirs (rule_limits cfg r) = or_else (sr_max_dirs r) (max_dirs cfg)
  /\ l_max_depth (rule_limits cfg r) = or_else (sr_max_depth r) (max_depth cfg)
  /\ l_warn_threshold (rule_limits cfg r) = or_else (sr_warn_threshold r) (warn_threshold cfg)
  /\ l_warn_files_at (rule_limits cfg r) = or_else (sr_warn_files_at r) (warn_files_at cfg)
  /\ l_warn_dirs_at (rule_limits cfg r) = or_else (sr_warn_dirs_at r) (warn_dirs_at cfg).
Proof. exact last_rule_wins_with_inheritance. Qed.
Print Assumptions C06_last_rule_wins_with_inheritance.

(* no matching rule: the global values *)
Theorem C06_no_rule_globals : forall cfg sc, (forall b, In b sc -> b = false) -> resolve_limits cfg sc = global_limits cfg.
Proof. exact no_rule_globals. Qed.
Print Assumptions C06_no_rule_globals.

(* depth is measured from the scope's fixed prefix when relative_depth is set: the number of components of the
   normalised (project-relative) directory path minus the number of leading literal components of the scope
   (base_depth); otherwise it is the distance from the scan root (fixes/D47) *)
Theorem C06_relative_depth : forall l p d,
  spec_depth_verdict l p d = Fail <->
  exists limit, l_max_depth l = Some limit /\ limit <> UNLIMITED /\
    limit < (if l_relative l then Z.max 0 (norm_len p - l_base_depth l) else d).
Proof. exact depth_fail_iff. Qed.
Print Assumptions C06_relative_depth.

(* hence the relative depth of a directory does not depend on which scan root the walk started from (the
   figure stats.depth plays no part) ... *)
Theorem C06_relative_depth_root_independent : forall l p d1 d2,
  l_relative l = true -> effective_depth l p d1 = effective_depth l p d2.
Proof. exact relative_depth_root_independent. Qed.
Print Assumptions C06_relative_depth_root_independent.

(* ... and for the entries of one walk it is the walker's depth shifted by the position of the scan root below
   the project root (one component for a root named t, none for the project root itself) *)
Theorem C06_walk_depth_vs_project_depth : forall rp rl t e,
  proper_below t = true -> In e (entries rp rl t) ->
  norm_len (e_path e) = e_depth e + norm_len [tname t].
Proof. exact walk_norm_len. Qed.
Print Assumptions C06_walk_depth_vs_project_depth.

(* explain reports the limits check uses, and names the rule they come from *)
Theorem C06_explain_same_limits : forall cfg scope,
  ex_max_files (explain cfg scope) = l_max_files (resolve_limits cfg scope) /\
  ex_max_dirs (explain cfg scope) = l_max_dirs (resolve_limits cfg scope) /\
  ex_max_depth (explain cfg scope) = l_max_depth (resolve_limits cfg scope) /\
  ex_matched (explain cfg scope) = option_map fst (last_match cfg scope).
Proof. exact explain_same_limits. Qed.
Print Assumptions C06_explain_same_limits.

(* ---- non-vacuity and concrete values ---- *)
Definition c0 : cols := mk_cols false false false false false false []
  (mk_gcols false false None None None None None None) [] [].
Definition ex_tree : tree :=
  Dir [116%N] c0 [File [97%N] c0; File [98%N] c0; Dir [115%N] c0 [File [99%N] c0]; Other [108%N] c0].

Example C06_example_counts :
  wf_tree ex_tree = true /\ is_dir_tree ex_tree = true /\
  lookup (scan_counts (rev (entries [] [] ex_tree))) [[116%N]] = Some (mk_ds 2 1 0) /\
  lookup (scan_counts (rev (entries [] [] ex_tree))) [[115%N]; [116%N]] = Some (mk_ds 1 0 1).
Proof. vm_compute. repeat split; reflexivity. Qed.
Print Assumptions C06_example_counts.

(* base depth of a scope pattern: components before the first glob metacharacter *)
Example C06_example_base_depth :
  base_depth [115; 114; 99; 47; 102; 47; 42; 42]%N = 2 /\ base_depth [42; 42; 47; 120]%N = 0 /\ base_depth [97; 47; 98]%N = 2.
Proof. vm_compute. repeat split; reflexivity. Qed.
Print Assumptions C06_example_base_depth.

(* the D5 witness (max_files = 5, warn_files_at = 3, 3 files) now warns; 5 * 0.8 warns above 4 *)
Example C06_example_warn_points :
  spec_verdict 3 (Some 5) (Some 3) None None = Warn /\ spec_verdict 2 (Some 5) (Some 3) None None = Pass /\
  spec_verdict 4 (Some 5) None None None = Pass /\ spec_verdict 5 (Some 5) None None None = Warn /\
  spec_verdict 6 (Some 5) None None None = Fail /\ warn_point 100 4589708452245819884 = 8.
Proof. vm_compute. repeat split; reflexivity. Qed.
Print Assumptions C06_example_warn_points.

(* the D47 witness: scope src/features/STARSTAR (base depth 2), max_depth 1, relative; the directory
   src/features/a/b is two levels below the prefix and fails whatever depth the walk reports for it
   (4 from the project root, 3 from src, 2 from src/features) *)
Definition l_d47 : limits := mk_limits None None (Some 1) true 2 None None None None None.
Definition p_d47 : path := [[98]; [97]; [102; 101; 97; 116; 117; 114; 101; 115]; [115; 114; 99]]%N.
Example C06_example_relative_depth :
  spec_depth_verdict l_d47 p_d47 4 = Fail /\ spec_depth_verdict l_d47 p_d47 3 = Fail /\ spec_depth_verdict l_d47 p_d47 2 = Fail /\
  spec_depth_verdict l_d47 (tl p_d47) 3 = Pass /\ effective_depth l_d47 ([46%N] :: p_d47) 0 = 2 /\
  proper_below ex_tree = true.
Proof. vm_compute. repeat split; reflexivity. Qed.
Print Assumptions C06_example_relative_depth.

(* fixes/D130: a FILE given as scan root is walked alone, at depth 0; its parent directory was not walked and
   gets no record (a directory that was not walked has no count), so such a run reports no limit result *)
Theorem C06_file_root_has_no_stats : forall es,
  (forall e, In e es -> e_kind e = KFile /\ e_depth e = 0) -> scan_counts es = [].
Proof. exact file_roots_no_stats. Qed.
Print Assumptions C06_file_root_has_no_stats.
