(* Properties_C12.v -- C12: the SLOC cache is transparent. Property theorems only; each is closed
   by [exact <lemma>] and followed by Print Assumptions. Model: Cache/Model.v (src/cache/mod.rs,
   commands/context.rs: process_file_with_cache, load_cache, save_cache), for EVERY operation
   history (no bound on length, paths, contents), every counter oracle [truth], every size
   function [csize], every predicate [keyable] (which paths have a cache key: valid UTF-8) and every configuration-hash function [chash] that is injective on
   [languages] tables (the assumption on SHA-256 + serialisation; the run checks that different
   tables observed give different hashes, and C12_refuted_colliding_hash shows it is needed). The model is the code AFTER the repair of D13 (racy-clean rule: an entry is
   stored only when its mtime second is older than the clock reading taken before the file was
   looked at). What remains refuted: a rename that puts a same-(mtime second, size) file at a
   cached path (K12_rename_same_meta) and a well-formed in-place edit of cache.json
   (K12_wellformed_edit); both are executable classifiers on the history. *)
From Coq Require Import NArith List Bool.
From SG Require Import Cache.Model Cache.Proofs_C12.
Import ListNotations.
Open Scope N_scope.

(* every Run of every history whose wall clock never goes backwards, without a same-metadata
   rename collision and without a forged cache file, prints exactly what the same invocation
   prints with --no-sloc-cache; same-size rewrites and rewrites in the second of a previous run
   included *)
Theorem C12_transparent_modulo_known : forall truth csize chash keyable, (forall a b, chash a = chash b -> a = b) -> forall h,
  monotone_clock h = true -> has_racy_rename truth csize chash keyable h = false -> has_forgery truth csize chash keyable h = false ->
  transparent truth csize chash keyable h = true.
Proof. exact transparent_modulo_known. Qed.
Print Assumptions C12_transparent_modulo_known.

(* the D13 window is closed: under the same hypotheses no write can ever collide with the cached
   entry of its path (same mtime second, same size, other content) *)
Theorem C12_no_racy_write : forall truth csize chash keyable, (forall a b, chash a = chash b -> a = b) -> forall h,
  monotone_clock h = true -> has_racy_rename truth csize chash keyable h = false -> has_forgery truth csize chash keyable h = false ->
  has_racy_write truth csize chash keyable h = false.
Proof. exact no_racy_write. Qed.
Print Assumptions C12_no_racy_write.

(* the reachable-state invariant behind both: an entry of a loadable cache whose (mtime, size)
   match the file now at its path carries that file's true statistics *)
Theorem C12_cache_invariant : forall truth csize chash keyable, (forall a b, chash a = chash b -> a = b) -> forall h,
  monotone_clock h = true -> has_racy_rename truth csize chash keyable h = false -> has_forgery truth csize chash keyable h = false ->
  let w := fst (exec truth csize chash keyable world0 h) in
  forall es p e f, load_cache (w_cache w) (chash (w_cfg w)) = Some es ->
    lookup p es = Some e -> lookup p (w_files w) = Some f ->
    metadata_matches e (f_mtime f) (csize (f_cid f)) = true ->
    exists l, lang_of (w_cfg w) p = Some l /\ truth l (f_cid f) = Some (ce_stats e).
Proof. exact cache_invariant. Qed.
Print Assumptions C12_cache_invariant.

(* the step form of the invariant (any world satisfying it, any clock value not behind it) *)
Theorem C12_run_preserves_invariant : forall truth csize chash keyable, (forall a b, chash a = chash b -> a = b) -> forall w excl now last,
  Inv truth csize chash w last -> last <= now ->
  fst (run_cached truth csize chash keyable w excl now) = run_uncached truth csize keyable w excl now /\
  Inv truth csize chash (snd (run_cached truth csize chash keyable w excl now)) now.
Proof. exact run_cached_spec. Qed.
Print Assumptions C12_run_preserves_invariant.

(* a cache file that load_cache rejects (absent, unparsable, foreign version, other hash) is
   ignored: the invocation behaves exactly like --no-sloc-cache, in ANY world *)
Theorem C12_corrupt_is_ignored : forall truth csize chash keyable w excl now,
  load_cache (w_cache w) (chash (w_cfg w)) = None ->
  fst (run_cached truth csize chash keyable w excl now) = run_uncached truth csize keyable w excl now.
Proof. exact corrupt_is_ignored. Qed.
Print Assumptions C12_corrupt_is_ignored.

(* ... and every corruption kind of the model, applied to any cache file, is rejected *)
Theorem C12_corruptions_unloadable : forall k cf (cur : N),
  match k with KGarbage | KRemove | KBadHash => True | KVersion v | KForeign v _ _ => v <> CACHE_VERSION | KForge _ _ => False end ->
  load_cache (corrupt k cf) cur = None.
Proof. exact corrupt_unloadable. Qed.
Print Assumptions C12_corruptions_unloadable.

(* a cache is only ever loaded when it carries the hash of the current [languages] table; with an
   injective hash that is the table it was written under, and the statistics of a file depend on
   nothing else of the configuration *)
Theorem C12_config_hash_sufficient : forall chash, (forall a b, chash a = chash b -> a = b) ->
  forall cf cfg es, load_cache cf (chash cfg) = Some es ->
  cf = CValid CACHE_VERSION (Some (chash cfg)) es /\
  forall cfg', chash cfg' = chash cfg -> forall p, lang_of cfg' p = lang_of cfg p.
Proof. exact config_hash_sufficient. Qed.
Print Assumptions C12_config_hash_sufficient.

(* a path that has no cache key (not valid UTF-8; D40) is counted from scratch whatever the cache
   file holds, and leaves the cache untouched: its result is independent of the cache state *)
Theorem C12_unkeyed_path_independent : forall truth csize keyable cfg now es es' pf, keyable (fst pf) = false ->
  fst (process truth csize keyable cfg now es pf) = fst (process truth csize keyable cfg now es' pf) /\
  fst (process truth csize keyable cfg now es pf) = ref_one truth cfg pf /\
  snd (process truth csize keyable cfg now es pf) = es.
Proof. exact unkeyed_independent. Qed.
Print Assumptions C12_unkeyed_path_independent.

(* ---- refuted parts (witnesses by vm_compute) *)
(* (the [languages] table never changes in the next two witnesses, so the hash function plays no
   role in them)
   two files written in the same second with the same size; after a run, one is renamed over the
   other: the cached run reports the statistics of the file that is gone *)
Example C12_refuted_rename_same_meta :
  exists truth csize chash keyable h,
    monotone_clock h = true /\ has_forgery truth csize chash keyable h = false /\ has_racy_write truth csize chash keyable h = false /\
    has_racy_rename truth csize chash keyable h = true /\ transparent truth csize chash keyable h = false.
Proof.
  exists (fun _ c => if N.eqb c 1 then Some (mkS 2 2 0 0 0) else Some (mkS 2 1 1 0 0)), (fun _ => 18), (fun _ => 0), (fun _ => true),
    [Write (1,1) 1 100; Write (2,1) 2 100; Run Check [] 102; Rename (1,1) (2,1); Run StatsFiles [] 104].
  vm_compute. repeat split; reflexivity.
Qed.
Print Assumptions C12_refuted_rename_same_meta.

(* a well-formed in-place edit of one entry's statistics is trusted (there is no checksum) *)
Example C12_refuted_wellformed_edit :
  exists truth csize chash keyable h,
    monotone_clock h = true /\ has_racy_rename truth csize chash keyable h = false /\ has_forgery truth csize chash keyable h = true /\
    transparent truth csize chash keyable h = false.
Proof.
  exists (fun _ _ => Some (mkS 2 2 0 0 0)), (fun _ => 18), (fun _ => 0), (fun _ => true),
    [Write (1,1) 1 100; Run Check [] 102; Corrupt (KForge (1,1) (mkS 9 7 1 1 0)); Run Check [] 103].
  vm_compute. repeat split; reflexivity.
Qed.
Print Assumptions C12_refuted_wellformed_edit.

(* ---- the former D13 witness, exactly under the property's restriction: write at second t, run
   at t, rewrite with the same size at t, run again (at t and later): transparent now, because
   the run at t no longer stores an entry whose mtime second is t *)
Example C12_same_second_same_size_repaired :
  let truth := (fun (_ c : N) => if N.eqb c 1 then Some (mkS 2 2 0 0 0) else Some (mkS 2 1 1 0 0)) in
  let h := [Write (1,1) 1 100; Run Check [] 100; Write (1,1) 2 100; Run StatsSummary [] 100; Run StatsFiles [] 105] in
  let chash := (fun c : langs => fold_right (fun x a => 1 + fst x + 64 * (snd x + 1024 * a)) 0 c) in
  transparent truth (fun _ => 18) chash (fun _ => true) h = true /\ has_racy_write truth (fun _ => 18) chash (fun _ => true) h = false /\
  snd (exec truth (fun _ => 18) chash (fun _ => true) world0 h) =
    [([((1,1), mkS 2 2 0 0 0)], [((1,1), mkS 2 2 0 0 0)]);
     ([((1,1), mkS 2 1 1 0 0)], [((1,1), mkS 2 1 1 0 0)]);
     ([((1,1), mkS 2 1 1 0 0)], [((1,1), mkS 2 1 1 0 0)])].
Proof. vm_compute. repeat split; reflexivity. Qed.
Print Assumptions C12_same_second_same_size_repaired.

(* non-vacuity: a history with a cache hit (second run), a same-size rewrite one second later, a
   [languages] change that re-maps the extension, a foreign-version corruption and a rename *)
Example C12_nonvacuous :
  let truth := (fun (l c : N) => if N.eqb l 100 then Some (mkS 2 0 2 0 0) else if N.eqb c 1 then Some (mkS 2 2 0 0 0) else Some (mkS 2 1 1 0 0)) in
  let h := [Write (1,1) 1 100; Run Check [] 101; Run Check [] 101; Write (1,1) 2 102; Run Check [] 103;
            SetLanguages [(1,100)]; Run StatsFiles [] 104; Corrupt (KVersion 2); Run Check [] 105;
            Rename (1,1) (2,1); Run Snapshot [] 106] in
  let chash := (fun c : langs => fold_right (fun x a => 1 + fst x + 64 * (snd x + 1024 * a)) 0 c) in
  monotone_clock h = true /\ has_racy_rename truth (fun _ => 18) chash (fun _ => true) h = false /\ has_forgery truth (fun _ => 18) chash (fun _ => true) h = false /\
  transparent truth (fun _ => 18) chash (fun _ => true) h = true /\
  map fst (snd (exec truth (fun _ => 18) chash (fun _ => true) world0 h)) =
    [[((1,1), mkS 2 2 0 0 0)]; [((1,1), mkS 2 2 0 0 0)]; [((1,1), mkS 2 1 1 0 0)]; [((1,1), mkS 2 0 2 0 0)];
     [((1,1), mkS 2 0 2 0 0)]; [((2,1), mkS 2 0 2 0 0)]].
Proof. vm_compute. repeat split; reflexivity. Qed.
Print Assumptions C12_nonvacuous.

(* the injectivity assumption is needed: with a hash that does not separate two [languages]
   tables (here: no table from the empty one) a configuration change leaves the cache valid and
   the cached run reports the statistics counted under the old table *)
Example C12_refuted_colliding_hash :
  exists truth csize chash keyable h,
    monotone_clock h = true /\ has_racy_rename truth csize chash keyable h = false /\ has_forgery truth csize chash keyable h = false /\
    has_racy_write truth csize chash keyable h = false /\ transparent truth csize chash keyable h = false.
Proof.
  exists (fun l _ => if N.eqb l 100 then Some (mkS 2 0 2 0 0) else Some (mkS 2 2 0 0 0)), (fun _ => 18), (fun _ => 7), (fun _ => true),
    [Write (1,1) 1 100; Run Check [] 102; SetLanguages [(1,100)]; Run StatsFiles [] 103].
  vm_compute. repeat split; reflexivity.
Qed.
Print Assumptions C12_refuted_colliding_hash.

(* the cache file of another release (any version but the current one), well-formed, with the
   current configuration hash and matching metadata but statistics from other counting rules, is
   ignored: not a forgery in the sense of the classifier, and the history stays transparent *)
Example C12_foreign_version_ignored :
  let truth := (fun (_ _ : N) => Some (mkS 11 3 2 0 6)) in
  let h := [Write (1,1) 1 100; Run Check [] 102; Corrupt (KForeign 2 (1,1) (mkS 11 9 2 0 0)); Run Check [] 103; Run StatsFiles [] 104] in
  has_forgery truth (fun _ => 18) (fun _ => 0) (fun _ => true) h = false /\ transparent truth (fun _ => 18) (fun _ => 0) (fun _ => true) h = true /\
  map fst (snd (exec truth (fun _ => 18) (fun _ => 0) (fun _ => true) world0 h)) =
    [[((1,1), mkS 11 3 2 0 6)]; [((1,1), mkS 11 3 2 0 6)]; [((1,1), mkS 11 3 2 0 6)]].
Proof. vm_compute. repeat split; reflexivity. Qed.
Print Assumptions C12_foreign_version_ignored.

(* a symbolic link (Copy = another name for the target's content and mtime): an edit of the target
   one second later is seen through the link *)
Example C12_symlink_target_edit :
  let truth := (fun (_ c : N) => if N.eqb c 1 then Some (mkS 2 2 0 0 0) else Some (mkS 12 12 0 0 0)) in
  let h := [Write (1,1) 1 100; Copy (1,1) (7,1); Run Check [(1,1)] 102; Write (1,1) 2 103; Write (7,1) 2 103; Run Check [(1,1)] 104] in
  has_racy_rename truth (fun _ => 18) (fun _ => 0) (fun _ => true) h = false /\ transparent truth (fun _ => 18) (fun _ => 0) (fun _ => true) h = true /\
  map fst (snd (exec truth (fun _ => 18) (fun _ => 0) (fun _ => true) world0 h)) = [[((7,1), mkS 2 2 0 0 0)]; [((7,1), mkS 12 12 0 0 0)]].
Proof. vm_compute. repeat split; reflexivity. Qed.
Print Assumptions C12_symlink_target_edit.
