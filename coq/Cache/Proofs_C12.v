(* Cache/Proofs_C12.v: the reachable-state invariant of the SLOC cache and its consequences. *)
From Coq Require Import NArith List Bool Lia.
From SG Require Import Cache.Model.
Import ListNotations.
Open Scope N_scope.

Arguments N.eqb : simpl never.
Arguments N.ltb : simpl never.
Arguments N.leb : simpl never.

(* ---------------------------------------------------------------- keys *)
Lemma path_eqb_eq : forall a b : path, path_eqb a b = true <-> a = b.
Proof.
  intros [a1 a2] [b1 b2]. unfold path_eqb. cbn [fst snd]. rewrite andb_true_iff, !N.eqb_eq.
  split; [intros [-> ->]; reflexivity|intros H; inversion H; auto].
Qed.
Lemma path_eqb_refl : forall a, path_eqb a a = true.
Proof. intros. now apply path_eqb_eq. Qed.
Lemma path_eqb_neq : forall a b : path, path_eqb a b = false <-> a <> b.
Proof.
  intros a b. split.
  - intros H E. apply path_eqb_eq in E. congruence.
  - intros H. destruct (path_eqb a b) eqn:E; [apply path_eqb_eq in E; contradiction|reflexivity].
Qed.

Lemma lstats_eqb_refl : forall s, lstats_eqb s s = true.
Proof. intros s. unfold lstats_eqb. now rewrite !N.eqb_refl. Qed.

Section Assoc.
Context {A : Type}.
Implicit Types (l : list (path * A)) (p q : path).

Lemma lookup_remove_same : forall p l, lookup p (remove_key p l) = None.
Proof.
  induction l as [|[k a] l IH]; cbn; [reflexivity|].
  destruct (path_eqb p k) eqn:E; [exact IH|]. cbn. now rewrite E.
Qed.

Lemma lookup_remove_other : forall p q l, q <> p -> lookup q (remove_key p l) = lookup q l.
Proof.
  intros p q l H. induction l as [|[k a] l IH]; cbn; [reflexivity|].
  destruct (path_eqb p k) eqn:E.
  - apply path_eqb_eq in E. subst k. apply path_eqb_neq in H. now rewrite H.
  - cbn. now rewrite IH.
Qed.

Lemma lookup_set_same : forall p a l, lookup p (set_key p a l) = Some a.
Proof. intros. unfold set_key. cbn. now rewrite path_eqb_refl. Qed.

Lemma lookup_set_other : forall p q a l, q <> p -> lookup q (set_key p a l) = lookup q l.
Proof.
  intros p q a l H. unfold set_key. cbn. apply path_eqb_neq in H as H'. rewrite H'.
  now apply lookup_remove_other.
Qed.

Lemma lookup_In : forall p a l, lookup p l = Some a -> In (p, a) l.
Proof.
  induction l as [|[k b] l IH]; cbn; intros H; [discriminate|].
  destruct (path_eqb p k) eqn:E.
  - apply path_eqb_eq in E. inversion H; subst. now left.
  - right. auto.
Qed.

Lemma In_keys : forall p a l, In (p, a) l -> In p (map fst l).
Proof. intros p a l H. apply (in_map fst) in H. exact H. Qed.

Lemma In_lookup : forall p a l, NoDup (map fst l) -> In (p, a) l -> lookup p l = Some a.
Proof.
  induction l as [|[k b] l IH]; cbn; intros Hnd Hin; [contradiction|].
  inversion Hnd as [|? ? Hk Hnd']; subst. destruct Hin as [Heq|Hin].
  - inversion Heq; subst. now rewrite path_eqb_refl.
  - destruct (path_eqb p k) eqn:E.
    + apply path_eqb_eq in E. subst k. exfalso. apply Hk. eapply In_keys. exact Hin.
    + auto.
Qed.

Lemma keys_remove_subset : forall p q l, In q (map fst (remove_key p l)) -> In q (map fst l) /\ q <> p.
Proof.
  induction l as [|[k a] l IH]; cbn; intros H; [contradiction|].
  destruct (path_eqb p k) eqn:E.
  - destruct (IH H) as [H1 H2]. auto.
  - cbn in H. destruct H as [->|H].
    + split; [now left|]. apply path_eqb_neq in E. congruence.
    + destruct (IH H) as [H1 H2]. auto.
Qed.

Lemma NoDup_remove : forall p l, NoDup (map fst l) -> NoDup (map fst (remove_key p l)).
Proof.
  induction l as [|[k a] l IH]; cbn; intros H; [constructor|].
  inversion H as [|? ? Hk Hnd]; subst. destruct (path_eqb p k); [auto|].
  cbn. constructor; [|auto]. intros Hin. apply keys_remove_subset in Hin. tauto.
Qed.

Lemma NoDup_set : forall p a l, NoDup (map fst l) -> NoDup (map fst (set_key p a l)).
Proof.
  intros p a l H. unfold set_key. cbn. constructor; [|now apply NoDup_remove].
  intros Hin. apply keys_remove_subset in Hin. tauto.
Qed.

Lemma NoDup_filter_keys : forall (f : path * A -> bool) l, NoDup (map fst l) -> NoDup (map fst (filter f l)).
Proof.
  induction l as [|x l IH]; cbn; intros H; [constructor|].
  inversion H as [|? ? Hk Hnd]; subst. destruct (f x); [|auto].
  cbn. constructor; [|auto]. intros Hin. apply Hk.
  apply in_map_iff in Hin. destruct Hin as (y & Hy & Hin). apply filter_In in Hin.
  apply in_map_iff. exists y. tauto.
Qed.
End Assoc.

(* ---------------------------------------------------------------- the invariant *)
Section WithOracles.
Variable truth : N -> N -> option lstats.
Variable csize : N -> N.
Variable chash : langs -> N.
Variable keyable : path -> bool.
(* the assumption on compute_config_hash: different [languages] tables have different hashes *)
Hypothesis chash_inj : forall a b, chash a = chash b -> a = b.

(* the entry was computed truthfully from the content it names, under the table cfg *)
Definition entry_ok (cfg : langs) (p : path) (e : centry) : Prop :=
  exists l, lang_of cfg p = Some l /\ truth l (ce_hash e) = Some (ce_stats e) /\ ce_size e = csize (ce_hash e).

Definition entries_ok (cfg : langs) (es : list (path * centry)) : Prop :=
  forall p e, lookup p es = Some e -> entry_ok cfg p e.

(* not racy: an entry whose (mtime, size) match the file now at its path names that file's content *)
Definition fresh (files : list (path * file)) (es : list (path * centry)) : Prop :=
  forall p e f, lookup p es = Some e -> lookup p files = Some f ->
    metadata_matches e (f_mtime f) (csize (f_cid f)) = true -> ce_hash e = f_cid f.

Definition older (last : N) (es : list (path * centry)) : Prop :=
  forall p e, lookup p es = Some e -> ce_mtime e < last.

Definition hash_ok (cf : cache_file) : Prop :=
  match cf with
  | CValid v (Some h) es => v = CACHE_VERSION -> forall cfg, chash cfg = h -> entries_ok cfg es
  | _ => True
  end.

Record Inv (w : world) (last : N) : Prop := mkInv {
  inv_nodup : NoDup (map fst (w_files w));
  inv_hash : hash_ok (w_cache w);
  inv_fresh : fresh (w_files w) (raw_entries (w_cache w));
  inv_older : older last (raw_entries (w_cache w)) }.

Lemma Inv_world0 : Inv world0 0.
Proof. constructor; cbn; [constructor|exact I| |]; intros p e; try intros f; cbn; discriminate. Qed.

Lemma older_weaken : forall a b es, a <= b -> older a es -> older b es.
Proof. intros a b es H Ho p e Hl. specialize (Ho p e Hl). lia. Qed.

(* what every file contributes when counted from scratch *)
Definition ref_one (cfg : langs) (pf : path * file) : option (path * lstats) :=
  match lang_of cfg (fst pf) with
  | None => None
  | Some l => match truth l (f_cid (snd pf)) with None => None | Some s => Some (fst pf, s) end
  end.
Fixpoint ref_out (cfg : langs) (fs : list (path * file)) : list (path * lstats) :=
  match fs with
  | [] => []
  | pf :: tl => match ref_one cfg pf with Some x => x :: ref_out cfg tl | None => ref_out cfg tl end
  end.

(* one file: output and frame *)
Lemma process_spec : forall cfg now es p f,
  (forall e, lookup p es = Some e -> entry_ok cfg p e) ->
  (forall e, lookup p es = Some e -> metadata_matches e (f_mtime f) (csize (f_cid f)) = true -> ce_hash e = f_cid f) ->
  fst (process truth csize keyable cfg now es (p, f)) = ref_one cfg (p, f) /\
  (snd (process truth csize keyable cfg now es (p, f)) = es \/
   exists l s, lang_of cfg p = Some l /\ truth l (f_cid f) = Some s /\ f_mtime f < now /\
     snd (process truth csize keyable cfg now es (p, f)) = set_key p (mkCE (f_cid f) s (f_mtime f) (csize (f_cid f))) es).
Proof.
  intros cfg now es p f Hok Hfr. unfold process, ref_one. cbn [fst snd].
  destruct (lang_of cfg p) as [l|] eqn:El; [|cbn; auto].
  assert (Hmiss :
    let r := match truth l (f_cid f) with
             | Some s => (Some (p, s), if keyable p && store_ok (f_mtime f) now then set_key p (mkCE (f_cid f) s (f_mtime f) (csize (f_cid f))) es else es)
             | None => (None, es) end in
    fst r = match truth l (f_cid f) with Some s => Some (p, s) | None => None end /\
    (snd r = es \/ exists l0 s, Some l = Some l0 /\ truth l0 (f_cid f) = Some s /\ f_mtime f < now /\
       snd r = set_key p (mkCE (f_cid f) s (f_mtime f) (csize (f_cid f))) es)).
  { cbv zeta. destruct (truth l (f_cid f)) as [s|] eqn:Et; cbn [fst snd]; [|auto].
    split; [reflexivity|]. destruct (keyable p); cbn [andb]; [|auto]. unfold store_ok. destruct (f_mtime f <? now) eqn:Es; [|auto].
    right. exists l, s. apply N.ltb_lt in Es. auto. }
  cbv zeta in Hmiss.
  destruct (keyable p) eqn:Ek; [|exact Hmiss].
  destruct (lookup p es) as [e|] eqn:Elk; [|exact Hmiss].
  destruct (metadata_matches e (f_mtime f) (csize (f_cid f))) eqn:Em; [|exact Hmiss].
  cbn [fst snd]. split; [|auto].
  specialize (Hok e eq_refl). specialize (Hfr e eq_refl Em).
  destruct Hok as (l' & Hl' & Ht & _). rewrite El in Hl'. inversion Hl'; subst l'.
  rewrite <- Hfr, Ht. reflexivity.
Qed.

(* a path without a cache key (not valid UTF-8) is counted from scratch whatever the cache holds,
   and leaves the cache as it is *)
Lemma unkeyed_independent : forall cfg now es es' pf, keyable (fst pf) = false ->
  fst (process truth csize keyable cfg now es pf) = fst (process truth csize keyable cfg now es' pf) /\
  fst (process truth csize keyable cfg now es pf) = ref_one cfg pf /\
  snd (process truth csize keyable cfg now es pf) = es.
Proof.
  intros cfg now es es' [p f] H. cbn [fst] in H. unfold process, ref_one. cbn [fst snd].
  destruct (lang_of cfg p); [|auto]. rewrite H. cbn [andb].
  destruct (truth n (f_cid f)); auto.
Qed.

(* all files of a list with distinct paths: the outputs are the from-scratch outputs, and every
   entry afterwards is either the old one or a fresh, truthful, old-enough one *)
Lemma process_all_spec : forall cfg now fs es,
  NoDup (map fst fs) ->
  (forall p e f, In (p, f) fs -> lookup p es = Some e -> entry_ok cfg p e) ->
  (forall p e f, In (p, f) fs -> lookup p es = Some e ->
     metadata_matches e (f_mtime f) (csize (f_cid f)) = true -> ce_hash e = f_cid f) ->
  fst (process_all truth csize keyable cfg now es fs) = ref_out cfg fs /\
  (forall q, lookup q (snd (process_all truth csize keyable cfg now es fs)) = lookup q es \/
     exists f l s, In (q, f) fs /\ lang_of cfg q = Some l /\ truth l (f_cid f) = Some s /\ f_mtime f < now /\
       lookup q (snd (process_all truth csize keyable cfg now es fs)) = Some (mkCE (f_cid f) s (f_mtime f) (csize (f_cid f)))).
Proof.
  intros cfg now fs. induction fs as [|[p f] tl IH]; intros es Hnd Hok Hfr.
  - cbn. split; [reflexivity|]. intros q. now left.
  - cbn [process_all ref_out].
    inversion Hnd as [|? ? Hp Hnd']; subst.
    destruct (process_spec cfg now es p f) as [Ho Hf].
    { intros e He. apply (Hok p e f); [now left|exact He]. }
    { intros e He Hm. apply (Hfr p e f); [now left|exact He|exact Hm]. }
    destruct (process truth csize keyable cfg now es (p, f)) as [o es1] eqn:Ep. cbn [fst snd] in Ho, Hf.
    assert (Hother : forall q, q <> p -> lookup q es1 = lookup q es).
    { intros q Hq. destruct Hf as [->|(l & s & _ & _ & _ & ->)]; [reflexivity|]. now apply lookup_set_other. }
    assert (Hnotin : forall q f', In (q, f') tl -> q <> p).
    { intros q f' Hin Heq. subst q. apply Hp. cbn. eapply In_keys. exact Hin. }
    destruct (IH es1 Hnd') as [IHo IHf].
    { intros q e f' Hin He. rewrite (Hother q (Hnotin _ _ Hin)) in He. apply (Hok q e f'); [now right|exact He]. }
    { intros q e f' Hin He Hm. rewrite (Hother q (Hnotin _ _ Hin)) in He. apply (Hfr q e f'); [now right|exact He|exact Hm]. }
    destruct (process_all truth csize keyable cfg now es1 tl) as [os es2] eqn:Eall. cbn [fst snd] in *.
    split.
    + rewrite Ho. destruct (ref_one cfg (p, f)); now rewrite IHo.
    + intros q. destruct (IHf q) as [Hsame|(f' & l & s & Hin & H1 & H2 & H3 & H4)].
      * rewrite Hsame. destruct Hf as [->|(l & s & Hl & Ht & Hlt & ->)]; [now left|].
        destruct (path_eqb q p) eqn:E.
        -- apply path_eqb_eq in E. subst q. right. exists f, l, s. rewrite lookup_set_same. repeat split; auto. now left.
        -- apply path_eqb_neq in E. left. now apply lookup_set_other.
      * right. exists f', l, s. repeat split; auto. now right.
Qed.

(* the uncached run: a fresh in-memory cache never hits *)
Lemma process_all_fresh_cache : forall cfg now fs es,
  NoDup (map fst fs) -> (forall p f, In (p, f) fs -> lookup p es = None) ->
  fst (process_all truth csize keyable cfg now es fs) = ref_out cfg fs.
Proof.
  intros cfg now fs es Hnd Hnone. apply process_all_spec; [exact Hnd| |].
  - intros p e f Hin He. rewrite (Hnone p f Hin) in He. discriminate.
  - intros p e f Hin He. rewrite (Hnone p f Hin) in He. discriminate.
Qed.

Lemma run_uncached_ref : forall w excl now, NoDup (map fst (w_files w)) ->
  run_uncached truth csize keyable w excl now = ref_out (w_cfg w) (filter (in_scope excl) (w_files w)).
Proof.
  intros w excl now Hnd. unfold run_uncached. apply process_all_fresh_cache.
  - now apply NoDup_filter_keys.
  - reflexivity.
Qed.

Lemma load_cache_some : forall cf cur es, load_cache cf cur = Some es ->
  cf = CValid CACHE_VERSION (Some cur) es.
Proof.
  intros cf cur es H. unfold load_cache in H. destruct cf as [| |v h es0]; try discriminate.
  destruct (N.eqb v CACHE_VERSION) eqn:Ev; [|discriminate]. cbn in H.
  destruct h as [h|]; cbn in H; [|discriminate].
  destruct (N.eqb h cur) eqn:Eh; [|discriminate]. inversion H; subst.
  apply N.eqb_eq in Ev, Eh. now subst.
Qed.

(* one invocation: transparent, and the invariant is re-established with the clock at now *)
Lemma run_cached_spec : forall w excl now last, Inv w last -> last <= now ->
  fst (run_cached truth csize chash keyable w excl now) = run_uncached truth csize keyable w excl now /\
  Inv (snd (run_cached truth csize chash keyable w excl now)) now.
Proof.
  intros w excl now last [Hnd Hhash Hfresh Holder] Hle.
  rewrite run_uncached_ref by exact Hnd. unfold run_cached.
  set (fs := filter (in_scope excl) (w_files w)).
  set (es0 := match load_cache (w_cache w) (chash (w_cfg w)) with Some es => es | None => [] end).
  assert (Hnd_fs : NoDup (map fst fs)) by (now apply NoDup_filter_keys).
  assert (Hfs_in : forall p f, In (p, f) fs -> lookup p (w_files w) = Some f).
  { intros p f Hin. apply filter_In in Hin. destruct Hin as [Hin _]. now apply In_lookup. }
  assert (H0 : entries_ok (w_cfg w) es0 /\ fresh (w_files w) es0 /\ older last es0).
  { subst es0. destruct (load_cache (w_cache w) (chash (w_cfg w))) as [es|] eqn:El.
    - apply load_cache_some in El. rewrite El in Hhash, Hfresh, Holder. cbn in *.
      split; [apply Hhash; reflexivity|auto].
    - repeat split; intros p e; try intros f; cbn; discriminate. }
  destruct H0 as (Hok0 & Hfresh0 & Holder0).
  destruct (process_all_spec (w_cfg w) now fs es0 Hnd_fs) as [Hout Hframe].
  { intros p e f _ He. exact (Hok0 p e He). }
  { intros p e f Hin He Hm. exact (Hfresh0 p e f He (Hfs_in p f Hin) Hm). }
  destruct (process_all truth csize keyable (w_cfg w) now es0 fs) as [out es'] eqn:Eall. cbn [fst snd] in *.
  split; [exact Hout|].
  constructor; cbn [w_files w_cfg w_cache raw_entries hash_ok].
  - exact Hnd.
  - intros _ cfg' Hc. apply chash_inj in Hc. subst cfg'.
    intros p e He. destruct (Hframe p) as [Hsame|(f & l & s & Hin & Hl & Ht & Hlt & Hnew)].
    + rewrite Hsame in He. exact (Hok0 p e He).
    + rewrite Hnew in He. inversion He; subst. exists l. cbn. auto.
  - intros p e f He Hf Hm. destruct (Hframe p) as [Hsame|(f' & l & s & Hin & Hl & Ht & Hlt & Hnew)].
    + rewrite Hsame in He. exact (Hfresh0 p e f He Hf Hm).
    + rewrite Hnew in He. inversion He; subst. cbn. rewrite (Hfs_in p f' Hin) in Hf. now inversion Hf.
  - intros p e He. destruct (Hframe p) as [Hsame|(f' & l & s & Hin & Hl & Ht & Hlt & Hnew)].
    + rewrite Hsame in He. specialize (Holder0 p e He). lia.
    + rewrite Hnew in He. inversion He; subst. cbn. exact Hlt.
Qed.

(* ---------------------------------------------------------------- one operation *)
Definition next_last (last : N) (o : op) : N := match op_time o with Some t => t | None => last end.
Definition time_ok (last : N) (o : op) : Prop := match op_time o with Some t => last <= t | None => True end.

Lemma step_spec : forall w last o, Inv w last -> time_ok last o ->
  racy_rename csize w o = false -> forgery w o = false ->
  Inv (fst (step truth csize chash keyable w o)) (next_last last o) /\
  racy_write csize w o = false /\
  (forall r, snd (step truth csize chash keyable w o) = Some r -> fst r = snd r).
Proof.
  intros w last o HI Ht Hrr Hfg. pose proof HI as [Hnd Hhash Hfresh Holder].
  destruct o as [p c t|p|p q|p q|c|k|k excl t]; cbn [step fst snd next_last op_time time_ok racy_write] in *.
  - (* Write *)
    assert (Hnc : collides csize w p c t = false).
    { unfold collides. destruct (lookup p (raw_entries (w_cache w))) as [e|] eqn:El; [|reflexivity].
      specialize (Holder p e El). unfold metadata_matches.
      assert (E : N.eqb (ce_mtime e) t = false) by (apply N.eqb_neq; lia). now rewrite E. }
    split; [|split; [exact Hnc|discriminate]].
    constructor; cbn [w_files w_cfg w_cache].
    + now apply NoDup_set.
    + exact Hhash.
    + intros q e f He Hf Hm. destruct (path_eqb q p) eqn:E.
      * apply path_eqb_eq in E. subst q. rewrite lookup_set_same in Hf. inversion Hf; subst. cbn in Hm.
        unfold collides in Hnc. rewrite He in Hnc. rewrite Hm in Hnc. cbn in Hnc.
        apply negb_false_iff in Hnc. now apply N.eqb_eq in Hnc.
      * apply path_eqb_neq in E. rewrite lookup_set_other in Hf by exact E. exact (Hfresh q e f He Hf Hm).
    + eapply older_weaken; [exact Ht|exact Holder].
  - (* Delete *)
    split; [|split; [reflexivity|discriminate]].
    constructor; cbn [w_files w_cfg w_cache]; [now apply NoDup_remove|exact Hhash| |exact Holder].
    intros q e f He Hf Hm. destruct (path_eqb q p) eqn:E.
    + apply path_eqb_eq in E. subst q. rewrite lookup_remove_same in Hf. discriminate.
    + apply path_eqb_neq in E. rewrite lookup_remove_other in Hf by exact E. exact (Hfresh q e f He Hf Hm).
  - (* Rename *)
    unfold racy_rename in Hrr.
    destruct (lookup p (w_files w)) as [f0|] eqn:Ef0; cbn [fst snd].
    + split; [|split; [reflexivity|discriminate]].
      constructor; cbn [w_files w_cfg w_cache]; [apply NoDup_set; now apply NoDup_remove|exact Hhash| |exact Holder].
      intros r e f He Hf Hm. destruct (path_eqb r q) eqn:E.
      * apply path_eqb_eq in E. subst r. rewrite lookup_set_same in Hf. inversion Hf; subst f.
        unfold collides in Hrr. rewrite He, Hm in Hrr. cbn in Hrr.
        apply negb_false_iff in Hrr. now apply N.eqb_eq in Hrr.
      * apply path_eqb_neq in E. rewrite lookup_set_other in Hf by exact E.
        destruct (path_eqb r p) eqn:E2.
        -- apply path_eqb_eq in E2. subst r. rewrite lookup_remove_same in Hf. discriminate.
        -- apply path_eqb_neq in E2. rewrite lookup_remove_other in Hf by exact E2. exact (Hfresh r e f He Hf Hm).
    + split; [exact HI|split; [reflexivity|discriminate]].
  - (* Copy *)
    unfold racy_rename in Hrr.
    destruct (lookup p (w_files w)) as [f0|] eqn:Ef0; cbn [fst snd].
    + split; [|split; [reflexivity|discriminate]].
      constructor; cbn [w_files w_cfg w_cache]; [now apply NoDup_set|exact Hhash| |exact Holder].
      intros r e f He Hf Hm. destruct (path_eqb r q) eqn:E.
      * apply path_eqb_eq in E. subst r. rewrite lookup_set_same in Hf. inversion Hf; subst f.
        unfold collides in Hrr. rewrite He, Hm in Hrr. cbn in Hrr.
        apply negb_false_iff in Hrr. now apply N.eqb_eq in Hrr.
      * apply path_eqb_neq in E. rewrite lookup_set_other in Hf by exact E. exact (Hfresh r e f He Hf Hm).
    + split; [exact HI|split; [reflexivity|discriminate]].
  - (* SetLanguages *)
    split; [|split; [reflexivity|discriminate]]. constructor; assumption.
  - (* Corrupt *)
    split; [|split; [reflexivity|discriminate]].
    assert (Hforeign : forall v h' es', N.eqb v CACHE_VERSION = false -> hash_ok (CValid v h' es')).
    { intros v h' es' Ev. destruct h' as [h0|]; cbn; [|exact I]. intros Hv. subst v. rewrite N.eqb_refl in Ev. discriminate. }
    destruct k as [|v| | |pf sf|v pf sf]; cbn [forgery] in Hfg; try discriminate; cbn [corrupt].
    + constructor; cbn; [exact Hnd|exact I| |]; intros q e; try intros f; cbn; discriminate.
    + destruct (N.eqb v CACHE_VERSION) eqn:Ev; [constructor; cbn; assumption|].
      destruct (w_cache w) as [| |v0 h es]; [constructor; cbn in *; assumption|constructor; cbn in *; assumption|].
      constructor; cbn [w_files w_cfg w_cache raw_entries] in *; [exact Hnd|now apply Hforeign|exact Hfresh|exact Holder].
    + destruct (w_cache w) as [| |v0 h es]; constructor; cbn in *; try assumption; exact I.
    + constructor; cbn; [exact Hnd|exact I| |]; intros q e; try intros f; cbn; discriminate.
    + destruct (N.eqb v CACHE_VERSION) eqn:Ev; [constructor; cbn; assumption|].
      destruct (w_cache w) as [| |v0 h es]; [constructor; cbn in *; assumption|constructor; cbn in *; assumption|].
      cbn [raw_entries] in Hfresh, Holder.
      destruct (lookup pf es) as [e0|] eqn:Ee.
      * constructor; cbn [w_files w_cfg w_cache raw_entries]; [exact Hnd|now apply Hforeign| |].
        -- intros r e f He Hf Hm. destruct (path_eqb r pf) eqn:E.
           ++ apply path_eqb_eq in E. subst r. rewrite lookup_set_same in He. inversion He; subst e.
              unfold metadata_matches in Hm. cbn in Hm. cbn. apply (Hfresh pf e0 f Ee Hf). exact Hm.
           ++ apply path_eqb_neq in E. rewrite lookup_set_other in He by exact E. exact (Hfresh r e f He Hf Hm).
        -- intros r e He. destruct (path_eqb r pf) eqn:E.
           ++ apply path_eqb_eq in E. subst r. rewrite lookup_set_same in He. inversion He; subst e. cbn. exact (Holder pf e0 Ee).
           ++ apply path_eqb_neq in E. rewrite lookup_set_other in He by exact E. exact (Holder r e He).
      * constructor; cbn [w_files w_cfg w_cache raw_entries]; [exact Hnd|now apply Hforeign|exact Hfresh|exact Holder].
  - (* Run *)
    destruct (run_cached_spec w excl t last HI Ht) as [Heq HI'].
    destruct (run_cached truth csize chash keyable w excl t) as [out w'] eqn:Er. cbn [fst snd] in *.
    split; [exact HI'|]. split; [reflexivity|]. intros r Hr. inversion Hr. cbn [fst snd]. exact Heq.
Qed.

(* ---------------------------------------------------------------- histories *)
Lemma monotone_from_step : forall last o tl, monotone_from last (o :: tl) = true ->
  time_ok last o /\ monotone_from (next_last last o) tl = true.
Proof.
  intros last o tl H. cbn in H. unfold time_ok, next_last. destruct (op_time o) as [t|].
  - apply andb_true_iff in H. destruct H as [H1 H2]. apply N.leb_le in H1. auto.
  - auto.
Qed.

Lemma exec_spec : forall h w last, Inv w last -> monotone_from last h = true ->
  any_along truth csize chash keyable (racy_rename csize) w h = false ->
  any_along truth csize chash keyable forgery w h = false ->
  Forall (fun r => fst r = snd r) (snd (exec truth csize chash keyable w h)) /\
  any_along truth csize chash keyable (racy_write csize) w h = false /\
  exists last', Inv (fst (exec truth csize chash keyable w h)) last'.
Proof.
  induction h as [|o tl IH]; intros w last HI Hm Hrr Hfg.
  - cbn. split; [constructor|]. split; [reflexivity|]. now exists last.
  - apply monotone_from_step in Hm. destruct Hm as [Ht Hm].
    cbn [any_along] in Hrr, Hfg. apply orb_false_iff in Hrr, Hfg.
    destruct Hrr as [Hrr1 Hrr2]. destruct Hfg as [Hfg1 Hfg2].
    destruct (step_spec w last o HI Ht Hrr1 Hfg1) as (HI1 & Hrw & Hr).
    destruct (IH _ _ HI1 Hm Hrr2 Hfg2) as (Hall & Hrw2 & Hlast).
    cbn [exec any_along]. rewrite Hrw, Hrw2.
    destruct (step truth csize chash keyable w o) as [w1 r] eqn:Es. cbn [fst snd] in *.
    destruct (exec truth csize chash keyable w1 tl) as [w2 rs] eqn:Ee. cbn [fst snd] in *.
    split; [|split; [reflexivity|exact Hlast]].
    destruct r as [x|]; [constructor; [apply Hr; reflexivity|exact Hall]|exact Hall].
Qed.

Lemma outs_equal_refl : forall r, fst r = snd r -> outs_equal r = true.
Proof.
  intros [a b] H. cbn in H. subst b. unfold outs_equal. cbn [fst snd].
  induction a as [|[p s] a IH]; [reflexivity|]. now rewrite path_eqb_refl, lstats_eqb_refl, IH.
Qed.

Theorem transparent_modulo_known : forall h,
  monotone_clock h = true -> has_racy_rename truth csize chash keyable h = false -> has_forgery truth csize chash keyable h = false ->
  transparent truth csize chash keyable h = true.
Proof.
  intros h Hm Hrr Hfg. unfold transparent.
  destruct (exec_spec h world0 0 Inv_world0 Hm Hrr Hfg) as (Hall & _ & _).
  apply forallb_forall. intros r Hin. apply outs_equal_refl.
  rewrite Forall_forall in Hall. now apply Hall.
Qed.

Theorem no_racy_write : forall h,
  monotone_clock h = true -> has_racy_rename truth csize chash keyable h = false -> has_forgery truth csize chash keyable h = false ->
  has_racy_write truth csize chash keyable h = false.
Proof.
  intros h Hm Hrr Hfg. destruct (exec_spec h world0 0 Inv_world0 Hm Hrr Hfg) as (_ & H & _). exact H.
Qed.

(* the reachable-state invariant in words: in every reachable world, an entry of a loadable cache
   whose (mtime, size) match the file now at its path carries that file's true statistics *)
Theorem cache_invariant : forall h,
  monotone_clock h = true -> has_racy_rename truth csize chash keyable h = false -> has_forgery truth csize chash keyable h = false ->
  let w := fst (exec truth csize chash keyable world0 h) in
  forall es p e f, load_cache (w_cache w) (chash (w_cfg w)) = Some es ->
    lookup p es = Some e -> lookup p (w_files w) = Some f ->
    metadata_matches e (f_mtime f) (csize (f_cid f)) = true ->
    exists l, lang_of (w_cfg w) p = Some l /\ truth l (f_cid f) = Some (ce_stats e).
Proof.
  intros h Hm Hrr Hfg w es p e f Hl He Hf Hmm.
  destruct (exec_spec h world0 0 Inv_world0 Hm Hrr Hfg) as (_ & _ & last' & [Hnd Hhash Hfresh Holder]).
  fold w in Hnd, Hhash, Hfresh, Holder.
  apply load_cache_some in Hl. rewrite Hl in Hhash, Hfresh. cbn in Hhash, Hfresh.
  destruct (Hhash eq_refl (w_cfg w) eq_refl p e He) as (l & Hlang & Ht & _). exists l. split; [exact Hlang|].
  rewrite <- (Hfresh p e f He Hf Hmm). exact Ht.
Qed.

(* ---------------------------------------------------------------- corruption, configuration hash *)
Theorem corrupt_is_ignored : forall w excl now,
  load_cache (w_cache w) (chash (w_cfg w)) = None ->
  fst (run_cached truth csize chash keyable w excl now) = run_uncached truth csize keyable w excl now.
Proof.
  intros w excl now H. unfold run_cached, run_uncached. rewrite H.
  destruct (process_all truth csize keyable (w_cfg w) now [] (filter (in_scope excl) (w_files w))). reflexivity.
Qed.

(* a cache is loaded only if it carries the hash of the current [languages] table, and (injectivity)
   any table with that hash assigns every path the same language as the current one *)
Lemma config_hash_sufficient : forall cf cfg es, load_cache cf (chash cfg) = Some es ->
  cf = CValid CACHE_VERSION (Some (chash cfg)) es /\
  forall cfg', chash cfg' = chash cfg -> forall p, lang_of cfg' p = lang_of cfg p.
Proof.
  intros cf cfg es H. apply load_cache_some in H. split; [exact H|].
  intros cfg' Hc p. apply chash_inj in Hc. now subst.
Qed.

End WithOracles.

Lemma corrupt_unloadable : forall k cf (cur : N),
  match k with KGarbage | KRemove | KBadHash => True | KVersion v | KForeign v _ _ => v <> CACHE_VERSION | KForge _ _ => False end ->
  load_cache (corrupt k cf) cur = None.
Proof.
  intros k cf cur H. destruct k as [|v| | |p s|v p s]; cbn [corrupt]; try reflexivity; try contradiction.
  - apply N.eqb_neq in H. rewrite H. destruct cf as [| |v0 h es]; try reflexivity. cbn. now rewrite H.
  - destruct cf as [| |v0 h es]; try reflexivity. cbn. now rewrite andb_false_r.
  - apply N.eqb_neq in H. rewrite H. destruct cf as [| |v0 h es]; try reflexivity.
    destruct (lookup p es); cbn; now rewrite H.
Qed.
