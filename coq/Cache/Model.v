(* Cache/Model.v: the SLOC cache (src/cache/mod.rs, commands/context.rs: load_cache, save_cache,
   process_file_with_cache) and the world it observes. Model file: definitions only, no proofs.

   Abstractions. A file content is an identifier [cid] (it plays the role of the SHA-256 content
   hash, assumed collision-free); its size and what the counter says about it under a given
   language are the two section parameters [csize] and [truth] (None = CountResult::IgnoredFile).
   A path is (stem, extension id). Built-in languages: extension ids 1..9 (language id = extension
   id); extension 0 = no / unrecognised extension. A [langs] table is the [languages] section of
   the configuration: extension id -> custom language id, first match. The registry registers the
   definitions in name order and the last registration wins an extension, so a table in which two
   definitions claim one extension is listed in descending name order (tools/gen_cache.py
   wire_langs); for single-owner tables the order is immaterial.
   The configuration hash is the third section parameter [chash] (compute_config_hash: SHA-256 of
   the serialised table); the theorems assume it injective on tables, the run checks that different
   tables observed give different hashes. A stored hash [None] is a string that is no hash value.
   Times are whole seconds. *)
From Coq Require Import NArith List Bool.
Import ListNotations.
Open Scope N_scope.

Record lstats := mkS { s_total : N; s_code : N; s_comment : N; s_blank : N; s_ignored : N }.
Definition lstats_eqb (a b : lstats) : bool :=
  N.eqb (s_total a) (s_total b) && N.eqb (s_code a) (s_code b) && N.eqb (s_comment a) (s_comment b) &&
  N.eqb (s_blank a) (s_blank b) && N.eqb (s_ignored a) (s_ignored b).

Definition path := (N * N)%type.
Definition path_eqb (a b : path) : bool := N.eqb (fst a) (fst b) && N.eqb (snd a) (snd b).

Definition langs := list (N * N).
(* the stored config_hash: Some h = the hash value h, None = a string that is no hash value *)
Definition hash_eqb (h : option N) (cur : N) : bool :=
  match h with Some x => N.eqb x cur | None => false end.

Fixpoint custom_lang (c : langs) (ext : N) : option N :=
  match c with [] => None | (e, l) :: tl => if N.eqb e ext then Some l else custom_lang tl ext end.
Definition builtin_lang (ext : N) : option N :=
  if N.eqb ext 0 then None else if ext <? 10 then Some ext else None.
(* LanguageRegistry::with_custom_languages + get_by_extension: a custom definition overrides *)
Definition lang_of (c : langs) (p : path) : option N :=
  match custom_lang c (snd p) with Some l => Some l | None => builtin_lang (snd p) end.

Record file := mkFile { f_cid : N; f_mtime : N }.
(* CacheEntry: hash, stats, mtime, size *)
Record centry := mkCE { ce_hash : N; ce_stats : lstats; ce_mtime : N; ce_size : N }.

Definition CACHE_VERSION : N := 3.

(* the bytes of <state dir>/cache.json as far as load_cache can tell them apart *)
Inductive cache_file :=
| CAbsent
| CCorrupt                                                   (* does not parse as a Cache *)
| CValid (version : N) (hash : option N) (entries : list (path * centry)).

Record world := mkW { w_files : list (path * file); w_cfg : langs; w_cache : cache_file }.
Definition world0 : world := mkW [] [] CAbsent.

(* association lists keyed by path (at most one binding per key is maintained) *)
Fixpoint lookup {A} (p : path) (l : list (path * A)) : option A :=
  match l with [] => None | (q, a) :: tl => if path_eqb p q then Some a else lookup p tl end.
Fixpoint remove_key {A} (p : path) (l : list (path * A)) : list (path * A) :=
  match l with [] => [] | (q, a) :: tl => if path_eqb p q then remove_key p tl else (q, a) :: remove_key p tl end.
Definition set_key {A} (p : path) (a : A) (l : list (path * A)) : list (path * A) := (p, a) :: remove_key p l.

(* load_cache: None when absent, unparsable, foreign version or other configuration hash *)
Definition load_cache (cf : cache_file) (cur_hash : N) : option (list (path * centry)) :=
  match cf with
  | CValid v h es => if N.eqb v CACHE_VERSION && hash_eqb h cur_hash then Some es else None
  | _ => None
  end.

(* racy-clean rule of process_file_with_cache: an entry is stored only when the mtime second is
   older than the clock reading taken before the file was looked at *)
Definition store_ok (mtime now : N) : bool := mtime <? now.

Definition metadata_matches (e : centry) (mtime size : N) : bool :=
  N.eqb (ce_mtime e) mtime && N.eqb (ce_size e) size.

Section WithOracles.
Variable truth : N -> N -> option lstats.     (* language id -> content id -> counter result *)
Variable csize : N -> N.                       (* content id -> size in bytes *)
Variable chash : langs -> N.                   (* compute_config_hash: [languages] table -> hash value *)
Variable keyable : path -> bool.               (* the path has a cache key: it is valid UTF-8 (file_path.to_str());
                                                  the key is then the absolute path, i.e. the path itself here *)

(* process_file_with_cache for one file: (Success stats | nothing, cache afterwards) *)
Definition process (cfg : langs) (now : N) (es : list (path * centry)) (pf : path * file)
  : option (path * lstats) * list (path * centry) :=
  let (p, f) := pf in
  match lang_of cfg p with
  | None => (None, es)                                           (* Skipped: no / unknown extension *)
  | Some l =>
    let m := f_mtime f in
    let sz := csize (f_cid f) in
    let miss :=
      match truth l (f_cid f) with
      | None => (None, es)                                       (* Skipped: IgnoredByDirective *)
      | Some s => (Some (p, s), if keyable p && store_ok m now then set_key p (mkCE (f_cid f) s m sz) es else es)
      end in
    match (if keyable p then lookup p es else None) with
    | Some e => if metadata_matches e m sz then (Some (p, ce_stats e), es) else miss
    | None => miss
    end
  end.

Fixpoint process_all (cfg : langs) (now : N) (es : list (path * centry)) (fs : list (path * file))
  : list (path * lstats) * list (path * centry) :=
  match fs with
  | [] => ([], es)
  | pf :: tl =>
    let (o, es1) := process cfg now es pf in
    let (os, es2) := process_all cfg now es1 tl in
    (match o with Some x => x :: os | None => os end, es2)
  end.

Definition in_scope (excl : list path) (pf : path * file) : bool := negb (existsb (path_eqb (fst pf)) excl).

(* one invocation with the cache enabled: output and the world afterwards (the cache is saved
   whether or not one could be loaded) *)
Definition run_cached (w : world) (excl : list path) (now : N) : list (path * lstats) * world :=
  let es0 := match load_cache (w_cache w) (chash (w_cfg w)) with Some es => es | None => [] end in
  let (out, es') := process_all (w_cfg w) now es0 (filter (in_scope excl) (w_files w)) in
  (out, mkW (w_files w) (w_cfg w) (CValid CACHE_VERSION (Some (chash (w_cfg w))) es')).

(* the same invocation with --no-sloc-cache: fresh in-memory cache, nothing loaded, nothing saved *)
Definition run_uncached (w : world) (excl : list path) (now : N) : list (path * lstats) :=
  fst (process_all (w_cfg w) now [] (filter (in_scope excl) (w_files w))).

(* ---------------------------------------------------------------- histories *)
Inductive cmd := Check | StatsSummary | StatsFiles | Snapshot.
Inductive corruption :=
| KGarbage              (* truncated, garbage, 0 bytes: anything that does not parse *)
| KVersion (v : N)      (* same file with another version number *)
| KBadHash              (* same file with a config_hash that is no configuration's hash *)
| KRemove               (* file deleted *)
| KForge (p : path) (s : lstats)   (* edited in place and still well-formed: the statistics of p's entry replaced *)
| KForeign (v : N) (p : path) (s : lstats).  (* the file of another release: version v, p's entry with the
                                                statistics that release computed (other semantics) *)

Inductive op :=
| Write (p : path) (c : N) (t : N)     (* create or overwrite p with content c at wall-clock second t *)
| Delete (p : path)
| Rename (p q : path)                  (* mv p q: q gets p's content and mtime *)
| Copy (p q : path)                    (* q becomes another name for p's content and mtime: cp -p p q, or a
                                          symbolic link q -> p as fs::metadata / fs::read see it *)
| SetLanguages (c : langs)
| Corrupt (k : corruption)
| Run (k : cmd) (excl : list path) (t : N).

Definition corrupt (k : corruption) (cf : cache_file) : cache_file :=
  match k with
  | KGarbage => CCorrupt
  | KRemove => CAbsent
  | KVersion v => if N.eqb v CACHE_VERSION then cf else
                  match cf with CValid _ h es => CValid v h es | x => x end
  | KBadHash => match cf with CValid v _ es => CValid v None es | x => x end
  | KForge p s => match cf with
                  | CValid v h es =>
                      match lookup p es with
                      | Some e => CValid v h (set_key p (mkCE (ce_hash e) s (ce_mtime e) (ce_size e)) es)
                      | None => cf
                      end
                  | x => x
                  end
  | KForeign v p s => if N.eqb v CACHE_VERSION then cf else
                  match cf with
                  | CValid _ h es =>
                      match lookup p es with
                      | Some e => CValid v h (set_key p (mkCE (ce_hash e) s (ce_mtime e) (ce_size e)) es)
                      | None => CValid v h es
                      end
                  | x => x
                  end
  end.

(* the world after an operation, and for a Run the pair (output with cache, output without) *)
Definition step (w : world) (o : op) : world * option (list (path * lstats) * list (path * lstats)) :=
  match o with
  | Write p c t => (mkW (set_key p (mkFile c t) (w_files w)) (w_cfg w) (w_cache w), None)
  | Delete p => (mkW (remove_key p (w_files w)) (w_cfg w) (w_cache w), None)
  | Rename p q =>
      match lookup p (w_files w) with
      | None => (w, None)
      | Some f => (mkW (set_key q f (remove_key p (w_files w))) (w_cfg w) (w_cache w), None)
      end
  | Copy p q =>
      match lookup p (w_files w) with
      | None => (w, None)
      | Some f => (mkW (set_key q f (w_files w)) (w_cfg w) (w_cache w), None)
      end
  | SetLanguages c => (mkW (w_files w) c (w_cache w), None)
  | Corrupt k => (mkW (w_files w) (w_cfg w) (corrupt k (w_cache w)), None)
  | Run _ excl t => let (out, w') := run_cached w excl t in (w', Some (out, run_uncached w excl t))
  end.

Fixpoint exec (w : world) (h : list op) : world * list (list (path * lstats) * list (path * lstats)) :=
  match h with
  | [] => (w, [])
  | o :: tl =>
    let (w1, r) := step w o in
    let (w2, rs) := exec w1 tl in
    (w2, match r with Some x => x :: rs | None => rs end)
  end.

(* ---------------------------------------------------------------- executable classifiers *)
Definition raw_entries (cf : cache_file) : list (path * centry) :=
  match cf with CValid _ _ es => es | _ => [] end.

(* does installing content c with mtime m at path p collide with p's cache entry: same mtime
   second, same size, other content *)
Definition collides (w : world) (p : path) (c m : N) : bool :=
  match lookup p (raw_entries (w_cache w)) with
  | Some e => metadata_matches e m (csize c) && negb (N.eqb (ce_hash e) c)
  | None => false
  end.

(* D13: a rewrite that keeps the size, within the mtime second of the cached entry *)
Definition racy_write (w : world) (o : op) : bool :=
  match o with Write p c t => collides w p c t | _ => false end.
(* a rename (or copy / link) that puts, at a cached path, another file with the same mtime second
   and size *)
Definition racy_rename (w : world) (o : op) : bool :=
  match o with
  | Rename p q | Copy p q => match lookup p (w_files w) with Some f => collides w q (f_cid f) (f_mtime f) | None => false end
  | _ => false
  end.

Fixpoint any_along (bad : world -> op -> bool) (w : world) (h : list op) : bool :=
  match h with [] => false | o :: tl => bad w o || any_along bad (fst (step w o)) tl end.

(* a well-formed in-place edit of the cache file: nothing in the file lets the loader notice *)
Definition forgery (w : world) (o : op) : bool :=
  match o with Corrupt (KForge _ _) => true | _ => false end.
Definition has_forgery (h : list op) : bool := any_along forgery world0 h.
Definition has_racy_write (h : list op) : bool := any_along racy_write world0 h.
Definition has_racy_rename (h : list op) : bool := any_along racy_rename world0 h.

(* wall-clock values along the history never decrease *)
Definition op_time (o : op) : option N :=
  match o with Write _ _ t => Some t | Run _ _ t => Some t | _ => None end.
Fixpoint monotone_from (last : N) (h : list op) : bool :=
  match h with
  | [] => true
  | o :: tl => match op_time o with
               | Some t => (last <=? t) && monotone_from t tl
               | None => monotone_from last tl
               end
  end.
Definition monotone_clock (h : list op) : bool := monotone_from 0 h.

Definition outs_equal (r : list (path * lstats) * list (path * lstats)) : bool :=
  (fix eq (a b : list (path * lstats)) : bool :=
     match a, b with
     | [], [] => true
     | (p, s) :: a', (q, u) :: b' => path_eqb p q && lstats_eqb s u && eq a' b'
     | _, _ => false
     end) (fst r) (snd r).
Definition transparent (h : list op) : bool := forallb outs_equal (snd (exec world0 h)).

End WithOracles.
