(* Specification vocabulary for C05, written from the property text (no reference to how the
   checker computes things). *)
From Coq Require Import NArith List Bool.
From SG Require Import Threshold.Float64 Threshold.Model.
Import ListNotations.
Open Scope N_scope.

(* effective count: code lines, plus comment and/or blank lines when configured to count them,
   never ignored lines *)
Definition effective_count (s : line_stats) (skip_comments skip_blank : bool) : N :=
  ls_code s + (if skip_comments then 0 else ls_comment s) + (if skip_blank then 0 else ls_blank s).

(* verdicts ordered by severity *)
Definition sev (s : status) : N :=
  match s with Passed => 0 | Warning => 1 | Failed => 2 end.

(* a warn point is either absolute or a percentage (binary64 bits) of the limit *)
Inductive warn_spec := WAbs (w : N) | WPct (t : N).

Definition warn_point_of (ws : warn_spec) (limit : N) : N :=
  match ws with WAbs w => w | WPct t => pct_point limit t end.

(* i is the last declared rule whose pattern matches: it matches and no later one does *)
Definition is_last_match (mv : list bool) (i : N) : Prop :=
  nth_N mv i = Some true /\ forall j, i < j -> nth_N mv j <> Some true.

Definition no_match (mv : list bool) : Prop := forall j, nth_N mv j <> Some true.

(* the four-level precedence, as a function of the selected rule (if any) and the globals *)
Definition warn_spec_of (sel : option crule) (g_wa : option N) (g_wt : N) : warn_spec :=
  match sel with
  | Some r =>
      match cr_wa r, cr_wt r with
      | Some w, _ => WAbs w
      | None, Some t => WPct t
      | None, None => match g_wa with Some w => WAbs w | None => WPct g_wt end
      end
  | None => match g_wa with Some w => WAbs w | None => WPct g_wt end
  end.

Definition opt_or {A} (o : option A) (d : A) : A := match o with Some x => x | None => d end.
