(* binary64 arithmetic used by the threshold checker, on Coq.Floats.SpecFloat (axiom-free).
   Mirrors, for Rust:   (n as f64 * t).ceil() as usize
   - n as f64           : usize -> f64, round to nearest even  (f64_of_usize)
   - *                  : IEEE 754 binary64 product            (SFmul 53 1024)
   - .ceil() as usize   : exact ceiling, then the saturating float-to-int cast:
                          NaN -> 0, negative -> 0, above usize::MAX -> usize::MAX  (ceil_to_usize)
   Thresholds travel as the 64 bits of f64::to_bits. *)
From Coq Require Import ZArith NArith Bool SpecFloat.
Open Scope N_scope.

Definition f64_prec : Z := 53%Z.
Definition f64_emax : Z := 1024%Z.
Definition usize_max : N := 18446744073709551615.

(* decode the low 64 bits of b as a binary64 value *)
Definition f64_of_bits (b : N) : spec_float :=
  let s := N.testbit b 63 in
  let e := N.land (N.shiftr b 52) 2047 in
  let m := N.land b 4503599627370495 in
  if N.eqb e 0 then
    match m with
    | N0 => S754_zero s
    | Npos p => S754_finite s p (-1074)
    end
  else if N.eqb e 2047 then
    match m with
    | N0 => S754_infinity s
    | Npos _ => S754_nan
    end
  else
    match m + 4503599627370496 with
    | N0 => S754_zero s
    | Npos p => S754_finite s p (Z.of_N e - 1075)
    end.

(* usize as f64 *)
Definition f64_of_usize (n : N) : spec_float :=
  binary_normalize f64_prec f64_emax (Z.of_N n) 0 false.

Definition f64_mul (x y : spec_float) : spec_float := SFmul f64_prec f64_emax x y.

(* x.ceil() as usize *)
Definition ceil_to_usize (x : spec_float) : N :=
  match x with
  | S754_finite false m e =>
      let v := match e with
               | Z0 => Npos m
               | Zpos k => N.shiftl (Npos m) (Npos k)
               | Zneg k => let d := N.shiftl 1 (Npos k) in (Npos m + d - 1) / d
               end in
      N.min usize_max v
  | S754_infinity false => usize_max
  | _ => 0
  end.

(* (limit as f64 * t).ceil() as usize, t given by its bits *)
Definition pct_point (limit tbits : N) : N :=
  ceil_to_usize (f64_mul (f64_of_usize limit) (f64_of_bits tbits)).

(* total order test on non-NaN values, used only by classifiers: t is a finite value in [0,1] *)
Definition f64_is_nan (b : N) : bool :=
  match f64_of_bits b with S754_nan => true | _ => false end.

(* (0.0..=1.0).contains(&t) decided on the bits: the non-negative values up to 1.0 have the bit patterns
   0 .. 0x3FF0000000000000 (order-preserving); -0.0 compares equal to 0.0; NaNs and all other negative
   values lie outside *)
Definition f64_in_unit (b : N) : bool :=
  (b <=? 4607182418800017408) || (b =? 9223372036854775808).
