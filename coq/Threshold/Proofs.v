(* Lemmas for C05 (axiom-free part). *)
From Coq Require Import NArith List Bool Lia ZifyBool ZifyN.
From SG Require Import Threshold.Float64 Threshold.Model Threshold.Spec.
Import ListNotations.
Open Scope N_scope.
Arguments N.add : simpl never.
Arguments N.sub : simpl never.
Arguments N.eqb : simpl never.
Arguments N.ltb : simpl never.
Arguments N.leb : simpl never.

(* ---------------------------------------------------------------- trichotomy *)

Lemma verdict_failed : forall c lim w, verdict c lim w = Failed <-> lim < c.
Proof.
  intros c lim w. unfold verdict.
  destruct (lim <? c) eqn:E1; [|destruct (w <=? c) eqn:E2]; split; intro H; try discriminate; try reflexivity; lia.
Qed.

Lemma verdict_warning : forall c lim w, verdict c lim w = Warning <-> w <= c /\ c <= lim.
Proof.
  intros c lim w. unfold verdict.
  destruct (lim <? c) eqn:E1; [|destruct (w <=? c) eqn:E2]; split; intro H; try discriminate; try reflexivity; lia.
Qed.

Lemma verdict_passed : forall c lim w, verdict c lim w = Passed <-> c <= lim /\ c < w.
Proof.
  intros c lim w. unfold verdict.
  destruct (lim <? c) eqn:E1; [|destruct (w <=? c) eqn:E2]; split; intro H; try discriminate; try reflexivity; lia.
Qed.

Lemma verdict_passed_otherwise : forall c lim w,
  verdict c lim w = Passed <-> ~ lim < c /\ ~ (w <= c /\ c <= lim).
Proof. intros. rewrite verdict_passed. lia. Qed.

(* ---------------------------------------------------------------- monotonicity *)

Lemma sev_verdict : forall c lim w,
  sev (verdict c lim w) = if lim <? c then 2 else if w <=? c then 1 else 0.
Proof. intros. unfold verdict. destruct (lim <? c); [reflexivity|]. destruct (w <=? c); reflexivity. Qed.

Lemma monotone_count : forall c c' lim w, c <= c' -> sev (verdict c lim w) <= sev (verdict c' lim w).
Proof.
  intros. rewrite !sev_verdict.
  destruct (lim <? c) eqn:A; destruct (lim <? c') eqn:B; destruct (w <=? c) eqn:C; destruct (w <=? c') eqn:D; lia.
Qed.

(* raising the limit and not lowering the warn point never worsens the verdict *)
Lemma monotone_limit_gen : forall c lim lim' w w',
  lim <= lim' -> w <= w' -> sev (verdict c lim' w') <= sev (verdict c lim w).
Proof.
  intros. rewrite !sev_verdict.
  destruct (lim <? c) eqn:A; destruct (lim' <? c) eqn:B; destruct (w <=? c) eqn:C; destruct (w' <=? c) eqn:D; lia.
Qed.

Lemma monotone_limit_absolute : forall c lim lim' w,
  lim <= lim' -> sev (verdict c lim' (warn_point_of (WAbs w) lim')) <= sev (verdict c lim (warn_point_of (WAbs w) lim)).
Proof. intros. cbn [warn_point_of]. apply monotone_limit_gen; lia. Qed.

(* whatever the warn points, a file that does not fail under a limit does not fail under a larger one *)
Lemma monotone_limit_failed : forall c lim lim' w w',
  lim <= lim' -> verdict c lim' w' = Failed -> verdict c lim w = Failed.
Proof. intros c lim lim' w w' H. rewrite !verdict_failed. lia. Qed.

(* ---------------------------------------------------------------- effective count *)

Lemma effective_count_formula : forall s sc sb,
  sloc (compute_effective_stats s sc sb) = effective_count s sc sb.
Proof. intros [t c m b i] [|] [|]; unfold effective_count; cbn; lia. Qed.

Lemma effective_keeps_total_ignored : forall s sc sb,
  ls_total (compute_effective_stats s sc sb) = ls_total s /\
  ls_ignored (compute_effective_stats s sc sb) = ls_ignored s.
Proof. intros [t c m b i] [|] [|]; cbn; auto. Qed.

(* ---------------------------------------------------------------- last match *)

Lemma last_opt_some : forall A (l : list A) (y : A), exists z, last_opt (y :: l) = Some z.
Proof.
  induction l as [|a l IH]; intro y.
  - exists y. reflexivity.
  - destruct (IH a) as [z Hz]. exists z. exact Hz.
Qed.

Lemma last_opt_cons : forall A (x : A) l,
  last_opt (x :: l) = match last_opt l with Some y => Some y | None => Some x end.
Proof.
  intros A x [|y l]; [reflexivity|].
  destruct (last_opt_some A l y) as [z Hz]. rewrite Hz. exact Hz.
Qed.

Lemma last_matches_from : forall mv i,
  match last_opt (matches_from i mv) with
  | Some k => i <= k /\ nth_error mv (N.to_nat (k - i)) = Some true /\
              forall j, k < j -> nth_error mv (N.to_nat (j - i)) <> Some true
  | None => forall j, i <= j -> nth_error mv (N.to_nat (j - i)) <> Some true
  end.
Proof.
  induction mv as [|b bs IH]; intro i.
  - cbn. intros j _. destruct (N.to_nat (j - i)); discriminate.
  - specialize (IH (i + 1)). cbn [matches_from].
    assert (STEP : forall j, i < j -> nth_error (b :: bs) (N.to_nat (j - i)) = nth_error bs (N.to_nat (j - (i + 1)))).
    { intros j Hj. replace (N.to_nat (j - i)) with (S (N.to_nat (j - (i + 1)))) by lia. reflexivity. }
    assert (ZERO : nth_error (b :: bs) (N.to_nat (i - i)) = Some b).
    { replace (N.to_nat (i - i)) with 0%nat by lia. reflexivity. }
    destruct b.
    + rewrite last_opt_cons. destruct (last_opt (matches_from (i + 1) bs)) as [k|].
      * destruct IH as (Hk & Hn & Hl). split; [lia|]. split.
        { rewrite STEP by lia. exact Hn. }
        { intros j Hj. rewrite STEP by lia. apply Hl. exact Hj. }
      * split; [lia|]. split; [exact ZERO|].
        intros j Hj. rewrite STEP by lia. apply IH. lia.
    + destruct (last_opt (matches_from (i + 1) bs)) as [k|].
      * destruct IH as (Hk & Hn & Hl). split; [lia|]. split.
        { rewrite STEP by lia. exact Hn. }
        { intros j Hj. rewrite STEP by lia. apply Hl. exact Hj. }
      * intros j Hj. destruct (N.eq_dec j i) as [->|Hne].
        { rewrite ZERO. discriminate. }
        { rewrite STEP by lia. apply IH. lia. }
Qed.

Lemma last_match_char : forall mv,
  match last_opt (matches mv) with
  | Some k => is_last_match mv k
  | None => no_match mv
  end.
Proof.
  intro mv. unfold matches. pose proof (last_matches_from mv 0) as H.
  destruct (last_opt (matches_from 0 mv)) as [k|].
  - destruct H as (_ & Hn & Hl). unfold is_last_match, nth_N. rewrite N.sub_0_r in Hn. split; [exact Hn|].
    intros j Hj. specialize (Hl j Hj). rewrite N.sub_0_r in Hl. exact Hl.
  - intros j. unfold nth_N. specialize (H j). rewrite N.sub_0_r in H. apply H. lia.
Qed.

Lemma is_last_match_unique : forall mv i j, is_last_match mv i -> is_last_match mv j -> i = j.
Proof.
  intros mv i j [Hi Li] [Hj Lj].
  destruct (N.lt_trichotomy i j) as [H|[H|H]]; [|exact H|].
  - exfalso. exact (Li j H Hj).
  - exfalso. exact (Lj i H Hi).
Qed.

Lemma last_match_iff : forall mv i, last_opt (matches mv) = Some i <-> is_last_match mv i.
Proof.
  intros mv i. pose proof (last_match_char mv) as H. destruct (last_opt (matches mv)) as [k|].
  - split; [intros [= ->]; exact H|]. intro Hi. f_equal. exact (is_last_match_unique _ _ _ H Hi).
  - split; [discriminate|]. intros [Hi _]. exfalso. exact (H i Hi).
Qed.

Lemma no_match_iff : forall mv, last_opt (matches mv) = None <-> no_match mv.
Proof.
  intros mv. pose proof (last_match_char mv) as H. destruct (last_opt (matches mv)) as [k|].
  - split; [discriminate|]. intro Hn. exfalso. destruct H as [Hk _]. exact (Hn k Hk).
  - split; auto.
Qed.

Lemma selected_some_iff : forall ck mv i r,
  selected ck mv = Some (i, r) <-> is_last_match mv i /\ nth_N (ck_rules ck) i = Some r.
Proof.
  intros ck mv i r. unfold selected. split.
  - destruct (last_opt (matches mv)) as [k|] eqn:L; [|discriminate].
    destruct (nth_N (ck_rules ck) k) as [r'|] eqn:E; [|discriminate].
    intros [= -> ->]. split; [apply last_match_iff; exact L|exact E].
  - intros [Hl Hn]. apply last_match_iff in Hl. rewrite Hl, Hn. reflexivity.
Qed.

Lemma nth_N_in_range : forall A B (l : list A) (l' : list B) i x,
  length l = length l' -> nth_N l i = Some x -> exists y, nth_N l' i = Some y.
Proof.
  unfold nth_N. intros A B l l' i x Hlen Hx.
  assert (Hlt : (N.to_nat i < length l)%nat) by (apply nth_error_Some; rewrite Hx; discriminate).
  rewrite Hlen in Hlt. apply nth_error_Some in Hlt.
  destruct (nth_error l' (N.to_nat i)) as [y|]; [eauto|contradiction].
Qed.

Lemma selected_none_iff : forall ck mv,
  length mv = length (ck_rules ck) -> (selected ck mv = None <-> no_match mv).
Proof.
  intros ck mv Hlen. unfold selected. split.
  - destruct (last_opt (matches mv)) as [k|] eqn:L.
    + apply last_match_iff in L. destruct L as [Hk _].
      destruct (nth_N_in_range _ _ mv (ck_rules ck) k true Hlen Hk) as [r Hr]. rewrite Hr. discriminate.
    + intros _. apply no_match_iff. exact L.
  - intro Hn. apply no_match_iff in Hn. rewrite Hn. reflexivity.
Qed.

(* rule compilation keeps declaration order *)
Lemma compiled_in_order : forall cfg i,
  nth_N (ck_rules (new_checker cfg)) i = option_map compile_rule (nth_N (c_rules cfg) i).
Proof.
  intros cfg i. unfold nth_N, new_checker, build_path_rules. cbn [ck_rules].
  generalize (N.to_nat i) as n. induction (c_rules cfg) as [|r rs IH]; intros [|n]; cbn; auto.
Qed.

Lemma compiled_length : forall cfg, length (ck_rules (new_checker cfg)) = length (c_rules cfg).
Proof. intros. unfold new_checker, build_path_rules. cbn. apply map_length. Qed.

(* ---------------------------------------------------------------- precedence *)

Definition sel_rule (ck : checker) (mv : list bool) : option crule := option_map snd (selected ck mv).

Lemma limit_for_spec : forall ck mv,
  limit_for ck mv = match sel_rule ck mv with
                    | Some r => (cr_max r, cr_reason r)
                    | None => (c_max (ck_config ck), None)
                    end.
Proof. intros. unfold limit_for, sel_rule. destruct (selected ck mv) as [[i r]|]; reflexivity. Qed.

Lemma skip_settings_spec : forall ck mv,
  skip_settings_for ck mv =
  match sel_rule ck mv with
  | Some r => (opt_or (cr_sc r) (c_sc (ck_config ck)), opt_or (cr_sb r) (c_sb (ck_config ck)))
  | None => (c_sc (ck_config ck), c_sb (ck_config ck))
  end.
Proof. intros. unfold skip_settings_for, sel_rule, opt_or. destruct (selected ck mv) as [[i r]|]; reflexivity. Qed.

(* the warn point check uses is the four-level warn spec applied to the effective limit *)
Lemma warn_limit_spec : forall ck mv,
  warn_limit_for ck mv (fst (limit_for ck mv)) =
  warn_point_of (warn_spec_of (sel_rule ck mv) (c_wa (ck_config ck)) (ck_wt ck)) (fst (limit_for ck mv)).
Proof.
  intros. unfold warn_limit_for, warn_limit_with_source, limit_for, sel_rule, warn_spec_of, global_warn.
  destruct (selected ck mv) as [[i r]|]; cbn [option_map snd fst].
  - destruct (cr_wa r); [reflexivity|]. destruct (cr_wt r); [reflexivity|].
    destruct (c_wa (ck_config ck)); reflexivity.
  - destruct (c_wa (ck_config ck)); reflexivity.
Qed.

Lemma warn_source_cases : forall ck mv lim,
  warn_limit_with_source ck mv lim =
  match selected ck mv with
  | Some (i, r) =>
      match cr_wa r, cr_wt r, c_wa (ck_config ck) with
      | Some w, _, _ => (w, RuleAbsolute i)
      | None, Some t, _ => (pct_point (cr_max r) t, RulePercentage i t)
      | None, None, Some w => (w, GlobalAbsolute)
      | None, None, None => (pct_point lim (ck_wt ck), GlobalPercentage (ck_wt ck))
      end
  | None =>
      match c_wa (ck_config ck) with
      | Some w => (w, GlobalAbsolute)
      | None => (pct_point lim (ck_wt ck), GlobalPercentage (ck_wt ck))
      end
  end.
Proof.
  intros. unfold warn_limit_with_source, global_warn.
  destruct (selected ck mv) as [[i r]|]; [|reflexivity].
  destruct (cr_wa r); [reflexivity|]. destruct (cr_wt r); reflexivity.
Qed.

(* ---------------------------------------------------------------- check = verdict of the effective count *)

Lemma process_for_check_spec : forall ck mv stats,
  let r := process_for_check ck mv stats in
  let lim := fst (limit_for ck mv) in
  let sk := skip_settings_for ck mv in
  res_status r = verdict (effective_count stats (fst sk) (snd sk)) lim (warn_limit_for ck mv lim) /\
  res_limit r = lim /\ res_reason r = snd (limit_for ck mv) /\
  res_raw r = Some stats /\ res_stats r = compute_effective_stats stats (fst sk) (snd sk).
Proof.
  intros. subst r lim sk. unfold process_for_check, check.
  destruct (skip_settings_for ck mv) as [sc sb]. destruct (limit_for ck mv) as [lim reason].
  cbn [fst snd res_status res_limit res_reason res_raw res_stats].
  rewrite effective_count_formula. auto.
Qed.

Lemma ignored_never_counted : forall ck mv t c m b i t' i',
  res_status (process_for_check ck mv (mk_stats t c m b i)) = res_status (process_for_check ck mv (mk_stats t' c m b i')) /\
  res_limit (process_for_check ck mv (mk_stats t c m b i)) = res_limit (process_for_check ck mv (mk_stats t' c m b i')).
Proof.
  intros. destruct (process_for_check_spec ck mv (mk_stats t c m b i)) as (S1 & L1 & _).
  destruct (process_for_check_spec ck mv (mk_stats t' c m b i')) as (S2 & L2 & _).
  rewrite S1, S2, L1, L2. split; reflexivity.
Qed.

(* ---------------------------------------------------------------- explain *)

Definition pat_at (pats : list rule) (i : N) : str :=
  match nth_N pats i with Some p => r_pattern p | None => [] end.

Lemma explain_loop_found : forall pats rules i mset lastm mr acc,
  fst (explain_loop pats rules i mset lastm true mr acc) = (true, mr).
Proof.
  induction rules as [|r rs IH]; intros; cbn [explain_loop]; [reflexivity|].
  cbn [negb andb orb]. apply IH.
Qed.

Lemma explain_loop_notfound : forall pats rules i mset lastm mr acc,
  fst (explain_loop pats rules i mset lastm false mr acc) =
  match lastm with
  | Some k => if i <=? k then
                match nth_error rules (N.to_nat (k - i)) with
                | Some r => (true, MRule k (pat_at pats k) (cr_reason r))
                | None => (false, mr)
                end
              else (false, mr)
  | None => (false, mr)
  end.
Proof.
  induction rules as [|r rs IH]; intros i mset lastm mr acc.
  - cbn [explain_loop fst]. destruct lastm as [k|]; [|reflexivity].
    destruct (i <=? k); [|reflexivity]. destruct (N.to_nat (k - i)); reflexivity.
  - cbn [explain_loop]. cbn [negb andb orb]. destruct lastm as [k|]; cbn [opt_eqb].
    + destruct (N.eqb k i) eqn:E.
      * apply N.eqb_eq in E. subst k. rewrite explain_loop_found.
        rewrite N.leb_refl. replace (N.to_nat (i - i)) with 0%nat by lia. reflexivity.
      * apply N.eqb_neq in E. rewrite IH.
        destruct (i <=? k) eqn:L1; destruct (i + 1 <=? k) eqn:L2; try lia; [|reflexivity].
        replace (N.to_nat (k - i)) with (S (N.to_nat (k - (i + 1)))) by lia. reflexivity.
    + rewrite IH. reflexivity.
Qed.

Definition matched_of (ck : checker) (mv : list bool) : rule_match :=
  match selected ck mv with
  | Some (i, r) => MRule i (pat_at (c_rules (ck_config ck)) i) (cr_reason r)
  | None => MDefault
  end.

Lemma find_exclude_none_iff : forall ck ev, find_exclude ck ev = None <-> any_true ev = false.
Proof.
  intros ck ev. unfold find_exclude, matches, any_true. generalize 0 as i.
  induction ev as [|b bs IH]; intro i; cbn [matches_from existsb first_opt].
  - split; reflexivity.
  - destruct b; cbn [first_opt orb].
    + destruct (nth_N (c_exclude (ck_config ck)) i); split; discriminate.
    + apply IH.
Qed.

Lemma explain_not_excluded : forall ck ev mv,
  find_exclude ck ev = None ->
  let e := explain ck ev mv in
  ex_excluded e = false /\
  ex_matched e = matched_of ck mv /\
  ex_limit e = fst (limit_for ck mv) /\
  (ex_warn_at e, ex_source e) = warn_limit_with_source ck mv (fst (limit_for ck mv)) /\
  (ex_sc e, ex_sb e) = skip_settings_for ck mv /\
  ex_wt e = warn_threshold_for ck mv.
Proof.
  intros ck ev mv Hx e. subst e. unfold explain. rewrite Hx.
  pose proof (explain_loop_notfound (c_rules (ck_config ck)) (ck_rules ck) 0 (matches mv) (last_opt (matches mv)) MDefault []) as EL.
  destruct (explain_loop (c_rules (ck_config ck)) (ck_rules ck) 0 (matches mv) (last_opt (matches mv)) false MDefault [])
    as [[found mr] acc]. cbn [fst] in EL.
  destruct (skip_settings_for ck mv) as [sc sb].
  destruct (warn_limit_with_source ck mv (fst (limit_for ck mv))) as [wa src].
  cbn [ex_excluded ex_matched ex_limit ex_warn_at ex_source ex_sc ex_sb ex_wt].
  repeat split; try reflexivity.
  unfold matched_of, selected, nth_N.
  destruct (last_opt (matches mv)) as [k|].
  - cbn [N.leb] in EL. rewrite N.sub_0_r in EL.
    replace (0 <=? k) with true in EL by (symmetry; apply N.leb_le; lia).
    destruct (nth_error (ck_rules ck) (N.to_nat k)) as [r|]; inversion EL; reflexivity.
  - inversion EL; reflexivity.
Qed.

Lemma explain_excluded : forall ck ev mv p,
  find_exclude ck ev = Some p ->
  let e := explain ck ev mv in
  ex_excluded e = true /\ ex_matched e = MExcluded p /\ ex_limit e = 0 /\ ex_warn_at e = 0 /\ ex_chain e = [] /\
  forall ext, should_process ck ev mv ext = false.
Proof.
  intros ck ev mv p Hx e. subst e. unfold explain. rewrite Hx.
  destruct (skip_settings_for ck mv) as [sc sb]. cbn. repeat split; try reflexivity.
  intro ext. unfold should_process.
  destruct (any_true ev) eqn:A; [reflexivity|].
  apply (find_exclude_none_iff ck) in A. rewrite A in Hx. discriminate.
Qed.

(* explain's numbers reproduce check's result *)
Lemma explain_coherent : forall ck ev mv stats,
  find_exclude ck ev = None ->
  let e := explain ck ev mv in
  let r := process_for_check ck mv stats in
  res_limit r = ex_limit e /\
  res_status r = verdict (effective_count stats (ex_sc e) (ex_sb e)) (ex_limit e) (ex_warn_at e) /\
  res_stats r = compute_effective_stats stats (ex_sc e) (ex_sb e) /\
  res_reason r = match ex_matched e with MRule _ _ reason => reason | _ => None end /\
  match ex_matched e with
  | MRule i p _ => is_last_match mv i /\ p = pat_at (c_rules (ck_config ck)) i
  | MDefault => selected ck mv = None
  | MExcluded _ => False
  end.
Proof.
  intros ck ev mv stats Hx e r.
  destruct (explain_not_excluded ck ev mv Hx) as (_ & Hm & Hl & Hw & Hs & _). fold e in Hm, Hl, Hw, Hs.
  destruct (process_for_check_spec ck mv stats) as (Rs & Rl & Rr & _ & Rst). fold r in Rs, Rl, Rr, Rst.
  rewrite <- Hs in Rs, Rst. cbn [fst snd] in Rs, Rst.
  assert (Hw' : ex_warn_at e = warn_limit_for ck mv (fst (limit_for ck mv))).
  { unfold warn_limit_for. rewrite <- Hw. reflexivity. }
  rewrite Hl, Hw'. repeat split; auto.
  - rewrite Rr, Hm. unfold matched_of, limit_for. destruct (selected ck mv) as [[i cr]|]; reflexivity.
  - rewrite Hm. unfold matched_of. destruct (selected ck mv) as [[i cr]|] eqn:S; [|reflexivity].
    apply selected_some_iff in S. destruct S as [S _]. split; [exact S|reflexivity].
Qed.

(* ---------------------------------------------------------------- CLI overrides *)

Lemma check_checker_no_overrides : forall cfg, check_checker cfg no_overrides = new_checker cfg.
Proof. intros [exts mx wt wa sc sb ex rules]. reflexivity. Qed.

Lemma check_checker_fields : forall cfg a,
  let ck := check_checker cfg a in
  ck_rules ck = ck_rules (new_checker cfg) /\
  c_rules (ck_config ck) = c_rules cfg /\
  c_exclude (ck_config ck) = c_exclude cfg /\
  c_wa (ck_config ck) = c_wa cfg /\
  c_max (ck_config ck) = opt_or (cli_max_lines a) (c_max cfg) /\
  ck_wt ck = opt_or (cli_warn_threshold a) (c_wt cfg) /\
  c_wt (ck_config ck) = opt_or (cli_warn_threshold a) (c_wt cfg) /\
  c_sc (ck_config ck) = (if cli_count_comments a then false else c_sc cfg) /\
  c_sb (ck_config ck) = (if cli_count_blank a then false else c_sb cfg) /\
  c_exts (ck_config ck) = opt_or (cli_ext a) (c_exts cfg).
Proof.
  intros cfg [m cc cb wt ext]. cbn. unfold opt_or. destruct wt; repeat split; reflexivity.
Qed.

Lemma selected_only_rules : forall ck ck' mv, ck_rules ck = ck_rules ck' -> selected ck mv = selected ck' mv.
Proof. intros ck ck' mv H. unfold selected. rewrite H. reflexivity. Qed.

Lemma cli_selected_same : forall cfg a mv, selected (check_checker cfg a) mv = selected (new_checker cfg) mv.
Proof. intros. apply selected_only_rules. apply (check_checker_fields cfg a). Qed.

(* when a rule is selected: limit and reason are the rule's whatever the overrides; the warn point is
   the rule's when the rule has warn_at or warn_threshold; each skip flag is the rule's when the rule sets it *)
Lemma cli_rule_wins : forall cfg a mv i r,
  selected (new_checker cfg) mv = Some (i, r) ->
  limit_for (check_checker cfg a) mv = limit_for (new_checker cfg) mv /\
  (cr_wa r <> None \/ cr_wt r <> None ->
     forall lim lim', warn_limit_with_source (check_checker cfg a) mv lim = warn_limit_with_source (new_checker cfg) mv lim') /\
  (forall b, cr_sc r = Some b -> fst (skip_settings_for (check_checker cfg a) mv) = b) /\
  (forall b, cr_sb r = Some b -> snd (skip_settings_for (check_checker cfg a) mv) = b).
Proof.
  intros cfg a mv i r S.
  pose proof (cli_selected_same cfg a mv) as S'. rewrite S in S'.
  split; [|split; [|split]].
  - unfold limit_for. rewrite S, S'. reflexivity.
  - intros H lim lim'. rewrite !warn_source_cases, S, S'.
    destruct (cr_wa r); [reflexivity|]. destruct (cr_wt r); [reflexivity|]. destruct H; congruence.
  - intros b Hb. unfold skip_settings_for. rewrite S'. cbn [fst]. rewrite Hb. reflexivity.
  - intros b Hb. unfold skip_settings_for. rewrite S'. cbn [snd]. rewrite Hb. reflexivity.
Qed.

(* when no rule is selected the overridden globals are what check applies *)
Lemma cli_globals_apply : forall cfg a mv,
  selected (new_checker cfg) mv = None ->
  let ck := check_checker cfg a in
  limit_for ck mv = (opt_or (cli_max_lines a) (c_max cfg), None) /\
  skip_settings_for ck mv = ((if cli_count_comments a then false else c_sc cfg), (if cli_count_blank a then false else c_sb cfg)) /\
  forall lim, warn_limit_with_source ck mv lim =
              match c_wa cfg with
              | Some w => (w, GlobalAbsolute)
              | None => (pct_point lim (opt_or (cli_warn_threshold a) (c_wt cfg)),
                         GlobalPercentage (opt_or (cli_warn_threshold a) (c_wt cfg)))
              end.
Proof.
  intros cfg a mv S ck.
  pose proof (cli_selected_same cfg a mv) as S'. rewrite S in S'. fold ck in S'.
  destruct (check_checker_fields cfg a) as (_ & _ & _ & Hwa & Hmax & Hwt & _ & Hsc & Hsb & _). fold ck in Hwa, Hmax, Hwt, Hsc, Hsb.
  split; [|split].
  - unfold limit_for. rewrite S', Hmax. reflexivity.
  - unfold skip_settings_for. rewrite S', Hsc, Hsb. reflexivity.
  - intro lim. rewrite warn_source_cases, S', Hwa, Hwt. reflexivity.
Qed.

(* ---------------------------------------------------------------- validated configurations *)

Lemma nth_N_In : forall A (l : list A) i x, nth_N l i = Some x -> In x l.
Proof. unfold nth_N. intros A l i x H. exact (nth_error_In l (N.to_nat i) H). Qed.

(* in a configuration that passed validation every absolute warn point check can select lies strictly below
   the limit it is paired with when both come from the same level (rule/rule or global/global) *)
Lemma validated_selected_rule : forall cfg mv i r,
  validate_content cfg = true -> selected (new_checker cfg) mv = Some (i, r) ->
  exists r0, In r0 (c_rules cfg) /\ r = compile_rule r0 /\ rule_ok r0 = true.
Proof.
  intros cfg mv i r V S. unfold validate_content in V.
  apply andb_prop in V. destruct V as [_ Vr].
  apply selected_some_iff in S. destruct S as [_ Hn].
  rewrite compiled_in_order in Hn. destruct (nth_N (c_rules cfg) i) as [r0|] eqn:E; [|discriminate].
  cbn in Hn. injection Hn as <-. apply nth_N_In in E. exists r0. split; [exact E|]. split; [reflexivity|].
  rewrite forallb_forall in Vr. exact (Vr r0 E).
Qed.

Lemma validated_warn_at : forall cfg mv,
  validate_content cfg = true ->
  (forall i r w, selected (new_checker cfg) mv = Some (i, r) -> cr_wa r = Some w -> w < cr_max r) /\
  (forall w, c_wa cfg = Some w -> w < c_max cfg).
Proof.
  intros cfg mv V. split.
  - intros i r w S Hw. destruct (validated_selected_rule cfg mv i r V S) as (r0 & _ & -> & Ok).
    unfold rule_ok in Ok. apply andb_prop in Ok. destruct Ok as [Ok _].
    cbn [compile_rule cr_wa cr_max] in *. unfold warn_at_ok in Ok. rewrite Hw in Ok. lia.
  - intros w Hw. unfold validate_content in V.
    apply andb_prop in V. destruct V as [V _]. apply andb_prop in V. destruct V as [_ Vg].
    unfold warn_at_ok in Vg. rewrite Hw in Vg. lia.
Qed.

(* and every threshold check can use, rule-level or global, is a value in [0,1]; so is the threshold explain shows *)
Lemma validated_thresholds : forall cfg mv,
  validate_content cfg = true ->
  (forall i r t, selected (new_checker cfg) mv = Some (i, r) -> cr_wt r = Some t -> f64_in_unit t = true) /\
  f64_in_unit (c_wt cfg) = true /\
  f64_in_unit (warn_threshold_for (new_checker cfg) mv) = true.
Proof.
  intros cfg mv V.
  assert (G : f64_in_unit (c_wt cfg) = true).
  { unfold validate_content in V. apply andb_prop in V. destruct V as [V _]. apply andb_prop in V. tauto. }
  assert (R : forall i r t, selected (new_checker cfg) mv = Some (i, r) -> cr_wt r = Some t -> f64_in_unit t = true).
  { intros i r t S Ht. destruct (validated_selected_rule cfg mv i r V S) as (r0 & _ & -> & Ok).
    unfold rule_ok in Ok. apply andb_prop in Ok. destruct Ok as [_ Ok].
    cbn [compile_rule cr_wt] in Ht. unfold threshold_ok in Ok. rewrite Ht in Ok. exact Ok. }
  split; [exact R|]. split; [exact G|].
  unfold warn_threshold_for. destruct (selected (new_checker cfg) mv) as [[i r]|] eqn:S; [|exact G].
  destruct (cr_wt r) as [t|] eqn:Ht; [exact (R i r t eq_refl Ht)|exact G].
Qed.

(* a NaN, a negative value or a value above 1 is not in the unit interval (bit-level sanity of f64_in_unit) *)
Lemma in_unit_not_nan : forall b, b < 18446744073709551616 -> f64_in_unit b = true -> f64_is_nan b = false.
Proof.
  intros b Hb H. unfold f64_in_unit in H. apply orb_prop in H. destruct H as [H|H].
  - unfold f64_is_nan, f64_of_bits.
    assert (E : N.land (N.shiftr b 52) 2047 <= 1023).
    { change 2047 with (N.ones 11). rewrite N.land_ones, N.shiftr_div_pow2.
      assert (b / 2 ^ 52 <= 1023).
      { change 1023 with (4607182418800017408 / 2 ^ 52). apply N.div_le_mono; [discriminate|lia]. }
      rewrite N.mod_small; [assumption|]. change (2 ^ 11) with 2048. lia. }
    destruct (N.land (N.shiftr b 52) 2047 =? 0) eqn:E0.
    + destruct (N.land b 4503599627370495); reflexivity.
    + destruct (N.land (N.shiftr b 52) 2047 =? 2047) eqn:E1; [lia|].
      destruct (N.land b 4503599627370495 + 4503599627370496); reflexivity.
  - apply N.eqb_eq in H. subst b. reflexivity.
Qed.

(* ---------------------------------------------------------------- the check command *)

Lemma check_checker_is_new : forall cfg a, check_checker cfg a = new_checker (apply_cli_overrides cfg a).
Proof. intros cfg [m cc cb [t|] ext]; reflexivity. Qed.

(* whenever check evaluates a file, both the configuration file and the overridden configuration passed
   validation, so the validated facts hold for the checker check really uses *)
Lemma check_file_evaluated : forall cfg a ev mv ext stats r,
  check_file cfg a ev mv ext stats = Evaluated r ->
  validate_content cfg = true /\ validate_content (apply_cli_overrides cfg a) = true /\
  should_process (check_checker cfg a) ev mv ext = true /\
  r = process_for_check (check_checker cfg a) mv stats.
Proof.
  intros cfg a ev mv ext stats r. unfold check_file.
  destruct (validate_content cfg); cbn [negb]; [|discriminate].
  destruct (validate_content (apply_cli_overrides cfg a)); cbn [negb]; [|discriminate].
  destruct (should_process (check_checker cfg a) ev mv ext); [|discriminate].
  intros [= <-]. auto.
Qed.

Lemma check_file_overrides_validated : forall cfg a ev mv ext stats r,
  check_file cfg a ev mv ext stats = Evaluated r ->
  let ck := check_checker cfg a in
  (forall i cr w, selected ck mv = Some (i, cr) -> cr_wa cr = Some w -> w < cr_max cr) /\
  (forall w, c_wa cfg = Some w -> w < opt_or (cli_max_lines a) (c_max cfg)) /\
  f64_in_unit (ck_wt ck) = true /\
  f64_in_unit (warn_threshold_for ck mv) = true.
Proof.
  intros cfg a ev mv ext stats r H ck.
  destruct (check_file_evaluated _ _ _ _ _ _ _ H) as (_ & V & _ & _).
  subst ck. rewrite check_checker_is_new.
  destruct (validated_warn_at _ mv V) as [W1 W2]. destruct (validated_thresholds _ mv V) as (_ & T2 & T3).
  split; [exact W1|]. split; [|split; [exact T2|exact T3]].
  intros w Hw. specialize (W2 w). destruct a as [m cc cb t e]. cbn in W2 |- *. unfold opt_or.
  apply W2. exact Hw.
Qed.

(* an override that breaks a constraint is a configuration error, never a verdict *)
Lemma check_file_config_error : forall cfg a ev mv ext stats,
  check_file cfg a ev mv ext stats = ConfigError <->
  validate_content cfg = false \/ validate_content (apply_cli_overrides cfg a) = false.
Proof.
  intros. unfold check_file.
  destruct (validate_content cfg); cbn [negb].
  - destruct (validate_content (apply_cli_overrides cfg a)); cbn [negb].
    + destruct (should_process _ _ _ _); split; try discriminate; intros [H|H]; discriminate.
    + split; auto.
  - split; auto.
Qed.

(* without overrides, whenever both commands answer, they use the same checker: explain_file is Some iff check is not a config error *)
Lemma commands_agree_on_validity : forall cfg ev mv ext stats,
  (check_file cfg no_overrides ev mv ext stats = ConfigError <-> explain_file cfg ev mv = None).
Proof.
  intros cfg ev mv ext stats. rewrite check_file_config_error. unfold explain_file.
  assert (E : apply_cli_overrides cfg no_overrides = cfg) by (destruct cfg; reflexivity).
  rewrite E. destruct (validate_content cfg); split; try discriminate; auto. intros [H|H]; discriminate.
Qed.
