(* C05 -- monotonicity of the verdict in the limit when the warn point is a percentage.
   These theorems go through Flocq (Bmult_correct, binary_normalize_correct, round_le) and inherit the
   classical real-number axioms of the standard library; everything else of C05 is in
   Properties_C05.v and is closed under the global context.
   The hypothesis lim' <= usize_max is the range of the Rust type of limits (usize on a 64-bit target). *)
From Coq Require Import NArith.
From SG Require Import Threshold.Float64 Threshold.Model Threshold.Spec Threshold.Proofs Threshold.ProofsFlocq.
Open Scope N_scope.

(* the rounded product, its ceiling and the saturating cast are monotone in the limit, for every
   threshold bit pattern (NaN, infinities, negative and subnormal values included) *)
Theorem C05_pct_point_monotone_in_limit : forall l l' t,
  l <= l' -> l' <= usize_max -> pct_point l t <= pct_point l' t.
Proof. exact pct_point_monotone. Qed.
Print Assumptions C05_pct_point_monotone_in_limit.

Theorem C05_monotone_limit_percentage : forall c lim lim' t,
  lim <= lim' -> lim' <= usize_max ->
  sev (verdict c lim' (warn_point_of (WPct t) lim')) <= sev (verdict c lim (warn_point_of (WPct t) lim)).
Proof. exact monotone_limit_percentage. Qed.
Print Assumptions C05_monotone_limit_percentage.

(* both kinds of warn point: raising the limit never worsens the verdict *)
Theorem C05_monotone_limit : forall c lim lim' ws,
  lim <= lim' -> lim' <= usize_max ->
  sev (verdict c lim' (warn_point_of ws lim')) <= sev (verdict c lim (warn_point_of ws lim)).
Proof. exact monotone_limit_any. Qed.
Print Assumptions C05_monotone_limit.

(* not vacuous: the percentage warn point really moves with the limit, and the verdict with it *)
Example C05_example_percentage_moves :
  pct_point 10 4602678819172646912 = 5 /\ pct_point 20 4602678819172646912 = 10 /\
  sev (verdict 7 20 (warn_point_of (WPct 4602678819172646912) 20)) < sev (verdict 7 10 (warn_point_of (WPct 4602678819172646912) 10)).
Proof. vm_compute. repeat split. Qed.
Print Assumptions C05_example_percentage_moves.
