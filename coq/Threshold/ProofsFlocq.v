(* Monotonicity of the percentage warn point in the limit, through Flocq.
   Bridge: Coq.Floats.SpecFloat operations (used by Float64.v) = Flocq BinarySingleNaN operations in mode_NE
   (binary_round_aux_equiv / binary_normalize_equiv of Flocq.IEEE754.PrimFloat, which are statements about
   SpecFloat and do not use the primitive-float axioms), then Bmult_correct, binary_normalize_correct, round_le.
   Inherits the classical real-number axioms of the standard library (reported by Print Assumptions). *)
From Coq Require Import ZArith NArith Reals Lia Lra Bool SpecFloat Floats.
From Flocq Require Import Core.Core IEEE754.BinarySingleNaN IEEE754.PrimFloat.
From SG Require Import Threshold.Float64.
#[local] Existing Instance Hprec.
#[local] Existing Instance Hmax.

Lemma fexp_eq : forall e, SpecFloat.fexp prec emax e = Z.max (e - 53) (-1074).
Proof. intro e. reflexivity. Qed.

Lemma bounded_subnormal : forall p, (Npos p < 4503599627370496)%N -> SpecFloat.bounded prec emax p (-1074) = true.
Proof.
  intros p Hp. unfold SpecFloat.bounded, SpecFloat.canonical_mantissa. apply andb_true_intro. split; [|reflexivity].
  apply Zeq_is_eq_bool. rewrite fexp_eq, Zpos_digits2_pos.
  assert (H : (Zdigits radix2 (Z.pos p) <= 52)%Z).
  { apply Zdigits_le_Zpower. change (radix2 ^ 52)%Z with 4503599627370496%Z. lia. }
  lia.
Qed.

Lemma bounded_normal : forall p e,
  (4503599627370496 <= Npos p < 9007199254740992)%N -> (1 <= e <= 2046)%N ->
  SpecFloat.bounded prec emax p (Z.of_N e - 1075) = true.
Proof.
  intros p e Hp He. unfold SpecFloat.bounded, SpecFloat.canonical_mantissa. apply andb_true_intro. split.
  - apply Zeq_is_eq_bool. rewrite fexp_eq, Zpos_digits2_pos.
    assert (H : Zdigits radix2 (Z.pos p) = 53%Z).
    { apply Zdigits_unique. change (radix2 ^ (53 - 1))%Z with 4503599627370496%Z.
      change (radix2 ^ 53)%Z with 9007199254740992%Z. lia. }
    lia.
  - apply Z.leb_le. change (emax - prec)%Z with 971%Z. lia.
Qed.

Lemma f64_of_bits_valid : forall t, SpecFloat.valid_binary prec emax (f64_of_bits t) = true.
Proof.
  intro t. unfold f64_of_bits.
  set (e := N.land (N.shiftr t 52) 2047).
  set (m := N.land t 4503599627370495).
  assert (Hm : (m < 4503599627370496)%N).
  { subst m. change 4503599627370495%N with (N.ones 52). rewrite N.land_ones.
    change 4503599627370496%N with (2 ^ 52)%N. apply N.mod_lt. discriminate. }
  assert (He : (e < 2048)%N).
  { subst e. change 2047%N with (N.ones 11). rewrite N.land_ones.
    change 2048%N with (2 ^ 11)%N. apply N.mod_lt. discriminate. }
  destruct (N.eqb e 0) eqn:E0.
  - destruct m as [|p]; [reflexivity|]. cbn [SpecFloat.valid_binary]. apply bounded_subnormal. exact Hm.
  - destruct (N.eqb e 2047) eqn:E1.
    + destruct m; reflexivity.
    + apply N.eqb_neq in E0, E1.
      destruct (m + 4503599627370496)%N as [|p] eqn:P; [reflexivity|].
      cbn [SpecFloat.valid_binary]. apply bounded_normal; lia.
Qed.

Lemma Zceil_div_pos : forall m d : Z, (0 < d)%Z ->
  Zceil (IZR m * / IZR d) = ((m + d - 1) / d)%Z.
Proof.
  intros m d Hd. apply Zceil_imp.
  set (q := ((m + d - 1) / d)%Z).
  assert (H1 : (q * d <= m + d - 1 < (q + 1) * d)%Z).
  { subst q. pose proof (Z.div_mod (m + d - 1) d ltac:(lia)) as E.
    pose proof (Z.mod_pos_bound (m + d - 1) d Hd) as B. nia. }
  assert (Hd' : (0 < IZR d)%R) by (apply IZR_lt; exact Hd).
  split.
  - apply Rmult_lt_reg_r with (IZR d); [exact Hd'|].
    rewrite Rmult_assoc, Rinv_l by lra. rewrite Rmult_1_r, <- mult_IZR. apply IZR_lt. nia.
  - apply Rmult_le_reg_r with (IZR d); [exact Hd'|].
    rewrite Rmult_assoc, Rinv_l by lra. rewrite Rmult_1_r, <- mult_IZR. apply IZR_le. nia.
Qed.

Lemma ceil_finite_pos : forall m e,
  ceil_to_usize (S754_finite false m e) =
  N.min usize_max (Z.to_N (Zceil (F2R (Float radix2 (Zpos m) e)))).
Proof.
  intros m e. unfold ceil_to_usize. f_equal. unfold F2R. cbn [Fnum Fexp].
  destruct e as [|k|k].
  - cbn [bpow]. rewrite Rmult_1_r, Zceil_IZR. reflexivity.
  - cbn [bpow]. rewrite <- mult_IZR, Zceil_IZR. rewrite N.shiftl_mul_pow2.
    rewrite <- (N2Z.id (N.pos m * 2 ^ N.pos k)). f_equal.
    rewrite N2Z.inj_mul, N2Z.inj_pow. reflexivity.
  - cbn [bpow]. rewrite Zceil_div_pos.
    2:{ change (Z.pow_pos radix2 k) with (2 ^ Z.pos k)%Z. apply Z.pow_pos_nonneg; lia. }
    rewrite N.shiftl_mul_pow2, N.mul_1_l.
    rewrite <- (N2Z.id ((N.pos m + 2 ^ N.pos k - 1) / 2 ^ N.pos k)). f_equal.
    assert (P : (0 < 2 ^ N.pos k)%N) by (apply N.neq_0_lt_0, N.pow_nonzero; discriminate).
    rewrite N2Z.inj_div, N2Z.inj_sub by lia. rewrite N2Z.inj_add, N2Z.inj_pow. reflexivity.
Qed.

#[local] Instance fexp_valid64 : Valid_exp (SpecFloat.fexp prec emax) := fexp_correct prec emax Hprec.
Notation bf := (binary_float prec emax).
Notation rnd := (round radix2 (SpecFloat.fexp prec emax) (round_mode mode_NE)).

Definition x_of (l : N) : bf := binary_normalize prec emax Hprec Hmax mode_NE (Z.of_N l) 0 false.

Lemma f64_of_usize_B : forall l, f64_of_usize l = B2SF (x_of l).
Proof. intro l. unfold f64_of_usize, x_of. apply binary_normalize_equiv. Qed.

Lemma SFmul_B : forall x y : bf, f64_mul (B2SF x) (B2SF y) = B2SF (Bmult mode_NE x y).
Proof.
  intros [sx|sx| |sx mx ex Bx] [sy|sy| |sy my ey By]; try reflexivity.
  unfold f64_mul. simpl. rewrite B2SF_SF2B. apply binary_round_aux_equiv.
Qed.

Definition cu (z : bf) : N := ceil_to_usize (B2SF z).

Lemma cu_le_max : forall z, (cu z <= usize_max)%N.
Proof.
  intros [s|s| |s m e H]; unfold cu; cbn [B2SF ceil_to_usize]; try (destruct s); try (unfold usize_max; lia).
Qed.

Lemma cu_sign_true : forall z, Bsign z = true -> cu z = 0%N.
Proof. intros [s|s| |s m e H]; cbn; intro E; try discriminate; subst; reflexivity. Qed.

Lemma cu_finite_nonneg : forall z, is_finite z = true -> Bsign z = false ->
  cu z = N.min usize_max (Z.to_N (Zceil (B2R z))).
Proof.
  intros [s|s| |s m e H]; cbn [is_finite Bsign]; intros F S; try discriminate.
  - cbn [B2R]. rewrite Zceil_IZR. reflexivity.
  - subst s. unfold cu. cbn [B2SF B2R cond_Zopp]. apply ceil_finite_pos.
Qed.

Lemma finite_not_nan : forall z : bf, is_finite z = true -> is_nan z = false.
Proof. intros [s|s| |s m e H]; cbn; intro; try discriminate; reflexivity. Qed.

Lemma nonneg_B2R : forall z : bf, Bsign z = false -> (0 <= B2R z)%R.
Proof.
  intros [s|s| |s m e H]; cbn [Bsign B2R]; intro S; try lra.
  subst s. apply F2R_ge_0. cbn. lia.
Qed.

Lemma cu_mult_neg : forall x y : bf, Bsign x = false -> Bsign y = true -> cu (Bmult mode_NE x y) = 0%N.
Proof.
  intros x y Sx Sy. pose proof (Bmult_correct prec emax Hprec Hmax mode_NE x y) as C.
  destruct (Rlt_bool _ _).
  - destruct C as (_ & F & S).
    destruct (is_nan (Bmult mode_NE x y)) eqn:N.
    + destruct (Bmult mode_NE x y); try discriminate. reflexivity.
    + apply cu_sign_true. rewrite (S eq_refl), Sx, Sy. reflexivity.
  - unfold cu. rewrite C, Sx, Sy. reflexivity.
Qed.

Lemma mult_mono : forall x x' y : bf,
  is_finite x = true -> is_finite x' = true -> Bsign x = false -> Bsign x' = false ->
  (B2R x <= B2R x')%R -> (cu (Bmult mode_NE x y) <= cu (Bmult mode_NE x' y))%N.
Proof.
  intros x x' y Fx Fx' Sx Sx' Hle.
  destruct (Bsign y) eqn:Sy.
  { rewrite (cu_mult_neg x y Sx Sy). lia. }
  destruct y as [sy|sy| |sy my ey Hy].
  - (* zero *)
    destruct x as [s|s| |s m e H]; try discriminate; destruct x' as [s'|s'| |s' m' e' H']; try discriminate; cbn; lia.
  - (* infinity *)
    cbn in Sy. subst sy.
    destruct x as [s|s| |s m e H]; try discriminate.
    + cbn. lia.
    + destruct x' as [s'|s'| |s' m' e' H']; try discriminate.
      * exfalso. cbn in Sx. subst s. cbn [B2R] in Hle.
        assert (0 < F2R (Float radix2 (cond_Zopp false (Z.pos m)) e))%R by (apply F2R_gt_0; cbn; lia). lra.
      * cbn in Sx, Sx'. subst s s'. cbn. lia.
  - (* nan *)
    destruct x; destruct x'; cbn; lia.
  - (* finite, positive *)
    cbn in Sy. subst sy.
    set (y := B754_finite false my ey Hy) in *.
    assert (Py : (0 <= B2R y)%R) by (apply nonneg_B2R; reflexivity).
    pose proof (nonneg_B2R x Sx) as Px.
    assert (Ha : (B2R x * B2R y <= B2R x' * B2R y)%R) by (apply Rmult_le_compat_r; assumption).
    assert (Hr : (rnd (B2R x * B2R y) <= rnd (B2R x' * B2R y))%R).
    { apply round_le; auto with typeclass_instances. }
    assert (H0 : (0 <= rnd (B2R x * B2R y))%R).
    { apply round_ge_generic; auto with typeclass_instances. apply generic_format_0. apply Rmult_le_pos; assumption. }
    pose proof (Bmult_correct prec emax Hprec Hmax mode_NE x' y) as C'.
    destruct (Rlt_bool_spec (Rabs (rnd (B2R x' * B2R y))) (bpow radix2 emax)) as [L'|L'].
    + pose proof (Bmult_correct prec emax Hprec Hmax mode_NE x y) as C.
      rewrite Rlt_bool_true in C.
      2:{ rewrite Rabs_pos_eq by exact H0. rewrite Rabs_pos_eq in L' by lra. lra. }
      destruct C as (V & F & S). destruct C' as (V' & F' & S').
      rewrite Fx in F. rewrite Fx' in F'. cbn in F, F'.
      rewrite (cu_finite_nonneg _ F), (cu_finite_nonneg _ F').
      * rewrite V, V'. apply N.min_le_compat_l. apply Z2N.inj_le.
        { rewrite <- (Zceil_IZR 0). apply Zceil_le. exact H0. }
        { rewrite <- (Zceil_IZR 0). apply Zceil_le. lra. }
        { apply Zceil_le. exact Hr. }
      * rewrite (S' (finite_not_nan _ F')), Sx'. reflexivity.
      * rewrite (S (finite_not_nan _ F)), Sx. reflexivity.
    + assert (E : cu (Bmult mode_NE x' y) = usize_max).
      { unfold cu. rewrite C', Sx'. reflexivity. }
      rewrite E. apply cu_le_max.
Qed.

Lemma x_of_props : forall l, (l <= usize_max)%N ->
  is_finite (x_of l) = true /\ Bsign (x_of l) = false /\ B2R (x_of l) = rnd (IZR (Z.of_N l)).
Proof.
  intros l Hl.
  pose proof (binary_normalize_correct prec emax Hprec Hmax mode_NE (Z.of_N l) 0 false) as C.
  cbn zeta in C. fold (x_of l) in C.
  assert (Ex : F2R (Float radix2 (Z.of_N l) 0) = IZR (Z.of_N l)).
  { unfold F2R. cbn. ring. }
  rewrite Ex in C.
  assert (P0 : (0 <= IZR (Z.of_N l))%R) by (apply IZR_le; lia).
  assert (R0 : (0 <= rnd (IZR (Z.of_N l)))%R).
  { apply round_ge_generic; auto with typeclass_instances. apply generic_format_0. }
  assert (R1 : (rnd (IZR (Z.of_N l)) <= bpow radix2 64)%R).
  { apply round_le_generic; auto with typeclass_instances.
    - apply generic_format_bpow. cbn. lia.
    - change (bpow radix2 64) with (IZR 18446744073709551616). apply IZR_le. unfold usize_max in Hl. lia. }
  rewrite Rlt_bool_true in C.
  2:{ rewrite Rabs_pos_eq by exact R0. apply Rle_lt_trans with (1 := R1). apply bpow_lt. reflexivity. }
  destruct C as (V & F & S). split; [exact F|]. split; [|exact V].
  rewrite S. destruct (Rcompare_spec (IZR (Z.of_N l)) 0); try reflexivity. lra.
Qed.

Lemma pct_point_monotone : forall l l' t,
  (l <= l')%N -> (l' <= usize_max)%N -> (pct_point l t <= pct_point l' t)%N.
Proof.
  intros l l' t Hll Hmax. unfold pct_point.
  rewrite !f64_of_usize_B.
  rewrite <- (B2SF_SF2B prec emax (f64_of_bits t) (f64_of_bits_valid t)).
  rewrite !SFmul_B.
  destruct (x_of_props l ltac:(lia)) as (F & S & V).
  destruct (x_of_props l' Hmax) as (F' & S' & V').
  apply (mult_mono _ _ _ F F' S S').
  rewrite V, V'. apply round_le; auto with typeclass_instances. apply IZR_le. lia.
Qed.

(* verdict level *)
From SG Require Import Threshold.Model Threshold.Spec Threshold.Proofs.

Lemma monotone_limit_percentage : forall c lim lim' t,
  (lim <= lim')%N -> (lim' <= usize_max)%N ->
  (sev (verdict c lim' (warn_point_of (WPct t) lim')) <= sev (verdict c lim (warn_point_of (WPct t) lim)))%N.
Proof.
  intros c lim lim' t H Hmax. cbn [warn_point_of]. apply monotone_limit_gen; [exact H|].
  apply pct_point_monotone; assumption.
Qed.

Lemma monotone_limit_any : forall c lim lim' ws,
  (lim <= lim')%N -> (lim' <= usize_max)%N ->
  (sev (verdict c lim' (warn_point_of ws lim')) <= sev (verdict c lim (warn_point_of ws lim)))%N.
Proof.
  intros c lim lim' [w|t] H Hmax.
  - apply monotone_limit_absolute. exact H.
  - apply monotone_limit_percentage; assumption.
Qed.
