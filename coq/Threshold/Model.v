(* Gallina model of the content-threshold checker of sloc-guard.
   Mirrors  src/checker/threshold.rs  (ThresholdChecker: new, with_warning_threshold, should_process,
            get_limit_for_path, get_warn_threshold_for_path, get_warn_limit_with_source,
            get_skip_settings_for_path, explain, Checker::check),
            src/checker/explain.rs (ContentExplanation and friends),
            src/commands/check/check_processing.rs (compute_effective_stats, process_file_for_check),
            src/commands/check/check_args.rs (apply_cli_overrides, content part),
            src/commands/check/runner.rs lines 193-197 + context.rs from_config (the checker check uses),
            src/commands/explain.rs (the checker explain uses).
   Definitions only.

   Glob matching is data: every function that looks at a path takes the match vector
     mv : list bool,  mv[i] = (pattern of content.rules[i] matches the normalised path)
   and, where content.exclude matters,  ev : list bool  for the exclude patterns.
   GlobSet::matches returns the ascending list of matching indices; .last() is its last element.
   Thresholds are the 64 bits of an f64 (Float64.v).  Counts are unbounded N (usize additions
   are assumed not to overflow: a file has fewer than 2^64 lines). *)
From Coq Require Import NArith List Bool.
From SG Require Import Threshold.Float64.
Import ListNotations.
Open Scope N_scope.

Definition str := list N.

(* ---------------------------------------------------------------- data *)

Record line_stats := mk_stats {
  ls_total : N; ls_code : N; ls_comment : N; ls_blank : N; ls_ignored : N }.

(* config::ContentRule (expires is not used by the checker) *)
Record rule := mk_rule {
  r_pattern : str;
  r_max : N;
  r_wt : option N;          (* warn_threshold, f64 bits *)
  r_wa : option N;          (* warn_at *)
  r_sc : option bool;       (* skip_comments *)
  r_sb : option bool;       (* skip_blank *)
  r_reason : option str }.

(* config::ContentConfig *)
Record config := mk_config {
  c_exts : list str;
  c_max : N;
  c_wt : N;                 (* warn_threshold, f64 bits *)
  c_wa : option N;
  c_sc : bool;
  c_sb : bool;
  c_exclude : list str;
  c_rules : list rule }.

(* CompiledPathRule: the rule without its pattern *)
Record crule := mk_crule {
  cr_max : N; cr_wt : option N; cr_wa : option N;
  cr_sc : option bool; cr_sb : option bool; cr_reason : option str }.

Record checker := mk_checker {
  ck_config : config;
  ck_wt : N;                (* warning_threshold of the instance, f64 bits *)
  ck_rules : list crule }.  (* path_rules, index order = declaration order *)

(* ---------------------------------------------------------------- construction *)

Definition compile_rule (r : rule) : crule :=
  mk_crule (r_max r) (r_wt r) (r_wa r) (r_sc r) (r_sb r) (r_reason r).

(* build_path_rules: one push per rule, in order *)
Definition build_path_rules (cfg : config) : list crule := map compile_rule (c_rules cfg).

Definition new_checker (cfg : config) : checker :=
  mk_checker cfg (c_wt cfg) (build_path_rules cfg).

Definition with_warning_threshold (ck : checker) (t : N) : checker :=
  mk_checker (ck_config ck) t (ck_rules ck).

(* ---------------------------------------------------------------- rule selection *)

(* GlobSet::matches: ascending indices of the patterns that match *)
Fixpoint matches_from (i : N) (mv : list bool) : list N :=
  match mv with
  | [] => []
  | b :: bs => if b then i :: matches_from (i + 1) bs else matches_from (i + 1) bs
  end.
Definition matches (mv : list bool) : list N := matches_from 0 mv.

Fixpoint last_opt {A} (l : list A) : option A :=
  match l with
  | [] => None
  | [x] => Some x
  | _ :: t => last_opt t
  end.

Definition first_opt {A} (l : list A) : option A :=
  match l with [] => None | x :: _ => Some x end.

Definition nth_N {A} (l : list A) (i : N) : option A := nth_error l (N.to_nat i).

(* matches.last() followed by self.path_rules[last_idx]; an index outside path_rules cannot occur
   (GlobSet and path_rules are filled by the same loop) and is treated as no match *)
Definition selected (ck : checker) (mv : list bool) : option (N * crule) :=
  match last_opt (matches mv) with
  | None => None
  | Some i => match nth_N (ck_rules ck) i with
              | Some r => Some (i, r)
              | None => None
              end
  end.

(* ---------------------------------------------------------------- per-path settings *)

(* get_limit_for_path_impl *)
Definition limit_for (ck : checker) (mv : list bool) : N * option str :=
  match selected ck mv with
  | Some (_, r) => (cr_max r, cr_reason r)
  | None => (c_max (ck_config ck), None)
  end.

(* get_warn_threshold_for_path_impl *)
Definition warn_threshold_for (ck : checker) (mv : list bool) : N :=
  match selected ck mv with
  | Some (_, r) => match cr_wt r with Some t => t | None => ck_wt ck end
  | None => ck_wt ck
  end.

Inductive warn_source :=
| RuleAbsolute (index : N)
| RulePercentage (index : N) (threshold : N)
| GlobalAbsolute
| GlobalPercentage (threshold : N).

(* steps 3 and 4 of get_warn_limit_with_source_impl *)
Definition global_warn (ck : checker) (effective_limit : N) : N * warn_source :=
  match c_wa (ck_config ck) with
  | Some w => (w, GlobalAbsolute)
  | None => (pct_point effective_limit (ck_wt ck), GlobalPercentage (ck_wt ck))
  end.

(* get_warn_limit_with_source_impl *)
Definition warn_limit_with_source (ck : checker) (mv : list bool) (effective_limit : N)
  : N * warn_source :=
  match selected ck mv with
  | Some (i, r) =>
      match cr_wa r with
      | Some w => (w, RuleAbsolute i)
      | None =>
          match cr_wt r with
          | Some t => (pct_point (cr_max r) t, RulePercentage i t)
          | None => global_warn ck effective_limit
          end
      end
  | None => global_warn ck effective_limit
  end.

Definition warn_limit_for (ck : checker) (mv : list bool) (effective_limit : N) : N :=
  fst (warn_limit_with_source ck mv effective_limit).

(* get_skip_settings_for_path_impl *)
Definition skip_settings_for (ck : checker) (mv : list bool) : bool * bool :=
  match selected ck mv with
  | Some (_, r) =>
      (match cr_sc r with Some b => b | None => c_sc (ck_config ck) end,
       match cr_sb r with Some b => b | None => c_sb (ck_config ck) end)
  | None => (c_sc (ck_config ck), c_sb (ck_config ck))
  end.

(* ---------------------------------------------------------------- should_process *)

Fixpoint str_eqb (a b : str) : bool :=
  match a, b with
  | [], [] => true
  | x :: a', y :: b' => N.eqb x y && str_eqb a' b'
  | _, _ => false
  end.

Definition any_true (v : list bool) : bool := existsb (fun b => b) v.

(* ext = Path::extension of the raw path as UTF-8, computed by std (not modelled) *)
Definition should_process (ck : checker) (ev mv : list bool) (ext : option str) : bool :=
  if any_true ev then false
  else match c_exts (ck_config ck) with
       | [] => true
       | exts =>
           if match ext with Some e => existsb (str_eqb e) exts | None => false end then true
           else any_true mv
       end.

Definition is_content_excluded (ev : list bool) : bool := any_true ev.

(* ---------------------------------------------------------------- effective stats and verdict *)

(* compute_effective_stats *)
Definition compute_effective_stats (s : line_stats) (skip_comments skip_blank : bool) : line_stats :=
  let s1 := if skip_comments then s
            else mk_stats (ls_total s) (ls_code s + ls_comment s) 0 (ls_blank s) (ls_ignored s) in
  if skip_blank then s1
  else mk_stats (ls_total s1) (ls_code s1 + ls_blank s1) (ls_comment s1) 0 (ls_ignored s1).

Definition sloc (s : line_stats) : N := ls_code s.

Inductive status := Passed | Warning | Failed.

(* the if / else if / else of Checker::check *)
Definition verdict (count limit warn_limit : N) : status :=
  if limit <? count then Failed
  else if warn_limit <=? count then Warning
  else Passed.

Record check_result := mk_result {
  res_status : status;
  res_stats : line_stats;
  res_raw : option line_stats;
  res_limit : N;
  res_reason : option str }.

(* Checker::check *)
Definition check (ck : checker) (mv : list bool) (stats : line_stats) (raw : option line_stats)
  : check_result :=
  let '(limit, reason) := limit_for ck mv in
  let warn_limit := warn_limit_for ck mv limit in
  mk_result (verdict (sloc stats) limit warn_limit) stats raw limit reason.

(* process_file_for_check, Success branch *)
Definition process_for_check (ck : checker) (mv : list bool) (stats : line_stats) : check_result :=
  let '(sc, sb) := skip_settings_for ck mv in
  check ck mv (compute_effective_stats stats sc sb) (Some stats).

(* ---------------------------------------------------------------- explain *)

Inductive rule_match :=
| MExcluded (pattern : str)
| MRule (index : N) (pattern : str) (reason : option str)
| MDefault.

Inductive match_status := Matched | Superseded | NoMatch.

(* source is content.rules[i] for Some i and the default entry for None *)
Record candidate := mk_cand {
  cand_source : option N;
  cand_pattern : option str;
  cand_limit : N;
  cand_status : match_status }.

Record explanation := mk_expl {
  ex_excluded : bool;
  ex_matched : rule_match;
  ex_limit : N;
  ex_warn_at : N;
  ex_source : warn_source;
  ex_wt : N;
  ex_sc : bool;
  ex_sb : bool;
  ex_chain : list candidate }.

Definition opt_eqb (a : option N) (i : N) : bool :=
  match a with Some j => N.eqb j i | None => false end.

Definition mem_N (i : N) (l : list N) : bool := existsb (N.eqb i) l.

(* the for loop of explain: state = (found_match, matched_rule, chain in reverse) *)
Fixpoint explain_loop (pats : list rule) (rules : list crule) (i : N) (mset : list N)
         (lastm : option N) (found : bool) (mr : rule_match) (acc : list candidate)
  : bool * rule_match * list candidate :=
  match rules with
  | [] => (found, mr, acc)
  | r :: rs =>
      let m := mem_N i mset in
      let is_selected := negb found && opt_eqb lastm i in
      let st := if is_selected then Matched else if m then Superseded else NoMatch in
      let pattern := match nth_N pats i with Some p => r_pattern p | None => [] end in
      let mr' := if is_selected then MRule i pattern (cr_reason r) else mr in
      explain_loop pats rs (i + 1) mset lastm (found || is_selected) mr'
                   (mk_cand (Some i) (Some pattern) (cr_max r) st :: acc)
  end.

(* find_matching_exclude_pattern_normalized *)
Definition find_exclude (ck : checker) (ev : list bool) : option str :=
  match first_opt (matches ev) with
  | Some i => match nth_N (c_exclude (ck_config ck)) i with Some p => Some p | None => Some [] end
  | None => None
  end.

Definition explain (ck : checker) (ev mv : list bool) : explanation :=
  match find_exclude ck ev with
  | Some pattern =>
      let '(sc, sb) := skip_settings_for ck mv in
      mk_expl true (MExcluded pattern) 0 0 (GlobalPercentage (ck_wt ck))
              (warn_threshold_for ck mv) sc sb []
  | None =>
      let ms := matches mv in
      let '(found, mr, acc) :=
        explain_loop (c_rules (ck_config ck)) (ck_rules ck) 0 ms (last_opt ms) false MDefault [] in
      let chain := rev_append acc
                     [mk_cand None None (c_max (ck_config ck)) (if found then Superseded else Matched)] in
      let '(sc, sb) := skip_settings_for ck mv in
      let effective_limit := fst (limit_for ck mv) in
      let '(warn_at, src) := warn_limit_with_source ck mv effective_limit in
      mk_expl false mr effective_limit warn_at src (warn_threshold_for ck mv) sc sb chain
  end.

(* ---------------------------------------------------------------- validation *)

(* config::validation::validate_content_section: global threshold in [0,1], global warn_at below the global
   limit, and per rule: warn_at below the rule's limit, warn_threshold (when present) in [0,1].
   (expires dates are also validated there; rules in this model carry no expires field.) *)
Definition warn_at_ok (wa : option N) (max_lines : N) : bool :=
  match wa with Some w => w <? max_lines | None => true end.

Definition threshold_ok (wt : option N) : bool :=
  match wt with Some t => f64_in_unit t | None => true end.

Definition rule_ok (r : rule) : bool := warn_at_ok (r_wa r) (r_max r) && threshold_ok (r_wt r).

Definition validate_content (cfg : config) : bool :=
  f64_in_unit (c_wt cfg) && warn_at_ok (c_wa cfg) (c_max cfg) && forallb rule_ok (c_rules cfg).

(* ---------------------------------------------------------------- CLI overrides *)

(* the content-related CheckArgs *)
Record cli_overrides := mk_cli {
  cli_max_lines : option N;
  cli_count_comments : bool;
  cli_count_blank : bool;
  cli_warn_threshold : option N;   (* f64 bits *)
  cli_ext : option (list str) }.

Definition no_overrides : cli_overrides := mk_cli None false false None None.

(* apply_cli_overrides, then the --ext replacement of run_check_impl *)
Definition apply_cli_overrides (cfg : config) (a : cli_overrides) : config :=
  mk_config
    (match cli_ext a with Some e => e | None => c_exts cfg end)
    (match cli_max_lines a with Some m => m | None => c_max cfg end)
    (match cli_warn_threshold a with Some t => t | None => c_wt cfg end)
    (c_wa cfg)
    (if cli_count_comments a then false else c_sc cfg)
    (if cli_count_blank a then false else c_sb cfg)
    (c_exclude cfg)
    (c_rules cfg).

(* the checker `check` evaluates files with: runner.rs 193-197 and CheckContext::from_config *)
Definition check_checker (cfg : config) (a : cli_overrides) : checker :=
  let cfg' := apply_cli_overrides cfg a in
  let wt := match cli_warn_threshold a with Some t => t | None => c_wt cfg' end in
  with_warning_threshold (new_checker cfg') wt.

(* the checker `explain <file>` uses: ThresholdChecker::new(config), no overrides exist *)
Definition explain_checker (cfg : config) : checker := new_checker cfg.

(* the two commands. Both load the configuration through load_config, which validates it; check validates
   again after apply_cli_overrides (runner.rs step 2), so an override that breaks a constraint is a
   configuration error (exit 2) and no file is evaluated *)
Inductive check_outcome :=
| ConfigError
| NotEvaluated                       (* should_process = false *)
| Evaluated (r : check_result).

Definition check_file (cfg : config) (a : cli_overrides) (ev mv : list bool) (ext : option str)
           (stats : line_stats) : check_outcome :=
  if negb (validate_content cfg) then ConfigError
  else if negb (validate_content (apply_cli_overrides cfg a)) then ConfigError
  else
    let ck := check_checker cfg a in
    if should_process ck ev mv ext then Evaluated (process_for_check ck mv stats) else NotEvaluated.

Definition explain_file (cfg : config) (ev mv : list bool) : option explanation :=
  if validate_content cfg then Some (explain (explain_checker cfg) ev mv) else None.
