(* C05 -- threshold verdicts, last-match-wins rule resolution and explain coherence.
   Property theorems only (axiom-free part; the percentage case of monotonicity in the limit is
   in Properties_C05_flocq.v).  All statements are about the model in Model.v, for every rule
   list, every match vector (glob matching is data), every global setting, every override and
   every count; nothing is bounded. *)
From Coq Require Import NArith List Bool.
From SG Require Import Threshold.Float64 Threshold.Model Threshold.Spec Threshold.Proofs.
Import ListNotations.
Open Scope N_scope.

(* ------------------------------------------------------------ verdict trichotomy *)

Theorem C05_trichotomy_failed : forall c lim w, verdict c lim w = Failed <-> lim < c.
Proof. exact verdict_failed. Qed.
Print Assumptions C05_trichotomy_failed.

Theorem C05_trichotomy_warning : forall c lim w, verdict c lim w = Warning <-> w <= c /\ c <= lim.
Proof. exact verdict_warning. Qed.
Print Assumptions C05_trichotomy_warning.

Theorem C05_trichotomy_passed : forall c lim w,
  verdict c lim w = Passed <-> ~ lim < c /\ ~ (w <= c /\ c <= lim).
Proof. exact verdict_passed_otherwise. Qed.
Print Assumptions C05_trichotomy_passed.

(* what check computes for a file: the verdict of the effective count against the limit and warn
   point of the path; the result carries that limit, the rule's reason, the raw and effective stats *)
Theorem C05_check_is_verdict_of_effective_count : forall ck mv stats,
  let r := process_for_check ck mv stats in
  let lim := fst (limit_for ck mv) in
  let sk := skip_settings_for ck mv in
  res_status r = verdict (effective_count stats (fst sk) (snd sk)) lim (warn_limit_for ck mv lim) /\
  res_limit r = lim /\ res_reason r = snd (limit_for ck mv) /\
  res_raw r = Some stats /\ res_stats r = compute_effective_stats stats (fst sk) (snd sk).
Proof. exact process_for_check_spec. Qed.
Print Assumptions C05_check_is_verdict_of_effective_count.

(* ------------------------------------------------------------ effective count *)

Theorem C05_effective_count : forall s skip_comments skip_blank,
  sloc (compute_effective_stats s skip_comments skip_blank) =
  ls_code s + (if skip_comments then 0 else ls_comment s) + (if skip_blank then 0 else ls_blank s).
Proof. exact effective_count_formula. Qed.
Print Assumptions C05_effective_count.

Theorem C05_ignored_never_counted : forall ck mv t c m b i t' i',
  res_status (process_for_check ck mv (mk_stats t c m b i)) = res_status (process_for_check ck mv (mk_stats t' c m b i')) /\
  res_limit (process_for_check ck mv (mk_stats t c m b i)) = res_limit (process_for_check ck mv (mk_stats t' c m b i')).
Proof. exact ignored_never_counted. Qed.
Print Assumptions C05_ignored_never_counted.

(* ------------------------------------------------------------ monotonicity *)

Theorem C05_monotone_count : forall c c' lim w,
  c <= c' -> sev (verdict c lim w) <= sev (verdict c' lim w).
Proof. exact monotone_count. Qed.
Print Assumptions C05_monotone_count.

(* absolute warn point: raising the limit never worsens the verdict *)
Theorem C05_monotone_limit_absolute : forall c lim lim' w,
  lim <= lim' ->
  sev (verdict c lim' (warn_point_of (WAbs w) lim')) <= sev (verdict c lim (warn_point_of (WAbs w) lim)).
Proof. exact monotone_limit_absolute. Qed.
Print Assumptions C05_monotone_limit_absolute.

(* any warn points: raising the limit never turns a non-failure into a failure; and the verdict is
   antitone in the limit as soon as the warn point does not decrease *)
Theorem C05_monotone_limit_failed : forall c lim lim' w w',
  lim <= lim' -> verdict c lim' w' = Failed -> verdict c lim w = Failed.
Proof. exact monotone_limit_failed. Qed.
Print Assumptions C05_monotone_limit_failed.

Theorem C05_monotone_limit_given_warn_point_order : forall c lim lim' w w',
  lim <= lim' -> w <= w' -> sev (verdict c lim' w') <= sev (verdict c lim w).
Proof. exact monotone_limit_gen. Qed.
Print Assumptions C05_monotone_limit_given_warn_point_order.

(* the warn point check uses is always (absolute value) or (percentage of the effective limit):
   this is what makes monotonicity in the limit a statement about warn_point_of *)
Theorem C05_warn_point_is_spec_of_limit : forall ck mv,
  warn_limit_for ck mv (fst (limit_for ck mv)) =
  warn_point_of (warn_spec_of (sel_rule ck mv) (c_wa (ck_config ck)) (ck_wt ck)) (fst (limit_for ck mv)).
Proof. exact warn_limit_spec. Qed.
Print Assumptions C05_warn_point_is_spec_of_limit.

(* ------------------------------------------------------------ last match wins *)

(* the rule check and explain use is the one with the maximal matching index *)
Theorem C05_last_match_wins : forall ck mv i r,
  selected ck mv = Some (i, r) <-> is_last_match mv i /\ nth_N (ck_rules ck) i = Some r.
Proof. exact selected_some_iff. Qed.
Print Assumptions C05_last_match_wins.

Theorem C05_no_rule_iff_no_match : forall ck mv,
  length mv = length (ck_rules ck) -> (selected ck mv = None <-> no_match mv).
Proof. exact selected_none_iff. Qed.
Print Assumptions C05_no_rule_iff_no_match.

(* compiled rules keep declaration order, so index i is content.rules[i] *)
Theorem C05_rules_in_declaration_order : forall cfg i,
  nth_N (ck_rules (new_checker cfg)) i = option_map compile_rule (nth_N (c_rules cfg) i).
Proof. exact compiled_in_order. Qed.
Print Assumptions C05_rules_in_declaration_order.

(* ------------------------------------------------------------ precedence *)

(* rule.warn_at > rule.warn_threshold (of the rule's max_lines) > global warn_at > global threshold (of the effective limit) *)
Theorem C05_precedence_warn : forall ck mv lim,
  warn_limit_with_source ck mv lim =
  match selected ck mv with
  | Some (i, r) =>
      match cr_wa r, cr_wt r, c_wa (ck_config ck) with
      | Some w, _, _ => (w, RuleAbsolute i)
      | None, Some t, _ => (pct_point (cr_max r) t, RulePercentage i t)
      | None, None, Some w => (w, GlobalAbsolute)
      | None, None, None => (pct_point lim (ck_wt ck), GlobalPercentage (ck_wt ck))
      end
  | None =>
      match c_wa (ck_config ck) with
      | Some w => (w, GlobalAbsolute)
      | None => (pct_point lim (ck_wt ck), GlobalPercentage (ck_wt ck))
      end
  end.
Proof. exact warn_source_cases. Qed.
Print Assumptions C05_precedence_warn.

(* limit and reason: the selected rule's, else the global one *)
Theorem C05_precedence_limit : forall ck mv,
  limit_for ck mv = match sel_rule ck mv with
                    | Some r => (cr_max r, cr_reason r)
                    | None => (c_max (ck_config ck), None)
                    end.
Proof. exact limit_for_spec. Qed.
Print Assumptions C05_precedence_limit.

(* skip flags: the selected rule's value when it sets one, else the global one, per flag *)
Theorem C05_precedence_skip : forall ck mv,
  skip_settings_for ck mv =
  match sel_rule ck mv with
  | Some r => (opt_or (cr_sc r) (c_sc (ck_config ck)), opt_or (cr_sb r) (c_sb (ck_config ck)))
  | None => (c_sc (ck_config ck), c_sb (ck_config ck))
  end.
Proof. exact skip_settings_spec. Qed.
Print Assumptions C05_precedence_skip.

(* ------------------------------------------------------------ validated configurations *)

(* config validation (warn_at < max_lines at each level): an absolute warn point that is paired with the limit
   of its own level leaves a non-empty warning range *)
Theorem C05_validated_warn_at_below_limit : forall cfg mv,
  validate_content cfg = true ->
  (forall i r w, selected (new_checker cfg) mv = Some (i, r) -> cr_wa r = Some w -> w < cr_max r) /\
  (forall w, c_wa cfg = Some w -> w < c_max cfg).
Proof. exact validated_warn_at. Qed.
Print Assumptions C05_validated_warn_at_below_limit.

(* ... and every percentage check can use, rule-level or global, is a value in [0,1] (never NaN, negative or above 1) *)
Theorem C05_validated_thresholds_in_unit : forall cfg mv,
  validate_content cfg = true ->
  (forall i r t, selected (new_checker cfg) mv = Some (i, r) -> cr_wt r = Some t -> f64_in_unit t = true) /\
  f64_in_unit (c_wt cfg) = true /\
  f64_in_unit (warn_threshold_for (new_checker cfg) mv) = true.
Proof. exact validated_thresholds. Qed.
Print Assumptions C05_validated_thresholds_in_unit.

Theorem C05_in_unit_excludes_nan : forall b,
  b < 18446744073709551616 -> f64_in_unit b = true -> f64_is_nan b = false.
Proof. exact in_unit_not_nan. Qed.
Print Assumptions C05_in_unit_excludes_nan.

(* the check command validates again after the overrides: a file is evaluated only when the configuration file
   and the overridden configuration are both valid, with the checker built from the overridden configuration *)
Theorem C05_check_command_evaluates_only_valid : forall cfg a ev mv ext stats r,
  check_file cfg a ev mv ext stats = Evaluated r ->
  validate_content cfg = true /\ validate_content (apply_cli_overrides cfg a) = true /\
  should_process (check_checker cfg a) ev mv ext = true /\
  r = process_for_check (check_checker cfg a) mv stats.
Proof. exact check_file_evaluated. Qed.
Print Assumptions C05_check_command_evaluates_only_valid.

Theorem C05_check_command_config_error_iff : forall cfg a ev mv ext stats,
  check_file cfg a ev mv ext stats = ConfigError <->
  validate_content cfg = false \/ validate_content (apply_cli_overrides cfg a) = false.
Proof. exact check_file_config_error. Qed.
Print Assumptions C05_check_command_config_error_iff.

(* so the validated facts hold for the overridden values too: warn_at stays below the overridden --max-lines,
   the overridden --warn-threshold is in [0,1] *)
Theorem C05_check_command_overrides_validated : forall cfg a ev mv ext stats r,
  check_file cfg a ev mv ext stats = Evaluated r ->
  let ck := check_checker cfg a in
  (forall i cr w, selected ck mv = Some (i, cr) -> cr_wa cr = Some w -> w < cr_max cr) /\
  (forall w, c_wa cfg = Some w -> w < opt_or (cli_max_lines a) (c_max cfg)) /\
  f64_in_unit (ck_wt ck) = true /\
  f64_in_unit (warn_threshold_for ck mv) = true.
Proof. exact check_file_overrides_validated. Qed.
Print Assumptions C05_check_command_overrides_validated.

Theorem C05_check_checker_is_new_of_overridden : forall cfg a,
  check_checker cfg a = new_checker (apply_cli_overrides cfg a).
Proof. exact check_checker_is_new. Qed.
Print Assumptions C05_check_checker_is_new_of_overridden.

(* without override flags the two commands reject exactly the same configurations *)
Theorem C05_commands_agree_on_validity : forall cfg ev mv ext stats,
  check_file cfg no_overrides ev mv ext stats = ConfigError <-> explain_file cfg ev mv = None.
Proof. exact commands_agree_on_validity. Qed.
Print Assumptions C05_commands_agree_on_validity.

(* ------------------------------------------------------------ explain coherence *)

(* explain (same checker, path not excluded) reports exactly the rule, limit, warn point, source and
   skip flags that the helper functions check uses return *)
Theorem C05_explain_reports_what_check_uses : forall ck ev mv,
  find_exclude ck ev = None ->
  let e := explain ck ev mv in
  ex_excluded e = false /\
  ex_matched e = matched_of ck mv /\
  ex_limit e = fst (limit_for ck mv) /\
  (ex_warn_at e, ex_source e) = warn_limit_with_source ck mv (fst (limit_for ck mv)) /\
  (ex_sc e, ex_sb e) = skip_settings_for ck mv /\
  ex_wt e = warn_threshold_for ck mv.
Proof. exact explain_not_excluded. Qed.
Print Assumptions C05_explain_reports_what_check_uses.

(* hence the verdict check gives is the verdict computed from explain's numbers, for every stats;
   the rule explain names is the last matching one, with its declared pattern *)
Theorem C05_explain_coherent : forall ck ev mv stats,
  find_exclude ck ev = None ->
  let e := explain ck ev mv in
  let r := process_for_check ck mv stats in
  res_limit r = ex_limit e /\
  res_status r = verdict (effective_count stats (ex_sc e) (ex_sb e)) (ex_limit e) (ex_warn_at e) /\
  res_stats r = compute_effective_stats stats (ex_sc e) (ex_sb e) /\
  res_reason r = match ex_matched e with MRule _ _ reason => reason | _ => None end /\
  match ex_matched e with
  | MRule i p _ => is_last_match mv i /\ p = pat_at (c_rules (ck_config ck)) i
  | MDefault => selected ck mv = None
  | MExcluded _ => False
  end.
Proof. exact explain_coherent. Qed.
Print Assumptions C05_explain_coherent.

(* explain says excluded exactly when a content.exclude pattern matches, and then check never
   evaluates the path *)
Theorem C05_explain_excluded_iff : forall ck ev, find_exclude ck ev = None <-> any_true ev = false.
Proof. exact find_exclude_none_iff. Qed.
Print Assumptions C05_explain_excluded_iff.

Theorem C05_explain_excluded_not_checked : forall ck ev mv p,
  find_exclude ck ev = Some p ->
  let e := explain ck ev mv in
  ex_excluded e = true /\ ex_matched e = MExcluded p /\ ex_limit e = 0 /\ ex_warn_at e = 0 /\ ex_chain e = [] /\
  forall ext, should_process ck ev mv ext = false.
Proof. exact explain_excluded. Qed.
Print Assumptions C05_explain_excluded_not_checked.

(* the two commands: without override flags, check evaluates files with the very checker explain uses *)
Theorem C05_explain_command_uses_check_checker : forall cfg,
  check_checker cfg no_overrides = explain_checker cfg.
Proof. exact check_checker_no_overrides. Qed.
Print Assumptions C05_explain_command_uses_check_checker.

(* ------------------------------------------------------------ CLI overrides *)

(* overrides replace global settings only; rules, exclude patterns and the global warn_at are untouched *)
Theorem C05_cli_overrides_globals_only : forall cfg a,
  let ck := check_checker cfg a in
  ck_rules ck = ck_rules (new_checker cfg) /\
  c_rules (ck_config ck) = c_rules cfg /\
  c_exclude (ck_config ck) = c_exclude cfg /\
  c_wa (ck_config ck) = c_wa cfg /\
  c_max (ck_config ck) = opt_or (cli_max_lines a) (c_max cfg) /\
  ck_wt ck = opt_or (cli_warn_threshold a) (c_wt cfg) /\
  c_wt (ck_config ck) = opt_or (cli_warn_threshold a) (c_wt cfg) /\
  c_sc (ck_config ck) = (if cli_count_comments a then false else c_sc cfg) /\
  c_sb (ck_config ck) = (if cli_count_blank a then false else c_sb cfg) /\
  c_exts (ck_config ck) = opt_or (cli_ext a) (c_exts cfg).
Proof. exact check_checker_fields. Qed.
Print Assumptions C05_cli_overrides_globals_only.

Theorem C05_cli_overrides_rule_wins : forall cfg a mv i r,
  selected (new_checker cfg) mv = Some (i, r) ->
  limit_for (check_checker cfg a) mv = limit_for (new_checker cfg) mv /\
  (cr_wa r <> None \/ cr_wt r <> None ->
     forall lim lim', warn_limit_with_source (check_checker cfg a) mv lim = warn_limit_with_source (new_checker cfg) mv lim') /\
  (forall b, cr_sc r = Some b -> fst (skip_settings_for (check_checker cfg a) mv) = b) /\
  (forall b, cr_sb r = Some b -> snd (skip_settings_for (check_checker cfg a) mv) = b).
Proof. exact cli_rule_wins. Qed.
Print Assumptions C05_cli_overrides_rule_wins.

Theorem C05_cli_overrides_apply_without_rule : forall cfg a mv,
  selected (new_checker cfg) mv = None ->
  let ck := check_checker cfg a in
  limit_for ck mv = (opt_or (cli_max_lines a) (c_max cfg), None) /\
  skip_settings_for ck mv = ((if cli_count_comments a then false else c_sc cfg), (if cli_count_blank a then false else c_sb cfg)) /\
  forall lim, warn_limit_with_source ck mv lim =
              match c_wa cfg with
              | Some w => (w, GlobalAbsolute)
              | None => (pct_point lim (opt_or (cli_warn_threshold a) (c_wt cfg)),
                         GlobalPercentage (opt_or (cli_warn_threshold a) (c_wt cfg)))
              end.
Proof. exact cli_globals_apply. Qed.
Print Assumptions C05_cli_overrides_apply_without_rule.

(* ------------------------------------------------------------ non-vacuity *)

(* 0.5, 0.8, 0.9 as f64 bits *)
Definition t05 : N := 4602678819172646912.
Definition t08 : N := 4605380978949069210.
Definition t09 : N := 4606281698874543309.

(* three overlapping rules; path src/gen/a.rs matches the first two ( **/*.rs, src/** ) but not tests/** *)
Definition ex_cfg : config :=
  mk_config [[114; 115]] 600 t09 None true true [[42; 42; 47; 103; 101; 110; 47; 42; 42]]
    [ mk_rule [42; 42; 47; 42; 46; 114; 115] 3 (Some t05) (Some 1) (Some false) (Some false) (Some [102]);
      mk_rule [115; 114; 99; 47; 42; 42] 20 (Some t08) None None (Some true) (Some [115]);
      mk_rule [116; 101; 115; 116; 115; 47; 42; 42] 7 None None None None None ].
Definition ex_mv : list bool := [true; true; false].
Definition ex_ck : checker := new_checker ex_cfg.

(* the second rule wins although the first is tighter; warn point = ceil (20 * 0.8) = 16 *)
Example C05_example_last_match :
  selected ex_ck ex_mv = Some (1, compile_rule (mk_rule [115; 114; 99; 47; 42; 42] 20 (Some t08) None None (Some true) (Some [115]))) /\
  limit_for ex_ck ex_mv = (20, Some [115]) /\
  warn_limit_with_source ex_ck ex_mv 20 = (16, RulePercentage 1 t08) /\
  skip_settings_for ex_ck ex_mv = (true, true).
Proof. vm_compute. repeat split. Qed.
Print Assumptions C05_example_last_match.

(* the three verdicts at the boundaries: 15 passes, 16 and 20 warn, 21 fails; 1000 ignored lines change nothing *)
Example C05_example_boundaries :
  map (fun c => res_status (process_for_check ex_ck ex_mv (mk_stats (c + 1009) c 4 5 1000))) [15; 16; 20; 21]
  = [Passed; Warning; Warning; Failed].
Proof. vm_compute. reflexivity. Qed.
Print Assumptions C05_example_boundaries.

(* the ceiling matters: 7 * 0.8 is 5.6000000000000005 in binary64, warn point 6; 10 * 0.5 is exactly 5 *)
Example C05_example_ceiling :
  pct_point 7 t08 = 6 /\ pct_point 10 t05 = 5 /\ pct_point 600 t09 = 540 /\
  verdict 5 7 (pct_point 7 t08) = Passed /\ verdict 6 7 (pct_point 7 t08) = Warning.
Proof. vm_compute. repeat split. Qed.
Print Assumptions C05_example_ceiling.

(* explain on the same inputs: hypotheses of C05_explain_coherent are satisfiable and its conclusion is not trivial *)
Example C05_example_explain :
  find_exclude ex_ck [false] = None /\
  let e := explain ex_ck [false] ex_mv in
  ex_matched e = MRule 1 [115; 114; 99; 47; 42; 42] (Some [115]) /\ ex_limit e = 20 /\ ex_warn_at e = 16 /\
  ex_source e = RulePercentage 1 t08 /\ (ex_sc e, ex_sb e) = (true, true) /\
  map cand_status (ex_chain e) = [Superseded; Matched; NoMatch; Superseded].
Proof. vm_compute. repeat split. Qed.
Print Assumptions C05_example_explain.

(* an excluded path: explain says so and check does not evaluate it *)
Example C05_example_excluded :
  ex_excluded (explain ex_ck [true] ex_mv) = true /\ should_process ex_ck [true] ex_mv (Some [114; 115]) = false.
Proof. vm_compute. split; reflexivity. Qed.
Print Assumptions C05_example_excluded.

(* overrides: --max-lines 5 --warn-threshold 0.5 --count-comments change the verdict of a path no rule matches
   (600-line default limit becomes 5: 2 code + 4 comment lines now fail) and leave the rule-matched path alone *)
Definition ex_cli : cli_overrides := mk_cli (Some 5) true false (Some t05) None.
Example C05_example_overrides :
  res_status (process_for_check (check_checker ex_cfg no_overrides) [false; false; false] (mk_stats 11 2 4 5 0)) = Passed /\
  res_status (process_for_check (check_checker ex_cfg ex_cli) [false; false; false] (mk_stats 11 2 4 5 0)) = Failed /\
  limit_for (check_checker ex_cfg ex_cli) ex_mv = (20, Some [115]) /\
  warn_limit_with_source (check_checker ex_cfg ex_cli) ex_mv 20 = (16, RulePercentage 1 t08) /\
  skip_settings_for (check_checker ex_cfg ex_cli) ex_mv = (false, true).
Proof. vm_compute. repeat split. Qed.
Print Assumptions C05_example_overrides.

(* 1e300, NaN as f64 bits *)
Definition t1e300 : N := 9094988921128908188.
Definition tnan : N := 9221120237041090560.
Example C05_example_validation :
  validate_content ex_cfg = true /\
  validate_content (mk_config [] 5 t09 (Some 5) true true [] []) = false /\
  validate_content (mk_config [] 5 tnan None true true [] []) = false /\
  validate_content (mk_config [] 5 t09 None true true [] [mk_rule [42] 9 (Some t1e300) None None None None]) = false /\
  validate_content (mk_config [] 5 t09 None true true [] [mk_rule [42] 9 (Some tnan) None None None None]) = false /\
  validate_content (mk_config [] 5 t09 None true true [] [mk_rule [42] 9 (Some t05) (Some 9) None None None]) = false.
Proof. vm_compute. repeat split. Qed.
Print Assumptions C05_example_validation.

(* --max-lines 1 against warn_at = 3, and --warn-threshold 7.0, are configuration errors; valid overrides evaluate *)
Definition ex_cfg_wa : config := mk_config [] 10 t09 (Some 3) true true [] [].
Example C05_example_override_validation :
  check_file ex_cfg_wa (mk_cli (Some 1) false false None None) [] [] None (mk_stats 2 2 0 0 0) = ConfigError /\
  check_file ex_cfg_wa (mk_cli None false false (Some 4619567317775286272) None) [] [] None (mk_stats 2 2 0 0 0) = ConfigError /\
  (exists r, check_file ex_cfg_wa (mk_cli (Some 4) false false (Some t05) None) [] [] None (mk_stats 5 5 0 0 0) = Evaluated r /\ res_status r = Failed) /\
  explain_file ex_cfg_wa [] [] <> None /\
  explain_file (mk_config [] 5 tnan None true true [] []) [] [] = None.
Proof.
  vm_compute. repeat split; try discriminate. eexists. split; reflexivity.
Qed.
Print Assumptions C05_example_override_validation.

(* the verdict really depends on the count and on the limit (monotonicity is not vacuous) *)
Example C05_example_monotone_strict :
  sev (verdict 5 10 8) < sev (verdict 9 10 8) /\ sev (verdict 9 10 8) < sev (verdict 11 10 8) /\
  sev (verdict 11 12 8) < sev (verdict 11 10 8).
Proof. vm_compute. repeat split. Qed.
Print Assumptions C05_example_monotone_strict.
