(* Counter/Proofs_C03.v: line accounting is total (proofs). *)
From Coq Require Import NArith List Bool Lia.
From SG Require Import Counter.Lexer Counter.Sloc.
Import ListNotations.
Open Scope N_scope.

Definition partitioned (s : stats) : Prop := total s = code s + comment s + blank s + ignored s.

Lemma bump_partition : forall s c, partitioned s -> partitioned (bump s c).
Proof. unfold partitioned; intros s [] H; cbn; lia. Qed.

Lemma bump_total : forall s c, total (bump s c) = total s + 1.
Proof. intros s []; reflexivity. Qed.

Lemma count_lines_partition : forall sy ls s st r, partitioned s ->
  count_lines sy ls s st = Some r -> partitioned r.
Proof.
  intros sy ls; induction ls as [|l tl IH]; intros s st r H Hc; cbn in Hc.
  - now inversion Hc; subst.
  - destruct ((total s <? 10) && has_ignore_file sy l); [discriminate|].
    destruct (classify_line sy st l) as [c st']. eapply IH; [|exact Hc]. now apply bump_partition.
Qed.

Lemma count_lines_total : forall sy ls s st r,
  count_lines sy ls s st = Some r -> total r = total s + N.of_nat (length ls).
Proof.
  intros sy ls; induction ls as [|l tl IH]; intros s st r Hc; cbn [count_lines] in Hc.
  - inversion Hc; subst. cbn. lia.
  - destruct ((total s <? 10) && has_ignore_file sy l); [discriminate|].
    destruct (classify_line sy st l) as [c st']. apply IH in Hc. rewrite Hc, bump_total.
    cbn [length]. lia.
Qed.

Theorem count_partition : forall sy src r, count sy src = Some r -> partitioned r.
Proof. intros sy src r H. eapply count_lines_partition; [|exact H]. reflexivity. Qed.

Theorem count_total_is_line_count : forall sy src r,
  count sy src = Some r -> total r = N.of_nat (length (lines_str src)).
Proof. intros sy src r H. apply count_lines_total in H. cbn in H. exact H. Qed.

(* ---- run_lines / count_lines relation, append ---- *)
Lemma count_lines_run : forall sy ls s st,
  count_lines sy ls s st = option_map fst (run_lines sy ls s st).
Proof.
  intros sy ls; induction ls as [|l tl IH]; intros s st; cbn; [reflexivity|].
  destruct ((total s <? 10) && has_ignore_file sy l); [reflexivity|].
  destruct (classify_line sy st l) as [c st']. apply IH.
Qed.

Lemma run_lines_app : forall sy ls1 ls2 s st,
  run_lines sy (ls1 ++ ls2) s st =
  match run_lines sy ls1 s st with
  | Some (s', st') => run_lines sy ls2 s' st'
  | None => None
  end.
Proof.
  intros sy ls1; induction ls1 as [|l tl IH]; intros ls2 s st; cbn; [reflexivity|].
  destruct ((total s <? 10) && has_ignore_file sy l); [reflexivity|].
  destruct (classify_line sy st l) as [c st']. apply IH.
Qed.

Definition stats_le (a b : stats) : Prop :=
  total a <= total b /\ code a <= code b /\ comment a <= comment b /\
  blank a <= blank b /\ ignored a <= ignored b.

Lemma stats_le_refl : forall a, stats_le a a.
Proof. intros a; unfold stats_le; repeat split; lia. Qed.
Lemma stats_le_trans : forall a b c, stats_le a b -> stats_le b c -> stats_le a c.
Proof. unfold stats_le; intros a b c (?&?&?&?&?) (?&?&?&?&?); repeat split; lia. Qed.
Lemma bump_le : forall s c, stats_le s (bump s c).
Proof. intros s []; unfold stats_le; cbn; repeat split; lia. Qed.

Lemma run_lines_mono : forall sy ls s st r st',
  run_lines sy ls s st = Some (r, st') -> stats_le s r.
Proof.
  intros sy ls; induction ls as [|l tl IH]; intros s st r st' H; cbn in H.
  - inversion H; subst. apply stats_le_refl.
  - destruct ((total s <? 10) && has_ignore_file sy l); [discriminate|].
    destruct (classify_line sy st l) as [c st1]. apply IH in H.
    eapply stats_le_trans; [apply bump_le|exact H].
Qed.

Theorem append_monotone : forall sy ls ls' a b,
  count_lines sy ls stats0 st0 = Some a ->
  count_lines sy (ls ++ ls') stats0 st0 = Some b ->
  stats_le a b.
Proof.
  intros sy ls ls' a b Ha Hb. rewrite count_lines_run in Ha, Hb. rewrite run_lines_app in Hb.
  destruct (run_lines sy ls stats0 st0) as [[s1 st1]|]; [|discriminate].
  cbn in Ha. inversion Ha; subst s1.
  destruct (run_lines sy ls' a st1) as [[s2 st2]|] eqn:E; [|discriminate].
  cbn in Hb. inversion Hb; subst s2. eapply run_lines_mono; exact E.
Qed.

(* when appending turns a counted file into an ignored file, an appended line within the
   first ten physical lines is an ignore-file directive *)
Lemma run_lines_none : forall sy ls s st, run_lines sy ls s st = None ->
  exists k l, nth_error ls k = Some l /\ has_ignore_file sy l = true /\ total s + N.of_nat k < 10.
Proof.
  intros sy ls; induction ls as [|l tl IH]; intros s st H; cbn in H; [discriminate|].
  destruct ((total s <? 10) && has_ignore_file sy l) eqn:E.
  - apply andb_true_iff in E as [E1 E2]. apply N.ltb_lt in E1.
    exists 0%nat, l. cbn. repeat split; [assumption|lia].
  - destruct (classify_line sy st l) as [c st1]. apply IH in H as (k & l' & Hk & Hi & Hlt).
    exists (S k), l'. cbn [nth_error]. rewrite bump_total in Hlt. repeat split; [assumption..|lia].
Qed.

Theorem append_ignored_only_by_directive : forall sy ls ls' a,
  count_lines sy ls stats0 st0 = Some a ->
  count_lines sy (ls ++ ls') stats0 st0 = None ->
  exists k l, nth_error ls' k = Some l /\ has_ignore_file sy l = true /\
              N.of_nat (length ls) + N.of_nat k < 10.
Proof.
  intros sy ls ls' a Ha Hb. pose proof (count_lines_total _ _ _ _ _ Ha) as Ht.
  rewrite count_lines_run in Ha, Hb. rewrite run_lines_app in Hb.
  destruct (run_lines sy ls stats0 st0) as [[s1 st1]|]; [|discriminate].
  cbn in Ha. inversion Ha; subst s1.
  destruct (run_lines sy ls' a st1) as [[s2 st2]|] eqn:E; [discriminate|].
  apply run_lines_none in E as (k & l & Hk & Hi & Hlt). exists k, l.
  repeat split; [assumption..|]. cbn in Ht. lia.
Qed.

(* ---- the two line splitters agree ---- *)
Lemma revl_eq : forall A (l : list A), revl l = rev l.
Proof. intros. unfold revl. symmetry. apply rev_alt. Qed.

(* rev-based reference versions of the splitters (the model uses the linear-time [revl]) *)
Fixpoint split_nl_r (s : str) (cur : str) : list str :=
  match s with
  | [] => match cur with [] => [] | _ => [rev cur] end
  | c :: tl => if N.eqb c 10 then
                 (match cur with 13 :: r => rev r | _ => rev cur end) :: split_nl_r tl []
               else split_nl_r tl (c :: cur)
  end.
Definition strip_eol_r (l : str) : str :=
  match rev l with
  | 10 :: 13 :: r => rev r
  | 10 :: r => rev r
  | _ => l
  end.

Ltac n_cases x := destruct x as [|x]; [|do 4 (destruct x as [x|x|]; try (apply revl_eq || reflexivity))].

Lemma split_nl_r_eq : forall s cur, split_nl s cur = split_nl_r s cur.
Proof.
  induction s as [|c tl IH]; intros cur; cbn [split_nl split_nl_r].
  - destruct cur; [reflexivity|]. now rewrite revl_eq.
  - destruct (N.eqb c 10); [|apply IH]. f_equal; [|apply IH].
    destruct cur as [|x r]; [apply revl_eq|].
    destruct x as [|p]; [apply revl_eq|].
    do 4 (destruct p as [p|p|]; try apply revl_eq).
Qed.

Lemma strip_eol_r_eq : forall l, strip_eol l = strip_eol_r l.
Proof.
  intros l. unfold strip_eol, strip_eol_r. rewrite revl_eq.
  destruct (rev l) as [|x r]; [reflexivity|].
  destruct x as [|p]; [reflexivity|].
  do 4 (destruct p as [p|p|]; try reflexivity).
  destruct r as [|y r']; [apply revl_eq|].
  destruct y as [|q]; [apply revl_eq|].
  do 4 (destruct q as [q|q|]; try apply revl_eq).
Qed.

Lemma read_until_nl_len : forall s l r, read_until_nl s = (l, r) -> (length s = length l + length r)%nat.
Proof.
  induction s as [|c tl IH]; intros l r H; cbn in H.
  - inversion H; reflexivity.
  - destruct (N.eqb c 10).
    + inversion H; subst; cbn; lia.
    + destruct (read_until_nl tl) as [a r0] eqn:E. inversion H; subst. cbn. erewrite IH by reflexivity. lia.
Qed.

Definition ends_nl (l : str) : bool := match rev l with 10 :: _ => true | _ => false end.

(* characterisation of split_nl_r by one read_line step *)
Lemma split_nl_step : forall s cur,
  split_nl_r s cur =
  let '(l, r) := read_until_nl s in
  if ends_nl l then strip_eol_r (rev cur ++ l) :: split_nl_r r []
  else match rev cur ++ l with [] => [] | x => [x] end.
Proof.
  induction s as [|c tl IH]; intros cur; cbn [split_nl_r read_until_nl].
  - cbn. rewrite app_nil_r. destruct cur as [|x cur']; [reflexivity|].
    cbn [rev]. destruct (rev cur' ++ [x]) eqn:E; [|reflexivity].
    apply app_eq_nil in E as [_ E]; discriminate.
  - destruct (N.eqb_spec c 10) as [->|Hc].
    + cbn [ends_nl rev app]. unfold strip_eol_r. rewrite rev_app_distr. cbn [rev app].
      rewrite rev_involutive. destruct cur as [|x cur']; reflexivity.
    + rewrite IH. destruct (read_until_nl tl) as [a r] eqn:E.
      assert (Hends : ends_nl (c :: a) = ends_nl a).
      { unfold ends_nl. cbn [rev]. destruct (rev a) as [|y ys] eqn:Er; cbn.
        - destruct c as [|p]; [reflexivity|]. do 4 (destruct p as [p|p|]; try reflexivity). congruence.
        - reflexivity. }
      rewrite Hends. cbn [rev]. rewrite <- app_assoc. cbn [app]. reflexivity.
Qed.

Lemma lines_buf_fuel_eq : forall fuel s, (length s < fuel)%nat ->
  lines_buf_fuel fuel s = split_nl_r s [].
Proof.
  induction fuel as [|k IH]; intros s Hlen; [lia|].
  destruct s as [|c tl]; [reflexivity|].
  cbn [lines_buf_fuel]. rewrite split_nl_step.
  destruct (read_until_nl (c :: tl)) as [l r] eqn:E. rewrite strip_eol_r_eq.
  pose proof (read_until_nl_len _ _ _ E) as Hl.
  assert (Hne : l <> []).
  { cbn in E. destruct (N.eqb c 10); [inversion E; discriminate|].
    destruct (read_until_nl tl); inversion E; discriminate. }
  cbn [rev app].
  destruct (ends_nl l) eqn:En.
  - rewrite IH; [reflexivity|]. destruct l; [congruence|]. cbn in Hl. cbn in Hlen. lia.
  - (* last line without LF: r must be empty *)
    assert (Hr : r = []).
    { clear -E En. revert l r E En. generalize (c :: tl) as s. induction s as [|x xs IHs]; intros l r E En; cbn in E.
      - inversion E; reflexivity.
      - destruct (N.eqb_spec x 10) as [->|Hx].
        + inversion E; subst. cbn in En. discriminate.
        + destruct (read_until_nl xs) as [a r0] eqn:E2. inversion E; subst.
          apply (IHs a r eq_refl).
          unfold ends_nl in *. cbn [rev] in En. destruct (rev a) as [|y ys]; [reflexivity|]. cbn in En. exact En. }
    subst r. destruct k; [cbn in Hlen; destruct l; [congruence|]; cbn in Hl; lia|].
    cbn [lines_buf_fuel]. unfold strip_eol_r. unfold ends_nl in En.
    destruct l as [|y ys]; [congruence|].
    destruct (rev (y :: ys)) as [|z zs] eqn:Er; [reflexivity|].
    destruct z as [|p]; [reflexivity|].
    do 4 (destruct p as [p|p|]; try reflexivity). discriminate.
Qed.

Theorem lines_buf_eq_lines_str : forall s, lines_buf s = lines_str s.
Proof. intros s. unfold lines_buf, lines_str. rewrite split_nl_r_eq. apply lines_buf_fuel_eq. lia. Qed.

Theorem entry_points_agree : forall sy src, count_reader sy src = count sy src.
Proof. intros sy src. unfold count_reader, count. rewrite lines_buf_eq_lines_str. reflexivity. Qed.
