(* Counter/LexerIdx.v: index-level mirror of the char-vector scanners of src/counter/comment.rs.
   The Rust code works on chars: &[char] with explicit indices (chars[i], chars[i + 1], chars[i..],
   chars[..i], i += consumed inside while i < chars.len()). This file writes the same algorithm with
   explicit indices into a list: every indexing or slicing that Rust would bounds-check returns Panic when
   out of range, and every loop runs on fuel and returns OutOfFuel when exhausted. The refinement theorems
   (ProofsIdx.v) show that with fuel = length + 1 the result is always Ok and equals the list-level model:
   no out-of-range access, no non-advancing iteration, for every input. Definitions only. *)
From Coq Require Import NArith List Bool Arith.
From SG Require Import Counter.Lexer.
Import ListNotations.
Local Open Scope nat_scope.

Inductive res (A : Type) : Type := Ok (a : A) | Panic | OutOfFuel.
Arguments Ok {A} a. Arguments Panic {A}. Arguments OutOfFuel {A}.
Definition bind {A B} (r : res A) (f : A -> res B) : res B :=
  match r with Ok a => f a | Panic => Panic | OutOfFuel => OutOfFuel end.

(* chars[i] *)
Definition get (cs : str) (i : nat) : res char :=
  match nth_error cs i with Some c => Ok c | None => Panic end.
(* chars[i..] and chars[..i] : both panic when i > len *)
Definition from (cs : str) (i : nat) : res str := if i <=? length cs then Ok (skipn i cs) else Panic.
Definition upto (cs : str) (i : nat) : res str := if i <=? length cs then Ok (firstn i cs) else Panic.

Definition utf8_sum (s : str) : N := fold_right (fun c a => N.add (len_utf8 c) a) 0%N s.

(* StringSkipper::process_impl(chars, i, track) *)
Definition process_impl_idx (cs : str) (i : nat) (st : skst) (track_single : bool) : res (skst * nat) :=
  bind (get cs i) (fun c =>
  let len := length cs in
  let in_string := match st with Some _ => true | None => false end in
  if in_string && N.eqb c c_bslash && (i + 1 <? len) then Ok (st, 2)
  else
    (* (c == dq || c == sq) && i + 2 < len && chars[i+1] == c && chars[i+2] == c : short-circuit order *)
    bind (if (N.eqb c c_dq || N.eqb c c_sq) && (i + 2 <? len)
          then bind (get cs (i + 1)) (fun c1 => if N.eqb c1 c then bind (get cs (i + 2)) (fun c2 => Ok (N.eqb c2 c)) else Ok false)
          else Ok false) (fun triple_here =>
    let after_triple : option (skst * nat) :=
      if triple_here then
        match triple_of c with
        | Some td =>
            match st with
            | None => Some (Some td, 3)
            | Some d => if delim_eqb d td then Some (None, 3) else None
            end
        | None => None
        end
      else None in
    match after_triple with
    | Some r => Ok r
    | None =>
        if track_single then
          match single_of c with
          | Some sd =>
              match st with
              | None => Ok (Some sd, 1)
              | Some d => if negb (is_triple d) && matches_single d c then Ok (None, 1) else Ok (st, 1)
              end
          | None => Ok (st, 1)
          end
        else Ok (st, 1)
    end)).

(* match_rust_raw_string(chars, pos): while-loop over the hashes with i < len guards *)
Fixpoint count_hash_idx (fuel : nat) (cs : str) (i : nat) (level : nat) : res (nat * nat) :=
  match fuel with
  | O => OutOfFuel
  | S f =>
      if i <? length cs then
        bind (get cs i) (fun c => if N.eqb c c_hash then count_hash_idx f cs (i + 1) (level + 1) else Ok (i, level))
      else Ok (i, level)
  end.

Definition match_rust_raw_idx (cs : str) (pos : nat) : res (option (nat * nat)) :=
  (* if i >= len || chars[i] != 'r' return None *)
  if length cs <=? pos then Ok None else
  bind (get cs pos) (fun c =>
  if negb (N.eqb c c_r) then Ok None else
  bind (count_hash_idx (S (length cs)) cs (pos + 1) 0) (fun '(i, level) =>
  if length cs <=? i then Ok None else
  bind (get cs i) (fun q => if negb (N.eqb q c_dq) then Ok None else Ok (Some (i + 1 - pos, level))))).

(* try_skip_rust_raw_string: linear search for the end marker with chars[i..].starts_with *)
Fixpoint find_end_idx (fuel : nat) (cs endm : str) (i : nat) : res (option nat) :=
  match fuel with
  | O => OutOfFuel
  | S f =>
      if i <? length cs then
        bind (from cs i) (fun suf => if prefixb endm suf then Ok (Some i) else find_end_idx f cs endm (i + 1))
      else Ok None
  end.

Definition try_skip_raw_idx (cs : str) (pos : nat) : res (option nat) :=
  bind (match_rust_raw_idx cs pos) (fun m =>
  match m with
  | None => Ok None
  | Some (start_len, level) =>
      let endm := c_dq :: repeat c_hash level in
      bind (find_end_idx (S (length cs)) cs endm (pos + start_len)) (fun r =>
      match r with
      | Some i => Ok (Some (i + length endm - pos))
      | None => Ok (Some (length cs - pos))
      end)
  end).

(* find_outside_string(chars, needle, skip_raw_strings): the main while loop *)
Fixpoint fos_idx (fuel : nat) (cs needle : str) (skip_raw nq : bool) (i : nat) (st : skst) : res (option N) :=
  match fuel with
  | O => OutOfFuel
  | S f =>
      if i <? length cs then
        bind (get cs i) (fun c =>
        let not_in := match st with None => true | Some _ => false end in
        bind (if skip_raw && not_in && N.eqb c c_r then try_skip_raw_idx cs i else Ok None) (fun sk =>
        match sk with
        | Some skip_len => fos_idx f cs needle skip_raw nq (i + skip_len) st
        | None =>
            bind (from cs i) (fun suf =>
            if not_in && prefixb needle suf then bind (upto cs i) (fun pre => Ok (Some (utf8_sum pre)))
            else bind (process_impl_idx cs i st (negb nq)) (fun '(st', consumed) =>
                 fos_idx f cs needle skip_raw nq (i + consumed) st'))
        end))
      else Ok None
  end.

Definition find_outside_string_idx (cs needle : str) (skip_raw : bool) : res (option N) :=
  match needle with
  | [] => Ok None
  | _ => fos_idx (S (length cs)) cs needle skip_raw (needle_is_multiquote needle) 0 None
  end.
