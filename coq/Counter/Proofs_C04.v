(* Counter/Proofs_C04.v: neutral lines (blank / pure line comment) leave the machine state unchanged. *)
From Coq Require Import NArith List Bool Lia.
From SG Require Import Counter.Lexer Counter.Sloc Counter.Proofs_C03 Counter.ProofsLex.
Import ListNotations.
Open Scope N_scope.

(* ---- specification vocabulary ---- *)
Definition idle (st : lstate) : Prop := ml st = NotIn /\ ign_rem st = 0 /\ ign_blk st = false.

(* markers are non-empty, do not begin with whitespace; a line-comment prefix does not begin
   with r when raw strings are skipped (so the raw-string skipper cannot swallow it) *)
Definition wf_single (sy : syntax) (p : str) : bool :=
  match p with
  | [] => false
  | c :: _ => negb (is_ws c) && negb (has_rawstring sy && N.eqb c c_r)
  end.
Definition wf_multi (c : mlc) : bool :=
  match ml_start c with [] => false | x :: _ => negb (is_ws x) end.
Definition wf_syntax (sy : syntax) : bool :=
  forallb (wf_single sy) (single sy) && forallb wf_multi (multi sy).

(* the trimmed line lexically starts a block comment (Lua --[[, Ruby =begin, or an opener equal
   to / extending the line-comment prefix): such a line is not a pure line comment *)
Definition opener_at_c (t : str) (c : mlc) : bool :=
  if ml_linestart c then prefixb (ml_start c) t
  else match ml_kind c with
       | Static => prefixb (ml_start c) t
       | LuaLong => match match_lua t true with Some _ => true | None => false end
       | RustRaw => false
       end.
Definition opener_at (sy : syntax) (t : str) : bool := existsb (opener_at_c t) (multi sy).

Definition is_directive (sy : syntax) (t : str) : bool :=
  has_ignore_end sy t || has_ignore_start sy t ||
  match parse_ignore_next sy t with Some _ => true | None => false end.

Definition pure_line_comment (sy : syntax) (l : str) : Prop :=
  is_single_line_comment sy (trim l) = true /\
  is_directive sy (trim l) = false /\
  opener_at sy (trim_start l) = false.

Definition neutral (sy : syntax) (l : str) : Prop := trim l = [] \/ pure_line_comment sy l.
Definition neutral_class (l : str) : class := match trim l with [] => Blank | _ => Comment end.

(* ---- blank lines ---- *)
Lemma contains_nil : forall needle, needle <> [] -> contains needle [] = false.
Proof. intros [|x n] H; [congruence|reflexivity]. Qed.

Lemma blank_neutral : forall sy st l, idle st -> trim l = [] -> classify_line sy st l = (Blank, st).
Proof.
  intros sy st l (Hm & Hr & Hb) Ht. unfold classify_line. rewrite Ht.
  assert (Hdir : (if is_single_line_comment sy []
                  then if has_ignore_end sy [] then Some (Comment, {| ml := ml st; ign_rem := ign_rem st; ign_blk := false |})
                       else if has_ignore_start sy [] then Some (Comment, {| ml := ml st; ign_rem := ign_rem st; ign_blk := true |})
                       else match parse_ignore_next sy [] with
                            | Some n => Some (Comment, {| ml := ml st; ign_rem := n; ign_blk := ign_blk st |})
                            | None => None end
                  else None) = None).
  { destruct (is_single_line_comment sy []); [|reflexivity].
    unfold has_ignore_end, has_ignore_start, parse_ignore_next. cbn. reflexivity. }
  rewrite Hdir, Hb, Hr, Hm. reflexivity.
Qed.

(* ---- the earliest line-comment prefix is at or before the first non-blank character ---- *)
Lemma min_single_le : forall sy line ps p q,
  In p ps -> find_outside_string line p (has_rawstring sy) = Some q ->
  exists m, min_single sy line ps = Some m /\ m <= q.
Proof.
  intros sy line ps; induction ps as [|x ps IH]; intros p q Hin Hq; [destruct Hin|].
  cbn [min_single]. destruct Hin as [->|Hin].
  - rewrite Hq. destruct (min_single sy line ps) as [a|].
    + exists (N.min q a). split; [reflexivity|lia].
    + exists q. split; [reflexivity|lia].
  - destruct (IH p q Hin Hq) as (m & Hm & Hle). rewrite Hm.
    destruct (find_outside_string line x (has_rawstring sy)) as [q'|].
    + exists (N.min q' m). split; [reflexivity|lia].
    + exists m. split; [reflexivity|exact Hle].
Qed.

Lemma single_start_found : forall sy ws t,
  wf_syntax sy = true -> Forall (fun c => is_ws c = true) ws ->
  is_single_line_comment sy t = true ->
  exists m, find_single_start sy (ws ++ t) = Some m /\ m <= utf8_len ws.
Proof.
  intros sy ws t Hwf Hws Hs. unfold is_single_line_comment in Hs.
  apply existsb_exists in Hs as (p & Hin & Hp).
  unfold wf_syntax in Hwf. apply andb_true_iff in Hwf as [Hw1 _].
  rewrite forallb_forall in Hw1. specialize (Hw1 p Hin). unfold wf_single in Hw1.
  destruct p as [|c0 p']; [discriminate|].
  apply andb_true_iff in Hw1 as [Hnws Hnr]. apply negb_true_iff in Hnws, Hnr.
  destruct t as [|c t']; [discriminate|].
  assert (Hc : c = c0). { cbn in Hp. apply andb_true_iff in Hp as [E _]. apply N.eqb_eq in E. congruence. }
  subst c0.
  apply (min_single_le sy (ws ++ c :: t') (single sy) (c :: p') (utf8_len ws) Hin).
  unfold find_outside_string. rewrite fos_ws_prefix; [|exact Hnws|exact Hws].
  cbn [N.add]. apply fos_here; assumption.
Qed.

(* ---- every block-opener candidate lies at or after the first non-blank character, and one
        sitting exactly there means the trimmed line starts with an opener ---- *)
Lemma cand_position : forall sy ws t c p e,
  wf_multi c = true -> Forall (fun x => is_ws x = true) ws -> trim_start (ws ++ t) = t ->
  cand sy (ws ++ t) c = Some (p, e) ->
  utf8_len ws <= p /\ (p = utf8_len ws -> opener_at_c t c = true).
Proof.
  intros sy ws t c p e Hwf Hws Htrim H. unfold cand in H. unfold opener_at_c.
  destruct (ml_linestart c).
  - rewrite Htrim in H. destruct (prefixb (ml_start c) t) eqn:E; [|discriminate].
    inversion H; subst. rewrite utf8_len_app. split; [lia|reflexivity].
  - destruct (ml_kind c).
    + (* Static *)
      unfold find_outside_string in H. destruct (ml_start c) as [|x xs] eqn:Es; [discriminate|].
      unfold wf_multi in Hwf. rewrite Es in Hwf. apply negb_true_iff in Hwf.
      rewrite fos_ws_prefix in H; [|exact Hwf|exact Hws]. cbn [N.add] in H.
      destruct (fos (x :: xs) _ _ t 0 None (utf8_len ws)) as [q|] eqn:Ef; [|discriminate].
      inversion H; subst. apply fos_ge in Ef as [H1 H2]. split; [exact H1|].
      intros Heq. apply H2 in Heq as (_ & _ & Hp). exact Hp.
    + (* LuaLong *)
      rewrite flua_ws_prefix in H by exact Hws. cbn [N.add] in H.
      destruct (flua t 0 None (utf8_len ws)) as [[q lvl]|] eqn:Ef; [|discriminate].
      inversion H; subst. apply flua_ge in Ef as [H1 H2]. split; [exact H1|].
      intros Heq. apply H2 in Heq. destruct (match_lua t true); [reflexivity|congruence].
    + discriminate.
Qed.

Lemma best_source : forall sy line cs acc c p e,
  best sy line cs acc = Some (c, p, e) ->
  acc = Some (c, p, e) \/ (In c cs /\ cand sy line c = Some (p, e)).
Proof.
  intros sy line cs; induction cs as [|x cs IH]; intros acc c p e H; cbn [best] in H; [now left|].
  apply IH in H as [H|[Hin Hc]].
  - destruct (cand sy line x) as [[p' e']|] eqn:Ec.
    + destruct acc as [[[c0 bp] e0]|].
      * destruct (p' <? bp).
        -- inversion H; subst. right. split; [now left|exact Ec].
        -- now left.
      * inversion H; subst. right. split; [now left|exact Ec].
    + now left.
  - right. split; [now right|exact Hc].
Qed.

Lemma trim_start_idem_split : forall ws t,
  Forall (fun c => is_ws c = true) ws -> trim_start t = t -> trim_start (ws ++ t) = t.
Proof.
  induction ws as [|c ws IH]; intros t Hw Ht; [exact Ht|].
  inversion Hw; subst. cbn. rewrite H1. now apply IH.
Qed.

Lemma trim_start_idem : forall l, trim_start (trim_start l) = trim_start l.
Proof.
  induction l as [|c tl IH]; [reflexivity|]. cbn. destruct (is_ws c) eqn:E; [exact IH|].
  cbn. now rewrite E.
Qed.

Lemma no_block_start_in_pure_comment : forall sy l,
  wf_syntax sy = true -> pure_line_comment sy l -> find_ml_start sy l = None.
Proof.
  intros sy l Hwf (Hs & _ & Hop).
  destruct (trim_start_split l) as (ws & Hl & Hws).
  set (t := trim_start l) in *.
  assert (Hs' : is_single_line_comment sy t = true).
  { unfold is_single_line_comment in *. apply existsb_exists in Hs as (p & Hin & Hp).
    apply existsb_exists. exists p. split; [exact Hin|]. now apply prefixb_trim. }
  unfold find_ml_start. rewrite Hl.
  destruct (best sy (ws ++ t) (multi sy) None) as [[[c p] e]|] eqn:Eb; [|reflexivity].
  apply best_source in Eb as [Eb|[Hin Hc]]; [discriminate|].
  assert (Hwm : wf_multi c = true).
  { unfold wf_syntax in Hwf. apply andb_true_iff in Hwf as [_ H2]. rewrite forallb_forall in H2. now apply H2. }
  assert (Htt : trim_start (ws ++ t) = t).
  { apply trim_start_idem_split; [exact Hws|]. apply trim_start_idem. }
  destruct (cand_position sy ws t c p e Hwm Hws Htt Hc) as [Hge Heq].
  destruct (single_start_found sy ws t Hwf Hws Hs') as (m & Hm & Hle).
  rewrite Hm.
  assert (Hne : p <> utf8_len ws).
  { intros E. apply Heq in E. unfold opener_at in Hop.
    assert (existsb (opener_at_c t) (multi sy) = true) by (apply existsb_exists; eauto). congruence. }
  assert (Hlt : m <? p = true) by (apply N.ltb_lt; lia).
  now rewrite Hlt.
Qed.

Lemma single_comment_nonempty : forall sy t, wf_syntax sy = true ->
  is_single_line_comment sy t = true -> t <> [].
Proof.
  intros sy t Hwf Hs ->. unfold is_single_line_comment in Hs. apply existsb_exists in Hs as (p & Hin & Hp).
  unfold wf_syntax in Hwf. apply andb_true_iff in Hwf as [H1 _]. rewrite forallb_forall in H1.
  specialize (H1 p Hin). destruct p; [discriminate|discriminate].
Qed.

Lemma line_comment_neutral : forall sy st l,
  wf_syntax sy = true -> idle st -> pure_line_comment sy l ->
  classify_line sy st l = (Comment, st).
Proof.
  intros sy st l Hwf (Hm & Hr & Hb) Hp.
  pose proof (no_block_start_in_pure_comment sy l Hwf Hp) as Hnone.
  destruct Hp as (Hs & Hd & _).
  unfold is_directive in Hd. apply orb_false_iff in Hd as [Hd Hn]. apply orb_false_iff in Hd as [He Hst].
  unfold classify_line. rewrite Hs, He, Hst.
  destruct (parse_ignore_next sy (trim l)); [discriminate|].
  rewrite Hb, Hr, Hm. cbn [N.ltb N.compare].
  destruct (trim l) eqn:Et; [exfalso; eapply single_comment_nonempty; eauto|].
  rewrite Hnone. reflexivity.
Qed.

Lemma neutral_step : forall sy st l, wf_syntax sy = true -> idle st -> neutral sy l ->
  classify_line sy st l = (neutral_class l, st).
Proof.
  intros sy st l Hwf Hi [Hb|Hp]; unfold neutral_class.
  - rewrite Hb. now apply blank_neutral.
  - rewrite (line_comment_neutral sy st l Hwf Hi Hp).
    destruct (trim l) eqn:E; [|reflexivity].
    exfalso. destruct Hp as (Hs & _). rewrite E in Hs. eapply single_comment_nonempty; eauto.
Qed.

(* ---- lifting to whole files ---- *)
Lemma classes_app : forall sy ls1 ls2 st,
  classes sy (ls1 ++ ls2) st = classes sy ls1 st ++ classes sy ls2 (state_after sy ls1 st).
Proof.
  intros sy ls1; induction ls1 as [|l tl IH]; intros ls2 st; cbn; [reflexivity|].
  destruct (classify_line sy st l) as [c st']. cbn. now rewrite IH.
Qed.

Theorem insert_delete : forall sy ls1 l ls2 st,
  wf_syntax sy = true -> idle (state_after sy ls1 st) -> neutral sy l ->
  classes sy (ls1 ++ l :: ls2) st =
    classes sy ls1 st ++ neutral_class l :: classes sy ls2 (state_after sy ls1 st)
  /\ classes sy (ls1 ++ ls2) st =
    classes sy ls1 st ++ classes sy ls2 (state_after sy ls1 st).
Proof.
  intros sy ls1 l ls2 st Hwf Hi Hn. split; [|apply classes_app].
  rewrite classes_app. f_equal. cbn [classes].
  rewrite (neutral_step sy _ l Hwf Hi Hn). reflexivity.
Qed.

(* counts are the tally of the classes when no ignore-file directive fires *)
Definition tally (cs : list class) (s : stats) : stats := fold_left bump cs s.

Lemma count_lines_tally : forall sy ls s st,
  Forall (fun l => has_ignore_file sy l = false) ls ->
  count_lines sy ls s st = Some (tally (classes sy ls st) s).
Proof.
  intros sy ls; induction ls as [|l tl IH]; intros s st H; cbn; [reflexivity|].
  inversion H; subst. rewrite H2, andb_false_r.
  destruct (classify_line sy st l) as [c st']. cbn. now apply IH.
Qed.

Lemma tally_app : forall a b s, tally (a ++ b) s = tally b (tally a s).
Proof. intros. unfold tally. apply fold_left_app. Qed.

Lemma tally_code_mono_eq : forall cs s s', code s = code s' -> code (tally cs s) = code (tally cs s').
Proof.
  induction cs as [|c cs IH]; intros s s' H; cbn; [exact H|]. apply IH. destruct c; cbn; lia.
Qed.

Lemma neutral_class_not_code : forall l s, code (bump s (neutral_class l)) = code s.
Proof. intros l s. unfold neutral_class. destruct (trim l); reflexivity. Qed.

Theorem code_count_unchanged : forall sy ls1 l ls2 r r',
  wf_syntax sy = true -> idle (state_after sy ls1 st0) -> neutral sy l ->
  Forall (fun x => has_ignore_file sy x = false) (ls1 ++ l :: ls2) ->
  count_lines sy (ls1 ++ l :: ls2) stats0 st0 = Some r ->
  count_lines sy (ls1 ++ ls2) stats0 st0 = Some r' ->
  code r = code r'.
Proof.
  intros sy ls1 l ls2 r r' Hwf Hi Hn Hno Hr Hr'.
  assert (Hno' : Forall (fun x => has_ignore_file sy x = false) (ls1 ++ ls2)).
  { apply Forall_app in Hno as [H1 H2]. inversion H2; subst. apply Forall_app. split; assumption. }
  rewrite count_lines_tally in Hr by exact Hno. rewrite count_lines_tally in Hr' by exact Hno'.
  destruct (insert_delete sy ls1 l ls2 st0 Hwf Hi Hn) as [E1 E2]. rewrite E1 in Hr. rewrite E2 in Hr'.
  inversion Hr; inversion Hr'; subst.
  rewrite !tally_app. cbn [tally fold_left]. fold (tally (classes sy ls2 (state_after sy ls1 st0))).
  apply tally_code_mono_eq. apply neutral_class_not_code.
Qed.
