(* Counter/ProofsScan.v: the string-aware scanners traverse well-formed code segments transparently. *)
From Coq Require Import NArith List Bool Lia.
From SG Require Import Counter.Lexer Counter.Sloc Counter.Proofs_C03 Counter.ProofsLex Counter.Truth.
Import ListNotations.
Open Scope N_scope.

Lemma qchar_not_r : forall q, N.eqb (qchar q) c_r = false.
Proof. destruct q; reflexivity. Qed.

(* one step over a non-quote top-level character *)
Lemma fos_plain_step : forall needle sr nq c tl bp,
  is_quote c = false -> prefixb needle (c :: tl) = false -> raw_head_here sr (c :: tl) = false ->
  fos needle sr nq (c :: tl) O None bp = fos needle sr nq tl O None (bp + len_utf8 c).
Proof.
  intros needle sr nq c tl bp Hq Hp Hr. cbn [fos]. rewrite andb_true_r.
  unfold is_quote in Hq. apply orb_false_iff in Hq as [Hdq Hsq].
  assert (Hraw : (if sr && N.eqb c c_r then try_skip_raw (c :: tl) else None) = None).
  { unfold raw_head_here in Hr. destruct sr; [|reflexivity]. cbn [andb] in *.
    destruct (N.eqb c c_r) eqn:Ec; [|reflexivity]. cbn [andb] in Hr.
    unfold try_skip_raw. destruct (match_rust_raw (c :: tl)); [discriminate|reflexivity]. }
  rewrite Hraw, Hp. cbn [andb].
  rewrite process_impl_inert by (apply N.eqb_neq; assumption). reflexivity.
Qed.

Lemma fos_plain : forall needle sr nq w rest bp,
  plain_ok needle sr w rest = true ->
  fos needle sr nq (w ++ rest) O None bp = fos needle sr nq rest O None (bp + utf8_len w).
Proof.
  intros needle sr nq w; induction w as [|c w IH]; intros rest bp H.
  - cbn. now rewrite N.add_0_r.
  - cbn [plain_ok] in H. apply andb_true_iff in H as [H Hrec]. apply andb_true_iff in H as [H Hraw].
    apply andb_true_iff in H as [Hq Hp]. apply negb_true_iff in Hq, Hp, Hraw.
    cbn [app] in *. rewrite fos_plain_step by assumption. rewrite IH by assumption.
    f_equal. unfold utf8_len. cbn [fold_right]. lia.
Qed.

(* the skipper inside an ordinary (single/double) string literal *)
Ltac pi_cases tl :=
  unfold process_impl; destruct tl as [|?c1 [|?c2 ?r]]; cbn;
  repeat match goal with
         | |- context [N.eqb ?a ?b && N.eqb ?c ?d] => destruct (N.eqb a b && N.eqb c d); cbn
         end; try reflexivity.

Lemma pi_close : forall q tl, process_impl (Some (qdelim q)) (qchar q) tl true = (None, 1%nat).
Proof. intros [] tl; pi_cases tl. Qed.

Lemma pi_esc : forall d c tl tr, process_impl (Some d) c_bslash (c :: tl) tr = (Some d, 2%nat).
Proof. intros. reflexivity. Qed.

Lemma pi_other : forall q c tl, N.eqb c (qchar q) = false -> N.eqb c c_bslash = false ->
  process_impl (Some (qdelim q)) c tl true = (Some (qdelim q), 1%nat).
Proof.
  intros q c tl Hq Hb. unfold process_impl. cbn [andb]. rewrite Hb. cbn [andb].
  destruct (N.eqb c c_dq) eqn:Edq; destruct (N.eqb c c_sq) eqn:Esq; cbn [orb andb].
  - apply N.eqb_eq in Edq, Esq. subst. discriminate.
  - apply N.eqb_eq in Edq. subst c. destruct q; [|discriminate].
    destruct tl as [|c1 [|c2 r]]; cbn; try reflexivity.
    destruct (N.eqb c1 c_dq && N.eqb c2 c_dq); reflexivity.
  - apply N.eqb_eq in Esq. subst c. destruct q; [discriminate|].
    destruct tl as [|c1 [|c2 r]]; cbn; try reflexivity.
    destruct (N.eqb c1 c_sq && N.eqb c2 c_sq); reflexivity.
  - unfold single_of. rewrite Esq, Edq. reflexivity.
Qed.

(* inside an ordinary string literal the scan runs to the closing quote *)
Lemma fos_body : forall needle sr q b rest bp,
  body_ok q b = true ->
  fos needle sr false (render_body b ++ qchar q :: rest) O (Some (qdelim q)) bp =
  fos needle sr false rest O None (bp + utf8_len (render_body b) + 1).
Proof.
  intros needle sr q b; induction b as [|i b IH]; intros rest bp H.
  - cbn [render_body flat_map app fos]. rewrite !andb_false_r. cbn [andb negb].
    rewrite pi_close. cbn [pred]. f_equal. destruct q; cbn; lia.
  - cbn [body_ok forallb] in H. apply andb_true_iff in H as [Hi Hb].
    cbn [render_body flat_map]. fold (render_body b). rewrite <- app_assoc.
    destruct i as [c|c]; cbn [render_item app].
    + apply andb_true_iff in Hi as [Hnq Hnb]. apply negb_true_iff in Hnq, Hnb.
      cbn [fos]. rewrite !andb_false_r. cbn [andb negb].
      rewrite pi_other by assumption. cbn [pred]. rewrite IH by assumption. f_equal.
      unfold utf8_len. cbn [fold_right]. lia.
    + cbn [fos]. rewrite !andb_false_r. cbn [andb negb].
      rewrite pi_esc. cbn [pred fos]. rewrite IH by assumption. f_equal.
      unfold utf8_len. cbn [fold_right]. change (len_utf8 c_bslash) with 1. lia.
Qed.

Lemma pi_open : forall q tl,
  match tl with c1 :: c2 :: _ => N.eqb c1 (qchar q) && N.eqb c2 (qchar q) | _ => false end = false ->
  process_impl None (qchar q) tl true = (Some (qdelim q), 1%nat).
Proof.
  intros q tl H. unfold process_impl. cbn [andb].
  destruct q; cbn [qchar qdelim] in *; cbn;
    destruct tl as [|c1 [|c2 r]]; cbn; try reflexivity; rewrite H; reflexivity.
Qed.

Lemma open_not_triple : forall q b rest,
  body_ok q b = true ->
  match b with [] => match rest with c :: _ => N.eqb c (qchar q) | [] => false end | _ => false end = false ->
  match render_body b ++ qchar q :: rest with
  | c1 :: c2 :: _ => N.eqb c1 (qchar q) && N.eqb c2 (qchar q) | _ => false end = false.
Proof.
  intros q b rest Hb Hn. destruct b as [|i b].
  - cbn. destruct rest as [|c r]; [reflexivity|]. rewrite N.eqb_refl. cbn. exact Hn.
  - cbn [body_ok forallb] in Hb. apply andb_true_iff in Hb as [Hi _].
    cbn [render_body flat_map]. destruct i as [c|c]; cbn [render_item app].
    + apply andb_true_iff in Hi as [Hq _]. apply negb_true_iff in Hq.
      destruct (flat_map render_item b ++ qchar q :: rest); [reflexivity|]. rewrite Hq. reflexivity.
    + destruct q; reflexivity.
Qed.

(* Lemma A: a scan for a non-quote needle passes over well-formed code segments *)
Lemma fos_segs : forall needle sr ss rest bp,
  segs_ok needle sr ss rest = true ->
  fos needle sr false (render_segs ss ++ rest) O None bp =
  fos needle sr false rest O None (bp + utf8_len (render_segs ss)).
Proof.
  intros needle sr ss; induction ss as [|s ss IH]; intros rest bp H.
  - cbn. now rewrite N.add_0_r.
  - cbn [render_segs flat_map]. fold (render_segs ss). rewrite <- app_assoc.
    destruct s as [w|q b]; cbn [segs_ok] in H.
    + apply andb_true_iff in H as [Hw Hrec]. cbn [render_seg].
      rewrite fos_plain by exact Hw. rewrite IH by exact Hrec.
      f_equal. rewrite utf8_len_app. lia.
    + apply andb_true_iff in H as [H Hrec]. apply andb_true_iff in H as [H Htr].
      apply andb_true_iff in H as [Hb Hp]. apply negb_true_iff in Hp, Htr.
      cbn [render_seg] in *. cbn [app] in *. rewrite <- app_assoc in *. cbn [app] in *.
      cbn [fos]. rewrite qchar_not_r, !andb_false_r. cbn [andb].
      rewrite Hp.
      rewrite pi_open by (apply open_not_triple; assumption).
      cbn [negb pred]. rewrite fos_body by exact Hb. rewrite IH by exact Hrec.
      f_equal. change (qchar q :: (render_body b ++ [qchar q]) ++ render_segs ss)
        with ([qchar q] ++ (render_body b ++ [qchar q]) ++ render_segs ss).
      rewrite !utf8_len_app.
      assert (Hq1 : utf8_len [qchar q] = 1) by (destruct q; reflexivity).
      assert (Hq2 : len_utf8 (qchar q) = 1) by (destruct q; reflexivity).
      rewrite Hq1, Hq2. lia.
Qed.


Lemma prefixb_self_app : forall n tail, prefixb n (n ++ tail) = true.
Proof. induction n as [|c n IH]; intros; cbn; [reflexivity|]. rewrite N.eqb_refl. apply IH. Qed.

(* Lemma B: in quote-free text the closer is found *)
Lemma fos_quote_free_finds : forall needle nq text tail bp,
  needle <> [] -> quote_free text = true ->
  exists q, fos needle false nq (text ++ needle ++ tail) O None bp = Some q.
Proof.
  intros needle nq text; induction text as [|c text IH]; intros tail bp Hn Hq.
  - cbn [app]. destruct needle as [|n0 nt]; [congruence|]. exists bp.
    cbn [app fos andb]. change (n0 :: nt ++ tail) with ((n0 :: nt) ++ tail).
    now rewrite prefixb_self_app.
  - cbn [quote_free forallb] in Hq. apply andb_true_iff in Hq as [Hc Hq]. apply negb_true_iff in Hc.
    cbn [app fos andb].
    destruct (prefixb needle (c :: text ++ needle ++ tail)); [now exists bp|].
    unfold is_quote in Hc. apply orb_false_iff in Hc as [Hdq Hsq].
    rewrite process_impl_inert by (apply N.eqb_neq; assumption). cbn [pred]. apply IH; assumption.
Qed.

(* Lemma C: whatever the scanner finds is an occurrence of the needle *)
Lemma fos_found_occurs : forall needle sr nq s skip st bp q,
  fos needle sr nq s skip st bp = Some q -> contains needle s = true.
Proof.
  intros needle sr nq s; induction s as [|c tl IH]; intros skip st bp q H; cbn [fos] in H; [discriminate|].
  cbn [contains]. destruct skip as [|k].
  - destruct (if sr && match st with None => true | Some _ => false end && N.eqb c c_r
              then try_skip_raw (c :: tl) else None) as [[|n]|].
    + discriminate.
    + apply IH in H. rewrite H. apply orb_true_r.
    + destruct (match st with None => true | Some _ => false end && prefixb needle (c :: tl)) eqn:Ep.
      * apply andb_true_iff in Ep as [_ Ep]. now rewrite Ep.
      * destruct (process_impl st c tl (negb nq)) as [st' consumed]. apply IH in H. rewrite H. apply orb_true_r.
  - apply IH in H. rewrite H. apply orb_true_r.
Qed.

Lemma no_occurrence_no_end : forall line em, contains em line = false -> contains_ml_end line em = false.
Proof.
  intros line em H. unfold contains_ml_end, find_outside_string. destruct em as [|e0 et]; [reflexivity|].
  destruct (fos (e0 :: et) false _ line 0 None 0) eqn:E; [|reflexivity].
  apply fos_found_occurs in E. congruence.
Qed.

Lemma quote_free_end_found : forall text em tail, em <> [] -> quote_free text = true ->
  contains_ml_end (text ++ em ++ tail) em = true.
Proof.
  intros text em tail Hn Hq. unfold contains_ml_end, find_outside_string.
  destruct em as [|e0 et]; [congruence|].
  destruct (fos_quote_free_finds (e0 :: et) (needle_is_multiquote (e0 :: et)) text tail 0 Hn Hq) as (q & ->).
  reflexivity.
Qed.

Lemma fos_here_raw : forall needle sr nq c tl bp,
  raw_head_here sr (c :: tl) = false -> prefixb needle (c :: tl) = true ->
  fos needle sr nq (c :: tl) O None bp = Some bp.
Proof.
  intros needle sr nq c tl bp Hr Hp. cbn [fos]. rewrite andb_true_r.
  assert (Hraw : (if sr && N.eqb c c_r then try_skip_raw (c :: tl) else None) = None).
  { unfold raw_head_here in Hr. destruct sr; [|reflexivity]. cbn [andb] in *.
    destruct (N.eqb c c_r) eqn:Ec; [|reflexivity]. cbn [andb] in Hr.
    unfold try_skip_raw. destruct (match_rust_raw (c :: tl)); [discriminate|reflexivity]. }
  rewrite Hraw, Hp. reflexivity.
Qed.

(* ---- the Lua long-bracket scanner over code segments ---- *)
Lemma match_lua_quote : forall q tl, match_lua (qchar q :: tl) true = None.
Proof. intros [] tl; unfold match_lua; destruct tl; reflexivity. Qed.

Lemma flua_plain : forall w rest bp, plain_ok_lua w rest = true ->
  flua (w ++ rest) O None bp = flua rest O None (bp + utf8_len w).
Proof.
  induction w as [|c w IH]; intros rest bp H.
  - cbn. now rewrite N.add_0_r.
  - cbn [plain_ok_lua] in H. apply andb_true_iff in H as [H Hrec]. apply andb_true_iff in H as [Hq Hm].
    apply negb_true_iff in Hq, Hm. cbn [app] in *. cbn [flua].
    destruct (match_lua (c :: w ++ rest) true); [discriminate|].
    unfold is_quote in Hq. apply orb_false_iff in Hq as [Hdq Hsq].
    rewrite process_impl_inert by (apply N.eqb_neq; assumption). cbn [pred].
    rewrite IH by assumption. f_equal. unfold utf8_len. cbn [fold_right]. lia.
Qed.

Lemma flua_body : forall q b rest bp, body_ok q b = true ->
  flua (render_body b ++ qchar q :: rest) O (Some (qdelim q)) bp =
  flua rest O None (bp + utf8_len (render_body b) + 1).
Proof.
  intros q b; induction b as [|i b IH]; intros rest bp H.
  - cbn [render_body flat_map app flua]. rewrite pi_close. cbn [pred]. f_equal. destruct q; cbn; lia.
  - cbn [body_ok forallb] in H. apply andb_true_iff in H as [Hi Hb].
    cbn [render_body flat_map]. fold (render_body b). rewrite <- app_assoc.
    destruct i as [c|c]; cbn [render_item app].
    + apply andb_true_iff in Hi as [Hnq Hnb]. apply negb_true_iff in Hnq, Hnb.
      cbn [flua]. rewrite pi_other by assumption. cbn [pred]. rewrite IH by assumption. f_equal.
      unfold utf8_len. cbn [fold_right]. lia.
    + cbn [flua]. rewrite pi_esc. cbn [pred flua]. rewrite IH by assumption. f_equal.
      unfold utf8_len. cbn [fold_right]. change (len_utf8 c_bslash) with 1. lia.
Qed.

Lemma flua_segs : forall ss rest bp, segs_ok_lua ss rest = true ->
  flua (render_segs ss ++ rest) O None bp = flua rest O None (bp + utf8_len (render_segs ss)).
Proof.
  induction ss as [|s ss IH]; intros rest bp H.
  - cbn. now rewrite N.add_0_r.
  - cbn [render_segs flat_map]. fold (render_segs ss). rewrite <- app_assoc.
    destruct s as [w|q b]; cbn [segs_ok_lua] in H.
    + apply andb_true_iff in H as [Hw Hrec]. cbn [render_seg].
      rewrite flua_plain by exact Hw. rewrite IH by exact Hrec. f_equal. rewrite utf8_len_app. lia.
    + apply andb_true_iff in H as [H Hrec]. apply andb_true_iff in H as [Hb Htr]. apply negb_true_iff in Htr.
      cbn [render_seg] in *. cbn [app] in *. rewrite <- app_assoc in *. cbn [app] in *.
      cbn [flua]. rewrite match_lua_quote.
      rewrite pi_open by (apply open_not_triple; assumption).
      cbn [pred]. rewrite flua_body by exact Hb. rewrite IH by exact Hrec.
      f_equal. change (qchar q :: (render_body b ++ [qchar q]) ++ render_segs ss)
        with ([qchar q] ++ (render_body b ++ [qchar q]) ++ render_segs ss).
      rewrite !utf8_len_app.
      assert (Hq1 : utf8_len [qchar q] = 1) by (destruct q; reflexivity).
      assert (Hq2 : len_utf8 (qchar q) = 1) by (destruct q; reflexivity).
      rewrite Hq1, Hq2. lia.
Qed.

