(* Counter/ProofsIdx2.v: the index-level Lua long-bracket scanner and the nesting marker counter never go
   out of range, never stall, and compute exactly what the list-level model (Sloc.v: match_lua, flua, cmk)
   computes. Continues ProofsIdx.v. *)
From Coq Require Import NArith List Bool Arith Lia.
From SG Require Import Counter.Lexer Counter.LexerIdx Counter.ProofsIdx Counter.Sloc Counter.SlocIdx.
Import ListNotations.
Local Open Scope nat_scope.

Lemma skipn_cons_facts : forall (cs : str) i c tl, skipn i cs = c :: tl ->
  nth_error cs i = Some c /\ skipn (S i) cs = tl /\ length cs = i + 1 + length tl.
Proof.
  intros cs i c tl H. pose proof (skipn_length_eq cs i c tl H) as L.
  assert (Hi : i < length cs) by lia.
  destruct (skipn_cons_nth cs i Hi) as (c' & tl' & H1 & H2 & H3). rewrite H in H1. inversion H1; subst.
  auto.
Qed.

Lemma skipn_add_S : forall (cs : str) i c tl n, skipn i cs = c :: tl -> skipn (i + S n) cs = skipn n tl.
Proof.
  intros cs i c tl n H. destruct (skipn_cons_facts cs i c tl H) as (_ & H3 & _). rewrite <- H3. clear.
  revert i. induction cs as [|x cs IHc]; intros i; [now rewrite !skipn_nil|].
  destruct i as [|i]; [cbn; reflexivity|]. cbn [Nat.add skipn]. apply IHc.
Qed.

Lemma prefixb_length : forall p s, prefixb p s = true -> length p <= length s.
Proof.
  induction p as [|a p IH]; intros s H; [cbn; lia|].
  destruct s as [|b s]; [discriminate|]. cbn in H. apply andb_true_iff in H as [_ H]. apply IH in H. cbn. lia.
Qed.

(* ---- counting a run of one character ---- *)
Lemma count_ch_idx_ok : forall ch cs fuel i level n rest,
  i <= length cs -> length cs - i < fuel ->
  count_while ch (skipn i cs) = (n, rest) ->
  count_ch_idx ch fuel cs i level = Ok (i + n, level + n) /\ rest = skipn (i + n) cs /\ i + n <= length cs.
Proof.
  intros ch cs fuel; induction fuel as [|f IH]; intros i level n rest Hi Hf Hc; [lia|].
  cbn [count_ch_idx].
  destruct (i <? length cs) eqn:E.
  - apply Nat.ltb_lt in E. destruct (skipn_cons_nth cs i E) as (c & tl & H1 & H2 & H3).
    rewrite (get_ok _ _ _ H2). cbn [bind]. rewrite H1 in Hc. cbn [count_while] in Hc.
    destruct (N.eqb c ch).
    + destruct (count_while ch tl) as [n' r'] eqn:E2. inversion Hc; subst n rest.
      rewrite <- H3 in E2. destruct (IH (S i) (level + 1) n' r') as (A & B & C); [lia|lia|exact E2|].
      replace (i + 1) with (S i) by lia. rewrite A. repeat split; [f_equal; f_equal; lia| |lia].
      rewrite B. f_equal. lia.
    + inversion Hc; subst n rest. rewrite !Nat.add_0_r. repeat split; [exact (eq_sym H1)|lia].
  - apply Nat.ltb_ge in E. assert (i = length cs) by lia. subst i.
    rewrite skipn_all in Hc. cbn in Hc. inversion Hc; subst. rewrite !Nat.add_0_r.
    repeat split; [now rewrite skipn_all|lia].
Qed.

(* ---- match_lua_long_bracket with the dash prefix ---- *)
Lemma match_lua_idx_ok : forall cs pos, pos < length cs ->
  match_lua_idx cs pos true = Ok (option_map (fun lvl => (lvl + 4, lvl)) (match_lua (skipn pos cs) true)).
Proof.
  intros cs pos Hp. destruct (skipn_cons_nth cs pos Hp) as (a & r1 & H1 & _ & _).
  destruct (skipn_cons_facts cs pos a r1 H1) as (Ga & S1 & L1).
  unfold match_lua_idx, match_lua. rewrite H1.
  destruct r1 as [|b r2].
  { cbn [length] in L1. assert (length cs <=? pos + 1 = true) as -> by (apply Nat.leb_le; lia). reflexivity. }
  destruct (skipn_cons_facts cs (S pos) b r2 S1) as (Gb & S2 & L2).
  assert (length cs <=? pos + 1 = false) as -> by (apply Nat.leb_gt; lia).
  rewrite (get_ok _ _ _ Ga). cbn [bind].
  destruct (N.eqb a c_dash); cbn [negb andb]; [|reflexivity].
  replace (pos + 1) with (S pos) by lia. rewrite (get_ok _ _ _ Gb). cbn [bind].
  destruct (N.eqb b c_dash); cbn [negb]; [|reflexivity].
  replace (pos + 2) with (S (S pos)) by lia. cbn [bind]. cbv beta iota.
  destruct r2 as [|x r3].
  { cbn [length] in L2. assert (length cs <=? S (S pos) = true) as -> by (apply Nat.leb_le; lia). reflexivity. }
  destruct (skipn_cons_facts cs (S (S pos)) x r3 S2) as (Gx & S3 & L3).
  assert (length cs <=? S (S pos) = false) as -> by (apply Nat.leb_gt; lia).
  rewrite (get_ok _ _ _ Gx). cbn [bind].
  destruct (N.eqb x c_lb); cbn [negb]; [|reflexivity].
  destruct (count_while c_eq r3) as [lvl rest] eqn:Ec. rewrite <- S3 in Ec.
  destruct (count_ch_idx_ok c_eq cs (S (length cs)) (S (S (S pos))) 0 lvl rest) as (A & B & C); [lia|lia|exact Ec|].
  replace (S (S pos) + 1) with (S (S (S pos))) by lia. rewrite A. cbn [bind].
  remember (S (S (S pos)) + lvl) as j eqn:Ej.
  destruct (length cs <=? j) eqn:E.
  - apply Nat.leb_le in E. assert (j = length cs) by lia. rewrite B, H, skipn_all. reflexivity.
  - apply Nat.leb_gt in E. destruct (skipn_cons_nth cs j E) as (y & r & G1 & G2 & _).
    rewrite (get_ok _ _ _ G2). cbn [bind]. rewrite B, G1.
    destruct (N.eqb y c_lb); cbn [negb option_map]; [|reflexivity].
    f_equal. f_equal. f_equal. lia.
Qed.

(* ---- list-level skip counters = index jumps ---- *)
Lemma flua_skip : forall s k st bp, k <= length s ->
  flua s k st bp = flua (skipn k s) O st (N.add bp (utf8_sum (firstn k s))).
Proof.
  induction s as [|c tl IH]; intros k st bp Hk.
  - cbn in Hk. assert (k = 0) by lia. subst. reflexivity.
  - destruct k as [|k].
    + cbn [skipn firstn]. unfold utf8_sum. cbn [fold_right]. now rewrite N.add_0_r.
    + cbn [flua skipn firstn]. rewrite IH by (cbn in Hk; lia). f_equal.
      unfold utf8_sum. cbn [fold_right]. lia.
Qed.

Lemma cmk_skip : forall sm em s k st a b, k <= length s ->
  cmk sm em s k st a b = cmk sm em (skipn k s) O st a b.
Proof.
  intros sm em; induction s as [|c tl IH]; intros k st a b Hk.
  - cbn in Hk. assert (k = 0) by lia. subst. reflexivity.
  - destruct k as [|k]; [reflexivity|]. cbn [cmk skipn]. apply IH. cbn in Hk. lia.
Qed.

(* ---- find_lua_long_bracket_outside_string ---- *)
Theorem flua_idx_ok : forall cs fuel i st,
  i <= length cs -> length cs - i < fuel ->
  flua_idx fuel cs i st = Ok (flua (skipn i cs) O st (utf8_sum (firstn i cs))).
Proof.
  intros cs fuel; induction fuel as [|f IH]; intros i st Hi Hf; [lia|].
  cbn [flua_idx]. destruct (i <? length cs) eqn:E.
  - apply Nat.ltb_lt in E. destruct (skipn_cons_nth cs i E) as (c & tl & H1 & H2 & H3).
    pose proof (skipn_length_eq cs i c tl H1) as Hlen.
    rewrite H1. cbn [flua].
    assert (Hm : (if match st with None => true | Some _ => false end then match_lua_idx cs i true else Ok None)
                 = Ok (option_map (fun lvl => (lvl + 4, lvl))
                         (if match st with None => true | Some _ => false end then match_lua (c :: tl) true else None))).
    { destruct st; [reflexivity|]. rewrite (match_lua_idx_ok cs i E), H1. reflexivity. }
    rewrite Hm. cbn [bind].
    destruct (if match st with None => true | Some _ => false end then match_lua (c :: tl) true else None) as [lvl|];
      cbn [option_map].
    + rewrite upto_ok by lia. reflexivity.
    + rewrite (process_impl_idx_ok cs i st true c tl H1). cbn [bind].
      destruct (process_impl st c tl true) as [st' consumed] eqn:Ep.
      destruct (process_impl_consumed _ _ _ _ _ _ Ep) as [C1 C2].
      rewrite IH by lia. f_equal.
      destruct consumed as [|n]; [lia|]. cbn [pred].
      rewrite (flua_skip tl n st') by lia.
      rewrite (skipn_add_S cs i c tl n H1). f_equal.
      rewrite (firstn_S_sum cs i c tl H1 (S n)) by lia. cbn [firstn]. unfold utf8_sum. cbn [fold_right]. lia.
  - apply Nat.ltb_ge in E. assert (i = length cs) by lia. subst i. rewrite skipn_all. reflexivity.
Qed.

Theorem find_lua_idx_ok : forall cs, find_lua_idx cs = Ok (flua cs O None 0%N).
Proof. intros cs. unfold find_lua_idx. rewrite flua_idx_ok by lia. reflexivity. Qed.

(* ---- count_markers_outside_string ---- *)
Theorem cmk_idx_ok : forall cs sm em fuel i st a b,
  sm <> [] -> em <> [] ->
  i <= length cs -> length cs - i < fuel ->
  cmk_idx fuel cs sm em i st a b = Ok (cmk sm em (skipn i cs) O st a b).
Proof.
  intros cs sm em fuel; induction fuel as [|f IH]; intros i st a b Hsm Hem Hi Hf; [lia|].
  cbn [cmk_idx]. destruct (i <? length cs) eqn:E.
  - apply Nat.ltb_lt in E. destruct (skipn_cons_nth cs i E) as (c & tl & H1 & H2 & H3).
    pose proof (skipn_length_eq cs i c tl H1) as Hlen.
    rewrite H1. cbn [cmk].
    destruct (try_skip_raw_idx_ok cs i E) as [Hr Hrb]. rewrite H1 in Hr, Hrb.
    assert (Hsk : (if match st with None => true | Some _ => false end
                   then bind (get cs i) (fun c0 => if N.eqb c0 c_r then try_skip_raw_idx cs i else Ok None)
                   else Ok None)
                  = Ok (if match st with None => true | Some _ => false end && N.eqb c c_r
                        then try_skip_raw (c :: tl) else None)).
    { destruct st; cbn [andb]; [reflexivity|]. rewrite (get_ok _ _ _ H2). cbn [bind].
      destruct (N.eqb c c_r); [exact Hr|reflexivity]. }
    rewrite Hsk. cbn [bind].
    destruct (if match st with None => true | Some _ => false end && N.eqb c c_r
              then try_skip_raw (c :: tl) else None) as [k|] eqn:Ek.
    + assert (Hk : 1 <= k /\ i + k <= length cs).
      { destruct (match st with None => true | Some _ => false end && N.eqb c c_r); [|discriminate]. now apply Hrb. }
      destruct k as [|n]; [lia|].
      rewrite IH by (try assumption; lia). f_equal.
      rewrite (cmk_skip sm em tl n st) by lia. now rewrite (skipn_add_S cs i c tl n H1).
    + rewrite from_ok by lia. cbn [bind]. rewrite H1.
      destruct (match st with None => true | Some _ => false end && prefixb sm (c :: tl)) eqn:Es.
      * apply andb_true_iff in Es as [_ Es]. apply prefixb_length in Es. cbn [length] in Es.
        destruct sm as [|s0 sm']; [congruence|]. cbn [length] in *. cbn [pred].
        rewrite IH by (try assumption; try discriminate; lia). f_equal.
        rewrite (cmk_skip (s0 :: sm') em tl (length sm') st) by lia. now rewrite (skipn_add_S cs i c tl _ H1).
      * destruct (match st with None => true | Some _ => false end && prefixb em (c :: tl)) eqn:Ee.
        -- apply andb_true_iff in Ee as [_ Ee]. apply prefixb_length in Ee. cbn [length] in Ee.
           destruct em as [|e0 em']; [congruence|]. cbn [length] in *. cbn [pred].
           rewrite IH by (try assumption; try discriminate; lia). f_equal.
           rewrite (cmk_skip sm (e0 :: em') tl (length em') st) by lia. now rewrite (skipn_add_S cs i c tl _ H1).
        -- rewrite (process_impl_idx_ok cs i st true c tl H1). cbn [bind].
           destruct (process_impl st c tl true) as [st' consumed] eqn:Ep.
           destruct (process_impl_consumed _ _ _ _ _ _ Ep) as [C1 C2].
           rewrite IH by (try assumption; lia). f_equal.
           destruct consumed as [|n]; [lia|]. cbn [pred].
           rewrite (cmk_skip sm em tl n st') by lia. now rewrite (skipn_add_S cs i c tl n H1).
  - apply Nat.ltb_ge in E. assert (i = length cs) by lia. subst i. rewrite skipn_all. reflexivity.
Qed.

Theorem count_markers_idx_ok : forall cs sm em, count_markers_idx cs sm em = Ok (count_markers cs sm em).
Proof.
  intros cs sm em. unfold count_markers_idx, count_markers.
  destruct sm as [|s0 sm']; [reflexivity|]. destruct em as [|e0 em']; [reflexivity|].
  rewrite cmk_idx_ok by (try discriminate; lia). reflexivity.
Qed.
