(* Counter/Lexer.v: list-level port of src/counter/comment.rs (StringSkipper, raw strings, find_outside_string).
   Model file: definitions only, no proofs. *)
From Coq Require Import NArith List Bool Lia.
Import ListNotations.
Open Scope N_scope.

Definition char := N.
Definition str := list char.

Definition c_bslash : char := 92.
Definition c_dq : char := 34.
Definition c_sq : char := 39.
Definition c_r : char := 114.
Definition c_hash : char := 35.

Fixpoint prefixb (p s : str) : bool :=
  match p, s with
  | [], _ => true
  | a :: p', b :: s' => N.eqb a b && prefixb p' s'
  | _ :: _, [] => false
  end.

Inductive delim := DSingle | DDouble | DTripleSingle | DTripleDouble.
Definition delim_eqb (a b : delim) : bool :=
  match a, b with
  | DSingle, DSingle | DDouble, DDouble | DTripleSingle, DTripleSingle | DTripleDouble, DTripleDouble => true
  | _, _ => false
  end.
Definition is_triple (d : delim) := match d with DTripleSingle | DTripleDouble => true | _ => false end.

(* skipper state: None = not in string *)
Definition skst := option delim.

Definition triple_of (c : char) : option delim :=
  if N.eqb c c_sq then Some DTripleSingle else if N.eqb c c_dq then Some DTripleDouble else None.
Definition single_of (c : char) : option delim :=
  if N.eqb c c_sq then Some DSingle else if N.eqb c c_dq then Some DDouble else None.
Definition matches_single (d : delim) (c : char) : bool :=
  match d with DSingle => N.eqb c c_sq | DDouble => N.eqb c c_dq | _ => false end.

(* process_impl on the suffix [c :: tl]; returns (new state, chars consumed) *)
Definition process_impl (st : skst) (c : char) (tl : str) (track_single : bool) : skst * nat :=
  let in_string := match st with Some _ => true | None => false end in
  if in_string && N.eqb c c_bslash && (match tl with [] => false | _ => true end) then (st, 2%nat)
  else
    let triple_here :=
      (N.eqb c c_dq || N.eqb c c_sq) &&
      match tl with c1 :: c2 :: _ => N.eqb c1 c && N.eqb c2 c | _ => false end in
    let after_triple : option (skst * nat) :=
      if triple_here then
        match triple_of c with
        | Some td =>
            match st with
            | None => Some (Some td, 3%nat)
            | Some d => if delim_eqb d td then Some (None, 3%nat) else None
            end
        | None => None
        end
      else None in
    match after_triple with
    | Some r => r
    | None =>
        if track_single then
          match single_of c with
          | Some sd =>
              match st with
              | None => (Some sd, 1%nat)
              | Some d => if negb (is_triple d) && matches_single d c then (None, 1%nat) else (st, 1%nat)
              end
          | None => (st, 1%nat)
          end
        else (st, 1%nat)
    end.

Definition len_utf8 (c : char) : N :=
  if c <? 128 then 1 else if c <? 2048 then 2 else if c <? 65536 then 3 else 4.

(* match a Rust raw-string head at the head of s: returns (matched_len, level) *)
Fixpoint count_while (c : char) (s : str) : nat * str :=
  match s with
  | x :: tl => if N.eqb x c then let '(n, r) := count_while c tl in (S n, r) else (O, s)
  | [] => (O, [])
  end.

Definition match_rust_raw (s : str) : option (nat * nat) :=
  match s with
  | x :: tl =>
      if N.eqb x c_r then
        let '(lvl, rest) := count_while c_hash tl in
        match rest with
        | q :: _ => if N.eqb q c_dq then Some (S (lvl + 1), lvl) else None
        | [] => None
        end
      else None
  | [] => None
  end.

(* distance to first occurrence of needle in s (index), or None *)
Fixpoint find_plain (needle s : str) : option nat :=
  if prefixb needle s then Some O else
  match s with
  | [] => None
  | _ :: tl => match find_plain needle tl with Some k => Some (S k) | None => None end
  end.

Definition try_skip_raw (s : str) : option nat :=
  match match_rust_raw s with
  | None => None
  | Some (start_len, lvl) =>
      let endm := c_dq :: repeat c_hash lvl in
      let body := skipn start_len s in
      match find_plain endm body with
      | Some k => Some (start_len + k + length endm)%nat
      | None => Some (length s)
      end
  end.

Definition needle_is_multiquote (needle : str) : bool :=
  match needle with
  | f :: _ :: _ => (N.eqb f c_dq || N.eqb f c_sq) && forallb (fun c => N.eqb c f) needle
  | _ => false
  end.

(* find_outside_string: structural recursion on the suffix with a skip counter.
   bytepos accumulates len_utf8 of every char passed. *)
Fixpoint fos (needle : str) (skip_raw nq : bool) (s : str) (skip : nat) (st : skst) (bp : N) : option N :=
  match s with
  | [] => None
  | c :: tl =>
      match skip with
      | S k => fos needle skip_raw nq tl k st (bp + len_utf8 c)
      | O =>
          let not_in := match st with None => true | Some _ => false end in
          match (if skip_raw && not_in && N.eqb c c_r then try_skip_raw s else None) with
          | Some (S n) => fos needle skip_raw nq tl n st (bp + len_utf8 c)
          | Some O => None (* impossible: skip_len >= 2 *)
          | None =>
              if not_in && prefixb needle s then Some bp
              else
                let '(st', consumed) := process_impl st c tl (negb nq) in
                fos needle skip_raw nq tl (pred consumed) st' (bp + len_utf8 c)
          end
      end
  end.

Definition find_outside_string (s needle : str) (skip_raw : bool) : option N :=
  match needle with
  | [] => None
  | _ => fos needle skip_raw (needle_is_multiquote needle) s O None 0
  end.

