(* Counter/SlocIdx.v: index-level mirror of the remaining char-vector scanners of src/counter/comment.rs:
   CommentDetector::match_lua_long_bracket, find_lua_long_bracket_outside_string and
   count_markers_outside_string (LexerIdx.v has StringSkipper::process_impl, the raw-string helpers and
   find_outside_string). Same conventions: every chars[i] / chars[i..] / chars[..i] that Rust would
   bounds-check returns Panic when out of range, every while loop runs on fuel and returns OutOfFuel when
   exhausted, conditions are evaluated in the short-circuit order of the source. Definitions only. *)
From Coq Require Import NArith List Bool Arith.
From SG Require Import Counter.Lexer Counter.LexerIdx Counter.Sloc.
Import ListNotations.
Local Open Scope nat_scope.

(* while i < chars.len() && chars[i] == ch { level += 1; i += 1; } *)
Fixpoint count_ch_idx (ch : char) (fuel : nat) (cs : str) (i : nat) (level : nat) : res (nat * nat) :=
  match fuel with
  | O => OutOfFuel
  | S f =>
      if i <? length cs then
        bind (get cs i) (fun c => if N.eqb c ch then count_ch_idx ch f cs (i + 1) (level + 1) else Ok (i, level))
      else Ok (i, level)
  end.

(* match_lua_long_bracket(chars, pos, require_dash_prefix) -> Option<(matched_len, level)> *)
Definition match_lua_idx (cs : str) (pos : nat) (dash : bool) : res (option (nat * nat)) :=
  let len := length cs in
  (* if require_dash_prefix { if i + 1 >= len || chars[i] != '-' || chars[i + 1] != '-' { return None } i += 2 } *)
  bind (if dash then
          if len <=? pos + 1 then Ok None else
          bind (get cs pos) (fun a => if negb (N.eqb a c_dash) then Ok None else
          bind (get cs (pos + 1)) (fun b => if negb (N.eqb b c_dash) then Ok None else Ok (Some (pos + 2))))
        else Ok (Some pos)) (fun oi =>
  match oi with
  | None => Ok None
  | Some i =>
      (* if i >= len || chars[i] != '[' { return None } i += 1 *)
      if len <=? i then Ok None else
      bind (get cs i) (fun x => if negb (N.eqb x c_lb) then Ok None else
      bind (count_ch_idx c_eq (S len) cs (i + 1) 0) (fun '(j, level) =>
      (* if i >= len || chars[i] != '[' { return None } i += 1; Some((i - pos, level)) *)
      if len <=? j then Ok None else
      bind (get cs j) (fun y => if negb (N.eqb y c_lb) then Ok None else Ok (Some (j + 1 - pos, level)))))
  end).

(* find_lua_long_bracket_outside_string(chars, require_dash_prefix = true): byte position and level *)
Fixpoint flua_idx (fuel : nat) (cs : str) (i : nat) (st : skst) : res (option (N * nat)) :=
  match fuel with
  | O => OutOfFuel
  | S f =>
      if i <? length cs then
        let not_in := match st with None => true | Some _ => false end in
        bind (if not_in then match_lua_idx cs i true else Ok None) (fun m =>
        match m with
        | Some (_, level) => bind (upto cs i) (fun pre => Ok (Some (utf8_sum pre, level)))
        | None => bind (process_impl_idx cs i st true) (fun '(st', consumed) => flua_idx f cs (i + consumed) st')
        end)
      else Ok None
  end.

Definition find_lua_idx (cs : str) : res (option (N * nat)) := flua_idx (S (length cs)) cs 0 None.

(* count_markers_outside_string(line, start_marker, end_marker) *)
Fixpoint cmk_idx (fuel : nat) (cs sm em : str) (i : nat) (st : skst) (starts ends : N) : res (N * N) :=
  match fuel with
  | O => OutOfFuel
  | S f =>
      if i <? length cs then
        let not_in := match st with None => true | Some _ => false end in
        (* !in_string && chars[i] == 'r' && let Some(skip_len) = try_skip_rust_raw_string(chars, i) *)
        bind (if not_in then bind (get cs i) (fun c => if N.eqb c c_r then try_skip_raw_idx cs i else Ok None)
              else Ok None) (fun sk =>
        match sk with
        | Some skip_len => cmk_idx f cs sm em (i + skip_len) st starts ends
        | None =>
            bind (from cs i) (fun suf =>
            if not_in && prefixb sm suf then cmk_idx f cs sm em (i + length sm) st (starts + 1)%N ends
            else if not_in && prefixb em suf then cmk_idx f cs sm em (i + length em) st starts (ends + 1)%N
            else bind (process_impl_idx cs i st true) (fun '(st', consumed) =>
                 cmk_idx f cs sm em (i + consumed) st' starts ends))
        end)
      else Ok (starts, ends)
  end.

Definition count_markers_idx (cs sm em : str) : res (N * N) :=
  match sm, em with
  | [], _ | _, [] => Ok (0%N, 0%N)
  | _, _ => cmk_idx (S (length cs)) cs sm em 0 None 0%N 0%N
  end.
