(* Counter/Proofs_C02.v: per-piece classification lemmas and the whole-program theorem. *)
From Coq Require Import NArith List Bool Lia.
From SG Require Import Counter.Lexer Counter.Sloc Counter.Proofs_C03 Counter.ProofsLex Counter.Proofs_C04
  Counter.Truth Counter.ProofsScan.
Import ListNotations.
Open Scope N_scope.

(* ------------------------------------------------------------------ code lines *)

(* a line on which no block opener is visible *)
Definition no_opener_c (sy : syntax) (ind : str) (ss : list seg) (rest : str) (c : mlc) : bool :=
  if ml_linestart c then negb (prefixb (ml_start c) (trim_start (ind ++ render_segs ss ++ rest)))
  else match ml_kind c with
       | Static => match ml_start c with
                   | [] => true
                   | _ => negb (needle_is_multiquote (ml_start c)) &&
                          segs_ok (ml_start c) (has_rawstring sy) (Plain ind :: ss) rest
                   end
       | LuaLong => segs_ok_lua (Plain ind :: ss) rest
       | RustRaw => true
       end.

Lemma cand_none_on_code : forall sy ind ss c,
  no_opener_c sy ind ss [] c = true -> cand sy (ind ++ render_segs ss) c = None.
Proof.
  intros sy ind ss c H. unfold no_opener_c in H. unfold cand.
  destruct (ml_linestart c).
  - rewrite app_nil_r in H. apply negb_true_iff in H. now rewrite H.
  - destruct (ml_kind c); [| |reflexivity].
    + unfold find_outside_string. destruct (ml_start c) as [|a0 at_] eqn:Ea; [reflexivity|].
      apply andb_true_iff in H as [Hm Hs]. apply negb_true_iff in Hm. rewrite Hm.
      pose proof (fos_segs (a0 :: at_) (has_rawstring sy) (Plain ind :: ss) [] 0 Hs) as E.
      cbn [render_segs flat_map render_seg] in E. fold (render_segs ss) in E. rewrite !app_nil_r in E.
      rewrite E. reflexivity.
    + pose proof (flua_segs (Plain ind :: ss) [] 0 H) as E.
      cbn [render_segs flat_map render_seg] in E. fold (render_segs ss) in E. rewrite !app_nil_r in E.
      rewrite E. reflexivity.
Qed.

Lemma best_all_none : forall sy line cs, (forall c, In c cs -> cand sy line c = None) ->
  best sy line cs None = None.
Proof.
  intros sy line cs; induction cs as [|c cs IH]; intros H; [reflexivity|].
  cbn [best]. rewrite (H c (or_introl eq_refl)). apply IH. intros c' Hc'. apply H. now right.
Qed.

Theorem code_line : forall sy st ind ss,
  idle st ->
  forallb (no_opener_c sy ind ss []) (multi sy) = true ->
  is_single_line_comment sy (trim (ind ++ render_segs ss)) = false ->
  trim (ind ++ render_segs ss) <> [] ->
  classify_line sy st (ind ++ render_segs ss) = (Code, st).
Proof.
  intros sy st ind ss (Hm & Hr & Hb) Hno Hs Hne. unfold classify_line.
  rewrite Hs, Hb, Hr, Hm. cbn [N.ltb N.compare].
  destruct (trim (ind ++ render_segs ss)) eqn:Et; [congruence|].
  assert (Hf : find_ml_start sy (ind ++ render_segs ss) = None).
  { unfold find_ml_start. rewrite best_all_none; [reflexivity|].
    intros c' Hin. apply cand_none_on_code. rewrite forallb_forall in Hno. now apply Hno. }
  rewrite Hf. reflexivity.
Qed.


(* ------------------------------------------------------------------ code followed by a line comment *)

Definition no_opener_before_c (sy : syntax) (ind : str) (ss : list seg) (rest : str) (c : mlc) : bool :=
  if ml_linestart c then negb (prefixb (ml_start c) (trim_start (ind ++ render_segs ss ++ rest)))
  else match ml_kind c with
       | Static => match ml_start c with
                   | [] => true
                   | _ => negb (needle_is_multiquote (ml_start c)) &&
                          segs_ok (ml_start c) (has_rawstring sy) (Plain ind :: ss) rest &&
                          negb (prefixb (ml_start c) rest)
                   end
       | LuaLong => segs_ok_lua (Plain ind :: ss) rest &&
                    negb (match match_lua rest true with Some _ => true | None => false end)
       | RustRaw => true
       end.

Lemma cand_after_prefix : forall sy ind ss rest c p e,
  no_opener_before_c sy ind ss rest c = true ->
  cand sy (ind ++ render_segs ss ++ rest) c = Some (p, e) ->
  utf8_len (ind ++ render_segs ss) < p.
Proof.
  intros sy ind ss rest c p e H Hc. unfold no_opener_before_c in H. unfold cand in Hc.
  destruct (ml_linestart c).
  - apply negb_true_iff in H. rewrite H in Hc. discriminate.
  - destruct (ml_kind c); [| |discriminate].
    2:{ apply andb_true_iff in H as [Hs Hnm]. apply negb_true_iff in Hnm.
        pose proof (flua_segs (Plain ind :: ss) rest 0 Hs) as E.
        cbn [render_segs flat_map render_seg] in E. fold (render_segs ss) in E.
        rewrite <- app_assoc in E. rewrite E in Hc. cbn [N.add] in Hc.
        destruct (flua rest 0 None (utf8_len (ind ++ render_segs ss))) as [[q lvl]|] eqn:Ef; [|discriminate].
        inversion Hc; subst. apply flua_ge in Ef as [H1 H2].
        destruct (N.eq_dec p (utf8_len (ind ++ render_segs ss))) as [Heq|Hne]; [|lia].
        apply H2 in Heq. destruct (match_lua rest true); [discriminate|congruence]. }
    unfold find_outside_string in Hc. destruct (ml_start c) as [|a0 at_] eqn:Ea; [discriminate|].
    apply andb_true_iff in H as [H Hnp]. apply andb_true_iff in H as [Hm Hs].
    apply negb_true_iff in Hm, Hnp. rewrite Hm in Hc.
    pose proof (fos_segs (a0 :: at_) (has_rawstring sy) (Plain ind :: ss) rest 0 Hs) as E.
    cbn [render_segs flat_map render_seg] in E. fold (render_segs ss) in E.
    rewrite <- app_assoc in E. rewrite E in Hc. cbn [N.add] in Hc.
    destruct (fos (a0 :: at_) (has_rawstring sy) false rest 0 None (utf8_len (ind ++ render_segs ss))) as [q|] eqn:Ef; [|discriminate].
    inversion Hc; subst. apply fos_ge in Ef as [H1 H2].
    destruct (N.eq_dec p (utf8_len (ind ++ render_segs ss))) as [Heq|Hne]; [|lia].
    apply H2 in Heq as (_ & _ & Hp). congruence.
Qed.

Theorem code_then_comment_line : forall sy st ind ss p text,
  idle st ->
  In p (single sy) ->
  (* no opener is visible in the code part, and the comment part does not itself start with one *)
  forallb (no_opener_before_c sy ind ss (p ++ text)) (multi sy) = true ->
  (* the comment prefix really is the first one visible: it does not occur in the code part *)
  needle_is_multiquote p = false -> p <> [] ->
  segs_ok p (has_rawstring sy) (Plain ind :: ss) (p ++ text) = true ->
  raw_head_here (has_rawstring sy) (p ++ text) = false ->
  is_single_line_comment sy (trim (ind ++ render_segs ss ++ p ++ text)) = false ->
  trim (ind ++ render_segs ss ++ p ++ text) <> [] ->
  classify_line sy st (ind ++ render_segs ss ++ p ++ text) = (Code, st).
Proof.
  intros sy st ind ss p text (Hm & Hr & Hb) Hin Hno Hmq Hpne Hsp Hraw Hs Hne.
  unfold classify_line. rewrite Hs, Hb, Hr, Hm. cbn [N.ltb N.compare].
  destruct (trim (ind ++ render_segs ss ++ p ++ text)) eqn:Et; [congruence|].
  assert (Hf : find_ml_start sy (ind ++ render_segs ss ++ p ++ text) = None).
  { unfold find_ml_start.
    destruct (best sy (ind ++ render_segs ss ++ p ++ text) (multi sy) None) as [[[c0 p0] e0]|] eqn:Eb; [|reflexivity].
    apply best_source in Eb as [Eb|[Hc0 Hcand]]; [discriminate|].
    rewrite forallb_forall in Hno. specialize (Hno c0 Hc0).
    pose proof (cand_after_prefix sy ind ss (p ++ text) c0 p0 e0 Hno Hcand) as Hlt.
    (* the prefix p is found exactly at the end of the code part *)
    assert (Hq : find_outside_string (ind ++ render_segs ss ++ p ++ text) p (has_rawstring sy)
                 = Some (utf8_len (ind ++ render_segs ss))).
    { unfold find_outside_string. destruct p as [|p0' pt]; [congruence|]. rewrite Hmq.
      pose proof (fos_segs (p0' :: pt) (has_rawstring sy) (Plain ind :: ss) ((p0' :: pt) ++ text) 0 Hsp) as E.
      cbn [render_segs flat_map render_seg] in E. fold (render_segs ss) in E. rewrite <- app_assoc in E.
      rewrite E. cbn [N.add]. cbn [app]. apply fos_here_raw.
      - exact Hraw.
      - change (p0' :: pt ++ text) with ((p0' :: pt) ++ text). apply prefixb_self_app. }
    destruct (min_single_le sy _ (single sy) p _ Hin Hq) as (m & Hm' & Hle).
    unfold find_single_start. rewrite Hm'.
    assert (m <? p0 = true) as -> by (apply N.ltb_lt; lia). reflexivity. }
  rewrite Hf. reflexivity.
Qed.

(* ------------------------------------------------------------------ block comments *)
(* trimming facts *)
Lemma trim_start_len : forall l, (length (trim_start l) <= length l)%nat.
Proof. intros l. destruct (trim_start_split l) as (w & Hw & _). rewrite Hw at 2. rewrite app_length. lia. Qed.

Lemma trim_start_fix_nonws : forall x xs, trim_start (x :: xs) = x :: xs -> is_ws x = false.
Proof.
  intros x xs H. cbn in H. destruct (is_ws x) eqn:E; [|reflexivity].
  pose proof (trim_start_len xs) as Hl. rewrite H in Hl. cbn in Hl. lia.
Qed.

Lemma trim_start_nil_all_ws : forall l, trim_start l = [] -> Forall (fun y => is_ws y = true) l.
Proof.
  induction l as [|y l IH]; intros H; [constructor|]. cbn in H. destruct (is_ws y) eqn:Ey; [|discriminate].
  constructor; [exact Ey|now apply IH].
Qed.

Lemma trim_end_nil : forall u, trim_end u = [] -> Forall (fun y => is_ws y = true) u.
Proof.
  intros u H. unfold trim_end in H. rewrite !revl_eq in H.
  assert (Hrev : trim_start (rev u) = []).
  { apply (f_equal (@rev char)) in H. rewrite rev_involutive in H. exact H. }
  apply trim_start_nil_all_ws in Hrev. apply Forall_rev in Hrev. now rewrite rev_involutive in Hrev.
Qed.

Lemma trim_nil_start_nil : forall l, trim l = [] -> trim_start l = [].
Proof.
  intros l H. unfold trim in H. apply trim_end_nil in H.
  destruct (trim_start l) as [|x xs] eqn:E; [reflexivity|exfalso].
  pose proof (trim_start_idem l) as Hid. rewrite E in Hid. apply trim_start_fix_nonws in Hid.
  inversion H as [|? ? Hx _]. congruence.
Qed.

Lemma trim_nonempty_of_head : forall ws t, Forall (fun x => is_ws x = true) ws -> trim_start t = t -> t <> [] ->
  trim (ws ++ t) <> [].
Proof.
  intros ws t Hws Ht Hne H. apply trim_nil_start_nil in H.
  rewrite (trim_start_idem_split ws t Hws Ht) in H. congruence.
Qed.


Lemma min_single_ge : forall sy line ps L m,
  (forall p q, In p ps -> find_outside_string line p (has_rawstring sy) = Some q -> L <= q) ->
  min_single sy line ps = Some m -> L <= m.
Proof.
  intros sy line ps L; induction ps as [|p ps IH]; intros m H Hm; cbn [min_single] in Hm; [discriminate|].
  assert (Htl : forall p' q', In p' ps -> find_outside_string line p' (has_rawstring sy) = Some q' -> L <= q').
  { intros p' q' Hin Hq'. eapply H; [right; exact Hin|exact Hq']. }
  destruct (find_outside_string line p (has_rawstring sy)) as [q|] eqn:Eq.
  - assert (Hq : L <= q) by (eapply H; [left; reflexivity|exact Eq]).
    destruct (min_single sy line ps) as [a|] eqn:Ea.
    + inversion Hm; subst. pose proof (IH a Htl eq_refl). lia.
    + inversion Hm; subst. exact Hq.
  - exact (IH m Htl Hm).
Qed.

Lemma single_start_ge : forall sy ws t m,
  wf_syntax sy = true -> Forall (fun c => is_ws c = true) ws ->
  find_single_start sy (ws ++ t) = Some m -> utf8_len ws <= m.
Proof.
  intros sy ws t m Hwf Hws Hm. unfold find_single_start in Hm.
  eapply min_single_ge; [|exact Hm]. intros p q Hin Hq.
  unfold wf_syntax in Hwf. apply andb_true_iff in Hwf as [Hw1 _]. rewrite forallb_forall in Hw1.
  specialize (Hw1 p Hin). unfold wf_single in Hw1. destruct p as [|c0 p']; [discriminate|].
  apply andb_true_iff in Hw1 as [Hnws _]. apply negb_true_iff in Hnws.
  unfold find_outside_string in Hq. rewrite fos_ws_prefix in Hq; [|exact Hnws|exact Hws].
  apply fos_ge in Hq as [Hq _]. lia.
Qed.

Lemma best_keeps_min : forall sy line cs c L e,
  (forall c' p e', In c' cs -> cand sy line c' = Some (p, e') -> L <= p) ->
  best sy line cs (Some (c, L, e)) = Some (c, L, e).
Proof.
  intros sy line cs c L e; induction cs as [|x cs IH]; intros H; [reflexivity|].
  cbn [best]. destruct (cand sy line x) as [[p e']|] eqn:Ec.
  - assert (L <= p) by (eapply H; [now left|exact Ec]).
    assert (p <? L = false) as -> by (apply N.ltb_ge; lia).
    apply IH. intros; eapply H; [right|]; eauto.
  - apply IH. intros; eapply H; [right|]; eauto.
Qed.

Lemma best_first : forall sy line pre c post L e acc,
  (forall c' p e', In c' (pre ++ c :: post) -> cand sy line c' = Some (p, e') -> L <= p) ->
  (forall c' e', In c' pre -> cand sy line c' <> Some (L, e')) ->
  cand sy line c = Some (L, e) ->
  match acc with None => True | Some (_, p, _) => L < p end ->
  best sy line (pre ++ c :: post) acc = Some (c, L, e).
Proof.
  intros sy line pre; induction pre as [|x pre IH]; intros c post L e acc Hge Hpre Hc Hacc.
  - cbn [app best]. rewrite Hc.
    assert (Hnew : match acc with
                   | None => Some (c, L, e)
                   | Some (_, bp, _) => if L <? bp then Some (c, L, e) else acc
                   end = Some (c, L, e)).
    { destruct acc as [[[c0 bp] e0]|]; [|reflexivity]. apply N.ltb_lt in Hacc. now rewrite Hacc. }
    rewrite Hnew. apply best_keeps_min. intros; eapply Hge; [right|]; eauto.
  - cbn [app best]. apply IH.
    + intros; eapply Hge; [right|]; eauto.
    + intros c' e' Hin. apply Hpre. now right.
    + exact Hc.
    + destruct (cand sy line x) as [[p e']|] eqn:Ec; [|exact Hacc].
      assert (L <= p) by (eapply Hge; [now left|exact Ec]).
      assert (p <> L) by (intros ->; exact (Hpre x e' (or_introl eq_refl) Ec)).
      destruct acc as [[[c0 bp] e0]|]; [|lia].
      destruct (p <? bp); [lia|exact Hacc].
Qed.

(* the opener that the trimmed line starts with is the one the tool selects *)
Lemma find_ml_start_at_head : forall sy ws t pre c post em,
  wf_syntax sy = true -> Forall (fun x => is_ws x = true) ws -> trim_start t = t ->
  multi sy = pre ++ c :: post ->
  (forall c', In c' pre -> opener_at_c t c' = false) ->
  cand sy (ws ++ t) c = Some (utf8_len ws, em) ->
  find_ml_start sy (ws ++ t) = Some (c, utf8_len ws, em).
Proof.
  intros sy ws t pre c post em Hwf Hws Ht Hm Hpre Hc.
  assert (Htt : trim_start (ws ++ t) = t) by (apply trim_start_idem_split; assumption).
  assert (Hwm : forall c', In c' (multi sy) -> wf_multi c' = true).
  { unfold wf_syntax in Hwf. apply andb_true_iff in Hwf as [_ H2]. now rewrite forallb_forall in H2. }
  unfold find_ml_start. rewrite Hm.
  rewrite (best_first sy (ws ++ t) pre c post (utf8_len ws) em None).
  - destruct (find_single_start sy (ws ++ t)) as [q|] eqn:Eq; [|reflexivity].
    apply single_start_ge in Eq; [|assumption..].
    assert (q <? utf8_len ws = false) as -> by (apply N.ltb_ge; lia). reflexivity.
  - intros c' p e' Hin Hc'. rewrite <- Hm in Hin.
    destruct (cand_position sy ws t c' p e' (Hwm c' Hin) Hws Htt Hc') as [Hge _]. exact Hge.
  - intros c' e' Hin Hc'.
    assert (Hin' : In c' (multi sy)) by (rewrite Hm; apply in_or_app; now left).
    destruct (cand_position sy ws t c' _ e' (Hwm c' Hin') Hws Htt Hc') as [_ Heq].
    rewrite (Hpre c' Hin) in Heq. specialize (Heq eq_refl). discriminate.
  - exact Hc.
  - exact I.
Qed.

(* candidate position of a static (or line-start) opener at the head of the trimmed line *)
Lemma cand_static_at_head : forall sy ws t c,
  Forall (fun x => is_ws x = true) ws -> trim_start t = t ->
  wf_multi c = true -> ml_start c <> [] ->
  (ml_linestart c = true \/ ml_kind c = Static) ->
  prefixb (ml_start c) t = true ->
  raw_head_here (has_rawstring sy) t = false ->
  needle_is_multiquote (ml_start c) = false ->
  cand sy (ws ++ t) c = Some (utf8_len ws, ml_end c).
Proof.
  intros sy ws t c Hws Ht Hwm Hne Hk Hp Hraw Hmq.
  assert (Htt : trim_start (ws ++ t) = t) by (apply trim_start_idem_split; assumption).
  unfold cand. destruct (ml_linestart c) eqn:El.
  - rewrite Htt, Hp. rewrite utf8_len_app. f_equal. f_equal. lia.
  - destruct Hk as [Hk|Hk]; [discriminate|]. rewrite Hk.
    unfold find_outside_string. destruct (ml_start c) as [|a0 at_] eqn:Ea; [congruence|].
    rewrite Hmq. unfold wf_multi in Hwm. rewrite Ea in Hwm. apply negb_true_iff in Hwm.
    rewrite fos_ws_prefix; [|exact Hwm|exact Hws]. cbn [N.add].
    destruct t as [|t0 tt]; [discriminate|].
    rewrite fos_here_raw; [reflexivity|exact Hraw|exact Hp].
Qed.

(* non-nesting block: the three kinds of line *)
Definition in_block (c : mlc) (em : str) : lstate :=
  {| ml := InC 1 (ml_start c) em false; ign_rem := 0; ign_blk := false |}.

Lemma directive_none : forall sy (st : lstate) t,
  is_directive sy t = false ->
  (if is_single_line_comment sy t
   then if has_ignore_end sy t then Some (Comment, {| ml := ml st; ign_rem := ign_rem st; ign_blk := false |})
        else if has_ignore_start sy t then Some (Comment, {| ml := ml st; ign_rem := ign_rem st; ign_blk := true |})
        else match parse_ignore_next sy t with
             | Some n => Some (Comment, {| ml := ml st; ign_rem := n; ign_blk := ign_blk st |})
             | None => None end
   else None) = None.
Proof.
  intros sy st t Hd. unfold is_directive in Hd.
  apply orb_false_iff in Hd as [Hd Hn]. apply orb_false_iff in Hd as [He Hs].
  rewrite He, Hs. destruct (parse_ignore_next sy t); [discriminate|].
  destruct (is_single_line_comment sy t); reflexivity.
Qed.

Theorem block_open_line : forall sy st ws t pre c post,
  wf_syntax sy = true -> idle st ->
  Forall (fun x => is_ws x = true) ws -> trim_start t = t ->
  multi sy = pre ++ c :: post ->
  (forall c', In c' pre -> opener_at_c t c' = false) ->
  ml_nest c = false -> ml_start c <> [] ->
  (ml_linestart c = true \/ ml_kind c = Static) ->
  prefixb (ml_start c) t = true ->
  raw_head_here (has_rawstring sy) t = false ->
  needle_is_multiquote (ml_start c) = false ->
  is_directive sy (trim (ws ++ t)) = false ->
  (* the closer does not occur on this line at all (not even overlapping the opener) *)
  contains (ml_end c) (ws ++ t) = false ->
  classify_line sy st (ws ++ t) = (Comment, in_block c (ml_end c)).
Proof.
  intros sy st ws t pre c post Hwf (Hm & Hr & Hb) Hws Ht Hmul Hpre Hnest Hne Hk Hp Hraw Hmq Hd Hno.
  assert (Hwm : wf_multi c = true).
  { unfold wf_syntax in Hwf. apply andb_true_iff in Hwf as [_ H2]. rewrite forallb_forall in H2.
    apply H2. rewrite Hmul. apply in_or_app. right. now left. }
  pose proof (cand_static_at_head sy ws t c Hws Ht Hwm Hne Hk Hp Hraw Hmq) as Hc.
  pose proof (find_ml_start_at_head sy ws t pre c post (ml_end c) Hwf Hws Ht Hmul Hpre Hc) as Hf.
  unfold classify_line. rewrite (directive_none sy st _ Hd). rewrite Hb, Hr, Hm. cbn [N.ltb N.compare].
  destruct (trim (ws ++ t)) eqn:Et.
  - exfalso. apply (trim_nonempty_of_head ws t Hws Ht); [|exact Et].
    intros ->. destruct (ml_start c); [congruence|discriminate].
  - rewrite Hf. unfold start_update. rewrite Hnest.
    rewrite (no_occurrence_no_end _ _ Hno). reflexivity.
Qed.

Theorem block_inner_line : forall sy c em l,
  is_directive sy (trim l) = false -> contains em l = false ->
  classify_line sy (in_block c em) l = (Comment, in_block c em).
Proof.
  intros sy c em l Hd Hno. unfold classify_line.
  rewrite (directive_none sy (in_block c em) _ Hd). cbn [in_block ign_blk ign_rem ml N.ltb N.compare].
  unfold update_inside. rewrite (no_occurrence_no_end _ _ Hno). reflexivity.
Qed.

Theorem block_close_line : forall sy c em text tail,
  em <> [] -> quote_free text = true ->
  is_directive sy (trim (text ++ em ++ tail)) = false ->
  classify_line sy (in_block c em) (text ++ em ++ tail) = (Comment, st0).
Proof.
  intros sy c em text tail Hne Hq Hd. unfold classify_line.
  rewrite (directive_none sy (in_block c em) _ Hd). cbn [in_block ign_blk ign_rem ml N.ltb N.compare].
  unfold update_inside. rewrite (quote_free_end_found text em tail Hne Hq). reflexivity.
Qed.

(* a block comment that opens and closes on one line *)
Theorem block_single_line : forall sy st ws t pre c post text tail,
  wf_syntax sy = true -> idle st ->
  Forall (fun x => is_ws x = true) ws -> trim_start t = t ->
  t = ml_start c ++ text ++ ml_end c ++ tail ->
  multi sy = pre ++ c :: post ->
  (forall c', In c' pre -> opener_at_c t c' = false) ->
  ml_nest c = false -> ml_start c <> [] -> ml_end c <> [] ->
  (ml_linestart c = true \/ ml_kind c = Static) ->
  raw_head_here (has_rawstring sy) t = false ->
  needle_is_multiquote (ml_start c) = false ->
  is_directive sy (trim (ws ++ t)) = false ->
  quote_free (ws ++ ml_start c ++ text) = true ->
  classify_line sy st (ws ++ t) = (Comment, st).
Proof.
  intros sy st ws t pre c post text tail Hwf (Hm & Hr & Hb) Hws Ht Heq Hmul Hpre Hnest Hne Hne2 Hk Hraw Hmq Hd Hq.
  assert (Hwm : wf_multi c = true).
  { unfold wf_syntax in Hwf. apply andb_true_iff in Hwf as [_ H2]. rewrite forallb_forall in H2.
    apply H2. rewrite Hmul. apply in_or_app. right. now left. }
  assert (Hp : prefixb (ml_start c) t = true) by (rewrite Heq; apply prefixb_self_app).
  pose proof (cand_static_at_head sy ws t c Hws Ht Hwm Hne Hk Hp Hraw Hmq) as Hc.
  pose proof (find_ml_start_at_head sy ws t pre c post (ml_end c) Hwf Hws Ht Hmul Hpre Hc) as Hf.
  unfold classify_line. rewrite (directive_none sy st _ Hd). rewrite Hb, Hr, Hm. cbn [N.ltb N.compare].
  destruct (trim (ws ++ t)) eqn:Et.
  - exfalso. apply (trim_nonempty_of_head ws t Hws Ht); [|exact Et].
    intros E0. rewrite E0 in Hp. destruct (ml_start c); [congruence|discriminate].
  - rewrite Hf. unfold start_update. rewrite Hnest.
    assert (Hend : contains_ml_end (ws ++ t) (ml_end c) = true).
    { rewrite Heq.
      replace (ws ++ ml_start c ++ text ++ ml_end c ++ tail) with ((ws ++ ml_start c ++ text) ++ ml_end c ++ tail)
        by (rewrite <- !app_assoc; reflexivity).
      apply quote_free_end_found; assumption. }
    rewrite Hend. rewrite <- Hm. destruct st; cbn in *; subst. reflexivity.
Qed.

Lemma state_after_app_local : forall sy ls1 ls2 st,
  state_after sy (ls1 ++ ls2) st = state_after sy ls2 (state_after sy ls1 st).
Proof. intros sy ls1; induction ls1 as [|l tl IH]; intros ls2 st; cbn; [reflexivity|apply IH]. Qed.

(* ------------------------------------------------------------------ ignore directives *)

Definition ign_next_line (sy : syntax) (l : str) (n : N) : Prop :=
  is_single_line_comment sy (trim l) = true /\ has_ignore_end sy (trim l) = false /\
  has_ignore_start sy (trim l) = false /\ parse_ignore_next sy (trim l) = Some n.
Definition ign_start_line (sy : syntax) (l : str) : Prop :=
  is_single_line_comment sy (trim l) = true /\ has_ignore_end sy (trim l) = false /\
  has_ignore_start sy (trim l) = true.
Definition ign_end_line (sy : syntax) (l : str) : Prop :=
  is_single_line_comment sy (trim l) = true /\ has_ignore_end sy (trim l) = true.

Lemma ignore_next_line : forall sy st l n, ign_next_line sy l n ->
  classify_line sy st l = (Comment, {| ml := ml st; ign_rem := n; ign_blk := ign_blk st |}).
Proof. intros sy st l n (H1 & H2 & H3 & H4). unfold classify_line. now rewrite H1, H2, H3, H4. Qed.

Lemma ignore_start_line : forall sy st l, ign_start_line sy l ->
  classify_line sy st l = (Comment, {| ml := ml st; ign_rem := ign_rem st; ign_blk := true |}).
Proof. intros sy st l (H1 & H2 & H3). unfold classify_line. now rewrite H1, H2, H3. Qed.

Lemma ignore_end_line : forall sy st l, ign_end_line sy l ->
  classify_line sy st l = (Comment, {| ml := ml st; ign_rem := ign_rem st; ign_blk := false |}).
Proof. intros sy st l (H1 & H2). unfold classify_line. now rewrite H1, H2. Qed.

Definition track_all (sy : syntax) (ls : list str) (m : mls) : mls := fold_left (fun m l => track sy l m) ls m.
Definition plain_lines (sy : syntax) (ls : list str) : Prop :=
  Forall (fun l => is_directive sy (trim l) = false) ls.

(* the next n lines are removed: exactly n, whatever they contain (short of another directive) *)
Lemma ignored_next_run : forall sy ls m k,
  plain_lines sy ls ->
  classes sy ls {| ml := m; ign_rem := N.of_nat (length ls) + k; ign_blk := false |} = repeat Ignored (length ls)
  /\ state_after sy ls {| ml := m; ign_rem := N.of_nat (length ls) + k; ign_blk := false |}
     = {| ml := track_all sy ls m; ign_rem := k; ign_blk := false |}.
Proof.
  intros sy ls; induction ls as [|l ls IH]; intros m k Hp.
  - cbn. split; [reflexivity|]. f_equal.
  - inversion Hp as [|? ? Hd Hp']; subst.
    cbn [classes state_after length repeat track_all fold_left].
    set (st := {| ml := m; ign_rem := N.of_nat (S (length ls)) + k; ign_blk := false |}).
    assert (Hc : classify_line sy st l =
                 (Ignored, {| ml := track sy l m; ign_rem := N.of_nat (length ls) + k; ign_blk := false |})).
    { unfold classify_line. rewrite (directive_none sy st _ Hd). cbn [st ign_blk ign_rem ml].
      assert (0 <? N.of_nat (S (length ls)) + k = true) as -> by (apply N.ltb_lt; lia).
      f_equal. f_equal. lia. }
    rewrite Hc. cbn [snd]. destruct (IH (track sy l m) k Hp') as [E1 E2].
    rewrite E1, E2. split; reflexivity.
Qed.

Lemma ignored_block_run : forall sy ls m r,
  plain_lines sy ls ->
  classes sy ls {| ml := m; ign_rem := r; ign_blk := true |} = repeat Ignored (length ls)
  /\ state_after sy ls {| ml := m; ign_rem := r; ign_blk := true |}
     = {| ml := track_all sy ls m; ign_rem := r; ign_blk := true |}.
Proof.
  intros sy ls; induction ls as [|l ls IH]; intros m r Hp.
  - cbn. split; reflexivity.
  - inversion Hp as [|? ? Hd Hp']; subst.
    cbn [classes state_after length repeat track_all fold_left].
    set (st := {| ml := m; ign_rem := r; ign_blk := true |}).
    assert (Hc : classify_line sy st l = (Ignored, {| ml := track sy l m; ign_rem := r; ign_blk := true |})).
    { unfold classify_line. rewrite (directive_none sy st _ Hd). reflexivity. }
    rewrite Hc. cbn [snd]. destruct (IH (track sy l m) r Hp') as [E1 E2]. rewrite E1, E2. split; reflexivity.
Qed.

(* in normal mode the block state evolves exactly as [track] does, so the block state after an
   ignored region is the one a normal scan of the same lines would reach *)
Lemma blank_no_opener : forall sy l, wf_syntax sy = true -> trim l = [] -> find_ml_start sy l = None.
Proof.
  intros sy l Hwf Ht.
  destruct (trim_start_split l) as (ws & Hl & Hws).
  assert (Hts : trim_start l = []) by (now apply trim_nil_start_nil).
  rewrite Hts, app_nil_r in Hl. subst l.
  unfold find_ml_start. rewrite best_all_none; [reflexivity|].
  intros c. intros Hin.
  assert (Hwm : wf_multi c = true).
  { unfold wf_syntax in Hwf. apply andb_true_iff in Hwf as [_ H2]. rewrite forallb_forall in H2. now apply H2. }
  unfold wf_multi in Hwm. unfold cand. rewrite Hts.
  destruct (ml_start c) as [|a0 at_] eqn:Ea; [discriminate|]. apply negb_true_iff in Hwm.
  destruct (ml_linestart c); [reflexivity|].
  destruct (ml_kind c); [| |reflexivity].
  - unfold find_outside_string. rewrite <- (app_nil_r ws). rewrite fos_ws_prefix; [reflexivity|exact Hwm|exact Hws].
  - rewrite <- (app_nil_r ws). rewrite flua_ws_prefix by exact Hws. reflexivity.
Qed.

Lemma classify_ml_track : forall sy st l,
  wf_syntax sy = true -> ign_rem st = 0 -> ign_blk st = false -> is_directive sy (trim l) = false ->
  let st' := snd (classify_line sy st l) in
  ml st' = track sy l (ml st) /\ ign_rem st' = 0 /\ ign_blk st' = false.
Proof.
  intros sy st l Hwf Hr Hb Hd. unfold classify_line. rewrite (directive_none sy st _ Hd), Hb, Hr.
  cbn [N.ltb N.compare]. unfold track.
  destruct (ml st) as [|d sm em nest] eqn:Em.
  - destruct (trim l) eqn:Et.
    + cbn [snd]. rewrite (blank_no_opener sy l Hwf Et). rewrite Em. auto.
    + destruct (find_ml_start sy l) as [[[c' p] e]|]; cbn [snd ml ign_rem ign_blk]; auto.
      destruct (is_single_line_comment sy _); cbn [snd]; rewrite Em; auto.
  - cbn [snd ml ign_rem ign_blk]. auto.
Qed.

Lemma normal_ml_track : forall sy ls st,
  wf_syntax sy = true -> ign_rem st = 0 -> ign_blk st = false -> plain_lines sy ls ->
  let st' := state_after sy ls st in
  ml st' = track_all sy ls (ml st) /\ ign_rem st' = 0 /\ ign_blk st' = false.
Proof.
  intros sy ls; induction ls as [|l ls IH]; intros st Hwf Hr Hb Hp; cbn [state_after track_all fold_left].
  - auto.
  - inversion Hp as [|? ? Hd Hp']; subst.
    destruct (classify_ml_track sy st l Hwf Hr Hb Hd) as (E1 & E2 & E3).
    destruct (IH (snd (classify_line sy st l)) Hwf E2 E3 Hp') as (F1 & F2 & F3).
    rewrite E1 in F1. auto.
Qed.

(* ignore-next N: the directive is a comment, exactly the next N lines are ignored, and the scan
   then continues in the state a normal scan of those N lines would have reached *)
Theorem ignore_next_exact : forall sy st dl body rest,
  wf_syntax sy = true -> idle st ->
  ign_next_line sy dl (N.of_nat (length body)) -> plain_lines sy body ->
  idle (state_after sy body st) ->
  classes sy (dl :: body ++ rest) st = Comment :: repeat Ignored (length body) ++ classes sy rest st0
  /\ state_after sy (dl :: body) st = st0.
Proof.
  intros sy st dl body rest Hwf (Hm & Hr & Hb) Hdl Hp Hidle.
  cbn [classes state_after]. rewrite (ignore_next_line sy st dl _ Hdl). cbn [snd]. rewrite Hb, Hm.
  destruct (ignored_next_run sy body NotIn 0 Hp) as [E1 E2]. rewrite N.add_0_r in E1, E2.
  rewrite classes_app, E1, E2.
  destruct (normal_ml_track sy body st Hwf Hr Hb Hp) as (F1 & _ & _).
  destruct Hidle as (G1 & _ & _). rewrite G1, Hm in F1. rewrite <- F1.
  split; reflexivity.
Qed.

Theorem ignore_block_exact : forall sy st ds body de rest,
  wf_syntax sy = true -> idle st ->
  ign_start_line sy ds -> plain_lines sy body -> ign_end_line sy de ->
  idle (state_after sy body st) ->
  classes sy (ds :: body ++ de :: rest) st =
    Comment :: repeat Ignored (length body) ++ Comment :: classes sy rest st0
  /\ state_after sy (ds :: body ++ [de]) st = st0.
Proof.
  intros sy st ds body de rest Hwf (Hm & Hr & Hb) Hds Hp Hde Hidle.
  cbn [classes state_after]. rewrite (ignore_start_line sy st ds Hds). cbn [snd]. rewrite Hr, Hm.
  destruct (ignored_block_run sy body NotIn 0 Hp) as [E1 E2].
  destruct (normal_ml_track sy body st Hwf Hr Hb Hp) as (F1 & _ & _).
  destruct Hidle as (G1 & _ & _). rewrite G1, Hm in F1.
  rewrite classes_app, E1, E2. cbn [classes].
  rewrite (ignore_end_line sy _ de Hde). cbn [snd ml ign_rem]. rewrite <- F1.
  split; [reflexivity|].
  rewrite state_after_app_local. cbn [state_after]. rewrite E2.
  rewrite (ignore_end_line sy _ de Hde). cbn [snd ml ign_rem]. now rewrite <- F1.
Qed.

(* ------------------------------------------------------------------ whole programs *)

Definition block_head_ok (sy : syntax) (ws : str) (c : mlc) (t : str) : Prop :=
  Forall (fun x => is_ws x = true) ws /\ trim_start t = t /\
  (exists pre post, multi sy = pre ++ c :: post /\ forall c', In c' pre -> opener_at_c t c' = false) /\
  ml_nest c = false /\ ml_start c <> [] /\ ml_end c <> [] /\
  (ml_linestart c = true \/ ml_kind c = Static) /\
  raw_head_here (has_rawstring sy) t = false /\
  needle_is_multiquote (ml_start c) = false /\
  is_directive sy (trim (ws ++ t)) = false.

Definition valid_simple (sy : syntax) (p : simple) : Prop :=
  match p with
  | PBlank l => trim l = []
  | PLineComment l => pure_line_comment sy l
  | PCode ind ss =>
      forallb (no_opener_c sy ind ss []) (multi sy) = true /\
      is_single_line_comment sy (trim (ind ++ render_segs ss)) = false /\
      trim (ind ++ render_segs ss) <> []
  | PCodeComment ind ss p text =>
      In p (single sy) /\
      forallb (no_opener_before_c sy ind ss (p ++ text)) (multi sy) = true /\
      needle_is_multiquote p = false /\ p <> [] /\
      segs_ok p (has_rawstring sy) (Plain ind :: ss) (p ++ text) = true /\
      raw_head_here (has_rawstring sy) (p ++ text) = false /\
      is_single_line_comment sy (trim (ind ++ render_segs ss ++ p ++ text)) = false /\
      trim (ind ++ render_segs ss ++ p ++ text) <> []
  | PBlock1 ws c text tail =>
      block_head_ok sy ws c (ml_start c ++ text ++ ml_end c ++ tail) /\
      (* known class K02_quote_in_block: no quote character before the closer *)
      quote_free (ws ++ ml_start c ++ text) = true
  | PBlockN ws c text0 mids textN tail =>
      block_head_ok sy ws c (ml_start c ++ text0) /\
      (* known class K02_closer_overlaps_opener: the closer does not occur on the opener line *)
      contains (ml_end c) (ws ++ ml_start c ++ text0) = false /\
      Forall (fun l => is_directive sy (trim l) = false /\ contains (ml_end c) l = false) mids /\
      is_directive sy (trim (textN ++ ml_end c ++ tail)) = false /\
      (* known class K02_quote_in_block *)
      quote_free textN = true
  end.

Lemma is_directive_not_comment : forall sy t, is_single_line_comment sy t = false -> is_directive sy t = false.
Proof.
  intros sy t H. unfold is_directive, has_ignore_end, has_ignore_start, parse_ignore_next. rewrite H.
  rewrite !andb_false_r. cbn [orb]. destruct (negb (contains D_NEXT t)); reflexivity.
Qed.

Lemma is_directive_nil : forall sy, is_directive sy [] = false.
Proof.
  intros sy. unfold is_directive, has_ignore_end, has_ignore_start, parse_ignore_next. cbn. reflexivity.
Qed.

Lemma inner_lines : forall sy c em mids,
  Forall (fun l => is_directive sy (trim l) = false /\ contains em l = false) mids ->
  classes sy mids (in_block c em) = repeat Comment (length mids) /\
  state_after sy mids (in_block c em) = in_block c em.
Proof.
  intros sy c em mids; induction mids as [|l mids IH]; intros H; [split; reflexivity|].
  inversion H as [|? ? [Hd Hn] H']; subst. cbn [classes state_after length repeat].
  rewrite (block_inner_line sy c em l Hd Hn). cbn [snd]. destruct (IH H') as [E1 E2]. rewrite E1, E2.
  split; reflexivity.
Qed.

Theorem simple_ok : forall sy st p, wf_syntax sy = true -> idle st -> valid_simple sy p ->
  classes sy (render_simple p) st = truth_simple p /\
  idle (state_after sy (render_simple p) st) /\
  plain_lines sy (render_simple p).
Proof.
  intros sy st p Hwf Hi Hv. destruct p as [l|l|ind ss|ind ss p text|ws c text tail|ws c text0 mids textN tail];
    cbn [render_simple truth_simple valid_simple] in *.
  - cbn [classes state_after]. rewrite (blank_neutral sy st l Hi Hv). cbn [snd].
    repeat split; try apply Hi. constructor; [|constructor]. rewrite Hv. apply is_directive_nil.
  - cbn [classes state_after]. rewrite (line_comment_neutral sy st l Hwf Hi Hv). cbn [snd].
    repeat split; try apply Hi. constructor; [|constructor]. apply Hv.
  - destruct Hv as (H1 & H2 & H3). cbn [classes state_after].
    rewrite (code_line sy st ind ss Hi H1 H2 H3). cbn [snd].
    repeat split; try apply Hi. constructor; [|constructor]. now apply is_directive_not_comment.
  - destruct Hv as (H1 & H2 & H3 & H4 & H5 & H6 & H7 & H8). cbn [classes state_after].
    rewrite (code_then_comment_line sy st ind ss p text Hi H1 H2 H3 H4 H5 H6 H7 H8). cbn [snd].
    repeat split; try apply Hi. constructor; [|constructor]. now apply is_directive_not_comment.
  - destruct Hv as ((Hws & Ht & (pre & post & Hm & Hpre) & Hn & Hne & Hne2 & Hk & Hraw & Hmq & Hd) & Hq).
    cbn [classes state_after].
    rewrite (block_single_line sy st ws _ pre c post text tail Hwf Hi Hws Ht eq_refl Hm Hpre Hn Hne Hne2 Hk Hraw Hmq Hd Hq).
    cbn [snd]. repeat split; try apply Hi. constructor; [|constructor]. exact Hd.
  - destruct Hv as ((Hws & Ht & (pre & post & Hm & Hpre) & Hn & Hne & Hne2 & Hk & Hraw & Hmq & Hd) & Hno & Hmids & HdN & Hq).
    assert (Hp : prefixb (ml_start c) (ml_start c ++ text0) = true) by apply prefixb_self_app.
    cbn [classes state_after].
    rewrite (block_open_line sy st ws _ pre c post Hwf Hi Hws Ht Hm Hpre Hn Hne Hk Hp Hraw Hmq Hd Hno).
    cbn [snd]. rewrite classes_app, state_after_app_local.
    destruct (inner_lines sy c (ml_end c) mids Hmids) as [E1 E2]. rewrite E1, E2.
    cbn [classes state_after]. rewrite (block_close_line sy c (ml_end c) textN tail Hne2 Hq HdN). cbn [snd].
    repeat split; try reflexivity.
    constructor; [exact Hd|]. apply Forall_app. split.
    + eapply Forall_impl; [|exact Hmids]. intros a [Ha _]. exact Ha.
    + constructor; [exact HdN|constructor].
Qed.

Definition valid_simples (sy : syntax) (ps : list simple) : Prop := Forall (valid_simple sy) ps.

Theorem simples_ok : forall sy ps st, wf_syntax sy = true -> idle st -> valid_simples sy ps ->
  classes sy (render_simples ps) st = truth_simples ps /\
  idle (state_after sy (render_simples ps) st) /\
  plain_lines sy (render_simples ps).
Proof.
  intros sy ps; induction ps as [|p ps IH]; intros st Hwf Hi Hv.
  - cbn. repeat split; try apply Hi. constructor.
  - inversion Hv as [|? ? Hp Hps]; subst.
    cbn [render_simples truth_simples flat_map]. fold (render_simples ps). fold (truth_simples ps).
    destruct (simple_ok sy st p Hwf Hi Hp) as (E1 & E2 & E3).
    destruct (IH _ Hwf E2 Hps) as (F1 & F2 & F3).
    rewrite classes_app, state_after_app_local, E1, F1. repeat split; try apply F2.
    apply Forall_app. split; assumption.
Qed.

Definition valid_item (sy : syntax) (i : item) : Prop :=
  match i with
  | Simple p => valid_simple sy p
  | IgnoreNext dl body => ign_next_line sy dl (N.of_nat (length (render_simples body))) /\ valid_simples sy body
  | IgnoreBlock ds body de => ign_start_line sy ds /\ valid_simples sy body /\ ign_end_line sy de
  end.

Theorem item_ok : forall sy st i, wf_syntax sy = true -> idle st -> valid_item sy i ->
  classes sy (render_pitem i) st = truth_pitem i /\ idle (state_after sy (render_pitem i) st).
Proof.
  intros sy st i Hwf Hi Hv. destruct i as [p|dl body|ds body de]; cbn [render_pitem truth_pitem valid_item] in *.
  - destruct (simple_ok sy st p Hwf Hi Hv) as (E1 & E2 & _). split; assumption.
  - destruct Hv as [Hdl Hb]. destruct (simples_ok sy body st Hwf Hi Hb) as (_ & F2 & F3).
    destruct (ignore_next_exact sy st dl (render_simples body) [] Hwf Hi Hdl F3 F2) as [E1 E2].
    rewrite app_nil_r in E1. change (classes sy [] st0) with (@nil class) in E1. rewrite app_nil_r in E1.
    rewrite E1, E2. split; [reflexivity|]. repeat split.
  - destruct Hv as (Hds & Hb & Hde). destruct (simples_ok sy body st Hwf Hi Hb) as (_ & F2 & F3).
    destruct (ignore_block_exact sy st ds (render_simples body) de [] Hwf Hi Hds F3 Hde F2) as [E1 E2].
    change (classes sy [] st0) with (@nil class) in E1. rewrite E1, E2. split; [reflexivity|]. repeat split.
Qed.

Theorem program_ok : forall sy is st, wf_syntax sy = true -> idle st -> Forall (valid_item sy) is ->
  classes sy (render_program is) st = truth_program is /\ idle (state_after sy (render_program is) st).
Proof.
  intros sy is; induction is as [|i is IH]; intros st Hwf Hi Hv.
  - cbn. split; [reflexivity|exact Hi].
  - inversion Hv as [|? ? Hp Hps]; subst.
    cbn [render_program truth_program flat_map]. fold (render_program is). fold (truth_program is).
    destruct (item_ok sy st i Hwf Hi Hp) as (E1 & E2).
    destruct (IH _ Hwf E2 Hps) as (F1 & F2).
    rewrite classes_app, state_after_app_local, E1, F1. split; [reflexivity|exact F2].
Qed.

(* counts: the tally of the truth, provided no line is an ignore-file directive *)
Theorem program_counts : forall sy is, wf_syntax sy = true -> Forall (valid_item sy) is ->
  Forall (fun l => has_ignore_file sy l = false) (render_program is) ->
  count_lines sy (render_program is) stats0 st0 = Some (tally (truth_program is) stats0).
Proof.
  intros sy is Hwf Hv Hno. rewrite count_lines_tally by exact Hno.
  destruct (program_ok sy is st0 Hwf (conj eq_refl (conj eq_refl eq_refl)) Hv) as [E _]. now rewrite E.
Qed.

(* ignore-file: a whole-line comment carrying the directive within the first ten lines ignores the file *)
Theorem ignore_file_window : forall sy ls1 l ls2 s st,
  has_ignore_file sy l = true -> total s + N.of_nat (length ls1) < 10 ->
  count_lines sy (ls1 ++ l :: ls2) s st = None.
Proof.
  intros sy ls1; induction ls1 as [|x ls1 IH]; intros l ls2 s st Hl Hlt; cbn [app count_lines].
  - assert (total s <? 10 = true) as -> by (apply N.ltb_lt; cbn in Hlt; lia). now rewrite Hl.
  - destruct ((total s <? 10) && has_ignore_file sy x); [reflexivity|].
    destruct (classify_line sy st x) as [c st']. apply IH; [exact Hl|]. rewrite bump_total. cbn [length] in Hlt. lia.
Qed.

(* ... and outside that window, or on a line that is not a whole-line comment, it has no effect *)
Theorem ignore_file_needs_comment : forall sy l,
  is_single_line_comment sy (trim l) = false -> has_ignore_file sy l = false.
Proof. intros sy l H. unfold has_ignore_file. rewrite H. apply andb_false_r. Qed.
