(* Counter/Proofs_C02.v: per-piece classification lemmas and the whole-program theorem. *)
From Coq Require Import NArith List Bool Lia.
From SG Require Import Counter.Lexer Counter.Sloc Counter.Proofs_C03 Counter.ProofsLex Counter.Proofs_C04
  Counter.Truth Counter.ProofsScan.
Import ListNotations.
Open Scope N_scope.

(* ------------------------------------------------------------------ code lines *)

(* a line on which no block opener is visible *)
Definition no_opener_c (sy : syntax) (ind : str) (ss : list seg) (rest : str) (c : mlc) : bool :=
  if ml_linestart c then negb (prefixb (ml_start c) (trim_start (ind ++ render_segs ss ++ rest)))
  else match ml_kind c with
       | Static => match ml_start c with
                   | [] => true
                   | _ => negb (needle_is_multiquote (ml_start c)) &&
                          segs_ok (ml_start c) (has_rawstring sy) (Plain ind :: ss) rest
                   end
       | LuaLong => false     (* Lua long brackets: see the Lua section *)
       | RustRaw => true
       end.

Lemma cand_none_on_code : forall sy ind ss c,
  no_opener_c sy ind ss [] c = true -> cand sy (ind ++ render_segs ss) c = None.
Proof.
  intros sy ind ss c H. unfold no_opener_c in H. unfold cand.
  destruct (ml_linestart c).
  - rewrite app_nil_r in H. apply negb_true_iff in H. now rewrite H.
  - destruct (ml_kind c); [|discriminate|reflexivity].
    unfold find_outside_string. destruct (ml_start c) as [|a0 at_] eqn:Ea; [reflexivity|].
    apply andb_true_iff in H as [Hm Hs]. apply negb_true_iff in Hm. rewrite Hm.
    pose proof (fos_segs (a0 :: at_) (has_rawstring sy) (Plain ind :: ss) [] 0 Hs) as E.
    cbn [render_segs flat_map render_seg] in E. fold (render_segs ss) in E. rewrite !app_nil_r in E.
    rewrite E. reflexivity.
Qed.

Lemma best_all_none : forall sy line cs, (forall c, In c cs -> cand sy line c = None) ->
  best sy line cs None = None.
Proof.
  intros sy line cs; induction cs as [|c cs IH]; intros H; [reflexivity|].
  cbn [best]. rewrite (H c (or_introl eq_refl)). apply IH. intros c' Hc'. apply H. now right.
Qed.

Theorem code_line : forall sy st ind ss,
  idle st ->
  forallb (no_opener_c sy ind ss []) (multi sy) = true ->
  is_single_line_comment sy (trim (ind ++ render_segs ss)) = false ->
  trim (ind ++ render_segs ss) <> [] ->
  classify_line sy st (ind ++ render_segs ss) = (Code, st).
Proof.
  intros sy st ind ss (Hm & Hr & Hb) Hno Hs Hne. unfold classify_line.
  rewrite Hs, Hb, Hr, Hm. cbn [N.ltb N.compare].
  destruct (trim (ind ++ render_segs ss)) eqn:Et; [congruence|].
  assert (Hf : find_ml_start sy (ind ++ render_segs ss) = None).
  { unfold find_ml_start. rewrite best_all_none; [reflexivity|].
    intros c' Hin. apply cand_none_on_code. rewrite forallb_forall in Hno. now apply Hno. }
  rewrite Hf. reflexivity.
Qed.


(* ------------------------------------------------------------------ code followed by a line comment *)

Definition no_opener_before_c (sy : syntax) (ind : str) (ss : list seg) (rest : str) (c : mlc) : bool :=
  if ml_linestart c then negb (prefixb (ml_start c) (trim_start (ind ++ render_segs ss ++ rest)))
  else match ml_kind c with
       | Static => match ml_start c with
                   | [] => true
                   | _ => negb (needle_is_multiquote (ml_start c)) &&
                          segs_ok (ml_start c) (has_rawstring sy) (Plain ind :: ss) rest &&
                          negb (prefixb (ml_start c) rest)
                   end
       | LuaLong => false
       | RustRaw => true
       end.

Lemma cand_after_prefix : forall sy ind ss rest c p e,
  no_opener_before_c sy ind ss rest c = true ->
  cand sy (ind ++ render_segs ss ++ rest) c = Some (p, e) ->
  utf8_len (ind ++ render_segs ss) < p.
Proof.
  intros sy ind ss rest c p e H Hc. unfold no_opener_before_c in H. unfold cand in Hc.
  destruct (ml_linestart c).
  - apply negb_true_iff in H. rewrite H in Hc. discriminate.
  - destruct (ml_kind c); [|discriminate|discriminate].
    unfold find_outside_string in Hc. destruct (ml_start c) as [|a0 at_] eqn:Ea; [discriminate|].
    apply andb_true_iff in H as [H Hnp]. apply andb_true_iff in H as [Hm Hs].
    apply negb_true_iff in Hm, Hnp. rewrite Hm in Hc.
    pose proof (fos_segs (a0 :: at_) (has_rawstring sy) (Plain ind :: ss) rest 0 Hs) as E.
    cbn [render_segs flat_map render_seg] in E. fold (render_segs ss) in E.
    rewrite <- app_assoc in E. rewrite E in Hc. cbn [N.add] in Hc.
    destruct (fos (a0 :: at_) (has_rawstring sy) false rest 0 None (utf8_len (ind ++ render_segs ss))) as [q|] eqn:Ef; [|discriminate].
    inversion Hc; subst. apply fos_ge in Ef as [H1 H2].
    destruct (N.eq_dec p (utf8_len (ind ++ render_segs ss))) as [Heq|Hne]; [|lia].
    apply H2 in Heq as (_ & _ & Hp). congruence.
Qed.

Theorem code_then_comment_line : forall sy st ind ss p text,
  idle st ->
  In p (single sy) ->
  (* no opener is visible in the code part, and the comment part does not itself start with one *)
  forallb (no_opener_before_c sy ind ss (p ++ text)) (multi sy) = true ->
  (* the comment prefix really is the first one visible: it does not occur in the code part *)
  needle_is_multiquote p = false -> p <> [] ->
  segs_ok p (has_rawstring sy) (Plain ind :: ss) (p ++ text) = true ->
  raw_head_here (has_rawstring sy) (p ++ text) = false ->
  is_single_line_comment sy (trim (ind ++ render_segs ss ++ p ++ text)) = false ->
  trim (ind ++ render_segs ss ++ p ++ text) <> [] ->
  classify_line sy st (ind ++ render_segs ss ++ p ++ text) = (Code, st).
Proof.
  intros sy st ind ss p text (Hm & Hr & Hb) Hin Hno Hmq Hpne Hsp Hraw Hs Hne.
  unfold classify_line. rewrite Hs, Hb, Hr, Hm. cbn [N.ltb N.compare].
  destruct (trim (ind ++ render_segs ss ++ p ++ text)) eqn:Et; [congruence|].
  assert (Hf : find_ml_start sy (ind ++ render_segs ss ++ p ++ text) = None).
  { unfold find_ml_start.
    destruct (best sy (ind ++ render_segs ss ++ p ++ text) (multi sy) None) as [[[c0 p0] e0]|] eqn:Eb; [|reflexivity].
    apply best_source in Eb as [Eb|[Hc0 Hcand]]; [discriminate|].
    rewrite forallb_forall in Hno. specialize (Hno c0 Hc0).
    pose proof (cand_after_prefix sy ind ss (p ++ text) c0 p0 e0 Hno Hcand) as Hlt.
    (* the prefix p is found exactly at the end of the code part *)
    assert (Hq : find_outside_string (ind ++ render_segs ss ++ p ++ text) p (has_rawstring sy)
                 = Some (utf8_len (ind ++ render_segs ss))).
    { unfold find_outside_string. destruct p as [|p0' pt]; [congruence|]. rewrite Hmq.
      pose proof (fos_segs (p0' :: pt) (has_rawstring sy) (Plain ind :: ss) ((p0' :: pt) ++ text) 0 Hsp) as E.
      cbn [render_segs flat_map render_seg] in E. fold (render_segs ss) in E. rewrite <- app_assoc in E.
      rewrite E. cbn [N.add]. cbn [app]. apply fos_here_raw.
      - exact Hraw.
      - change (p0' :: pt ++ text) with ((p0' :: pt) ++ text). apply prefixb_self_app. }
    destruct (min_single_le sy _ (single sy) p _ Hin Hq) as (m & Hm' & Hle).
    unfold find_single_start. rewrite Hm'.
    assert (m <? p0 = true) as -> by (apply N.ltb_lt; lia). reflexivity. }
  rewrite Hf. reflexivity.
Qed.

(* ------------------------------------------------------------------ block comments *)

Lemma min_single_ge : forall sy line ps L m,
  (forall p q, In p ps -> find_outside_string line p (has_rawstring sy) = Some q -> L <= q) ->
  min_single sy line ps = Some m -> L <= m.
Proof.
  intros sy line ps L; induction ps as [|p ps IH]; intros m H Hm; cbn [min_single] in Hm; [discriminate|].
  assert (Htl : forall p' q', In p' ps -> find_outside_string line p' (has_rawstring sy) = Some q' -> L <= q').
  { intros p' q' Hin Hq'. eapply H; [right; exact Hin|exact Hq']. }
  destruct (find_outside_string line p (has_rawstring sy)) as [q|] eqn:Eq.
  - assert (Hq : L <= q) by (eapply H; [left; reflexivity|exact Eq]).
    destruct (min_single sy line ps) as [a|] eqn:Ea.
    + inversion Hm; subst. pose proof (IH a Htl eq_refl). lia.
    + inversion Hm; subst. exact Hq.
  - exact (IH m Htl Hm).
Qed.

Lemma single_start_ge : forall sy ws t m,
  wf_syntax sy = true -> Forall (fun c => is_ws c = true) ws ->
  find_single_start sy (ws ++ t) = Some m -> utf8_len ws <= m.
Proof.
  intros sy ws t m Hwf Hws Hm. unfold find_single_start in Hm.
  eapply min_single_ge; [|exact Hm]. intros p q Hin Hq.
  unfold wf_syntax in Hwf. apply andb_true_iff in Hwf as [Hw1 _]. rewrite forallb_forall in Hw1.
  specialize (Hw1 p Hin). unfold wf_single in Hw1. destruct p as [|c0 p']; [discriminate|].
  apply andb_true_iff in Hw1 as [Hnws _]. apply negb_true_iff in Hnws.
  unfold find_outside_string in Hq. rewrite fos_ws_prefix in Hq; [|exact Hnws|exact Hws].
  apply fos_ge in Hq as [Hq _]. lia.
Qed.

Lemma best_keeps_min : forall sy line cs c L e,
  (forall c' p e', In c' cs -> cand sy line c' = Some (p, e') -> L <= p) ->
  best sy line cs (Some (c, L, e)) = Some (c, L, e).
Proof.
  intros sy line cs c L e; induction cs as [|x cs IH]; intros H; [reflexivity|].
  cbn [best]. destruct (cand sy line x) as [[p e']|] eqn:Ec.
  - assert (L <= p) by (eapply H; [now left|exact Ec]).
    assert (p <? L = false) as -> by (apply N.ltb_ge; lia).
    apply IH. intros; eapply H; [right|]; eauto.
  - apply IH. intros; eapply H; [right|]; eauto.
Qed.

Lemma best_first : forall sy line pre c post L e acc,
  (forall c' p e', In c' (pre ++ c :: post) -> cand sy line c' = Some (p, e') -> L <= p) ->
  (forall c' e', In c' pre -> cand sy line c' <> Some (L, e')) ->
  cand sy line c = Some (L, e) ->
  match acc with None => True | Some (_, p, _) => L < p end ->
  best sy line (pre ++ c :: post) acc = Some (c, L, e).
Proof.
  intros sy line pre; induction pre as [|x pre IH]; intros c post L e acc Hge Hpre Hc Hacc.
  - cbn [app best]. rewrite Hc.
    assert (Hnew : match acc with
                   | None => Some (c, L, e)
                   | Some (_, bp, _) => if L <? bp then Some (c, L, e) else acc
                   end = Some (c, L, e)).
    { destruct acc as [[[c0 bp] e0]|]; [|reflexivity]. apply N.ltb_lt in Hacc. now rewrite Hacc. }
    rewrite Hnew. apply best_keeps_min. intros; eapply Hge; [right|]; eauto.
  - cbn [app best]. apply IH.
    + intros; eapply Hge; [right|]; eauto.
    + intros c' e' Hin. apply Hpre. now right.
    + exact Hc.
    + destruct (cand sy line x) as [[p e']|] eqn:Ec; [|exact Hacc].
      assert (L <= p) by (eapply Hge; [now left|exact Ec]).
      assert (p <> L) by (intros ->; exact (Hpre x e' (or_introl eq_refl) Ec)).
      destruct acc as [[[c0 bp] e0]|]; [|lia].
      destruct (p <? bp); [lia|exact Hacc].
Qed.

(* the opener that the trimmed line starts with is the one the tool selects *)
Lemma find_ml_start_at_head : forall sy ws t pre c post em,
  wf_syntax sy = true -> Forall (fun x => is_ws x = true) ws -> trim_start t = t ->
  multi sy = pre ++ c :: post ->
  (forall c', In c' pre -> opener_at_c t c' = false) ->
  cand sy (ws ++ t) c = Some (utf8_len ws, em) ->
  find_ml_start sy (ws ++ t) = Some (c, utf8_len ws, em).
Proof.
  intros sy ws t pre c post em Hwf Hws Ht Hm Hpre Hc.
  assert (Htt : trim_start (ws ++ t) = t) by (apply trim_start_idem_split; assumption).
  assert (Hwm : forall c', In c' (multi sy) -> wf_multi c' = true).
  { unfold wf_syntax in Hwf. apply andb_true_iff in Hwf as [_ H2]. now rewrite forallb_forall in H2. }
  unfold find_ml_start. rewrite Hm.
  rewrite (best_first sy (ws ++ t) pre c post (utf8_len ws) em None).
  - destruct (find_single_start sy (ws ++ t)) as [q|] eqn:Eq; [|reflexivity].
    apply single_start_ge in Eq; [|assumption..].
    assert (q <? utf8_len ws = false) as -> by (apply N.ltb_ge; lia). reflexivity.
  - intros c' p e' Hin Hc'. rewrite <- Hm in Hin.
    destruct (cand_position sy ws t c' p e' (Hwm c' Hin) Hws Htt Hc') as [Hge _]. exact Hge.
  - intros c' e' Hin Hc'.
    assert (Hin' : In c' (multi sy)) by (rewrite Hm; apply in_or_app; now left).
    destruct (cand_position sy ws t c' _ e' (Hwm c' Hin') Hws Htt Hc') as [_ Heq].
    rewrite (Hpre c' Hin) in Heq. specialize (Heq eq_refl). discriminate.
  - exact Hc.
  - exact I.
Qed.

(* candidate position of a static (or line-start) opener at the head of the trimmed line *)
Lemma cand_static_at_head : forall sy ws t c,
  Forall (fun x => is_ws x = true) ws -> trim_start t = t ->
  wf_multi c = true -> ml_start c <> [] ->
  (ml_linestart c = true \/ ml_kind c = Static) ->
  prefixb (ml_start c) t = true ->
  raw_head_here (has_rawstring sy) t = false ->
  needle_is_multiquote (ml_start c) = false ->
  cand sy (ws ++ t) c = Some (utf8_len ws, ml_end c).
Proof.
  intros sy ws t c Hws Ht Hwm Hne Hk Hp Hraw Hmq.
  assert (Htt : trim_start (ws ++ t) = t) by (apply trim_start_idem_split; assumption).
  unfold cand. destruct (ml_linestart c) eqn:El.
  - rewrite Htt, Hp. rewrite utf8_len_app. f_equal. f_equal. lia.
  - destruct Hk as [Hk|Hk]; [discriminate|]. rewrite Hk.
    unfold find_outside_string. destruct (ml_start c) as [|a0 at_] eqn:Ea; [congruence|].
    rewrite Hmq. unfold wf_multi in Hwm. rewrite Ea in Hwm. apply negb_true_iff in Hwm.
    rewrite fos_ws_prefix; [|exact Hwm|exact Hws]. cbn [N.add].
    destruct t as [|t0 tt]; [discriminate|].
    rewrite fos_here_raw; [reflexivity|exact Hraw|exact Hp].
Qed.

(* non-nesting block: the three kinds of line *)
Definition in_block (c : mlc) (em : str) : lstate :=
  {| ml := InC 1 (ml_start c) em false; ign_rem := 0; ign_blk := false |}.

Lemma directive_none : forall sy (st : lstate) t,
  is_directive sy t = false ->
  (if is_single_line_comment sy t
   then if has_ignore_end sy t then Some (Comment, {| ml := ml st; ign_rem := ign_rem st; ign_blk := false |})
        else if has_ignore_start sy t then Some (Comment, {| ml := ml st; ign_rem := ign_rem st; ign_blk := true |})
        else match parse_ignore_next sy t with
             | Some n => Some (Comment, {| ml := ml st; ign_rem := n; ign_blk := ign_blk st |})
             | None => None end
   else None) = None.
Proof.
  intros sy st t Hd. unfold is_directive in Hd.
  apply orb_false_iff in Hd as [Hd Hn]. apply orb_false_iff in Hd as [He Hs].
  rewrite He, Hs. destruct (parse_ignore_next sy t); [discriminate|].
  destruct (is_single_line_comment sy t); reflexivity.
Qed.

Theorem block_open_line : forall sy st ws t pre c post,
  wf_syntax sy = true -> idle st ->
  Forall (fun x => is_ws x = true) ws -> trim_start t = t ->
  multi sy = pre ++ c :: post ->
  (forall c', In c' pre -> opener_at_c t c' = false) ->
  ml_nest c = false -> ml_start c <> [] ->
  (ml_linestart c = true \/ ml_kind c = Static) ->
  prefixb (ml_start c) t = true ->
  raw_head_here (has_rawstring sy) t = false ->
  needle_is_multiquote (ml_start c) = false ->
  is_directive sy (trim (ws ++ t)) = false ->
  (* the closer does not occur on this line at all (not even overlapping the opener) *)
  contains (ml_end c) (ws ++ t) = false ->
  classify_line sy st (ws ++ t) = (Comment, in_block c (ml_end c)).
Proof.
  intros sy st ws t pre c post Hwf (Hm & Hr & Hb) Hws Ht Hmul Hpre Hnest Hne Hk Hp Hraw Hmq Hd Hno.
  assert (Hwm : wf_multi c = true).
  { unfold wf_syntax in Hwf. apply andb_true_iff in Hwf as [_ H2]. rewrite forallb_forall in H2.
    apply H2. rewrite Hmul. apply in_or_app. right. now left. }
  pose proof (cand_static_at_head sy ws t c Hws Ht Hwm Hne Hk Hp Hraw Hmq) as Hc.
  pose proof (find_ml_start_at_head sy ws t pre c post (ml_end c) Hwf Hws Ht Hmul Hpre Hc) as Hf.
  unfold classify_line. rewrite (directive_none sy st _ Hd). rewrite Hb, Hr, Hm. cbn [N.ltb N.compare].
  destruct (trim (ws ++ t)) eqn:Et.
  - (* the trimmed line is not empty: it starts with the opener *)
    exfalso. unfold trim in Et. rewrite (trim_start_idem_split ws t Hws Ht) in Et.
    destruct (trim_end_prefix t) as (w & Hw). rewrite Et in Hw. cbn in Hw.
    (* t = w, all of t would be trailing whitespace, but t starts with the (non-whitespace) opener *)
    destruct t as [|t0 tt]; [destruct (ml_start c); [congruence|discriminate]|].
    unfold trim_end in Et. rewrite !revl_eq in Et.
    assert (Hrev : trim_start (rev (t0 :: tt)) = []) by (apply (f_equal (@rev char)) in Et; rewrite rev_involutive in Et; exact Et).
    (* trim_start of rev t is empty means every char of t is whitespace *)
    assert (Hall : forall l, trim_start l = [] -> Forall (fun x => is_ws x = true) l).
    { induction l as [|x l IHl]; intros Hl; [constructor|]. cbn in Hl. destruct (is_ws x) eqn:Ex; [|discriminate].
      constructor; [exact Ex|now apply IHl]. }
    apply Hall in Hrev. apply Forall_rev in Hrev. rewrite rev_involutive in Hrev.
    inversion Hrev as [|? ? Hx _]; subst. cbn in Ht. rewrite Hx in Ht.
    (* trim_start (t0 :: tt) = t0 :: tt is impossible when t0 is whitespace *)
    destruct (trim_start_split tt) as (w' & Hw' & _).
    assert (length (trim_start tt) <= length tt)%nat by (rewrite Hw' at 2; rewrite app_length; lia).
    rewrite Ht in H. cbn in H. lia.
  - rewrite Hf. unfold start_update. rewrite Hnest.
    rewrite (no_occurrence_no_end _ _ Hno). reflexivity.
Qed.

Theorem block_inner_line : forall sy c em l,
  is_directive sy (trim l) = false -> contains em l = false ->
  classify_line sy (in_block c em) l = (Comment, in_block c em).
Proof.
  intros sy c em l Hd Hno. unfold classify_line.
  rewrite (directive_none sy (in_block c em) _ Hd). cbn [in_block ign_blk ign_rem ml N.ltb N.compare].
  unfold update_inside. rewrite (no_occurrence_no_end _ _ Hno). reflexivity.
Qed.

Theorem block_close_line : forall sy c em text tail,
  em <> [] -> quote_free text = true ->
  is_directive sy (trim (text ++ em ++ tail)) = false ->
  classify_line sy (in_block c em) (text ++ em ++ tail) = (Comment, st0).
Proof.
  intros sy c em text tail Hne Hq Hd. unfold classify_line.
  rewrite (directive_none sy (in_block c em) _ Hd). cbn [in_block ign_blk ign_rem ml N.ltb N.compare].
  unfold update_inside. rewrite (quote_free_end_found text em tail Hne Hq). reflexivity.
Qed.

(* a block comment that opens and closes on one line *)
Theorem block_single_line : forall sy st ws t pre c post text tail,
  wf_syntax sy = true -> idle st ->
  Forall (fun x => is_ws x = true) ws -> trim_start t = t ->
  t = ml_start c ++ text ++ ml_end c ++ tail ->
  multi sy = pre ++ c :: post ->
  (forall c', In c' pre -> opener_at_c t c' = false) ->
  ml_nest c = false -> ml_start c <> [] -> ml_end c <> [] ->
  (ml_linestart c = true \/ ml_kind c = Static) ->
  raw_head_here (has_rawstring sy) t = false ->
  needle_is_multiquote (ml_start c) = false ->
  is_directive sy (trim (ws ++ t)) = false ->
  quote_free (ws ++ ml_start c ++ text) = true ->
  classify_line sy st (ws ++ t) = (Comment, st).
Proof.
  intros sy st ws t pre c post text tail Hwf (Hm & Hr & Hb) Hws Ht Heq Hmul Hpre Hnest Hne Hne2 Hk Hraw Hmq Hd Hq.
  assert (Hwm : wf_multi c = true).
  { unfold wf_syntax in Hwf. apply andb_true_iff in Hwf as [_ H2]. rewrite forallb_forall in H2.
    apply H2. rewrite Hmul. apply in_or_app. right. now left. }
  assert (Hp : prefixb (ml_start c) t = true) by (rewrite Heq; apply prefixb_self_app).
  pose proof (cand_static_at_head sy ws t c Hws Ht Hwm Hne Hk Hp Hraw Hmq) as Hc.
  pose proof (find_ml_start_at_head sy ws t pre c post (ml_end c) Hwf Hws Ht Hmul Hpre Hc) as Hf.
  unfold classify_line. rewrite (directive_none sy st _ Hd). rewrite Hb, Hr, Hm. cbn [N.ltb N.compare].
  destruct (trim (ws ++ t)) eqn:Et.
  - (* cannot be blank: contains a non-whitespace opener; reuse: quote_free is irrelevant; derive from find *)
    exfalso. unfold trim in Et. rewrite (trim_start_idem_split ws t Hws Ht) in Et.
    destruct t as [|t0 tt]; [destruct (ml_start c); [congruence|discriminate]|].
    unfold trim_end in Et. rewrite !revl_eq in Et.
    assert (Hrev : trim_start (rev (t0 :: tt)) = []) by (apply (f_equal (@rev char)) in Et; rewrite rev_involutive in Et; exact Et).
    assert (Hall : forall l, trim_start l = [] -> Forall (fun x => is_ws x = true) l).
    { induction l as [|x l IHl]; intros Hl; [constructor|]. cbn in Hl. destruct (is_ws x) eqn:Ex; [|discriminate].
      constructor; [exact Ex|now apply IHl]. }
    apply Hall in Hrev. apply Forall_rev in Hrev. rewrite rev_involutive in Hrev.
    inversion Hrev as [|? ? Hx _]; subst. cbn in Ht. rewrite Hx in Ht.
    destruct (trim_start_split tt) as (w' & Hw' & _).
    assert (length (trim_start tt) <= length tt)%nat by (rewrite Hw' at 2; rewrite app_length; lia).
    rewrite Ht in H. cbn in H. lia.
  - rewrite Hf. unfold start_update. rewrite Hnest.
    assert (Hend : contains_ml_end (ws ++ t) (ml_end c) = true).
    { rewrite Heq.
      replace (ws ++ ml_start c ++ text ++ ml_end c ++ tail) with ((ws ++ ml_start c ++ text) ++ ml_end c ++ tail)
        by (rewrite <- !app_assoc; reflexivity).
      apply quote_free_end_found; assumption. }
    rewrite Hend. rewrite <- Hm. destruct st; cbn in *; subst. reflexivity.
Qed.
