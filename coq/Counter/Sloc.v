(* Counter/Sloc.v: port of src/counter/sloc.rs and the rest of comment.rs on top of Lexer.v.
   Model file: definitions only, no proofs. *)
From Coq Require Import NArith List Bool Lia.
From SG Require Import Counter.Lexer.
Import ListNotations.
Open Scope N_scope.

Inductive pkind := Static | LuaLong | RustRaw.
Record mlc := { ml_start : str; ml_end : str; ml_nest : bool; ml_linestart : bool; ml_kind : pkind }.
Record syntax := { single : list str; multi : list mlc }.

(* Unicode White_Space *)
Definition is_ws (c : char) : bool :=
  ((9 <=? c) && (c <=? 13)) || N.eqb c 32 || N.eqb c 133 || N.eqb c 160 || N.eqb c 5760 ||
  ((8192 <=? c) && (c <=? 8202)) || N.eqb c 8232 || N.eqb c 8233 || N.eqb c 8239 || N.eqb c 8287 || N.eqb c 12288.

Fixpoint trim_start (s : str) : str :=
  match s with c :: tl => if is_ws c then trim_start tl else s | [] => [] end.
(* linear-time reverse (List.rev is quadratic); [revl_eq : revl l = rev l] is in Proofs_C03 *)
Definition revl {A} (l : list A) : list A := rev_append l [].
Definition trim_end (s : str) : str := revl (trim_start (revl s)).
Definition trim (s : str) : str := trim_end (trim_start s).

Definition utf8_len (s : str) : N := fold_right (fun c a => len_utf8 c + a) 0 s.

Fixpoint contains (needle s : str) : bool :=
  prefixb needle s || match s with [] => false | _ :: tl => contains needle tl end.

(* suffix after the first occurrence of needle *)
Fixpoint after_first (needle s : str) : option str :=
  if prefixb needle s then Some (skipn (length needle) s) else
  match s with [] => None | _ :: tl => after_first needle tl end.

Definition is_single_line_comment (sy : syntax) (trimmed : str) : bool :=
  existsb (fun p => prefixb p trimmed) (single sy).

(* first whitespace-separated token *)
Fixpoint take_nonws (s : str) : str :=
  match s with c :: tl => if is_ws c then [] else c :: take_nonws tl | [] => [] end.
Definition first_token (s : str) : option str :=
  match take_nonws (trim_start s) with [] => None | t => Some t end.

(* usize::from_str : optional '+', then >= 1 ASCII digits, value < 2^64 *)
Fixpoint digits_val (s : str) (acc : N) : option N :=
  match s with
  | [] => Some acc
  | c :: tl => if (48 <=? c) && (c <=? 57) then digits_val tl (acc * 10 + (c - 48)) else None
  end.
Definition parse_usize (s : str) : option N :=
  let body := match s with c :: tl => if N.eqb c 43 then tl else s | [] => [] end in
  match body with
  | [] => None
  | _ => match digits_val body 0 with Some v => if v <? 18446744073709551616 then Some v else None | None => None end
  end.

Definition s_of (l : list N) : str := l.
(* "sloc-guard:ignore-file" etc as code points *)
Definition D_PREFIX : str := [115;108;111;99;45;103;117;97;114;100;58;105;103;110;111;114;101;45].
Definition D_FILE : str := D_PREFIX ++ [102;105;108;101].
Definition D_NEXT : str := D_PREFIX ++ [110;101;120;116].
Definition D_START : str := D_PREFIX ++ [115;116;97;114;116].
Definition D_END : str := D_PREFIX ++ [101;110;100].

Definition has_ignore_file (sy : syntax) (line : str) : bool :=
  let t := trim line in contains D_FILE t && is_single_line_comment sy t.
Definition parse_ignore_next (sy : syntax) (t : str) : option N :=
  if negb (contains D_NEXT t) then None else
  if negb (is_single_line_comment sy t) then None else
  match after_first D_NEXT t with
  | None => None
  | Some after => match first_token after with None => None | Some tok => parse_usize tok end
  end.
Definition has_ignore_start sy t := contains D_START t && is_single_line_comment sy t.
Definition has_ignore_end sy t := contains D_END t && is_single_line_comment sy t.

(* ---- Lua long brackets ---- *)
Definition c_dash : char := 45. Definition c_lb : char := 91. Definition c_eq : char := 61. Definition c_rb : char := 93.
(* match --[=*[ at head; returns level *)
Definition match_lua (s : str) (dash : bool) : option nat :=
  let s1 := if dash then match s with a :: b :: tl => if N.eqb a c_dash && N.eqb b c_dash then Some tl else None | _ => None end else Some s in
  match s1 with
  | Some (x :: tl) =>
      if N.eqb x c_lb then
        let '(lvl, rest) := count_while c_eq tl in
        match rest with y :: _ => if N.eqb y c_lb then Some lvl else None | [] => None end
      else None
  | _ => None
  end.

Fixpoint flua (s : str) (skip : nat) (st : skst) (bp : N) : option (N * nat) :=
  match s with
  | [] => None
  | c :: tl =>
      match skip with
      | S k => flua tl k st (bp + len_utf8 c)
      | O =>
          let not_in := match st with None => true | Some _ => false end in
          match (if not_in then match_lua s true else None) with
          | Some lvl => Some (bp, lvl)
          | None =>
              let '(st', consumed) := process_impl st c tl true in
              flua tl (pred consumed) st' (bp + len_utf8 c)
          end
      end
  end.
Definition lua_end (lvl : nat) : str := c_rb :: repeat c_eq lvl ++ [c_rb].

(* ---- count_markers_outside_string ---- *)
Fixpoint cmk (sm em : str) (s : str) (skip : nat) (st : skst) (starts ends : N) : N * N :=
  match s with
  | [] => (starts, ends)
  | c :: tl =>
      match skip with
      | S k => cmk sm em tl k st starts ends
      | O =>
          let not_in := match st with None => true | Some _ => false end in
          match (if not_in && N.eqb c c_r then try_skip_raw s else None) with
          | Some (S n) => cmk sm em tl n st starts ends
          | Some O => (starts, ends)
          | None =>
              if not_in && prefixb sm s then cmk sm em tl (pred (length sm)) st (starts + 1) ends
              else if not_in && prefixb em s then cmk sm em tl (pred (length em)) st starts (ends + 1)
              else let '(st', consumed) := process_impl st c tl true in
                   cmk sm em tl (pred consumed) st' starts ends
          end
      end
  end.
Definition count_markers (line sm em : str) : N * N :=
  match sm, em with
  | [], _ | _, [] => (0, 0)
  | _, _ => cmk sm em line O None 0 0
  end.

Definition contains_ml_end (line em : str) : bool :=
  match find_outside_string line em false with Some _ => true | None => false end.

(* ---- find_multi_line_start: returns (comment, position, end marker) ---- *)
Definition has_rawstring (sy : syntax) : bool :=
  existsb (fun c => match ml_kind c with RustRaw => true | _ => false end) (multi sy).

Definition cand (sy : syntax) (line : str) (c : mlc) : option (N * str) :=
  if ml_linestart c then
    let t := trim_start line in
    if prefixb (ml_start c) t then Some (utf8_len line - utf8_len t, ml_end c) else None
  else
    match ml_kind c with
    | LuaLong => match flua line O None 0 with
                 | Some (p, lvl) => Some (p, match lvl with O => ml_end c | _ => lua_end lvl end)
                 | None => None end
    | RustRaw => None
    | Static => match find_outside_string line (ml_start c) (has_rawstring sy) with
                | Some p => Some (p, ml_end c) | None => None end
    end.

Fixpoint best (sy : syntax) (line : str) (cs : list mlc) (acc : option (mlc * N * str)) : option (mlc * N * str) :=
  match cs with
  | [] => acc
  | c :: tl =>
      let acc' := match cand sy line c with
                  | Some (p, e) => match acc with
                                   | None => Some (c, p, e)
                                   | Some (_, bp, _) => if p <? bp then Some (c, p, e) else acc
                                   end
                  | None => acc end in
      best sy line tl acc'
  end.
(* earliest single-line comment prefix outside string literals (find_single_line_start) *)
Fixpoint min_single (sy : syntax) (line : str) (ps : list str) : option N :=
  match ps with
  | [] => None
  | p :: tl =>
      match find_outside_string line p (has_rawstring sy), min_single sy line tl with
      | Some q, Some a => Some (N.min q a)
      | Some q, None => Some q
      | None, r => r
      end
  end.
Definition find_single_start (sy : syntax) (line : str) : option N := min_single sy line (single sy).

(* an opener that lies after a line-comment prefix is comment text (fix d23d81a in /repo) *)
Definition find_ml_start (sy : syntax) (line : str) : option (mlc * N * str) :=
  match best sy line (multi sy) None with
  | Some (c, p, e) =>
      match find_single_start sy line with
      | Some q => if q <? p then None else Some (c, p, e)
      | None => Some (c, p, e)
      end
  | None => None
  end.

(* ---- MultiLineState ---- *)
Inductive mls := NotIn | InC (depth : N) (sm em : str) (nest : bool).
Definition enter (m : mls) (sm em : str) (nest : bool) : mls :=
  match m with NotIn => InC 1 sm em nest | InC d a b n => InC (d + 1) a b n end.
Definition exit_ (m : mls) : mls :=
  match m with NotIn => NotIn | InC d a b n => if d <=? 1 then NotIn else InC (d - 1) a b n end.
Fixpoint iter {A} (n : nat) (f : A -> A) (x : A) : A := match n with O => x | S k => iter k f (f x) end.

Definition update_inside (line : str) (m : mls) : mls :=
  match m with
  | NotIn => NotIn
  | InC d sm em nest =>
      if nest then
        let '(s, e) := count_markers line sm em in
        iter (N.to_nat e) exit_ (iter (N.to_nat s) (fun x => enter x sm em true) m)
      else if contains_ml_end line em then NotIn else m
  end.

Definition start_update (sy : syntax) (line : str) (m : mls) (c : mlc) (em : str) : mls :=
  if ml_nest c then
    let '(s, e) := count_markers line (ml_start c) em in
    iter (N.to_nat e) exit_ (iter (N.to_nat s) (fun x => enter x (ml_start c) em true) m)
  else if contains_ml_end line em then m else enter m (ml_start c) em false.

Definition track (sy : syntax) (line : str) (m : mls) : mls :=
  match m with
  | InC _ _ _ _ => update_inside line m
  | NotIn => match find_ml_start sy line with
             | Some (c, _, em) => start_update sy line m c em
             | None => m end
  end.

Inductive class := Code | Comment | Blank | Ignored.
Record lstate := { ml : mls; ign_rem : N; ign_blk : bool }.
Definition st0 : lstate := {| ml := NotIn; ign_rem := 0; ign_blk := false |}.

Definition classify_line (sy : syntax) (st : lstate) (line : str) : class * lstate :=
  let t := trim line in
  let directive : option (class * lstate) :=
    if is_single_line_comment sy t then
      if has_ignore_end sy t then Some (Comment, {| ml := ml st; ign_rem := ign_rem st; ign_blk := false |})
      else if has_ignore_start sy t then Some (Comment, {| ml := ml st; ign_rem := ign_rem st; ign_blk := true |})
      else match parse_ignore_next sy t with
           | Some n => Some (Comment, {| ml := ml st; ign_rem := n; ign_blk := ign_blk st |})
           | None => None end
    else None in
  match directive with
  | Some r => r
  | None =>
    if ign_blk st then (Ignored, {| ml := track sy line (ml st); ign_rem := ign_rem st; ign_blk := true |})
    else if 0 <? ign_rem st then (Ignored, {| ml := track sy line (ml st); ign_rem := ign_rem st - 1; ign_blk := false |})
    else match ml st with
    | InC _ _ _ _ => (Comment, {| ml := update_inside line (ml st); ign_rem := 0; ign_blk := false |})
    | NotIn =>
      match t with
      | [] => (Blank, st)
      | _ =>
        match find_ml_start sy line with
        | Some (c, _, em) => (Comment, {| ml := start_update sy line NotIn c em; ign_rem := 0; ign_blk := false |})
        | None => if is_single_line_comment sy t then (Comment, st) else (Code, st)
        end
      end
    end
  end.

(* ---- line splitting (str::lines) ---- *)
Fixpoint split_nl (s : str) (cur : str) : list str :=
  match s with
  | [] => match cur with [] => [] | _ => [revl cur] end
  | c :: tl => if N.eqb c 10 then
                 (match cur with 13 :: r => revl r | _ => revl cur end) :: split_nl tl []
               else split_nl tl (c :: cur)
  end.
Definition lines_str (s : str) : list str := split_nl s [].

Record stats := { total : N; code : N; comment : N; blank : N; ignored : N }.
Definition bump (s : stats) (c : class) : stats :=
  match c with
  | Code => {| total := total s + 1; code := code s + 1; comment := comment s; blank := blank s; ignored := ignored s |}
  | Comment => {| total := total s + 1; code := code s; comment := comment s + 1; blank := blank s; ignored := ignored s |}
  | Blank => {| total := total s + 1; code := code s; comment := comment s; blank := blank s + 1; ignored := ignored s |}
  | Ignored => {| total := total s + 1; code := code s; comment := comment s; blank := blank s; ignored := ignored s + 1 |}
  end.

Fixpoint count_lines (sy : syntax) (ls : list str) (s : stats) (st : lstate) : option stats :=
  match ls with
  | [] => Some s
  | l :: tl =>
      if (total s <? 10) && has_ignore_file sy l then None
      else let '(c, st') := classify_line sy st l in count_lines sy tl (bump s c) st'
  end.
Definition count (sy : syntax) (src : str) : option stats :=
  count_lines sy (lines_str src) {| total := 0; code := 0; comment := 0; blank := 0; ignored := 0 |} st0.


(* ---- BufRead::lines (the streaming entry point count_reader) ----
   read_line appends up to and including the first LF; lines() then pops one LF and,
   only if an LF was popped, one CR. *)
Fixpoint read_until_nl (s : str) : str * str :=
  match s with
  | [] => ([], [])
  | c :: tl => if N.eqb c 10 then ([c], tl)
               else let '(a, r) := read_until_nl tl in (c :: a, r)
  end.
Definition strip_eol (l : str) : str :=
  match revl l with
  | 10 :: 13 :: r => revl r
  | 10 :: r => revl r
  | _ => l
  end.
Fixpoint lines_buf_fuel (fuel : nat) (s : str) : list str :=
  match fuel with
  | O => []
  | S k => match s with
           | [] => []
           | _ => let '(l, r) := read_until_nl s in strip_eol l :: lines_buf_fuel k r
           end
  end.
Definition lines_buf (s : str) : list str := lines_buf_fuel (S (length s)) s.

(* run over lines returning the final machine state too (used by the append theorems) *)
Definition stats0 : stats := {| total := 0; code := 0; comment := 0; blank := 0; ignored := 0 |}.
Fixpoint run_lines (sy : syntax) (ls : list str) (s : stats) (st : lstate) : option (stats * lstate) :=
  match ls with
  | [] => Some (s, st)
  | l :: tl =>
      if (total s <? 10) && has_ignore_file sy l then None
      else let '(c, st') := classify_line sy st l in run_lines sy tl (bump s c) st'
  end.
Definition count_reader (sy : syntax) (src : str) : option stats :=
  count_lines sy (lines_buf src) stats0 st0.

(* per-line classes (None = ignore-file hit) for the relational properties *)
Fixpoint classes (sy : syntax) (ls : list str) (st : lstate) : list class :=
  match ls with
  | [] => []
  | l :: tl => let '(c, st') := classify_line sy st l in c :: classes sy tl st'
  end.
Fixpoint state_after (sy : syntax) (ls : list str) (st : lstate) : lstate :=
  match ls with
  | [] => st
  | l :: tl => state_after sy tl (snd (classify_line sy st l))
  end.

(* per-line observable used by the correspondence check: the class of each line as seen
   through prefix counts; [None] marks the line at which ignore-file fires *)
Fixpoint classes_obs (sy : syntax) (ls : list str) (n : N) (st : lstate) : list (option class) :=
  match ls with
  | [] => []
  | l :: tl =>
      if (n <? 10) && has_ignore_file sy l then [None]
      else let '(c, st') := classify_line sy st l in Some c :: classes_obs sy tl (n + 1) st'
  end.
Definition classes_of (sy : syntax) (src : str) : list (option class) :=
  classes_obs sy (lines_str src) 0 st0.
