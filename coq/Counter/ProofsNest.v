(* Counter/ProofsNest.v: Lua long brackets, self-closing (triple-quote) blocks and nesting block comments. *)
From Coq Require Import NArith List Bool Lia.
From SG Require Import Counter.Lexer Counter.Sloc Counter.Proofs_C03 Counter.ProofsLex Counter.Proofs_C04
  Counter.Truth Counter.ProofsScan Counter.Proofs_C02.
Import ListNotations.
Open Scope N_scope.

(* ------------------------------------------------------------------ Lua long brackets *)

(* a Lua long-bracket opener at the head of the trimmed line *)
Lemma cand_lua_at_head : forall sy ws t c lvl,
  Forall (fun x => is_ws x = true) ws ->
  ml_linestart c = false -> ml_kind c = LuaLong ->
  match_lua t true = Some lvl ->
  cand sy (ws ++ t) c = Some (utf8_len ws, match lvl with O => ml_end c | _ => lua_end lvl end).
Proof.
  intros sy ws t c lvl Hws Hl Hk Hm. unfold cand. rewrite Hl, Hk.
  rewrite flua_ws_prefix by exact Hws. cbn [N.add].
  destruct t as [|t0 tt]; [discriminate|]. cbn [flua]. rewrite Hm. reflexivity.
Qed.

Theorem lua_block_open_line : forall sy st ws t pre c post lvl,
  wf_syntax sy = true -> idle st ->
  Forall (fun x => is_ws x = true) ws -> trim_start t = t ->
  multi sy = pre ++ c :: post ->
  (forall c', In c' pre -> opener_at_c t c' = false) ->
  ml_nest c = false -> ml_linestart c = false -> ml_kind c = LuaLong ->
  match_lua t true = Some lvl ->
  is_directive sy (trim (ws ++ t)) = false ->
  let em := match lvl with O => ml_end c | _ => lua_end lvl end in
  contains em (ws ++ t) = false ->
  classify_line sy st (ws ++ t) = (Comment, in_block c em).
Proof.
  intros sy st ws t pre c post lvl Hwf (Hm & Hr & Hb) Hws Ht Hmul Hpre Hnest Hl Hk Hml Hd em Hno.
  pose proof (cand_lua_at_head sy ws t c lvl Hws Hl Hk Hml) as Hc. fold em in Hc.
  pose proof (find_ml_start_at_head sy ws t pre c post em Hwf Hws Ht Hmul Hpre Hc) as Hf.
  unfold classify_line. rewrite (directive_none sy st _ Hd). rewrite Hb, Hr, Hm. cbn [N.ltb N.compare].
  destruct (trim (ws ++ t)) eqn:Et.
  - exfalso. apply (trim_nonempty_of_head ws t Hws Ht); [|exact Et]. intros ->. discriminate.
  - rewrite Hf. unfold start_update. rewrite Hnest.
    rewrite (no_occurrence_no_end _ _ Hno). reflexivity.
Qed.

(* ------------------------------------------------------------------ self-closing blocks (opener = closer) *)

(* when the opener is its own closer (Python triple quotes) a block line is always taken as closed:
   correct for a one-line docstring, and the mechanism behind K02_py_multiline_docstring *)
Theorem selfclosing_block_line : forall sy st ws t pre c post,
  wf_syntax sy = true -> idle st ->
  Forall (fun x => is_ws x = true) ws -> trim_start t = t ->
  multi sy = pre ++ c :: post ->
  (forall c', In c' pre -> opener_at_c t c' = false) ->
  ml_nest c = false -> ml_start c <> [] -> ml_end c = ml_start c ->
  ml_linestart c = false -> ml_kind c = Static ->
  prefixb (ml_start c) t = true ->
  raw_head_here (has_rawstring sy) t = false ->
  is_directive sy (trim (ws ++ t)) = false ->
  classify_line sy st (ws ++ t) = (Comment, st).
Proof.
  intros sy st ws t pre c post Hwf (Hm & Hr & Hb) Hws Ht Hmul Hpre Hnest Hne Heq Hl Hk Hp Hraw Hd.
  assert (Hwm : wf_multi c = true).
  { unfold wf_syntax in Hwf. apply andb_true_iff in Hwf as [_ H2]. rewrite forallb_forall in H2.
    apply H2. rewrite Hmul. apply in_or_app. right. now left. }
  assert (Hhead : match ml_start c with n0 :: _ => is_ws n0 = false | [] => False end).
  { unfold wf_multi in Hwm. destruct (ml_start c); [discriminate|]. now apply negb_true_iff in Hwm. }
  assert (Hc : cand sy (ws ++ t) c = Some (utf8_len ws, ml_end c)).
  { unfold cand. rewrite Hl, Hk. unfold find_outside_string.
    destruct (ml_start c) as [|a0 at_] eqn:Ea; [congruence|].
    rewrite fos_ws_prefix; [|exact Hhead|exact Hws]. cbn [N.add].
    destruct t as [|t0 tt]; [discriminate|]. rewrite fos_here_raw; [reflexivity|exact Hraw|exact Hp]. }
  pose proof (find_ml_start_at_head sy ws t pre c post (ml_end c) Hwf Hws Ht Hmul Hpre Hc) as Hf.
  unfold classify_line. rewrite (directive_none sy st _ Hd). rewrite Hb, Hr, Hm. cbn [N.ltb N.compare].
  destruct (trim (ws ++ t)) eqn:Et.
  - exfalso. apply (trim_nonempty_of_head ws t Hws Ht); [|exact Et].
    intros E0. rewrite E0 in Hp. destruct (ml_start c); [congruence|discriminate].
  - rewrite Hf. unfold start_update. rewrite Hnest.
    assert (Hend : contains_ml_end (ws ++ t) (ml_end c) = true).
    { unfold contains_ml_end, find_outside_string. rewrite Heq.
      destruct (ml_start c) as [|a0 at_] eqn:Ea; [congruence|].
      rewrite fos_ws_prefix; [|exact Hhead|exact Hws].
      destruct t as [|t0 tt]; [discriminate|]. rewrite fos_here_raw; [reflexivity|reflexivity|exact Hp]. }
    rewrite Hend. rewrite <- Hm. destruct st; cbn in *; subst. reflexivity.
Qed.

(* ------------------------------------------------------------------ nesting block comments *)

Inductive ntok := NOpen | NClose | NText (w : str).
Definition render_ntok (sm em : str) (t : ntok) : str :=
  match t with NOpen => sm | NClose => em | NText w => w end.
Definition render_ntoks (sm em : str) (ts : list ntok) : str := flat_map (render_ntok sm em) ts.
Definition opens (ts : list ntok) : N := N.of_nat (length (filter (fun t => match t with NOpen => true | _ => false end) ts)).
Definition closes (ts : list ntok) : N := N.of_nat (length (filter (fun t => match t with NClose => true | _ => false end) ts)).

Definition head_is (m : str) (c : char) : bool := match m with x :: _ => N.eqb x c | [] => false end.
(* comment text between markers: avoids the first character of either marker *)
Definition ntext_ok (sm em : str) (t : ntok) : bool :=
  match t with NText w => forallb (fun c => negb (head_is sm c) && negb (head_is em c)) w | _ => true end.

Definition no_dq (s : str) : bool := forallb (fun c => negb (N.eqb c c_dq)) s.

Lemma count_while_suffix : forall c s n r, count_while c s = (n, r) -> exists p, s = p ++ r.
Proof.
  intros c s; induction s as [|x s IH]; intros n r H; cbn in H.
  - inversion H; subst. now exists [].
  - destruct (N.eqb x c).
    + destruct (count_while c s) as [n' r'] eqn:E. inversion H; subst.
      destruct (IH _ _ eq_refl) as (p & Hp). exists (x :: p). cbn. now f_equal.
    + inversion H; subst. now exists [].
Qed.

Lemma no_dq_app_r : forall a b, no_dq (a ++ b) = true -> no_dq b = true.
Proof. intros a b H. unfold no_dq in *. rewrite forallb_app in H. now apply andb_true_iff in H as [_ H]. Qed.

Lemma no_dq_no_raw : forall s, no_dq s = true -> match_rust_raw s = None.
Proof.
  intros s H. unfold match_rust_raw. destruct s as [|x tl]; [reflexivity|].
  destruct (N.eqb x c_r); [|reflexivity].
  destruct (count_while c_hash tl) as [lvl rest] eqn:E.
  destruct rest as [|q rest']; [reflexivity|].
  destruct (count_while_suffix _ _ _ _ E) as (p & Hp).
  cbn [no_dq forallb] in H. apply andb_true_iff in H as [_ H]. fold (no_dq tl) in H.
  rewrite Hp in H. apply no_dq_app_r in H. cbn [no_dq forallb] in H. apply andb_true_iff in H as [H _].
  apply negb_true_iff in H. now rewrite H.
Qed.

Lemma quote_free_no_dq : forall s, quote_free s = true -> no_dq s = true.
Proof.
  intros s H. unfold quote_free, no_dq in *. rewrite forallb_forall in *. intros c Hc.
  specialize (H c Hc). unfold is_quote in H. apply negb_true_iff in H. apply orb_false_iff in H as [H _].
  now rewrite H.
Qed.

Lemma quote_free_app : forall a b, quote_free (a ++ b) = true -> quote_free a = true /\ quote_free b = true.
Proof. intros a b H. unfold quote_free in *. rewrite forallb_app in H. now apply andb_true_iff in H. Qed.

Lemma raw_skip_none : forall c tl, quote_free (c :: tl) = true ->
  (if true && N.eqb c c_r then try_skip_raw (c :: tl) else None) = None.
Proof.
  intros c tl H. cbn [andb]. destruct (N.eqb c c_r); [|reflexivity].
  unfold try_skip_raw. now rewrite (no_dq_no_raw _ (quote_free_no_dq _ H)).
Qed.

(* skipping the rest of a matched marker *)
Lemma cmk_skip : forall sm em a rest st s e,
  cmk sm em (a ++ rest) (length a) st s e = cmk sm em rest O st s e.
Proof. induction a as [|x a IH]; intros rest st s e; cbn [app length cmk]; [reflexivity|apply IH]. Qed.

Lemma cmk_open : forall sm em rest s e,
  sm <> [] -> quote_free (sm ++ rest) = true ->
  cmk sm em (sm ++ rest) O None s e = cmk sm em rest O None (s + 1) e.
Proof.
  intros sm em rest s e Hne Hq. destruct sm as [|x m']; [congruence|]. cbn [app] in *. cbn [cmk].
  rewrite (raw_skip_none x (m' ++ rest) Hq). cbn [andb].
  change (x :: m' ++ rest) with ((x :: m') ++ rest). rewrite prefixb_self_app.
  cbn [length pred]. apply cmk_skip.
Qed.

Lemma cmk_close : forall sm em rest s e,
  em <> [] -> quote_free (em ++ rest) = true -> prefixb sm (em ++ rest) = false ->
  cmk sm em (em ++ rest) O None s e = cmk sm em rest O None s (e + 1).
Proof.
  intros sm em rest s e Hne Hq Hnp. destruct em as [|x m']; [congruence|]. cbn [app] in *. cbn [cmk].
  rewrite (raw_skip_none x (m' ++ rest) Hq). cbn [andb]. rewrite Hnp.
  change (x :: m' ++ rest) with ((x :: m') ++ rest). rewrite prefixb_self_app.
  cbn [length pred]. apply cmk_skip.
Qed.

Lemma cmk_text : forall sm em w rest s e,
  forallb (fun c => negb (head_is sm c) && negb (head_is em c)) w = true ->
  quote_free (w ++ rest) = true -> sm <> [] -> em <> [] ->
  cmk sm em (w ++ rest) O None s e = cmk sm em rest O None s e.
Proof.
  intros sm em w; induction w as [|c w IH]; intros rest s e Hw Hq Hs He; [reflexivity|].
  cbn [forallb] in Hw. apply andb_true_iff in Hw as [Hc Hw]. apply andb_true_iff in Hc as [H1 H2].
  apply negb_true_iff in H1, H2. cbn [app cmk].
  rewrite (raw_skip_none c (w ++ rest) Hq). cbn [andb].
  assert (P1 : prefixb sm (c :: w ++ rest) = false).
  { destruct sm as [|x sm']; [congruence|]. cbn. cbn in H1. now rewrite H1. }
  assert (P2 : prefixb em (c :: w ++ rest) = false).
  { destruct em as [|x em']; [congruence|]. cbn. cbn in H2. now rewrite H2. }
  rewrite P1, P2.
  cbn [quote_free forallb] in Hq. apply andb_true_iff in Hq as [Hcq Hq']. apply negb_true_iff in Hcq.
  unfold is_quote in Hcq. apply orb_false_iff in Hcq as [Hdq Hsq].
  rewrite process_impl_inert by (apply N.eqb_neq; assumption). cbn [pred]. now apply IH.
Qed.

Lemma cmk_ntoks : forall sm em ts s e,
  sm <> [] -> em <> [] -> head_is sm (hd 0 em) = false ->
  forallb (ntext_ok sm em) ts = true -> quote_free (render_ntoks sm em ts) = true ->
  cmk sm em (render_ntoks sm em ts) O None s e = (s + opens ts, e + closes ts).
Proof.
  intros sm em ts; induction ts as [|t ts IH]; intros s e Hs He Hh Hok Hq.
  - cbn. f_equal; unfold opens, closes; cbn; lia.
  - cbn [forallb] in Hok. apply andb_true_iff in Hok as [Ht Hok].
    cbn [render_ntoks flat_map] in *. fold (render_ntoks sm em ts) in *.
    assert (Hq' : quote_free (render_ntoks sm em ts) = true) by (apply quote_free_app in Hq; tauto).
    destruct t as [| |w]; cbn [render_ntok] in *.
    + rewrite (cmk_open sm em _ s e Hs Hq). rewrite IH by assumption.
      f_equal; unfold opens, closes; cbn [filter length]; lia.
    + assert (Hnp : prefixb sm (em ++ render_ntoks sm em ts) = false).
      { destruct em as [|x em']; [congruence|]. destruct sm as [|y sm']; [congruence|].
        cbn in Hh. cbn. now rewrite Hh. }
      rewrite (cmk_close sm em _ s e He Hq Hnp). rewrite IH by assumption.
      f_equal; unfold opens, closes; cbn [filter length]; lia.
    + cbn [ntext_ok] in Ht. rewrite cmk_text by assumption. rewrite IH by assumption.
      f_equal; unfold opens, closes; cbn [filter length]; lia.
Qed.

Lemma count_markers_ntoks : forall sm em ts,
  sm <> [] -> em <> [] -> head_is sm (hd 0 em) = false ->
  forallb (ntext_ok sm em) ts = true -> quote_free (render_ntoks sm em ts) = true ->
  count_markers (render_ntoks sm em ts) sm em = (opens ts, closes ts).
Proof.
  intros sm em ts Hs He Hh Hok Hq. unfold count_markers.
  destruct sm as [|x sm']; [congruence|]. destruct em as [|y em']; [congruence|].
  rewrite cmk_ntoks by assumption. reflexivity.
Qed.

(* depth arithmetic *)
Lemma iter_enter : forall n d sm em, 
  iter n (fun x => enter x sm em true) (InC d sm em true) = InC (d + N.of_nat n) sm em true.
Proof.
  induction n as [|n IH]; intros d sm em; cbn [iter]; [f_equal; lia|].
  cbn [enter]. rewrite IH. f_equal. lia.
Qed.

Lemma iter_enter_notin : forall n sm em, (0 < n)%nat ->
  iter n (fun x => enter x sm em true) NotIn = InC (N.of_nat n) sm em true.
Proof.
  intros n sm em Hn. destruct n as [|n]; [lia|]. cbn [iter enter]. rewrite iter_enter. f_equal. lia.
Qed.

Lemma iter_exit_notin : forall n, iter n exit_ NotIn = NotIn.
Proof. induction n as [|n IH]; cbn; [reflexivity|exact IH]. Qed.

Lemma iter_exit : forall n d sm em, 1 <= d ->
  iter n exit_ (InC d sm em true) = if N.of_nat n <? d then InC (d - N.of_nat n) sm em true else NotIn.
Proof.
  induction n as [|n IH]; intros d sm em Hd.
  - cbn [iter]. assert (N.of_nat 0 <? d = true) as -> by (apply N.ltb_lt; lia). f_equal. lia.
  - cbn [iter exit_]. destruct (d <=? 1) eqn:E.
    + apply N.leb_le in E. assert (d = 1) by lia. subst d. rewrite iter_exit_notin.
      assert (N.of_nat (S n) <? 1 = false) as -> by (apply N.ltb_ge; lia). reflexivity.
    + apply N.leb_gt in E. rewrite IH by lia.
      destruct (N.of_nat n <? d - 1) eqn:E1; destruct (N.of_nat (S n) <? d) eqn:E2;
        try apply N.ltb_lt in E1; try apply N.ltb_ge in E1; try apply N.ltb_lt in E2; try apply N.ltb_ge in E2;
        try lia; [f_equal; lia|reflexivity].
Qed.

Definition in_nest (c : mlc) (d : N) : lstate :=
  {| ml := InC d (ml_start c) (ml_end c) true; ign_rem := 0; ign_blk := false |}.
Definition nest_state (c : mlc) (d : N) : lstate := if d =? 0 then st0 else in_nest c d.

Definition nest_markers_ok (c : mlc) : Prop :=
  ml_start c <> [] /\ ml_end c <> [] /\ head_is (ml_start c) (hd 0 (ml_end c)) = false.

(* a line inside a nesting block comment: the depth moves by opens - closes *)
Theorem nested_inner_line : forall sy c d ts,
  nest_markers_ok c -> 1 <= d ->
  forallb (ntext_ok (ml_start c) (ml_end c)) ts = true ->
  quote_free (render_ntoks (ml_start c) (ml_end c) ts) = true ->
  is_directive sy (trim (render_ntoks (ml_start c) (ml_end c) ts)) = false ->
  closes ts <= d + opens ts ->
  classify_line sy (in_nest c d) (render_ntoks (ml_start c) (ml_end c) ts)
  = (Comment, nest_state c (d + opens ts - closes ts)).
Proof.
  intros sy c d ts (Hs & He & Hh) Hd Hok Hq Hdir Hle. unfold classify_line.
  rewrite (directive_none sy (in_nest c d) _ Hdir). cbn [in_nest ign_blk ign_rem ml N.ltb N.compare].
  unfold update_inside. rewrite (count_markers_ntoks _ _ ts Hs He Hh Hok Hq).
  rewrite iter_enter. rewrite N2Nat.id. rewrite iter_exit by lia. rewrite N2Nat.id.
  unfold nest_state.
  destruct (closes ts <? d + opens ts) eqn:E.
  - apply N.ltb_lt in E. assert (d + opens ts - closes ts =? 0 = false) as -> by (apply N.eqb_neq; lia).
    reflexivity.
  - apply N.ltb_ge in E. assert (d + opens ts - closes ts =? 0 = true) as -> by (apply N.eqb_eq; lia).
    reflexivity.
Qed.

(* the opener line of a nesting block comment: leading whitespace, the opener, then tokens *)
Theorem nested_open_line : forall sy st ws ts pre c post,
  wf_syntax sy = true -> idle st ->
  Forall (fun x => is_ws x = true) ws ->
  multi sy = pre ++ c :: post ->
  (forall c', In c' pre -> opener_at_c (render_ntoks (ml_start c) (ml_end c) (NOpen :: ts)) c' = false) ->
  ml_nest c = true -> ml_linestart c = false -> ml_kind c = Static -> nest_markers_ok c ->
  head_is (ml_end c) (hd 0 (ml_end c)) = true -> is_ws (hd 0 (ml_end c)) = false ->
  raw_head_here (has_rawstring sy) (render_ntoks (ml_start c) (ml_end c) (NOpen :: ts)) = false ->
  needle_is_multiquote (ml_start c) = false ->
  forallb (ntext_ok (ml_start c) (ml_end c)) ts = true ->
  quote_free (render_ntoks (ml_start c) (ml_end c) (NOpen :: ts)) = true ->
  is_directive sy (trim (ws ++ render_ntoks (ml_start c) (ml_end c) (NOpen :: ts))) = false ->
  closes ts <= 1 + opens ts ->
  classify_line sy st (ws ++ render_ntoks (ml_start c) (ml_end c) (NOpen :: ts))
  = (Comment, nest_state c (1 + opens ts - closes ts)).
Proof.
  intros sy st ws ts pre c post Hwf Hi Hws Hmul Hpre Hnest Hl Hk (Hs & He & Hh) Hhe Hnwe Hraw Hmq Hok Hq Hdir Hle.
  destruct Hi as (Hm & Hr & Hb).
  set (t := render_ntoks (ml_start c) (ml_end c) (NOpen :: ts)) in *.
  assert (Hwm : wf_multi c = true).
  { unfold wf_syntax in Hwf. apply andb_true_iff in Hwf as [_ H2]. rewrite forallb_forall in H2.
    apply H2. rewrite Hmul. apply in_or_app. right. now left. }
  assert (Hp : prefixb (ml_start c) t = true).
  { unfold t. cbn [render_ntoks flat_map render_ntok]. apply prefixb_self_app. }
  assert (Ht : trim_start t = t).
  { unfold t. cbn [render_ntoks flat_map render_ntok]. unfold wf_multi in Hwm.
    destruct (ml_start c) as [|x sm'] eqn:Es; [congruence|]. apply negb_true_iff in Hwm.
    cbn [app trim_start]. now rewrite Hwm. }
  pose proof (cand_static_at_head sy ws t c Hws Ht Hwm Hs (or_intror Hk) Hp Hraw Hmq) as Hc.
  pose proof (find_ml_start_at_head sy ws t pre c post (ml_end c) Hwf Hws Ht Hmul Hpre Hc) as Hf.
  unfold classify_line. rewrite (directive_none sy st _ Hdir). rewrite Hb, Hr, Hm. cbn [N.ltb N.compare].
  destruct (trim (ws ++ t)) eqn:Et.
  - exfalso. apply (trim_nonempty_of_head ws t Hws Ht); [|exact Et].
    intros E0. rewrite E0 in Hp. destruct (ml_start c); [congruence|discriminate].
  - rewrite Hf. unfold start_update. rewrite Hnest.
    (* the whole line is the token list  NText ws :: NOpen :: ts *)
    assert (Hline : ws ++ t = render_ntoks (ml_start c) (ml_end c) (NText ws :: NOpen :: ts)) by reflexivity.
    rewrite Hline.
    assert (Hwsok : ntext_ok (ml_start c) (ml_end c) (NText ws) = true).
    { cbn [ntext_ok]. rewrite forallb_forall. intros x Hx. rewrite Forall_forall in Hws. specialize (Hws x Hx).
      unfold wf_multi in Hwm. destruct (ml_start c) as [|a0 sm'] eqn:Es; [congruence|]. apply negb_true_iff in Hwm.
      destruct (ml_end c) as [|b0 em'] eqn:Ee; [congruence|]. cbn [hd] in Hnwe. cbn [head_is].
      destruct (N.eqb_spec a0 x) as [->|_]; [congruence|]. destruct (N.eqb_spec b0 x) as [->|_]; [congruence|]. reflexivity. }
    assert (Hqf : quote_free (render_ntoks (ml_start c) (ml_end c) (NText ws :: NOpen :: ts)) = true).
    { rewrite <- Hline. unfold quote_free. rewrite forallb_app. apply andb_true_iff. split; [|exact Hq].
      rewrite forallb_forall. intros x Hx. rewrite Forall_forall in Hws. specialize (Hws x Hx).
      destruct (ws_facts x Hws) as (H1 & H2 & _). unfold is_quote.
      apply N.eqb_neq in H1, H2. now rewrite H1, H2. }
    rewrite (count_markers_ntoks _ _ (NText ws :: NOpen :: ts) Hs He Hh).
    2:{ cbn [forallb]. rewrite Hwsok. exact Hok. }
    2:{ exact Hqf. }
    assert (Ho : opens (NText ws :: NOpen :: ts) = 1 + opens ts) by (unfold opens; cbn [filter length]; lia).
    assert (Hcl : closes (NText ws :: NOpen :: ts) = closes ts) by (unfold closes; cbn [filter length]; reflexivity).
    rewrite Ho, Hcl.
    rewrite iter_enter_notin by lia. rewrite N2Nat.id. rewrite iter_exit by lia. rewrite N2Nat.id.
    unfold nest_state.
    destruct (closes ts <? 1 + opens ts) eqn:E.
    + apply N.ltb_lt in E. assert (1 + opens ts - closes ts =? 0 = false) as -> by (apply N.eqb_neq; lia).
      reflexivity.
    + apply N.ltb_ge in E. assert (1 + opens ts - closes ts =? 0 = true) as -> by (apply N.eqb_eq; lia).
      rewrite <- Hm. destruct st; cbn in *; subst. reflexivity.
Qed.

(* the remaining lines of a nesting block: every line is a comment and the block ends exactly when
   the depth returns to zero *)
Fixpoint nested_ok (d : N) (lines : list (list ntok)) : Prop :=
  match lines with
  | [] => d = 0
  | ts :: rest =>
      closes ts <= d + opens ts /\
      match rest with [] => True | _ => 1 <= d + opens ts - closes ts end /\
      nested_ok (d + opens ts - closes ts) rest
  end.

Theorem nested_block_rest : forall sy c lines d,
  nest_markers_ok c -> (lines <> [] -> 1 <= d) -> nested_ok d lines ->
  Forall (fun ts => forallb (ntext_ok (ml_start c) (ml_end c)) ts = true /\
                    quote_free (render_ntoks (ml_start c) (ml_end c) ts) = true /\
                    is_directive sy (trim (render_ntoks (ml_start c) (ml_end c) ts)) = false) lines ->
  classes sy (map (render_ntoks (ml_start c) (ml_end c)) lines) (nest_state c d) = repeat Comment (length lines) /\
  state_after sy (map (render_ntoks (ml_start c) (ml_end c)) lines) (nest_state c d) = st0.
Proof.
  intros sy c lines; induction lines as [|ts rest IH]; intros d Hmk Hd Hok Hall.
  - cbn in Hok. subst d. cbn. split; reflexivity.
  - destruct Hok as (Hle & Hmid & Hrest). inversion Hall as [|? ? (H1 & H2 & H3) Hall']; subst.
    assert (Hd1 : 1 <= d) by (apply Hd; discriminate).
    assert (Hst : nest_state c d = in_nest c d).
    { unfold nest_state. assert (d =? 0 = false) as -> by (apply N.eqb_neq; lia). reflexivity. }
    cbn [map classes state_after length repeat]. rewrite Hst.
    rewrite (nested_inner_line sy c d ts Hmk Hd1 H1 H2 H3 Hle). cbn [snd].
    destruct (IH (d + opens ts - closes ts) Hmk) as [E1 E2]; [|exact Hrest|exact Hall'|].
    + intros Hne. destruct rest; [congruence|exact Hmid].
    + rewrite E1, E2. split; reflexivity.
Qed.
