(* Properties_C03.v -- C03: line accounting is total. Property theorems only; each is closed by
   [exact <lemma>] and followed by Print Assumptions. The model ([count], [count_reader],
   [lines_str], [lines_buf], [count_lines]) is Counter/Sloc.v, for an ARBITRARY [syntax] value
   (empty, overlapping or quote-like markers included). Termination of the model is by
   construction (structural recursion / fuel bounded by the input length). *)
From Coq Require Import NArith List.
From SG Require Import Counter.Lexer Counter.Sloc Counter.Proofs_C03 Counter.LexerIdx Counter.ProofsIdx Counter.SlocIdx Counter.ProofsIdx2.
Import ListNotations.
Open Scope N_scope.

(* total = code + comment + blank + ignored, for every syntax and every source *)
Theorem C03_partition : forall (sy : syntax) (src : str) (r : stats),
  count sy src = Some r -> total r = code r + comment r + blank r + ignored r.
Proof. exact count_partition. Qed.
Print Assumptions C03_partition.

(* the reported total is the number of physical lines *)
Theorem C03_total_is_line_count : forall (sy : syntax) (src : str) (r : stats),
  count sy src = Some r -> total r = N.of_nat (length (lines_str src)).
Proof. exact count_total_is_line_count. Qed.
Print Assumptions C03_total_is_line_count.

(* the two std line splitters (str::lines, BufRead::lines) agree on every input ... *)
Theorem C03_line_splitters_agree : forall s : str, lines_buf s = lines_str s.
Proof. exact lines_buf_eq_lines_str. Qed.
Print Assumptions C03_line_splitters_agree.

(* ... hence the streaming and the whole-string entry points agree *)
Theorem C03_entry_points_agree : forall (sy : syntax) (src : str), count_reader sy src = count sy src.
Proof. exact entry_points_agree. Qed.
Print Assumptions C03_entry_points_agree.

(* appending lines never decreases any counter *)
Theorem C03_append_monotone : forall (sy : syntax) (ls ls' : list str) (a b : stats),
  count_lines sy ls stats0 st0 = Some a ->
  count_lines sy (ls ++ ls') stats0 st0 = Some b ->
  total a <= total b /\ code a <= code b /\ comment a <= comment b /\
  blank a <= blank b /\ ignored a <= ignored b.
Proof. exact append_monotone. Qed.
Print Assumptions C03_append_monotone.

(* ... and it can only turn a counted file into an ignored one through an ignore-file
   directive among the appended lines, within the first ten physical lines *)
Theorem C03_append_ignored_only_by_directive : forall (sy : syntax) (ls ls' : list str) (a : stats),
  count_lines sy ls stats0 st0 = Some a ->
  count_lines sy (ls ++ ls') stats0 st0 = None ->
  exists k l, nth_error ls' k = Some l /\ has_ignore_file sy l = true /\
              N.of_nat (length ls) + N.of_nat k < 10.
Proof. exact append_ignored_only_by_directive. Qed.
Print Assumptions C03_append_ignored_only_by_directive.

(* termination and absence of out-of-range accesses of the index arithmetic: the index-level mirror of
   find_outside_string (Counter/LexerIdx.v: chars[i], chars[i + 1], chars[i + 2], chars[i..], chars[..i],
   i += consumed, raw-string skipping with its own index loops) returns Ok for EVERY char vector, needle
   and flag -- never Panic (an access Rust would bounds-check) and never OutOfFuel (a loop iteration that
   does not advance) -- and computes exactly the list-level model *)
Theorem C03_scanner_index_safe : forall (cs needle : str) (skip_raw : bool),
  find_outside_string_idx cs needle skip_raw = Ok (find_outside_string cs needle skip_raw).
Proof. exact find_outside_string_idx_ok. Qed.
Print Assumptions C03_scanner_index_safe.

Theorem C03_skipper_index_safe : forall (cs : str) (i : nat) (st : skst) (tr : bool) (c : char) (tl : str),
  skipn i cs = c :: tl ->
  process_impl_idx cs i st tr = Ok (process_impl st c tl tr) /\
  (1 <= snd (process_impl st c tl tr) <= 1 + length tl)%nat.
Proof.
  intros cs i st tr c tl H. split; [exact (process_impl_idx_ok cs i st tr c tl H)|].
  destruct (process_impl st c tl tr) as [st' k] eqn:E. exact (process_impl_consumed _ _ _ _ _ _ E).
Qed.
Print Assumptions C03_skipper_index_safe.

(* the same for the two remaining char-vector loops of the line classifier (Counter/SlocIdx.v):
   find_lua_long_bracket_outside_string with match_lua_long_bracket (chars[i], chars[i + 1], the run of
   equals signs, chars[..i]) and count_markers_outside_string (raw-string skipping, chars[i..] twice,
   i += marker length, i += consumed): Ok for every char vector and every pair of markers, equal to the
   list-level model. With C03_scanner_index_safe this covers every indexing site of src/counter/comment.rs *)
Theorem C03_lua_scanner_index_safe : forall cs : str, find_lua_idx cs = Ok (flua cs O None 0).
Proof. exact find_lua_idx_ok. Qed.
Print Assumptions C03_lua_scanner_index_safe.

Theorem C03_marker_counter_index_safe : forall cs sm em : str,
  count_markers_idx cs sm em = Ok (count_markers cs sm em).
Proof. exact count_markers_idx_ok. Qed.
Print Assumptions C03_marker_counter_index_safe.

(* non-vacuity: a concrete source with a comment, a blank and an ignored line *)
Example C03_nonvacuous :
  count {| single := [[47;47]]; multi := [] |}
        [120;10; 47;47;32;99;10; 10; 47;47;115;108;111;99;45;103;117;97;114;100;58;105;103;110;111;114;101;45;110;101;120;116;32;49;10; 121;10; 122]
  = Some {| total := 6; code := 2; comment := 2; blank := 1; ignored := 1 |}.
Proof. vm_compute. reflexivity. Qed.
Print Assumptions C03_nonvacuous.
