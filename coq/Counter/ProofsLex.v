(* Counter/ProofsLex.v: lemmas about the string-skipping scanners (shared by C02 and C04). *)
From Coq Require Import NArith List Bool Lia.
From SG Require Import Counter.Lexer Counter.Sloc Counter.Proofs_C03.
Import ListNotations.
Open Scope N_scope.

Lemma len_utf8_pos : forall c, 1 <= len_utf8 c.
Proof. intros c. unfold len_utf8. repeat (destruct (_ <? _)); lia. Qed.

Lemma prefixb_app : forall p a b, prefixb p a = true -> prefixb p (a ++ b) = true.
Proof.
  induction p as [|x p IH]; intros a b H; [reflexivity|].
  destruct a as [|y a]; [discriminate|]. cbn in *.
  apply andb_true_iff in H as [H1 H2]. rewrite H1. cbn. now apply IH.
Qed.

Lemma prefixb_head_neq : forall needle c tl,
  match needle with n0 :: _ => c <> n0 | [] => False end -> prefixb needle (c :: tl) = false.
Proof.
  intros [|n0 nt] c tl H; [contradiction|]. cbn.
  destruct (N.eqb_spec n0 c) as [E|E]; [subst; congruence|reflexivity].
Qed.

(* whitespace characters are inert for every scanner *)
Lemma is_ws_not : forall c k, is_ws k = false -> is_ws c = true -> c <> k.
Proof. intros c k Hk Hc ->. congruence. Qed.

Lemma ws_facts : forall c, is_ws c = true ->
  c <> c_dq /\ c <> c_sq /\ c <> c_bslash /\ c <> c_r /\ c <> c_dash.
Proof.
  intros c H. repeat split.
  - apply (is_ws_not c c_dq); [reflexivity|exact H].
  - apply (is_ws_not c c_sq); [reflexivity|exact H].
  - apply (is_ws_not c c_bslash); [reflexivity|exact H].
  - apply (is_ws_not c c_r); [reflexivity|exact H].
  - apply (is_ws_not c c_dash); [reflexivity|exact H].
Qed.

Lemma process_impl_inert : forall c tl tr, c <> c_dq -> c <> c_sq ->
  process_impl None c tl tr = (None, 1%nat).
Proof.
  intros c tl tr Hdq Hsq. unfold process_impl. cbn [andb].
  apply N.eqb_neq in Hdq, Hsq. rewrite Hdq, Hsq. cbn. unfold single_of. rewrite Hsq, Hdq.
  destruct tr; reflexivity.
Qed.

(* a scan over leading whitespace only advances the byte position *)
Lemma fos_ws_prefix : forall needle skip_raw nq ws rest bp,
  match needle with n0 :: _ => is_ws n0 = false | [] => False end ->
  Forall (fun c => is_ws c = true) ws ->
  fos needle skip_raw nq (ws ++ rest) O None bp =
  fos needle skip_raw nq rest O None (bp + utf8_len ws).
Proof.
  intros needle skip_raw nq ws; induction ws as [|c ws IH]; intros rest bp Hn Hw.
  - cbn. now rewrite N.add_0_r.
  - inversion Hw as [|? ? Hc Hw']; subst.
    destruct (ws_facts c Hc) as (Hdq & Hsq & _ & Hr & _).
    cbn [app fos].
    apply N.eqb_neq in Hr. rewrite Hr, andb_false_r.
    rewrite prefixb_head_neq.
    2:{ destruct needle as [|n0 nt]; [contradiction|]. intros ->. congruence. }
    cbn [andb]. rewrite process_impl_inert by assumption. cbn [pred].
    rewrite IH by assumption. cbn [utf8_len fold_right]. f_equal. unfold utf8_len. lia.
Qed.

(* a found position is at or after the start; equality means the needle sits right here *)
Lemma fos_ge : forall needle skip_raw nq s skip st bp q,
  fos needle skip_raw nq s skip st bp = Some q ->
  bp <= q /\ (q = bp -> skip = O /\ st = None /\ prefixb needle s = true).
Proof.
  intros needle skip_raw nq s; induction s as [|c tl IH]; intros skip st bp q H; cbn [fos] in H; [discriminate|].
  pose proof (len_utf8_pos c) as Hl.
  destruct skip as [|k].
  - destruct (if skip_raw && match st with None => true | Some _ => false end && N.eqb c c_r
              then try_skip_raw (c :: tl) else None) as [[|n]|] eqn:Er.
    + discriminate.
    + apply IH in H as [H1 _]. split; [lia|]. intros ->. lia.
    + destruct (match st with None => true | Some _ => false end && prefixb needle (c :: tl)) eqn:Ep.
      * inversion H; subst. split; [lia|]. intros _.
        apply andb_true_iff in Ep as [E1 E2]. destruct st; [discriminate|]. auto.
      * destruct (process_impl st c tl (negb nq)) as [st' consumed].
        apply IH in H as [H1 _]. split; [lia|]. intros ->. lia.
  - apply IH in H as [H1 _]. split; [lia|]. intros ->. lia.
Qed.

Lemma fos_here : forall needle skip_raw nq c tl bp,
  (skip_raw && N.eqb c c_r = false) -> prefixb needle (c :: tl) = true ->
  fos needle skip_raw nq (c :: tl) O None bp = Some bp.
Proof.
  intros needle skip_raw nq c tl bp Hr Hp. cbn [fos]. rewrite andb_true_r.
  rewrite Hr, Hp. reflexivity.
Qed.

(* Lua long-bracket scanner: same two facts *)
Lemma match_lua_ws : forall c tl, is_ws c = true -> match_lua (c :: tl) true = None.
Proof.
  intros c tl H. destruct (ws_facts c H) as (_ & _ & _ & _ & Hd).
  unfold match_lua. destruct tl as [|b tl']; [reflexivity|].
  apply N.eqb_neq in Hd. rewrite Hd. reflexivity.
Qed.

Lemma flua_ws_prefix : forall ws rest bp,
  Forall (fun c => is_ws c = true) ws ->
  flua (ws ++ rest) O None bp = flua rest O None (bp + utf8_len ws).
Proof.
  induction ws as [|c ws IH]; intros rest bp Hw.
  - cbn. now rewrite N.add_0_r.
  - inversion Hw as [|? ? Hc Hw']; subst.
    destruct (ws_facts c Hc) as (Hdq & Hsq & _ & _ & _).
    cbn [app flua]. rewrite match_lua_ws by assumption.
    rewrite process_impl_inert by assumption. cbn [pred].
    rewrite IH by assumption. f_equal. unfold utf8_len. cbn [fold_right]. lia.
Qed.

Lemma flua_ge : forall s skip st bp q lvl,
  flua s skip st bp = Some (q, lvl) ->
  bp <= q /\ (q = bp -> match_lua s true <> None).
Proof.
  induction s as [|c tl IH]; intros skip st bp q lvl H; cbn [flua] in H; [discriminate|].
  pose proof (len_utf8_pos c) as Hl.
  destruct skip as [|k].
  - destruct (if match st with None => true | Some _ => false end then match_lua (c :: tl) true else None) eqn:Em.
    + inversion H; subst. split; [lia|]. intros _. destruct st; [discriminate|]. congruence.
    + destruct (process_impl st c tl true) as [st' consumed].
      apply IH in H as [H1 _]. split; [lia|]. intros ->. lia.
  - apply IH in H as [H1 _]. split; [lia|]. intros ->. lia.
Qed.

(* trimming *)
Lemma trim_start_split : forall l, exists ws,
  l = ws ++ trim_start l /\ Forall (fun c => is_ws c = true) ws.
Proof.
  induction l as [|c tl IH].
  - exists []. split; [reflexivity|constructor].
  - cbn [trim_start]. destruct (is_ws c) eqn:E.
    + destruct IH as (ws & H1 & H2). exists (c :: ws). split; [cbn; now f_equal|now constructor].
    + exists []. split; [reflexivity|constructor].
Qed.

Lemma trim_end_prefix : forall x, exists w, x = trim_end x ++ w.
Proof.
  intros x. unfold trim_end. rewrite !revl_eq.
  destruct (trim_start_split (rev x)) as (ws & H1 & _).
  exists (rev ws). rewrite <- rev_app_distr, <- H1. now rewrite rev_involutive.
Qed.

Lemma prefixb_trim : forall p l, prefixb p (trim l) = true -> prefixb p (trim_start l) = true.
Proof.
  intros p l H. unfold trim in H. destruct (trim_end_prefix (trim_start l)) as (w & Hw).
  rewrite Hw. now apply prefixb_app.
Qed.

Lemma utf8_len_app : forall a b, utf8_len (a ++ b) = utf8_len a + utf8_len b.
Proof. induction a as [|c a IH]; intros b; cbn; [reflexivity|]. unfold utf8_len in *. cbn. rewrite IH. lia. Qed.
