(* Properties_C04.v -- C04: comments and blank lines never change the code count.
   Property theorems only. Vocabulary (Counter/Proofs_C04.v):
     idle st             = not inside a block comment, no pending ignore-next budget, not in an ignore block
     neutral sy l        = the line is whitespace only, or a pure single-line comment: its trimmed text starts
                           with a single-line prefix, it is not a sloc-guard directive (those change later
                           lines by design, C02), and it does not lexically START a block comment (Lua --[[ );
                           NOTHING is assumed about the text after the prefix (quotes, openers, anything)
     wf_syntax sy        = markers are non-empty and do not begin with whitespace (true of every built-in:
                           C04_builtins_wf, recomputed against the registry dumped from the crate on every run)
   Before fix d23d81a in /repo the second theorem was false (witness: // see src/*.rs); it is now proved in full. *)
From Coq Require Import NArith List Bool.
From SG Require Import Counter.Lexer Counter.Sloc Counter.Proofs_C04 Gen.Gen_Registry.
Import ListNotations.
Open Scope N_scope.

Theorem C04_blank_neutral : forall (sy : syntax) (st : lstate) (l : str),
  idle st -> trim l = [] -> classify_line sy st l = (Blank, st).
Proof. exact blank_neutral. Qed.
Print Assumptions C04_blank_neutral.

Theorem C04_line_comment_neutral : forall (sy : syntax) (st : lstate) (l : str),
  wf_syntax sy = true -> idle st -> pure_line_comment sy l ->
  classify_line sy st l = (Comment, st).
Proof. exact line_comment_neutral. Qed.
Print Assumptions C04_line_comment_neutral.

(* inserting / deleting a neutral line at an idle point: every other line keeps its class *)
Theorem C04_insert_delete : forall (sy : syntax) (ls1 : list str) (l : str) (ls2 : list str) (st : lstate),
  wf_syntax sy = true -> idle (state_after sy ls1 st) -> neutral sy l ->
  classes sy (ls1 ++ l :: ls2) st =
    classes sy ls1 st ++ neutral_class l :: classes sy ls2 (state_after sy ls1 st)
  /\ classes sy (ls1 ++ ls2) st =
    classes sy ls1 st ++ classes sy ls2 (state_after sy ls1 st).
Proof. exact insert_delete. Qed.
Print Assumptions C04_insert_delete.

(* ... and the code count of the file is unchanged (no line being an ignore-file directive) *)
Theorem C04_code_count_unchanged : forall (sy : syntax) (ls1 : list str) (l : str) (ls2 : list str) (r r' : stats),
  wf_syntax sy = true -> idle (state_after sy ls1 st0) -> neutral sy l ->
  Forall (fun x => has_ignore_file sy x = false) (ls1 ++ l :: ls2) ->
  count_lines sy (ls1 ++ l :: ls2) stats0 st0 = Some r ->
  count_lines sy (ls1 ++ ls2) stats0 st0 = Some r' ->
  code r = code r'.
Proof. exact code_count_unchanged. Qed.
Print Assumptions C04_code_count_unchanged.

(* every built-in syntax of the crate (table regenerated from /repo on every run) is well-formed *)
Theorem C04_builtins_wf : forallb wf_syntax all_builtin = true.
Proof. vm_compute. reflexivity. Qed.
Print Assumptions C04_builtins_wf.

(* non-vacuity, and the former D1 witness: for C, the line  // see src/*.rs  after  int a;  *)
Definition c_like : syntax := {| single := [[47;47]]; multi := [ {| ml_start := [47;42]; ml_end := [42;47]; ml_nest := false; ml_linestart := false; ml_kind := Static |} ] |}.
Definition see_glob : str := [47;47;32;115;101;101;32;115;114;99;47;42;46;114;115].
Example C04_nonvacuous :
  wf_syntax c_like = true /\ idle (state_after c_like [[105;110;116;32;97;59]] st0) /\
  is_single_line_comment c_like (trim see_glob) = true /\ is_directive c_like (trim see_glob) = false /\
  opener_at c_like (trim_start see_glob) = false /\
  classify_line c_like st0 see_glob = (Comment, st0).
Proof. vm_compute. repeat split; reflexivity. Qed.
Print Assumptions C04_nonvacuous.
