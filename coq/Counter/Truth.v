(* Counter/Truth.v: lexical ground-truth grammar for C02 (definitions only).
   A code line is a list of segments: plain top-level text and string literals whose bodies are arbitrary
   (escapes included). The well-formedness conditions say, per marker, that the marker does not OCCUR at a
   top-level position (string bodies are unconstrained): that is what lexically makes the line code. *)
From Coq Require Import NArith List Bool.
From SG Require Import Counter.Lexer Counter.Sloc.
Import ListNotations.
Open Scope N_scope.

Inductive sitem := Ch (c : char) | Esc (c : char).
Inductive quote := QS | QD.
Inductive seg := Plain (w : str) | Str (q : quote) (body : list sitem).

Definition qchar (q : quote) : char := match q with QS => c_sq | QD => c_dq end.
Definition qdelim (q : quote) : delim := match q with QS => DSingle | QD => DDouble end.
Definition render_item (i : sitem) : str := match i with Ch c => [c] | Esc c => [c_bslash; c] end.
Definition render_body (b : list sitem) : str := flat_map render_item b.
Definition render_seg (s : seg) : str :=
  match s with
  | Plain w => w
  | Str q b => qchar q :: render_body b ++ [qchar q]
  end.
Definition render_segs (ss : list seg) : str := flat_map render_seg ss.

Definition is_quote (c : char) : bool := N.eqb c c_dq || N.eqb c c_sq.

(* a string body: no unescaped closing quote, no bare backslash *)
Definition body_ok (q : quote) (b : list sitem) : bool :=
  forallb (fun i => match i with Ch c => negb (N.eqb c (qchar q)) && negb (N.eqb c c_bslash) | Esc _ => true end) b.

Definition raw_head_here (sr : bool) (s : str) : bool :=
  sr && match s with c :: _ => N.eqb c c_r && match match_rust_raw s with Some _ => true | None => false end | [] => false end.

(* plain text [w] followed by [rest]: no quote characters, the needle does not occur at any of its
   positions, no raw-string head starts in it *)
Fixpoint plain_ok (needle : str) (sr : bool) (w rest : str) : bool :=
  match w with
  | [] => true
  | c :: w' => negb (is_quote c) && negb (prefixb needle (w ++ rest)) && negb (raw_head_here sr (w ++ rest))
               && plain_ok needle sr w' rest
  end.

(* segments followed by [rest] *)
Fixpoint segs_ok (needle : str) (sr : bool) (ss : list seg) (rest : str) : bool :=
  match ss with
  | [] => true
  | Plain w :: tl => plain_ok needle sr w (render_segs tl ++ rest) && segs_ok needle sr tl rest
  | Str q b :: tl =>
      body_ok q b
      && negb (prefixb needle (render_seg (Str q b) ++ render_segs tl ++ rest))
      (* the opening quote is not the head of a triple quote *)
      && negb (match b with [] => match render_segs tl ++ rest with c :: _ => N.eqb c (qchar q) | [] => false end | _ => false end)
      && segs_ok needle sr tl rest
  end.

(* plain text in which no long-bracket opener starts *)
Fixpoint plain_ok_lua (w rest : str) : bool :=
  match w with
  | [] => true
  | c :: w' => negb (is_quote c) && negb (match match_lua (w ++ rest) true with Some _ => true | None => false end)
               && plain_ok_lua w' rest
  end.
Fixpoint segs_ok_lua (ss : list seg) (rest : str) : bool :=
  match ss with
  | [] => true
  | Plain w :: tl => plain_ok_lua w (render_segs tl ++ rest) && segs_ok_lua tl rest
  | Str q b :: tl =>
      body_ok q b
      && negb (match b with [] => match render_segs tl ++ rest with c :: _ => N.eqb c (qchar q) | [] => false end | _ => false end)
      && segs_ok_lua tl rest
  end.


Definition quote_free (s : str) : bool := forallb (fun c => negb (is_quote c)) s.

(* ---- programs: pieces whose class is known by construction ---- *)
Inductive simple :=
| PBlank (l : str)
| PLineComment (l : str)
| PCode (ind : str) (ss : list seg)
| PCodeComment (ind : str) (ss : list seg) (p text : str)
| PBlock1 (ws : str) (c : mlc) (text tail : str)
| PBlockN (ws : str) (c : mlc) (text0 : str) (mids : list str) (textN tail : str).

Definition render_simple (p : simple) : list str :=
  match p with
  | PBlank l => [l]
  | PLineComment l => [l]
  | PCode ind ss => [ind ++ render_segs ss]
  | PCodeComment ind ss p text => [ind ++ render_segs ss ++ p ++ text]
  | PBlock1 ws c text tail => [ws ++ ml_start c ++ text ++ ml_end c ++ tail]
  | PBlockN ws c text0 mids textN tail =>
      (ws ++ ml_start c ++ text0) :: mids ++ [textN ++ ml_end c ++ tail]
  end.

Definition truth_simple (p : simple) : list class :=
  match p with
  | PBlank _ => [Blank]
  | PLineComment _ => [Comment]
  | PCode _ _ => [Code]
  | PCodeComment _ _ _ _ => [Code]
  | PBlock1 _ _ _ _ => [Comment]
  | PBlockN _ _ _ mids _ _ => Comment :: repeat Comment (length mids) ++ [Comment]
  end.

Inductive item :=
| Simple (p : simple)
| IgnoreNext (dl : str) (body : list simple)
| IgnoreBlock (ds : str) (body : list simple) (de : str).

Definition render_simples (ps : list simple) : list str := flat_map render_simple ps.
Definition truth_simples (ps : list simple) : list class := flat_map truth_simple ps.

Definition render_pitem (i : item) : list str :=
  match i with
  | Simple p => render_simple p
  | IgnoreNext dl body => dl :: render_simples body
  | IgnoreBlock ds body de => ds :: render_simples body ++ [de]
  end.
Definition truth_pitem (i : item) : list class :=
  match i with
  | Simple p => truth_simple p
  | IgnoreNext _ body => Comment :: repeat Ignored (length (render_simples body))
  | IgnoreBlock _ body _ => Comment :: repeat Ignored (length (render_simples body)) ++ [Comment]
  end.
Definition render_program (is : list item) : list str := flat_map render_pitem is.
Definition truth_program (is : list item) : list class := flat_map truth_pitem is.
