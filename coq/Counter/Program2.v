(* Counter/Program2.v: the whole-program ground-truth theorem extended with nesting block comments,
   Lua long-bracket blocks and one-line self-closing (triple-quote) blocks as grammar constructors. *)
From Coq Require Import NArith List Bool Lia.
From SG Require Import Counter.Lexer Counter.Sloc Counter.Proofs_C03 Counter.ProofsLex Counter.Proofs_C04
  Counter.Truth Counter.ProofsScan Counter.Proofs_C02 Counter.ProofsNest.
Import ListNotations.
Open Scope N_scope.

Inductive piece :=
| Base (p : simple)
| PNested (ws : str) (c : mlc) (first : list ntok) (rest : list (list ntok))
| PLua (ws : str) (c : mlc) (lvl : nat) (t0 : str) (mids : list str) (textN tail : str)
| PSelf (ws : str) (c : mlc) (t : str).

Definition lua_em (c : mlc) (lvl : nat) : str := match lvl with O => ml_end c | _ => lua_end lvl end.
Definition rn (c : mlc) := render_ntoks (ml_start c) (ml_end c).

Definition render_piece (p : piece) : list str :=
  match p with
  | Base b => render_simple b
  | PNested ws c first rest => (ws ++ rn c (NOpen :: first)) :: map (rn c) rest
  | PLua ws c lvl t0 mids textN tail => (ws ++ t0) :: mids ++ [textN ++ lua_em c lvl ++ tail]
  | PSelf ws c t => [ws ++ t]
  end.

Definition truth_piece (p : piece) : list class :=
  match p with
  | Base b => truth_simple b
  | PNested _ _ _ rest => Comment :: repeat Comment (length rest)
  | PLua _ _ _ _ mids _ _ => Comment :: repeat Comment (length mids) ++ [Comment]
  | PSelf _ _ _ => [Comment]
  end.

Definition first_opener (sy : syntax) (c : mlc) (t : str) : Prop :=
  exists pre post, multi sy = pre ++ c :: post /\ forall c', In c' pre -> opener_at_c t c' = false.

Definition line_ok (sy : syntax) (c : mlc) (ts : list ntok) : Prop :=
  forallb (ntext_ok (ml_start c) (ml_end c)) ts = true /\
  quote_free (rn c ts) = true /\
  is_directive sy (trim (rn c ts)) = false.

Definition valid_piece (sy : syntax) (p : piece) : Prop :=
  match p with
  | Base b => valid_simple sy b
  | PNested ws c first rest =>
      Forall (fun x => is_ws x = true) ws /\ first_opener sy c (rn c (NOpen :: first)) /\
      ml_nest c = true /\ ml_linestart c = false /\ ml_kind c = Static /\ nest_markers_ok c /\
      head_is (ml_end c) (hd 0 (ml_end c)) = true /\ is_ws (hd 0 (ml_end c)) = false /\
      raw_head_here (has_rawstring sy) (rn c (NOpen :: first)) = false /\
      needle_is_multiquote (ml_start c) = false /\
      forallb (ntext_ok (ml_start c) (ml_end c)) first = true /\
      quote_free (rn c (NOpen :: first)) = true /\
      is_directive sy (trim (ws ++ rn c (NOpen :: first))) = false /\
      closes first <= 1 + opens first /\
      (* the block ends exactly where the depth returns to zero: on the last line *)
      (rest <> [] -> 1 <= 1 + opens first - closes first) /\
      nested_ok (1 + opens first - closes first) rest /\
      Forall (line_ok sy c) rest
  | PLua ws c lvl t0 mids textN tail =>
      Forall (fun x => is_ws x = true) ws /\ trim_start t0 = t0 /\ first_opener sy c t0 /\
      ml_nest c = false /\ ml_linestart c = false /\ ml_kind c = LuaLong /\
      match_lua t0 true = Some lvl /\
      is_directive sy (trim (ws ++ t0)) = false /\
      contains (lua_em c lvl) (ws ++ t0) = false /\
      Forall (fun l => is_directive sy (trim l) = false /\ contains (lua_em c lvl) l = false) mids /\
      lua_em c lvl <> [] /\ quote_free textN = true /\
      is_directive sy (trim (textN ++ lua_em c lvl ++ tail)) = false
  | PSelf ws c t =>
      Forall (fun x => is_ws x = true) ws /\ trim_start t = t /\ first_opener sy c t /\
      ml_nest c = false /\ ml_start c <> [] /\ ml_end c = ml_start c /\
      ml_linestart c = false /\ ml_kind c = Static /\
      prefixb (ml_start c) t = true /\
      raw_head_here (has_rawstring sy) t = false /\
      is_directive sy (trim (ws ++ t)) = false
  end.

Lemma nest_state_idle : forall c, idle (nest_state c 0).
Proof. intros c. unfold nest_state. cbn. repeat split. Qed.

Theorem piece_ok : forall sy st p, wf_syntax sy = true -> idle st -> valid_piece sy p ->
  classes sy (render_piece p) st = truth_piece p /\
  idle (state_after sy (render_piece p) st) /\
  plain_lines sy (render_piece p).
Proof.
  intros sy st p Hwf Hi Hv.
  destruct p as [b|ws c first rest|ws c lvl t0 mids textN tail|ws c t]; cbn [render_piece truth_piece valid_piece] in *.
  - now apply simple_ok.
  - destruct Hv as (Hws & (pre & post & Hm & Hpre) & Hn & Hl & Hk & Hmk & Hhe & Hnwe & Hraw & Hmq & Hok & Hq & Hd & Hle & Hge & Hnok & Hrest).
    cbn [classes state_after].
    pose proof (nested_open_line sy st ws first pre c post Hwf Hi Hws Hm Hpre Hn Hl Hk Hmk Hhe Hnwe Hraw Hmq Hok Hq Hd Hle) as Hopen.
    unfold rn in *. rewrite Hopen. cbn [snd].
    assert (Hall : Forall (fun ts => forallb (ntext_ok (ml_start c) (ml_end c)) ts = true /\
                    quote_free (render_ntoks (ml_start c) (ml_end c) ts) = true /\
                    is_directive sy (trim (render_ntoks (ml_start c) (ml_end c) ts)) = false) rest).
    { eapply Forall_impl; [|exact Hrest]. intros a Ha. exact Ha. }
    destruct (nested_block_rest sy c rest _ Hmk Hge Hnok Hall) as [E1 E2].
    rewrite E1, E2. split; [reflexivity|]. split; [repeat split|].
    constructor; [exact Hd|]. clear -Hrest.
    induction rest as [|ts rest IH]; [constructor|]. inversion Hrest as [|? ? (_ & _ & H3) Hr]; subst.
    constructor; [exact H3|now apply IH].
  - destruct Hv as (Hws & Ht & (pre & post & Hm & Hpre) & Hn & Hl & Hk & Hml & Hd & Hno & Hmids & Hne & Hq & HdN).
    cbn [classes state_after].
    pose proof (lua_block_open_line sy st ws t0 pre c post lvl Hwf Hi Hws Ht Hm Hpre Hn Hl Hk Hml Hd Hno) as Hopen.
    unfold lua_em in *. rewrite Hopen. cbn [snd]. rewrite classes_app, state_after_app_local.
    destruct (inner_lines sy c _ mids Hmids) as [E1 E2]. rewrite E1, E2.
    cbn [classes state_after]. rewrite (block_close_line sy c _ textN tail Hne Hq HdN). cbn [snd].
    repeat split; try reflexivity.
    constructor; [exact Hd|]. apply Forall_app. split.
    + eapply Forall_impl; [|exact Hmids]. intros a [Ha _]. exact Ha.
    + constructor; [exact HdN|constructor].
  - destruct Hv as (Hws & Ht & (pre & post & Hm & Hpre) & Hn & Hne & Heq & Hl & Hk & Hp & Hraw & Hd).
    cbn [classes state_after].
    rewrite (selfclosing_block_line sy st ws t pre c post Hwf Hi Hws Ht Hm Hpre Hn Hne Heq Hl Hk Hp Hraw Hd).
    cbn [snd]. repeat split; try apply Hi. constructor; [exact Hd|constructor].
Qed.

(* ---- programs over pieces, with ignore regions holding whole pieces ---- *)
Definition render_pieces (ps : list piece) : list str := flat_map render_piece ps.
Definition truth_pieces (ps : list piece) : list class := flat_map truth_piece ps.

Theorem pieces_ok : forall sy ps st, wf_syntax sy = true -> idle st -> Forall (valid_piece sy) ps ->
  classes sy (render_pieces ps) st = truth_pieces ps /\
  idle (state_after sy (render_pieces ps) st) /\
  plain_lines sy (render_pieces ps).
Proof.
  intros sy ps; induction ps as [|p ps IH]; intros st Hwf Hi Hv.
  - cbn. repeat split; try apply Hi. constructor.
  - inversion Hv as [|? ? Hp Hps]; subst.
    cbn [render_pieces truth_pieces flat_map]. fold (render_pieces ps). fold (truth_pieces ps).
    destruct (piece_ok sy st p Hwf Hi Hp) as (E1 & E2 & E3).
    destruct (IH _ Hwf E2 Hps) as (F1 & F2 & F3).
    rewrite classes_app, state_after_app_local, E1, F1. repeat split; try apply F2.
    apply Forall_app. split; assumption.
Qed.

Inductive item2 :=
| Piece (p : piece)
| IgnoreNext2 (dl : str) (body : list piece)
| IgnoreBlock2 (ds : str) (body : list piece) (de : str).

Definition render_item2 (i : item2) : list str :=
  match i with
  | Piece p => render_piece p
  | IgnoreNext2 dl body => dl :: render_pieces body
  | IgnoreBlock2 ds body de => ds :: render_pieces body ++ [de]
  end.
Definition truth_item2 (i : item2) : list class :=
  match i with
  | Piece p => truth_piece p
  | IgnoreNext2 _ body => Comment :: repeat Ignored (length (render_pieces body))
  | IgnoreBlock2 _ body _ => Comment :: repeat Ignored (length (render_pieces body)) ++ [Comment]
  end.
Definition valid_item2 (sy : syntax) (i : item2) : Prop :=
  match i with
  | Piece p => valid_piece sy p
  | IgnoreNext2 dl body => ign_next_line sy dl (N.of_nat (length (render_pieces body))) /\ Forall (valid_piece sy) body
  | IgnoreBlock2 ds body de => ign_start_line sy ds /\ Forall (valid_piece sy) body /\ ign_end_line sy de
  end.
Definition render_program2 (is : list item2) : list str := flat_map render_item2 is.
Definition truth_program2 (is : list item2) : list class := flat_map truth_item2 is.

Theorem item2_ok : forall sy st i, wf_syntax sy = true -> idle st -> valid_item2 sy i ->
  classes sy (render_item2 i) st = truth_item2 i /\ idle (state_after sy (render_item2 i) st).
Proof.
  intros sy st i Hwf Hi Hv. destruct i as [p|dl body|ds body de]; cbn [render_item2 truth_item2 valid_item2] in *.
  - destruct (piece_ok sy st p Hwf Hi Hv) as (E1 & E2 & _). split; assumption.
  - destruct Hv as [Hdl Hb]. destruct (pieces_ok sy body st Hwf Hi Hb) as (_ & F2 & F3).
    destruct (ignore_next_exact sy st dl (render_pieces body) [] Hwf Hi Hdl F3 F2) as [E1 E2].
    rewrite app_nil_r in E1. change (classes sy [] st0) with (@nil class) in E1. rewrite app_nil_r in E1.
    rewrite E1, E2. split; [reflexivity|]. repeat split.
  - destruct Hv as (Hds & Hb & Hde). destruct (pieces_ok sy body st Hwf Hi Hb) as (_ & F2 & F3).
    destruct (ignore_block_exact sy st ds (render_pieces body) de [] Hwf Hi Hds F3 Hde F2) as [E1 E2].
    change (classes sy [] st0) with (@nil class) in E1. rewrite E1, E2. split; [reflexivity|]. repeat split.
Qed.

Theorem program2_ok : forall sy is st, wf_syntax sy = true -> idle st -> Forall (valid_item2 sy) is ->
  classes sy (render_program2 is) st = truth_program2 is /\ idle (state_after sy (render_program2 is) st).
Proof.
  intros sy is; induction is as [|i is IH]; intros st Hwf Hi Hv.
  - cbn. split; [reflexivity|exact Hi].
  - inversion Hv as [|? ? Hp Hps]; subst.
    cbn [render_program2 truth_program2 flat_map]. fold (render_program2 is). fold (truth_program2 is).
    destruct (item2_ok sy st i Hwf Hi Hp) as (E1 & E2).
    destruct (IH _ Hwf E2 Hps) as (F1 & F2).
    rewrite classes_app, state_after_app_local, E1, F1. split; [reflexivity|exact F2].
Qed.

Theorem program2_counts : forall sy is, wf_syntax sy = true -> Forall (valid_item2 sy) is ->
  Forall (fun l => has_ignore_file sy l = false) (render_program2 is) ->
  count_lines sy (render_program2 is) stats0 st0 = Some (tally (truth_program2 is) stats0).
Proof.
  intros sy is Hwf Hv Hno. rewrite count_lines_tally by exact Hno.
  destruct (program2_ok sy is st0 Hwf (conj eq_refl (conj eq_refl eq_refl)) Hv) as [E _]. now rewrite E.
Qed.
