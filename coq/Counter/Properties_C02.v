(* Properties_C02.v -- C02: line classification agrees with the lexical ground truth.
   Property theorems only (proofs in Counter/Proofs_C02.v, ProofsScan.v, ProofsLex.v, Proofs_C04.v).

   Ground truth (Counter/Truth.v): a program is a list of pieces whose class is known by construction --
   blank lines, pure line comments (any text after the prefix), code lines made of plain top-level text and
   string literals with ARBITRARY bodies (escapes, markers, quotes of the other kind), code followed by a
   line comment (any text), block comments of a non-nesting static or line-start syntax over one or several
   lines (any text in the interior lines), ignore-next N / ignore-start..end regions holding whole pieces.
   [valid_item] spells out what lexically makes each piece what it is (e.g. no marker occurs at a top-level
   position of a code line; the closer occurs nowhere before the end of a block).

   Known defect classes of the unchanged tree (each with a refutation witness below; the full statement is
   proved for everything outside them):
     K02_quote_in_block          valid_simple requires the text before the closer to be quote-free      (D2)
     K02_closer_overlaps_opener  valid_simple requires the closer not to occur on the opener line       (D26)
     K02_py_multiline_docstring / K02_py_triple_in_string: triple-quote syntaxes (opener = closer made of
                                 quote characters) are outside block_head_ok (needle_is_multiquote = false) (D4, D27)
   Nesting block comments (Rust, Swift), Lua long brackets and one-line triple-quote blocks have their own
   line theorems below (C02_nested_*, C02_lua_block_open, C02_selfclosing_block_line) and are constructors of the
   extended program grammar of Counter/Program2.v (C02_ground_truth_ext, C02_counts_ext). *)
From Coq Require Import NArith List Bool.
From SG Require Import Counter.Lexer Counter.Sloc Counter.Proofs_C04 Counter.Truth Counter.Proofs_C02 Counter.ProofsNest Counter.Program2 Gen.Gen_Registry.
Import ListNotations.
Open Scope N_scope.

(* every line of a valid program gets the class it has by construction, and the scan ends idle *)
Theorem C02_ground_truth : forall (sy : syntax) (prog : list item) (st : lstate),
  wf_syntax sy = true -> idle st -> Forall (valid_item sy) prog ->
  classes sy (render_program prog) st = truth_program prog /\
  idle (state_after sy (render_program prog) st).
Proof. exact program_ok. Qed.
Print Assumptions C02_ground_truth.

(* hence the five counters are the tally of the truth *)
Theorem C02_counts : forall (sy : syntax) (prog : list item),
  wf_syntax sy = true -> Forall (valid_item sy) prog ->
  Forall (fun l => has_ignore_file sy l = false) (render_program prog) ->
  count_lines sy (render_program prog) stats0 st0 = Some (tally (truth_program prog) stats0).
Proof. exact program_counts. Qed.
Print Assumptions C02_counts.

(* named sub-statements *)

(* markers inside string literals are inert: a code line is code and leaves the state alone *)
Theorem C02_markers_in_strings_inert : forall (sy : syntax) (st : lstate) (ind : str) (ss : list seg),
  idle st ->
  forallb (no_opener_c sy ind ss []) (multi sy) = true ->
  is_single_line_comment sy (trim (ind ++ render_segs ss)) = false ->
  trim (ind ++ render_segs ss) <> [] ->
  classify_line sy st (ind ++ render_segs ss) = (Code, st).
Proof. exact code_line. Qed.
Print Assumptions C02_markers_in_strings_inert.

(* markers inside a trailing line comment are inert: code followed by a line comment is code *)
Theorem C02_markers_in_line_comment_inert : forall (sy : syntax) (st : lstate) (ind : str) (ss : list seg) (p text : str),
  idle st -> In p (single sy) ->
  forallb (no_opener_before_c sy ind ss (p ++ text)) (multi sy) = true ->
  needle_is_multiquote p = false -> p <> [] ->
  segs_ok p (has_rawstring sy) (Plain ind :: ss) (p ++ text) = true ->
  raw_head_here (has_rawstring sy) (p ++ text) = false ->
  is_single_line_comment sy (trim (ind ++ render_segs ss ++ p ++ text)) = false ->
  trim (ind ++ render_segs ss ++ p ++ text) <> [] ->
  classify_line sy st (ind ++ render_segs ss ++ p ++ text) = (Code, st).
Proof. exact code_then_comment_line. Qed.
Print Assumptions C02_markers_in_line_comment_inert.

(* a block comment ends exactly at its closer: interior lines that do not contain the closer keep the block open *)
Theorem C02_block_interior : forall (sy : syntax) (c : mlc) (em : str) (l : str),
  is_directive sy (trim l) = false -> contains em l = false ->
  classify_line sy (in_block c em) l = (Comment, in_block c em).
Proof. exact block_inner_line. Qed.
Print Assumptions C02_block_interior.

(* ... and the line holding the closer ends it (modulo K02_quote_in_block) *)
Theorem C02_block_close_modulo_known : forall (sy : syntax) (c : mlc) (em text tail : str),
  em <> [] -> quote_free text = true ->
  is_directive sy (trim (text ++ em ++ tail)) = false ->
  classify_line sy (in_block c em) (text ++ em ++ tail) = (Comment, st0).
Proof. exact block_close_line. Qed.
Print Assumptions C02_block_close_modulo_known.

(* ignore-next N removes exactly the next N lines *)
Theorem C02_ignore_next_exact : forall (sy : syntax) (st : lstate) (dl : str) (body rest : list str),
  wf_syntax sy = true -> idle st ->
  ign_next_line sy dl (N.of_nat (length body)) -> plain_lines sy body ->
  idle (state_after sy body st) ->
  classes sy (dl :: body ++ rest) st = Comment :: repeat Ignored (length body) ++ classes sy rest st0
  /\ state_after sy (dl :: body) st = st0.
Proof. exact ignore_next_exact. Qed.
Print Assumptions C02_ignore_next_exact.

(* ignore-start / ignore-end remove exactly the enclosed lines *)
Theorem C02_ignore_block_exact : forall (sy : syntax) (st : lstate) (ds : str) (body : list str) (de : str) (rest : list str),
  wf_syntax sy = true -> idle st ->
  ign_start_line sy ds -> plain_lines sy body -> ign_end_line sy de ->
  idle (state_after sy body st) ->
  classes sy (ds :: body ++ de :: rest) st =
    Comment :: repeat Ignored (length body) ++ Comment :: classes sy rest st0
  /\ state_after sy (ds :: body ++ [de]) st = st0.
Proof. exact ignore_block_exact. Qed.
Print Assumptions C02_ignore_block_exact.

(* ignore-file in a whole-line comment within the first ten lines ignores the whole file *)
Theorem C02_ignore_file_window : forall (sy : syntax) (ls1 : list str) (l : str) (ls2 : list str) (s : stats) (st : lstate),
  has_ignore_file sy l = true -> total s + N.of_nat (length ls1) < 10 ->
  count_lines sy (ls1 ++ l :: ls2) s st = None.
Proof. exact ignore_file_window. Qed.
Print Assumptions C02_ignore_file_window.

(* directive text on a line that is not a whole-line comment (code, string) has no effect *)
Theorem C02_directive_in_code_inert : forall (sy : syntax) (l : str),
  is_single_line_comment sy (trim l) = false ->
  has_ignore_file sy l = false /\ is_directive sy (trim l) = false.
Proof. intros sy l H. split; [exact (ignore_file_needs_comment sy l H)|exact (is_directive_not_comment sy (trim l) H)]. Qed.
Print Assumptions C02_directive_in_code_inert.

(* ---- nesting block comments (where the language nests) ---- *)
(* inside a nesting block the depth moves by (openers - closers) of the line; the line is a comment *)
Theorem C02_nested_inner_line : forall (sy : syntax) (c : mlc) (d : N) (ts : list ntok),
  nest_markers_ok c -> 1 <= d ->
  forallb (ntext_ok (ml_start c) (ml_end c)) ts = true ->
  quote_free (render_ntoks (ml_start c) (ml_end c) ts) = true ->
  is_directive sy (trim (render_ntoks (ml_start c) (ml_end c) ts)) = false ->
  closes ts <= d + opens ts ->
  classify_line sy (in_nest c d) (render_ntoks (ml_start c) (ml_end c) ts)
  = (Comment, nest_state c (d + opens ts - closes ts)).
Proof. exact nested_inner_line. Qed.
Print Assumptions C02_nested_inner_line.

(* a nesting block comment ends exactly when its depth returns to zero, whatever the nesting *)
Theorem C02_nested_block_ends_at_matching_closer : forall (sy : syntax) (c : mlc) (lines : list (list ntok)) (d : N),
  nest_markers_ok c -> (lines <> [] -> 1 <= d) -> nested_ok d lines ->
  Forall (fun ts => forallb (ntext_ok (ml_start c) (ml_end c)) ts = true /\
                    quote_free (render_ntoks (ml_start c) (ml_end c) ts) = true /\
                    is_directive sy (trim (render_ntoks (ml_start c) (ml_end c) ts)) = false) lines ->
  classes sy (map (render_ntoks (ml_start c) (ml_end c)) lines) (nest_state c d) = repeat Comment (length lines) /\
  state_after sy (map (render_ntoks (ml_start c) (ml_end c)) lines) (nest_state c d) = st0.
Proof. exact nested_block_rest. Qed.
Print Assumptions C02_nested_block_ends_at_matching_closer.

(* the opener line of a nesting block *)
Theorem C02_nested_open_line : forall (sy : syntax) (st : lstate) (ws : str) (ts : list ntok) (pre : list mlc) (c : mlc) (post : list mlc),
  wf_syntax sy = true -> idle st ->
  Forall (fun x => is_ws x = true) ws ->
  multi sy = pre ++ c :: post ->
  (forall c', In c' pre -> opener_at_c (render_ntoks (ml_start c) (ml_end c) (NOpen :: ts)) c' = false) ->
  ml_nest c = true -> ml_linestart c = false -> ml_kind c = Static -> nest_markers_ok c ->
  head_is (ml_end c) (hd 0 (ml_end c)) = true -> is_ws (hd 0 (ml_end c)) = false ->
  raw_head_here (has_rawstring sy) (render_ntoks (ml_start c) (ml_end c) (NOpen :: ts)) = false ->
  needle_is_multiquote (ml_start c) = false ->
  forallb (ntext_ok (ml_start c) (ml_end c)) ts = true ->
  quote_free (render_ntoks (ml_start c) (ml_end c) (NOpen :: ts)) = true ->
  is_directive sy (trim (ws ++ render_ntoks (ml_start c) (ml_end c) (NOpen :: ts))) = false ->
  closes ts <= 1 + opens ts ->
  classify_line sy st (ws ++ render_ntoks (ml_start c) (ml_end c) (NOpen :: ts))
  = (Comment, nest_state c (1 + opens ts - closes ts)).
Proof. exact nested_open_line. Qed.
Print Assumptions C02_nested_open_line.

(* ---- Lua long brackets: the opener of level n selects the closer of level n ---- *)
Theorem C02_lua_block_open : forall (sy : syntax) (st : lstate) (ws t : str) (pre : list mlc) (c : mlc) (post : list mlc) (lvl : nat),
  wf_syntax sy = true -> idle st ->
  Forall (fun x => is_ws x = true) ws -> trim_start t = t ->
  multi sy = pre ++ c :: post ->
  (forall c', In c' pre -> opener_at_c t c' = false) ->
  ml_nest c = false -> ml_linestart c = false -> ml_kind c = LuaLong ->
  match_lua t true = Some lvl ->
  is_directive sy (trim (ws ++ t)) = false ->
  let em := match lvl with O => ml_end c | _ => lua_end lvl end in
  contains em (ws ++ t) = false ->
  classify_line sy st (ws ++ t) = (Comment, in_block c em).
Proof. exact lua_block_open_line. Qed.
Print Assumptions C02_lua_block_open.

(* ---- triple-quote blocks (opener = closer): a one-line block is a comment and leaves the state alone ---- *)
Theorem C02_selfclosing_block_line : forall (sy : syntax) (st : lstate) (ws t : str) (pre : list mlc) (c : mlc) (post : list mlc),
  wf_syntax sy = true -> idle st ->
  Forall (fun x => is_ws x = true) ws -> trim_start t = t ->
  multi sy = pre ++ c :: post ->
  (forall c', In c' pre -> opener_at_c t c' = false) ->
  ml_nest c = false -> ml_start c <> [] -> ml_end c = ml_start c ->
  ml_linestart c = false -> ml_kind c = Static ->
  prefixb (ml_start c) t = true ->
  raw_head_here (has_rawstring sy) t = false ->
  is_directive sy (trim (ws ++ t)) = false ->
  classify_line sy st (ws ++ t) = (Comment, st).
Proof. exact selfclosing_block_line. Qed.
Print Assumptions C02_selfclosing_block_line.

(* every built-in syntax (table regenerated from the crate on every run) has well-formed markers *)
Theorem C02_builtins_wf : forallb wf_syntax all_builtin = true.
Proof. vm_compute. reflexivity. Qed.
Print Assumptions C02_builtins_wf.

(* ---- refutations: the faithful model violates the full statement on the known classes ---- *)
Definition lc (s : list N) : str := s.
Definition c_syntax : syntax := {| single := [[47;47]]; multi := [ {| ml_start := [47;42]; ml_end := [42;47]; ml_nest := false; ml_linestart := false; ml_kind := Static |} ] |}.
Definition py_syntax : syntax := {| single := [[35]]; multi := [
  {| ml_start := [39;39;39]; ml_end := [39;39;39]; ml_nest := false; ml_linestart := false; ml_kind := Static |};
  {| ml_start := [34;34;34]; ml_end := [34;34;34]; ml_nest := false; ml_linestart := false; ml_kind := Static |} ] |}.

(* D2: the four C lines  int a;  block-comment don-t  int b;  int c;   truth = Code Comment Code Code *)
Example C02_refuted_quote_in_block :
  classes c_syntax [[105;110;116;32;97;59]; [47;42;32;100;111;110;39;116;32;42;47]; [105;110;116;32;98;59]; [105;110;116;32;99;59]] st0
  = [Code; Comment; Comment; Comment].
Proof. vm_compute. reflexivity. Qed.
Print Assumptions C02_refuted_quote_in_block.

(* D26: opener immediately followed by a slash, closed on the next line;   truth = Code Comment Comment Code *)
Example C02_refuted_closer_overlaps_opener :
  classes c_syntax [[105;110;116;32;97;59]; [47;42;47;32;115;116;105;108;108]; [97;108;115;111;32;42;47]; [105;110;116;32;98;59]] st0
  = [Code; Comment; Code; Code].
Proof. vm_compute. reflexivity. Qed.
Print Assumptions C02_refuted_closer_overlaps_opener.

(* D4:  three double quotes / doc / three double quotes   truth = Comment Comment Comment *)
Example C02_refuted_py_multiline_docstring :
  classes py_syntax [[34;34;34]; [100;111;99]; [34;34;34]] st0 = [Comment; Code; Comment].
Proof. vm_compute. reflexivity. Qed.
Print Assumptions C02_refuted_py_multiline_docstring.

(* D27:  x = (double quote)(three single quotes)(double quote) / y = 1   truth = Code Code *)
Example C02_refuted_py_triple_in_string :
  classes py_syntax [[120;32;61;32;34;39;39;39;34]; [121;32;61;32;49]] st0 = [Comment; Code].
Proof. vm_compute. reflexivity. Qed.
Print Assumptions C02_refuted_py_triple_in_string.

(* D45: a nesting language (Rust: block comments nest): a block closed on a line whose trailing line comment
   mentions an opener -- the nesting counter also counts markers inside that line comment, so the depth stays 1
   and the code line after it is counted as comment.   truth = Comment Comment Code *)
Definition rs_tail_syntax : syntax := {| single := [[47;47]]; multi := [ {| ml_start := [47;42]; ml_end := [42;47]; ml_nest := true; ml_linestart := false; ml_kind := Static |} ] |}.
Example C02_refuted_nested_opener_in_tail_comment :
  classes rs_tail_syntax [[47;42;32;97]; [98;32;42;47;32;47;47;32;115;101;101;32;47;42;32;99]; [108;101;116;32;121;32;61;32;49;59]] st0 = [Comment; Comment; Comment].
Proof. vm_compute. reflexivity. Qed.
Print Assumptions C02_refuted_nested_opener_in_tail_comment.

(* D46: Ruby =begin / =end close only at the start of a line, but the closer is searched anywhere in the line:
   the word =end inside the block text ends it early.   truth = Comment Comment Comment Comment Code *)
Definition rb_pod_syntax : syntax := {| single := [[35]]; multi := [ {| ml_start := [61;98;101;103;105;110]; ml_end := [61;101;110;100]; ml_nest := false; ml_linestart := true; ml_kind := Static |} ] |}.
Example C02_refuted_linestart_closer_midline :
  classes rb_pod_syntax [[61;98;101;103;105;110]; [116;104;101;32;61;101;110;100;32;111;102]; [115;116;105;108;108;32;99;111;109;109;101;110;116]; [61;101;110;100]; [120;32;61;32;49]] st0 = [Comment; Comment; Code; Code; Code].
Proof. vm_compute. reflexivity. Qed.
Print Assumptions C02_refuted_linestart_closer_midline.

(* ---- non-vacuity: a concrete valid program exercising every piece kind ---- *)
Definition cblock : mlc := {| ml_start := [47;42]; ml_end := [42;47]; ml_nest := false; ml_linestart := false; ml_kind := Static |}.
Definition demo : list item :=
  [ Simple (PCode [32] [Plain [120;32;61;32]; Str QD [Ch 47; Ch 42; Esc 34; Ch 39]; Plain [59]]);   
    Simple (PLineComment [47;47;32;115;101;101;32;47;42;32;39]);                                  
    Simple (PBlockN [] cblock [32;97] [[105;116;39;115]; []] [98;32] []);                         
    IgnoreNext [47;47;32;115;108;111;99;45;103;117;97;114;100;58;105;103;110;111;114;101;45;110;101;120;116;32;50]
               [PCode [] [Plain [121]]; PBlank [32]];                                            
    Simple (PCodeComment [] [Plain [122;32]] [47;47] [32;47;42;32;120]);                         
    Simple (PBlock1 [9] cblock [32;99;32] []);                                                    
    Simple (PBlank []) ].

Example C02_nonvacuous :
  wf_syntax c_syntax = true /\ Forall (valid_item c_syntax) demo /\
  truth_program demo = [Code; Comment; Comment; Comment; Comment; Comment; Comment; Ignored; Ignored; Code; Comment; Blank] /\
  length (render_program demo) = 12%nat.
Proof.
  split; [reflexivity|]. split; [|split; reflexivity].
  unfold demo, valid_item, valid_simples, valid_simple, block_head_ok, pure_line_comment, ign_next_line.
  repeat (apply Forall_cons || apply Forall_nil || split);
    try (vm_compute; reflexivity); try (vm_compute; discriminate);
    try (right; reflexivity);
    try (exists [], []; split; [reflexivity|intros ? []]);
    try (repeat constructor; vm_compute; reflexivity).
Qed.
Print Assumptions C02_nonvacuous.

(* non-vacuity of the nesting theorems: Rust-like block with nested opener, three lines:
   open-open-text / text-close / close  *)
Definition rblock : mlc := {| ml_start := [47;42]; ml_end := [42;47]; ml_nest := true; ml_linestart := false; ml_kind := Static |}.
Example C02_nested_nonvacuous :
  nest_markers_ok rblock /\
  nested_ok 2 [[NText [97;32]; NClose]; [NClose]] /\
  classes {| single := [[47;47]]; multi := [rblock] |}
    [ [47;42;32;47;42;32;120]; [97;32;42;47]; [42;47]; [105;110;116] ] st0 = [Comment; Comment; Comment; Code].
Proof.
  split; [repeat split; discriminate|]. split; [|vm_compute; reflexivity].
  cbn. unfold opens, closes. cbn. repeat split; try reflexivity; discriminate.
Qed.
Print Assumptions C02_nested_nonvacuous.

(* ---- the extended grammar: pieces = the simple pieces + nesting blocks + Lua long-bracket blocks +
        one-line self-closing blocks; ignore regions hold whole pieces ---- *)
Theorem C02_ground_truth_ext : forall (sy : syntax) (prog : list item2) (st : lstate),
  wf_syntax sy = true -> idle st -> Forall (valid_item2 sy) prog ->
  classes sy (render_program2 prog) st = truth_program2 prog /\
  idle (state_after sy (render_program2 prog) st).
Proof. exact program2_ok. Qed.
Print Assumptions C02_ground_truth_ext.

Theorem C02_counts_ext : forall (sy : syntax) (prog : list item2),
  wf_syntax sy = true -> Forall (valid_item2 sy) prog ->
  Forall (fun l => has_ignore_file sy l = false) (render_program2 prog) ->
  count_lines sy (render_program2 prog) stats0 st0 = Some (tally (truth_program2 prog) stats0).
Proof. exact program2_counts. Qed.
Print Assumptions C02_counts_ext.

(* non-vacuity of the extended grammar: a Rust-like program with a nested block over three lines inside
   an ignore-start/end region followed by code, and a Lua program with a level-2 long bracket whose text
   holds a level-0 closer *)
Definition rs_syntax : syntax := {| single := [[47;47]]; multi := [rblock] |}.
Definition demo_rs : list item2 :=
  [ IgnoreBlock2 [47;47;32;115;108;111;99;45;103;117;97;114;100;58;105;103;110;111;114;101;45;115;116;97;114;116]
      [ PNested [32] rblock [NText [32]; NOpen; NText [32;120]] [[NText [97;32]; NClose]; [NClose]] ]
      [47;47;32;115;108;111;99;45;103;117;97;114;100;58;105;103;110;111;114;101;45;101;110;100];
    Piece (Base (PCode [] [Plain [105;110;116]])) ].
Definition luablock : mlc := {| ml_start := [45;45;91;91]; ml_end := [93;93]; ml_nest := false; ml_linestart := false; ml_kind := LuaLong |}.
Definition lua_syntax : syntax := {| single := [[45;45]]; multi := [luablock] |}.
Definition demo_lua : list item2 :=
  [ Piece (PLua [] luablock 2 [45;45;91;61;61;91;32;97] [[120;32;93;93;32;121]] [98;32] []);
    Piece (Base (PCode [] [Plain [120]])) ].
Example C02_ext_nonvacuous :
  Forall (valid_item2 rs_syntax) demo_rs /\
  truth_program2 demo_rs = [Comment; Ignored; Ignored; Ignored; Comment; Code] /\
  Forall (valid_item2 lua_syntax) demo_lua /\
  truth_program2 demo_lua = [Comment; Comment; Comment; Code].
Proof.
  split; [|split; [reflexivity|split; [|reflexivity]]].
  - unfold demo_rs, valid_item2, valid_piece, valid_simple, first_opener, line_ok, nest_markers_ok,
      ign_start_line, ign_end_line.
    repeat (apply Forall_cons || apply Forall_nil || split);
      try (vm_compute; reflexivity); try (vm_compute; discriminate);
      try (exists [], []; split; [reflexivity|intros ? []]);
      try (intros _; vm_compute; discriminate);
      try (repeat constructor; vm_compute; reflexivity).
  - unfold demo_lua, valid_item2, valid_piece, valid_simple, first_opener.
    repeat (apply Forall_cons || apply Forall_nil || split);
      try (vm_compute; reflexivity); try (vm_compute; discriminate);
      try (exists [], []; split; [reflexivity|intros ? []]);
      try (repeat constructor; vm_compute; reflexivity).
Qed.
Print Assumptions C02_ext_nonvacuous.
