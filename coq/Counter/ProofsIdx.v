(* Counter/ProofsIdx.v: the index-level scanners never go out of range, never stall, and compute
   exactly what the list-level model computes. *)
From Coq Require Import NArith List Bool Arith Lia.
From SG Require Import Counter.Lexer Counter.LexerIdx.
Import ListNotations.
Local Open Scope nat_scope.

Lemma skipn_cons_nth : forall (cs : str) i, i < length cs ->
  exists c tl, skipn i cs = c :: tl /\ nth_error cs i = Some c /\ skipn (S i) cs = tl.
Proof.
  induction cs as [|x cs IH]; intros i H; cbn in H; [lia|].
  destruct i as [|i].
  - exists x, cs. repeat split.
  - destruct (IH i) as (c & tl & H1 & H2 & H3); [lia|]. exists c, tl. cbn. auto.
Qed.

Lemma skipn_length_eq : forall (cs : str) i c tl, skipn i cs = c :: tl -> length cs = i + 1 + length tl.
Proof.
  intros cs i c tl H. pose proof (skipn_length i cs) as L. rewrite H in L. cbn in L.
  assert (i < length cs).
  { destruct (le_lt_dec (length cs) i) as [Hle|Hlt]; [|exact Hlt]. rewrite skipn_all2 in H by exact Hle. discriminate. }
  lia.
Qed.

Lemma get_ok : forall cs i c, nth_error cs i = Some c -> get cs i = Ok c.
Proof. intros cs i c H. unfold get. now rewrite H. Qed.

Lemma from_ok : forall cs i, i <= length cs -> from cs i = Ok (skipn i cs).
Proof. intros cs i H. unfold from. apply Nat.leb_le in H. now rewrite H. Qed.

Lemma upto_ok : forall cs i, i <= length cs -> upto cs i = Ok (firstn i cs).
Proof. intros cs i H. unfold upto. apply Nat.leb_le in H. now rewrite H. Qed.

Lemma skipn_skipn_S : forall (cs : str) i c tl, skipn i cs = c :: tl -> skipn (S i) cs = tl.
Proof.
  induction cs as [|x cs IH]; intros i c tl H.
  - destruct i; discriminate.
  - destruct i as [|i]; cbn in *; [now inversion H|]. destruct cs as [|y cs']; [destruct i; discriminate|].
    exact (IH i c tl H).
Qed.

(* ---- process_impl ---- *)
Lemma process_impl_idx_ok : forall cs i st tr c tl,
  skipn i cs = c :: tl ->
  process_impl_idx cs i st tr = Ok (process_impl st c tl tr).
Proof.
  intros cs i st tr c tl H.
  pose proof (skipn_length_eq cs i c tl H) as Hlen.
  assert (Hi : i < length cs) by lia.
  destruct (skipn_cons_nth cs i Hi) as (c' & tl' & H1 & H2 & _). rewrite H in H1. inversion H1; subst c' tl'.
  unfold process_impl_idx, process_impl. rewrite (get_ok _ _ _ H2). cbn [bind]. cbv zeta.
  (* i + 1 < len  <->  tl is not empty *)
  assert (E1 : (i + 1 <? length cs) = match tl with [] => false | _ => true end).
  { destruct tl; cbn [length] in Hlen; [apply Nat.ltb_ge|apply Nat.ltb_lt]; lia. }
  rewrite E1.
  destruct (match st with Some _ => true | None => false end && N.eqb c c_bslash &&
            match tl with [] => false | _ :: _ => true end); [reflexivity|].
  (* the triple-quote look-ahead *)
  assert (E2 : (if (N.eqb c c_dq || N.eqb c c_sq) && (i + 2 <? length cs)
                then bind (get cs (i + 1)) (fun c1 => if N.eqb c1 c then bind (get cs (i + 2)) (fun c2 => Ok (N.eqb c2 c)) else Ok false)
                else Ok false)
               = Ok ((N.eqb c c_dq || N.eqb c c_sq) &&
                     match tl with c1 :: c2 :: _ => N.eqb c1 c && N.eqb c2 c | _ => false end)).
  { destruct (N.eqb c c_dq || N.eqb c c_sq); cbn [andb]; [|reflexivity].
    destruct tl as [|c1 [|c2 r]]; cbn [length] in Hlen.
    - assert (i + 2 <? length cs = false) as -> by (apply Nat.ltb_ge; lia). reflexivity.
    - assert (i + 2 <? length cs = false) as -> by (apply Nat.ltb_ge; lia). reflexivity.
    - assert (i + 2 <? length cs = true) as -> by (apply Nat.ltb_lt; lia).
      assert (G1 : nth_error cs (i + 1) = Some c1).
      { replace (i + 1) with (S i) by lia. pose proof (skipn_skipn_S cs i c _ H) as Hs.
        assert (S i < length cs) by lia. destruct (skipn_cons_nth cs (S i) H0) as (a & b & A1 & A2 & _).
        rewrite Hs in A1. inversion A1; subst. exact A2. }
      assert (G2 : nth_error cs (i + 2) = Some c2).
      { replace (i + 2) with (S (S i)) by lia. pose proof (skipn_skipn_S cs i c _ H) as Hs.
        pose proof (skipn_skipn_S cs (S i) c1 _ Hs) as Hs2.
        assert (S (S i) < length cs) by lia. destruct (skipn_cons_nth cs (S (S i)) H0) as (a & b & A1 & A2 & _).
        rewrite Hs2 in A1. inversion A1; subst. exact A2. }
      rewrite (get_ok _ _ _ G1). cbn [bind]. destruct (N.eqb c1 c); cbn [andb]; [|reflexivity].
      rewrite (get_ok _ _ _ G2). reflexivity. }
  rewrite E2. cbn [bind].
  destruct ((N.eqb c c_dq || N.eqb c c_sq) && match tl with c1 :: c2 :: _ => N.eqb c1 c && N.eqb c2 c | _ => false end);
    destruct (triple_of c); destruct st; destruct tr; destruct (single_of c);
    repeat match goal with
           | |- context [if ?b then _ else _] => destruct b
           end; reflexivity.
Qed.

(* the number of characters consumed is at least one and never runs past the end *)
Lemma process_impl_consumed : forall st c tl tr st' k,
  process_impl st c tl tr = (st', k) -> 1 <= k <= 1 + length tl.
Proof.
  intros st c tl tr st' k H. unfold process_impl in H. cbv zeta in H.
  destruct (match st with Some _ => true | None => false end && N.eqb c c_bslash &&
            match tl with [] => false | _ :: _ => true end) eqn:E.
  - inversion H; subst. apply andb_true_iff in E as [_ E]. destruct tl; [discriminate|]. cbn. lia.
  - destruct ((N.eqb c c_dq || N.eqb c c_sq) && match tl with c1 :: c2 :: _ => N.eqb c1 c && N.eqb c2 c | _ => false end) eqn:E3.
    + assert (L : 2 <= length tl).
      { apply andb_true_iff in E3 as [_ E3]. destruct tl as [|c1 [|c2 r]]; try discriminate. cbn. lia. }
      destruct (triple_of c); destruct st; destruct tr; destruct (single_of c);
        repeat match goal with
               | H0 : context [if ?b then _ else _] |- _ => destruct b
               end; inversion H; subst; lia.
    + destruct (triple_of c); destruct st; destruct tr; destruct (single_of c);
        repeat match goal with
               | H0 : context [if ?b then _ else _] |- _ => destruct b
               end; inversion H; subst; lia.
Qed.

(* ---- raw strings ---- *)
Lemma count_hash_idx_ok : forall cs fuel i level n rest,
  i <= length cs -> length cs - i < fuel ->
  count_while c_hash (skipn i cs) = (n, rest) ->
  count_hash_idx fuel cs i level = Ok (i + n, level + n) /\ rest = skipn (i + n) cs /\ i + n <= length cs.
Proof.
  intros cs fuel; induction fuel as [|f IH]; intros i level n rest Hi Hf Hc; [lia|].
  cbn [count_hash_idx].
  destruct (i <? length cs) eqn:E.
  - apply Nat.ltb_lt in E. destruct (skipn_cons_nth cs i E) as (c & tl & H1 & H2 & H3).
    rewrite (get_ok _ _ _ H2). cbn [bind]. rewrite H1 in Hc. cbn [count_while] in Hc.
    destruct (N.eqb c c_hash).
    + destruct (count_while c_hash tl) as [n' r'] eqn:E2. inversion Hc; subst n rest.
      rewrite <- H3 in E2. destruct (IH (S i) (level + 1) n' r') as (A & B & C); [lia|lia|exact E2|].
      replace (i + 1) with (S i) by lia. rewrite A. repeat split; [f_equal; f_equal; lia| |lia].
      rewrite B. f_equal. lia.
    + inversion Hc; subst n rest. rewrite !Nat.add_0_r. repeat split; [exact (eq_sym H1)|lia].
  - apply Nat.ltb_ge in E. assert (i = length cs) by lia. subst i.
    rewrite skipn_all in Hc. cbn in Hc. inversion Hc; subst. rewrite !Nat.add_0_r.
    repeat split; [now rewrite skipn_all|lia].
Qed.

Lemma match_rust_raw_idx_ok : forall cs pos, pos < length cs ->
  match_rust_raw_idx cs pos = Ok (match_rust_raw (skipn pos cs)) /\
  (forall sl lvl, match_rust_raw (skipn pos cs) = Some (sl, lvl) -> 2 <= sl /\ pos + sl <= length cs).
Proof.
  intros cs pos Hp. destruct (skipn_cons_nth cs pos Hp) as (c & tl & H1 & H2 & H3).
  unfold match_rust_raw_idx, match_rust_raw. rewrite H1.
  assert (length cs <=? pos = false) as -> by (apply Nat.leb_gt; exact Hp).
  rewrite (get_ok _ _ _ H2). cbn [bind].
  destruct (N.eqb c c_r); cbn [negb]; [|split; [reflexivity|discriminate]].
  destruct (count_while c_hash tl) as [lvl rest] eqn:Ec. rewrite <- H3 in Ec.
  destruct (count_hash_idx_ok cs (S (length cs)) (S pos) 0 lvl rest) as (A & B & C); [lia|lia|exact Ec|].
  remember (S pos + lvl) as j eqn:Ej.
  replace (pos + 1) with (S pos) by lia. rewrite A. cbn [bind].
  destruct (length cs <=? j) eqn:E.
  - apply Nat.leb_le in E. assert (j = length cs) by lia.
    rewrite B, H, skipn_all. split; [reflexivity|discriminate].
  - apply Nat.leb_gt in E. destruct (skipn_cons_nth cs j E) as (q & r & G1 & G2 & _).
    rewrite (get_ok _ _ _ G2). cbn [bind]. rewrite B, G1.
    destruct (N.eqb q c_dq); cbn [negb]; [|split; [reflexivity|discriminate]].
    split.
    + f_equal. f_equal. f_equal. lia.
    + intros sl l Heq. inversion Heq; subst. lia.
Qed.

Lemma find_plain_bound : forall needle s k, find_plain needle s = Some k -> k + length needle <= length s.
Proof.
  intros needle s; induction s as [|c tl IH]; intros k H; cbn [find_plain] in H.
  - destruct (prefixb needle []) eqn:E; [|discriminate]. inversion H; subst.
    destruct needle; [cbn; lia|discriminate].
  - destruct (prefixb needle (c :: tl)) eqn:E.
    + inversion H; subst. clear -E. revert E. generalize (c :: tl) as s. induction needle as [|x n IHn]; intros s E; [cbn; lia|].
      destruct s as [|y s]; [discriminate|]. cbn in E. apply andb_true_iff in E as [_ E]. apply IHn in E. cbn. lia.
    + destruct (find_plain needle tl) as [k'|] eqn:E2; [|discriminate]. inversion H; subst. pose proof (IH k' eq_refl). cbn. lia.
Qed.

Lemma find_end_idx_ok : forall cs endm fuel i, endm <> [] ->
  i <= length cs -> length cs - i < fuel ->
  find_end_idx fuel cs endm i = Ok (option_map (fun k => i + k) (find_plain endm (skipn i cs))).
Proof.
  intros cs endm fuel; induction fuel as [|f IH]; intros i Hne Hi Hf; [lia|].
  cbn [find_end_idx]. destruct (i <? length cs) eqn:E.
  - apply Nat.ltb_lt in E. rewrite from_ok by lia. cbn [bind].
    destruct (skipn_cons_nth cs i E) as (c & tl & H1 & _ & H3). rewrite H1. cbn [find_plain].
    rewrite <- H1. destruct (prefixb endm (skipn i cs)); [cbn; f_equal; f_equal; lia|].
    replace (i + 1) with (S i) by lia. rewrite IH by (try assumption; lia). rewrite H3.
    destruct (find_plain endm tl); cbn; [f_equal; f_equal; lia|reflexivity].
  - apply Nat.ltb_ge in E. assert (i = length cs) by lia. subst i. rewrite skipn_all. cbn [find_plain].
    destruct endm; [congruence|]. reflexivity.
Qed.

Lemma try_skip_raw_idx_ok : forall cs pos, pos < length cs ->
  try_skip_raw_idx cs pos = Ok (try_skip_raw (skipn pos cs)) /\
  (forall k, try_skip_raw (skipn pos cs) = Some k -> 1 <= k /\ pos + k <= length cs).
Proof.
  intros cs pos Hp. destruct (match_rust_raw_idx_ok cs pos Hp) as [Hm Hb].
  unfold try_skip_raw_idx, try_skip_raw. rewrite Hm. cbn [bind].
  destruct (match_rust_raw (skipn pos cs)) as [[sl lvl]|] eqn:E; [|split; [reflexivity|discriminate]].
  destruct (Hb sl lvl eq_refl) as [H2 Hle].
  assert (Hsk : skipn sl (skipn pos cs) = skipn (pos + sl) cs).
  { clear. revert pos. induction cs as [|x cs IH]; intros pos; [now rewrite !skipn_nil|].
    destruct pos as [|pos]; [reflexivity|]. cbn. apply IH. }
  rewrite find_end_idx_ok by (try discriminate; lia). cbn [bind]. rewrite Hsk.
  assert (Hl : length (skipn pos cs) = length cs - pos) by apply skipn_length.
  destruct (find_plain (c_dq :: repeat c_hash lvl) (skipn (pos + sl) cs)) as [k|] eqn:Ef; cbn [option_map].
  - split; [f_equal; f_equal; lia|]. intros k0 Hk. inversion Hk; subst.
    apply find_plain_bound in Ef. rewrite skipn_length in Ef. cbn [length] in *. lia.
  - split; [now rewrite Hl|]. intros k0 Hk. inversion Hk; subst. lia.
Qed.

(* ---- list-level skip counter = index jump ---- *)
Lemma fos_skip : forall needle sr nq s k st bp, k <= length s ->
  fos needle sr nq s k st bp = fos needle sr nq (skipn k s) O st (N.add bp (utf8_sum (firstn k s))).
Proof.
  intros needle sr nq s; induction s as [|c tl IH]; intros k st bp Hk.
  - cbn in Hk. assert (k = 0) by lia. subst. reflexivity.
  - destruct k as [|k].
    + cbn [skipn firstn]. unfold utf8_sum. cbn [fold_right]. now rewrite N.add_0_r.
    + cbn [fos skipn firstn]. rewrite IH by (cbn in Hk; lia). f_equal.
      unfold utf8_sum. cbn [fold_right]. lia.
Qed.

Lemma firstn_S_sum : forall (cs : str) i c tl, skipn i cs = c :: tl ->
  forall k, k <= 1 + length tl ->
  utf8_sum (firstn (i + k) cs) = N.add (utf8_sum (firstn i cs)) (utf8_sum (firstn k (c :: tl))).
Proof.
  induction cs as [|x cs IH]; intros i c tl H k Hk.
  - destruct i; discriminate.
  - destruct i as [|i].
    + cbn in H. inversion H; subst. reflexivity.
    + cbn [skipn] in H. cbn [Nat.add firstn]. unfold utf8_sum in *. cbn [fold_right].
      rewrite (IH i c tl H k Hk). lia.
Qed.

(* ---- the main loop ---- *)
Theorem fos_idx_ok : forall cs needle sr nq fuel i st,
  i <= length cs -> length cs - i < fuel ->
  fos_idx fuel cs needle sr nq i st = Ok (fos needle sr nq (skipn i cs) O st (utf8_sum (firstn i cs))).
Proof.
  intros cs needle sr nq fuel; induction fuel as [|f IH]; intros i st Hi Hf; [lia|].
  cbn [fos_idx]. destruct (i <? length cs) eqn:E.
  - apply Nat.ltb_lt in E. destruct (skipn_cons_nth cs i E) as (c & tl & H1 & H2 & H3).
    pose proof (skipn_length_eq cs i c tl H1) as Hlen.
    rewrite (get_ok _ _ _ H2). cbn [bind]. rewrite H1. cbn [fos].
    destruct (try_skip_raw_idx_ok cs i E) as [Hr Hrb]. rewrite H1 in Hr, Hrb.
    assert (Hsk : (if sr && match st with None => true | Some _ => false end && N.eqb c c_r
                   then try_skip_raw_idx cs i else Ok None)
                  = Ok (if sr && match st with None => true | Some _ => false end && N.eqb c c_r
                        then try_skip_raw (c :: tl) else None)).
    { destruct (sr && match st with None => true | Some _ => false end && N.eqb c c_r); [exact Hr|reflexivity]. }
    rewrite Hsk. cbn [bind].
    destruct (if sr && match st with None => true | Some _ => false end && N.eqb c c_r
              then try_skip_raw (c :: tl) else None) as [k|] eqn:Ek.
    + assert (Hk : 1 <= k /\ i + k <= length cs).
      { destruct (sr && match st with None => true | Some _ => false end && N.eqb c c_r); [|discriminate]. now apply Hrb. }
      destruct k as [|n]; [lia|].
      rewrite IH by lia. f_equal.
      rewrite (fos_skip needle sr nq tl n st) by lia.
      assert (Hs1 : skipn (i + S n) cs = skipn n tl).
      { rewrite <- H3. clear. revert i. induction cs as [|x cs IHc]; intros i; [now rewrite !skipn_nil|].
        destruct i as [|i]; [cbn; reflexivity|]. cbn [Nat.add skipn]. apply IHc. }
      rewrite Hs1. f_equal.
      rewrite (firstn_S_sum cs i c tl H1 (S n)) by lia. cbn [firstn]. unfold utf8_sum. cbn [fold_right]. lia.
    + rewrite from_ok by lia. cbn [bind]. rewrite H1.
      destruct (match st with None => true | Some _ => false end && prefixb needle (c :: tl)).
      * rewrite upto_ok by lia. reflexivity.
      * rewrite (process_impl_idx_ok cs i st (negb nq) c tl H1). cbn [bind].
        destruct (process_impl st c tl (negb nq)) as [st' consumed] eqn:Ep.
        destruct (process_impl_consumed _ _ _ _ _ _ Ep) as [C1 C2].
        rewrite IH by lia. f_equal.
        destruct consumed as [|n]; [lia|]. cbn [pred].
        rewrite (fos_skip needle sr nq tl n st') by lia.
        assert (Hs1 : skipn (i + S n) cs = skipn n tl).
        { rewrite <- H3. clear. revert i. induction cs as [|x cs IHc]; intros i; [now rewrite !skipn_nil|].
          destruct i as [|i]; [cbn; reflexivity|]. cbn [Nat.add skipn]. apply IHc. }
        rewrite Hs1. f_equal.
        rewrite (firstn_S_sum cs i c tl H1 (S n)) by lia. cbn [firstn]. unfold utf8_sum. cbn [fold_right]. lia.
  - apply Nat.ltb_ge in E. assert (i = length cs) by lia. subst i. rewrite skipn_all. reflexivity.
Qed.

(* find_outside_string on chars never panics, never stalls, and equals the list-level model *)
Theorem find_outside_string_idx_ok : forall cs needle sr,
  find_outside_string_idx cs needle sr = Ok (find_outside_string cs needle sr).
Proof.
  intros cs needle sr. unfold find_outside_string_idx, find_outside_string.
  destruct needle as [|n0 nt]; [reflexivity|].
  rewrite fos_idx_ok by lia. reflexivity.
Qed.
