(* Properties_C08.v -- C08: verdicts do not depend on how paths are spelled. Property theorems only.
   Model: Paths/Model.v. [walked root below] is the path string a directory walker yields for the entry whose
   components below the scan root are [below], the root being passed through exactly as the user spelled it
   (Path::join adds no second separator). [spells_rel root rc] / [spells_abs cc root rc] say that the string
   [root] names the directory with project-relative components [rc]: ANY string whose components are rc, with
   whatever stray separators, backslashes and dot components it carries (src, src/, src//, ./src/., .\src,
   /w/p/src, /w/p//src/ ...). [norm cwd] is normalize_for_matching, [key] is path_key.
   The implementation side of the tie (tools/props/c08.py) shows that every pattern family and the baseline
   keys of the real tool are functions of the normalised path. *)
From Coq Require Import NArith List Bool.
From SG Require Import Paths.Model Paths.Proofs.
Import ListNotations.
Open Scope N_scope.

(* every relative spelling of a root normalises each entry below it to the project-relative path *)
Theorem C08_norm_collapses_relative : forall (cwd root : str) (rc below : list str),
  spells_rel root rc -> clean_list below = true ->
  norm cwd (walked root below) = join_slash (rc ++ below).
Proof. exact norm_walked_rel. Qed.
Print Assumptions C08_norm_collapses_relative.

(* ... and so does every absolute spelling of a root below the current directory *)
Theorem C08_norm_collapses_absolute : forall (cc : list str) (root : str) (rc below : list str),
  wf_cwd_comps cc = true -> spells_abs cc root rc -> clean_list rc = true -> clean_list below = true ->
  norm (cwd_of cc) (walked root below) = join_slash (rc ++ below).
Proof. exact norm_walked_abs. Qed.
Print Assumptions C08_norm_collapses_absolute.

(* hence any decision that reads the path only through the normaliser gives the same answer for the same
   entry under any two spellings of any two roots that contain it *)
Theorem C08_invariant_through_norm : forall (A : Type) (site : str -> A) (cc : list str)
    (r1 : str) (rc1 b1 : list str) (r2 : str) (rc2 b2 : list str),
  wf_cwd_comps cc = true ->
  (spells_rel r1 rc1 \/ (spells_abs cc r1 rc1 /\ clean_list rc1 = true)) ->
  (spells_rel r2 rc2 \/ (spells_abs cc r2 rc2 /\ clean_list rc2 = true)) ->
  clean_list b1 = true -> clean_list b2 = true ->
  rc1 ++ b1 = rc2 ++ b2 ->
  site (norm (cwd_of cc) (walked r1 b1)) = site (norm (cwd_of cc) (walked r2 b2)).
Proof. exact invariant_through_norm. Qed.
Print Assumptions C08_invariant_through_norm.

Theorem C08_baseline_key_invariant : forall (cc : list str) (r1 : str) (rc1 b1 : list str) (r2 : str) (rc2 b2 : list str),
  wf_cwd_comps cc = true ->
  (spells_rel r1 rc1 \/ (spells_abs cc r1 rc1 /\ clean_list rc1 = true)) ->
  (spells_rel r2 rc2 \/ (spells_abs cc r2 rc2 /\ clean_list rc2 = true)) ->
  clean_list b1 = true -> clean_list b2 = true ->
  rc1 ++ b1 = rc2 ++ b2 ->
  key (cwd_of cc) (walked r1 b1) = key (cwd_of cc) (walked r2 b2).
Proof. exact key_invariant. Qed.
Print Assumptions C08_baseline_key_invariant.

(* a key is a fixed point of the normaliser: looking it up again finds it *)
Theorem C08_key_fixed_point : forall (cwd : str) (cs : list str),
  clean_list cs = true -> norm cwd (join_slash cs) = join_slash cs.
Proof. exact norm_fixed_point. Qed.
Print Assumptions C08_key_fixed_point.

(* ... for EVERY string: normalising twice is normalising once, so a baseline key, however it was spelled
   when it was written (backslashes, an absolute path below the current directory, stray separators), is found
   again when it is looked up *)
Theorem C08_norm_idempotent : forall (cwd p : str), existsb (N.eqb c_bslash) cwd = false ->
  norm cwd (norm cwd p) = norm cwd p.
Proof. exact norm_idem. Qed.
Print Assumptions C08_norm_idempotent.

Theorem C08_root_is_empty_path : forall cc : list str, wf_cwd_comps cc = true ->
  norm (cwd_of cc) [c_dot] = [] /\ norm (cwd_of cc) [c_dot; c_slash] = [] /\
  norm (cwd_of cc) (cwd_of cc) = [] /\ norm (cwd_of cc) (cwd_of cc ++ [c_slash]) = [].
Proof. exact norm_root. Qed.
Print Assumptions C08_root_is_empty_path.

(* non-vacuity: cwd = /w/p ; the entry src/a.rs under eight spellings of the root src and five of the
   project root, every one of them meeting the hypotheses and normalising to src/a.rs *)
Example C08_nonvacuous :
  let w := [119] in let p := [112] in let src := [115;114;99] in let a := [97;46;114;115] in
  let cc := [w; p] in let cwd := cwd_of cc in let rel := join_slash [src; a] in
  let sl := c_slash in let dt := c_dot in
  let rel_roots := [src; src ++ [sl]; src ++ [sl; sl]; dt :: sl :: src; dt :: sl :: src ++ [sl; dt];
                    dt :: c_bslash :: src; dt :: sl :: sl :: src ++ [sl]] in
  let abs_roots := [cwd ++ sl :: src; cwd ++ sl :: sl :: src ++ [sl]] in
  let proj_rel := [[dt]; [dt; sl]; [dt; sl; sl]] in
  let proj_abs := [cwd; cwd ++ [sl]] in
  wf_cwd_comps cc = true /\ clean_list [src; a] = true /\
  forallb (fun r => negb (is_abs (unbackslash r)) && str_eqb (join_slash (comps (unbackslash r))) src &&
                    str_eqb (norm cwd (walked r [a])) rel) rel_roots = true /\
  forallb (fun r => is_abs r && str_eqb (join_slash (comps r)) (join_slash (cc ++ [src])) &&
                    str_eqb (norm cwd (walked r [a])) rel) abs_roots = true /\
  forallb (fun r => negb (is_abs (unbackslash r)) && str_eqb (join_slash (comps (unbackslash r))) [] &&
                    str_eqb (norm cwd (walked r [src; a])) rel) proj_rel = true /\
  forallb (fun r => is_abs r && str_eqb (norm cwd (walked r [src; a])) rel) proj_abs = true.
Proof. vm_compute. repeat split; reflexivity. Qed.
Print Assumptions C08_nonvacuous.
