(* Properties_C08.v -- C08: verdicts do not depend on how paths are spelled. Property theorems only.
   Model: Paths/Model.v. [walked cwd s rel] is the path string a directory walker yields for the entry with
   project-relative path [rel] when the scan root is spelled [s] (none, ., ./, a relative sub-directory,
   ./sub, the absolute directory, an absolute sub-directory); [norm cwd] is normalize_for_matching.
   The implementation side of the tie (tools/props/c08.py) shows that every pattern family and the baseline
   keys of the real tool are functions of the normalised path. *)
From Coq Require Import NArith List Bool.
From SG Require Import Paths.Model Paths.Proofs.
Import ListNotations.
Open Scope N_scope.

Theorem C08_norm_collapses : forall (cwd : str) (s : spelling) (rel : str),
  wf_cwd cwd = true -> wf_rel rel = true -> in_root s rel = true ->
  norm cwd (walked cwd s rel) = rel.
Proof. exact norm_collapses. Qed.
Print Assumptions C08_norm_collapses.

Theorem C08_invariant_through_norm : forall (A : Type) (site : str -> A) (cwd : str) (s1 s2 : spelling) (rel : str),
  wf_cwd cwd = true -> wf_rel rel = true -> in_root s1 rel = true -> in_root s2 rel = true ->
  site (norm cwd (walked cwd s1 rel)) = site (norm cwd (walked cwd s2 rel)).
Proof. exact invariant_through_norm. Qed.
Print Assumptions C08_invariant_through_norm.

Theorem C08_baseline_key_invariant : forall (cwd : str) (s1 s2 : spelling) (rel : str),
  wf_cwd cwd = true -> wf_rel rel = true -> in_root s1 rel = true -> in_root s2 rel = true ->
  key cwd (walked cwd s1 rel) = key cwd (walked cwd s2 rel).
Proof. exact key_invariant. Qed.
Print Assumptions C08_baseline_key_invariant.

Theorem C08_root_is_empty_path : forall cwd : str, wf_cwd cwd = true ->
  norm cwd [c_dot] = [] /\ norm cwd [c_dot; c_slash] = [] /\ norm cwd cwd = [].
Proof. exact norm_root. Qed.
Print Assumptions C08_root_is_empty_path.

(* non-vacuity: cwd = /w/p , rel = src/a.rs , all seven spellings *)
Example C08_nonvacuous :
  let cwd := [47;119;47;112] in let rel := [115;114;99;47;97;46;114;115] in let sub := [115;114;99] in
  wf_cwd cwd = true /\ wf_rel rel = true /\
  forallb (fun s => in_root s rel && str_eqb (norm cwd (walked cwd s rel)) rel)
          [NoArg; Dot; DotSlash; Abs; Rel sub; DotRel sub; AbsSub sub] = true.
Proof. vm_compute. repeat split; reflexivity. Qed.
Print Assumptions C08_nonvacuous.
