(* Paths/Proofs.v *)
From Coq Require Import NArith List Bool Lia.
From SG Require Import Paths.Model.
Import ListNotations.
Open Scope N_scope.
Local Arguments N.eqb : simpl never.

Lemma prefixb_refl_app : forall a b, prefixb a (a ++ b) = true.
Proof. induction a as [|x a IH]; intros b; cbn; [reflexivity|]. rewrite N.eqb_refl. cbn. apply IH. Qed.

Lemma skipn_app_len : forall (a b : str), skipn (length a) (a ++ b) = b.
Proof. induction a as [|x a IH]; intros b; cbn; [reflexivity|apply IH]. Qed.

Lemma unbackslash_id : forall p, existsb (N.eqb c_bslash) p = false -> unbackslash p = p.
Proof.
  induction p as [|c p IH]; intros H; [reflexivity|].
  cbn [existsb] in H. apply orb_false_iff in H as [H1 H2].
  unfold unbackslash. cbn [map]. fold (unbackslash p). rewrite N.eqb_sym in H1. rewrite H1. f_equal. now apply IH.
Qed.

(* a relative path does not start with the (absolute) current directory *)
Lemma rel_not_under_cwd : forall cwd rel, wf_cwd cwd = true -> wf_rel rel = true -> prefixb cwd rel = false.
Proof.
  intros cwd rel Hc Hr. destruct cwd as [|c [|d cw]]; try discriminate.
  destruct rel as [|r rest]; [discriminate|].
  cbn in Hc, Hr. apply andb_true_iff in Hc as [Hc _]. apply N.eqb_eq in Hc. subst c.
  apply andb_true_iff in Hr as [Hr _]. apply andb_true_iff in Hr as [Hr _]. apply negb_true_iff in Hr.
  cbn. rewrite N.eqb_sym, Hr. reflexivity.
Qed.

Lemma strip_dot_rel : forall rel, wf_rel rel = true -> strip_dot_prefix rel = rel.
Proof.
  intros rel H. destruct rel as [|a [|b rest]]; try reflexivity.
  cbn in H. apply andb_true_iff in H as [_ H]. apply negb_true_iff in H.
  cbn. now rewrite H.
Qed.

Lemma norm_rel : forall cwd rel, wf_cwd cwd = true -> wf_rel rel = true -> norm cwd rel = rel.
Proof.
  intros cwd rel Hc Hr. unfold norm, strip_cwd.
  rewrite (rel_not_under_cwd cwd rel Hc Hr).
  destruct cwd as [|c0 cw]; [discriminate|].
  rewrite (strip_dot_rel rel Hr).
  assert (Hb : existsb (N.eqb c_bslash) rel = false).
  { destruct rel as [|c rest]; [discriminate|]. cbn [wf_rel] in Hr.
    apply andb_true_iff in Hr as [Hr _]. apply andb_true_iff in Hr as [_ Hr]. now apply negb_true_iff in Hr. }
  destruct rel as [|d [|e rest]]; [discriminate| |now apply unbackslash_id].
  (* single character: it is not the dot *)
  cbn [wf_rel] in Hr. apply andb_true_iff in Hr as [_ Hr]. apply negb_true_iff in Hr. rewrite andb_true_r in Hr.
  rewrite Hr. now apply unbackslash_id.
Qed.

Lemma norm_dot_slash : forall cwd rel, wf_cwd cwd = true -> wf_rel rel = true ->
  norm cwd (c_dot :: c_slash :: rel) = rel.
Proof.
  intros cwd rel Hc Hr. unfold norm, strip_cwd.
  assert (Hp : prefixb cwd (c_dot :: c_slash :: rel) = false).
  { destruct cwd as [|c [|d cw]]; try discriminate. cbn in Hc. apply andb_true_iff in Hc as [Hc _].
    apply N.eqb_eq in Hc. subst c. reflexivity. }
  rewrite Hp. destruct cwd as [|c0 cw]; [discriminate|].
  cbn [strip_dot_prefix]. rewrite !N.eqb_refl. cbn [andb orb].
  pose proof (norm_rel (c0 :: cw) rel Hc Hr) as H. unfold norm, strip_cwd in H.
  rewrite (rel_not_under_cwd (c0 :: cw) rel Hc Hr) in H. rewrite (strip_dot_rel rel Hr) in H. exact H.
Qed.

Lemma norm_abs : forall cwd rel, wf_cwd cwd = true -> wf_rel rel = true ->
  norm cwd (join cwd rel) = rel.
Proof.
  intros cwd rel Hc Hr. unfold norm, strip_cwd, join.
  rewrite prefixb_refl_app, skipn_app_len. rewrite N.eqb_refl. cbn [orb].
  destruct cwd as [|c0 cw]; [discriminate|].
  destruct rel as [|r rest] eqn:Er; [discriminate|]. rewrite <- Er in *.
  pose proof (norm_rel (c0 :: cw) rel Hc Hr) as H. unfold norm, strip_cwd in H.
  rewrite (rel_not_under_cwd (c0 :: cw) rel Hc Hr) in H. exact H.
Qed.

(* every spelling of a root that contains the entry normalises to the project-relative path *)
Theorem norm_collapses : forall cwd s rel,
  wf_cwd cwd = true -> wf_rel rel = true -> in_root s rel = true ->
  norm cwd (walked cwd s rel) = rel.
Proof.
  intros cwd s rel Hc Hr _. destruct s; cbn [walked];
    first [apply norm_dot_slash | apply norm_abs | apply norm_rel]; assumption.
Qed.

(* any decision that reads the path only through the normaliser is spelling-invariant *)
Theorem invariant_through_norm : forall (A : Type) (site : str -> A) cwd s1 s2 rel,
  wf_cwd cwd = true -> wf_rel rel = true -> in_root s1 rel = true -> in_root s2 rel = true ->
  site (norm cwd (walked cwd s1 rel)) = site (norm cwd (walked cwd s2 rel)).
Proof. intros A site cwd s1 s2 rel Hc Hr H1 H2. now rewrite !norm_collapses. Qed.

Theorem key_invariant : forall cwd s1 s2 rel,
  wf_cwd cwd = true -> wf_rel rel = true -> in_root s1 rel = true -> in_root s2 rel = true ->
  key cwd (walked cwd s1 rel) = key cwd (walked cwd s2 rel).
Proof. intros. unfold key. now rewrite !norm_collapses. Qed.

(* the project root itself (walked as "." or "./" or the absolute directory) normalises to the empty path *)
Lemma norm_root : forall cwd, wf_cwd cwd = true ->
  norm cwd [c_dot] = [] /\ norm cwd [c_dot; c_slash] = [] /\ norm cwd cwd = [].
Proof.
  intros cwd Hc. unfold norm, strip_cwd.
  assert (H1 : prefixb cwd [c_dot] = false).
  { destruct cwd as [|c [|d cw]]; try discriminate. cbn in Hc. apply andb_true_iff in Hc as [Hc _]. apply N.eqb_eq in Hc. now subst. }
  assert (H2 : prefixb cwd [c_dot; c_slash] = false).
  { destruct cwd as [|c [|d cw]]; try discriminate. cbn in Hc. apply andb_true_iff in Hc as [Hc _]. apply N.eqb_eq in Hc. now subst. }
  rewrite H1, H2. destruct cwd as [|c0 cw] eqn:E; [discriminate|]. rewrite <- E.
  repeat split; try reflexivity.
  assert (P1 : prefixb cwd cwd = true) by (rewrite <- (app_nil_r cwd) at 2; apply prefixb_refl_app).
  assert (P2 : skipn (length cwd) cwd = []) by (rewrite <- (app_nil_r cwd) at 2; apply skipn_app_len).
  rewrite P1, P2. reflexivity.
Qed.
