(* Paths/Proofs.v *)
From Coq Require Import NArith List Bool Lia.
From SG Require Import Paths.Model.
Import ListNotations.
Open Scope N_scope.
Local Arguments N.eqb : simpl never.

(* ---- split / comps ---- *)
Lemma split_nonempty : forall p, split p <> [].
Proof.
  induction p as [|c p IH]; cbn [split]; [discriminate|].
  destruct (N.eqb c c_slash); [discriminate|]. destruct (split p); [congruence|discriminate].
Qed.

Lemma split_app_slash : forall a b, split (a ++ c_slash :: b) = split a ++ split b.
Proof.
  induction a as [|c a IH]; intros b.
  - cbn [app split]. rewrite N.eqb_refl. reflexivity.
  - cbn [app split]. destruct (N.eqb c c_slash); [now rewrite IH|].
    rewrite IH. destruct (split a) as [|h t] eqn:E; [exfalso; exact (split_nonempty a E)|]. reflexivity.
Qed.

Lemma comps_app_slash : forall a b, comps (a ++ c_slash :: b) = comps a ++ comps b.
Proof. intros a b. unfold comps. rewrite split_app_slash. apply filter_app. Qed.

Lemma split_noslash : forall c, existsb (N.eqb c_slash) c = false -> split c = [c].
Proof.
  induction c as [|x c IH]; intros H; [reflexivity|].
  cbn [existsb] in H. apply orb_false_iff in H as [H1 H2].
  cbn [split]. rewrite N.eqb_sym, H1. now rewrite (IH H2).
Qed.

Lemma clean_parts : forall c, clean c = true ->
  keep c = true /\ existsb (N.eqb c_slash) c = false /\ existsb (N.eqb c_bslash) c = false.
Proof.
  intros c H. unfold clean in H. apply andb_true_iff in H as [H H3]. apply andb_true_iff in H as [H1 H2].
  apply negb_true_iff in H2, H3. auto.
Qed.

Lemma comps_clean1 : forall c, clean c = true -> comps c = [c].
Proof.
  intros c H. destruct (clean_parts c H) as (K & S & _). unfold comps. rewrite (split_noslash c S).
  cbn [filter]. now rewrite K.
Qed.

Lemma comps_join_clean : forall cs, clean_list cs = true -> comps (join_slash cs) = cs.
Proof.
  induction cs as [|c t IH]; intros H; [reflexivity|].
  cbn [clean_list forallb] in H. apply andb_true_iff in H as [Hc Ht].
  destruct t as [|d t'].
  - cbn [join_slash]. now apply comps_clean1.
  - change (join_slash (c :: d :: t')) with (c ++ c_slash :: join_slash (d :: t')).
    rewrite comps_app_slash, (comps_clean1 c Hc), (IH Ht). reflexivity.
Qed.

(* ---- unbackslash ---- *)
Lemma unbackslash_app : forall a b, unbackslash (a ++ b) = unbackslash a ++ unbackslash b.
Proof. intros. unfold unbackslash. apply map_app. Qed.

Lemma unbackslash_id : forall p, existsb (N.eqb c_bslash) p = false -> unbackslash p = p.
Proof.
  induction p as [|c p IH]; intros H; [reflexivity|].
  cbn [existsb] in H. apply orb_false_iff in H as [H1 H2].
  unfold unbackslash. cbn [map]. fold (unbackslash p). rewrite N.eqb_sym in H1. rewrite H1. f_equal. now apply IH.
Qed.

Lemma no_bslash_join : forall cs, clean_list cs = true -> existsb (N.eqb c_bslash) (join_slash cs) = false.
Proof.
  induction cs as [|c t IH]; intros H; [reflexivity|].
  cbn [clean_list forallb] in H. apply andb_true_iff in H as [Hc Ht].
  destruct (clean_parts c Hc) as (_ & _ & B).
  destruct t as [|d t']; [exact B|].
  change (join_slash (c :: d :: t')) with (c ++ c_slash :: join_slash (d :: t')).
  rewrite existsb_app. apply orb_false_iff. split; [exact B|]. cbn [existsb]. apply orb_false_iff. split; [reflexivity|exact (IH Ht)].
Qed.

Lemma unbackslash_slash : unbackslash [c_slash] = [c_slash].
Proof. reflexivity. Qed.

(* ---- joining a root with what lies below it ---- *)
Lemma ends_slash_split : forall a, ends_slash a = true -> exists a', a = a' ++ [c_slash].
Proof.
  intros a H. unfold ends_slash in H. destruct (rev a) as [|c r] eqn:E; [discriminate|].
  apply N.eqb_eq in H. subst c. exists (rev r).
  rewrite <- (rev_involutive a), E. reflexivity.
Qed.

Lemma comps_pjoin : forall a b, comps (pjoin a b) = comps a ++ comps b.
Proof.
  intros a b. unfold pjoin. destruct (ends_slash a) eqn:E.
  - destruct (ends_slash_split a E) as [a' ->]. rewrite <- app_assoc. cbn [app].
    rewrite comps_app_slash.
    replace (a' ++ [c_slash]) with (a' ++ c_slash :: []) by reflexivity.
    rewrite comps_app_slash. cbn. now rewrite app_nil_r.
  - apply comps_app_slash.
Qed.

Lemma unbackslash_pjoin : forall a b, existsb (N.eqb c_bslash) b = false ->
  comps (unbackslash (pjoin a b)) = comps (unbackslash a) ++ comps b.
Proof.
  intros a b Hb. unfold pjoin. destruct (ends_slash a) eqn:E.
  - destruct (ends_slash_split a E) as [a' ->].
    rewrite !unbackslash_app, unbackslash_slash, (unbackslash_id b Hb).
    rewrite <- app_assoc. cbn [app]. rewrite comps_app_slash.
    replace (unbackslash a' ++ [c_slash]) with (unbackslash a' ++ c_slash :: []) by reflexivity.
    rewrite comps_app_slash. cbn. now rewrite app_nil_r.
  - rewrite unbackslash_app. change (unbackslash (c_slash :: b)) with (c_slash :: unbackslash b).
    rewrite (unbackslash_id b Hb). apply comps_app_slash.
Qed.

Lemma is_abs_app : forall a b, a <> [] -> is_abs (a ++ b) = is_abs a.
Proof. intros a b H. destruct a; [congruence|reflexivity]. Qed.

Lemma is_abs_pjoin : forall a b, a <> [] -> is_abs (pjoin a b) = is_abs a.
Proof. intros a b H. unfold pjoin. destruct (ends_slash a); now apply is_abs_app. Qed.

Lemma unbackslash_nonempty : forall a, a <> [] -> unbackslash a <> [].
Proof. intros a H. destruct a; [congruence|discriminate]. Qed.

Lemma is_abs_unbackslash_pjoin : forall a b, a <> [] ->
  is_abs (unbackslash (pjoin a b)) = is_abs (unbackslash a).
Proof.
  intros a b H. unfold pjoin. destruct (ends_slash a); rewrite unbackslash_app;
    apply is_abs_app; now apply unbackslash_nonempty.
Qed.

(* ---- strip_pref ---- *)
Lemma str_eqb_refl : forall a, str_eqb a a = true.
Proof. induction a as [|x a IH]; cbn; [reflexivity|]. now rewrite N.eqb_refl. Qed.

Lemma strip_pref_app : forall a b, strip_pref a (a ++ b) = Some b.
Proof. induction a as [|x a IH]; intros b; cbn; [reflexivity|]. now rewrite str_eqb_refl. Qed.

(* a joined list of clean components does not start with a separator of either kind *)
Lemma join_clean_not_abs : forall cs, clean_list cs = true -> is_abs (unbackslash (join_slash cs)) = false.
Proof.
  intros cs H. rewrite (unbackslash_id _ (no_bslash_join cs H)).
  destruct cs as [|c t]; [reflexivity|].
  cbn [clean_list forallb] in H. apply andb_true_iff in H as [Hc _].
  destruct (clean_parts c Hc) as (K & S & _).
  destruct c as [|x c']; [discriminate|].
  cbn [existsb] in S. apply orb_false_iff in S as [S _].
  destruct t; cbn [join_slash app is_abs]; now rewrite N.eqb_sym.
Qed.

(* ---- the normaliser on a relative path: its components, joined ---- *)
Lemma norm_relative : forall cwd p, is_abs (unbackslash p) = false ->
  norm cwd p = join_slash (comps (unbackslash p)).
Proof. intros cwd p H. unfold norm, strip_cwd. rewrite !H. reflexivity. Qed.

Lemma is_abs_unbackslash_false : forall p, is_abs (unbackslash p) = false -> is_abs p = false.
Proof.
  intros p H. destruct p as [|c p]; [reflexivity|]. cbn in *.
  destruct (N.eqb c c_bslash) eqn:E; [discriminate|exact H].
Qed.

(* every relative spelling of a root, whatever stray separators and dots it carries, normalises an entry
   below it to the project-relative path *)
Theorem norm_walked_rel : forall cwd root rc below,
  spells_rel root rc -> clean_list below = true ->
  norm cwd (walked root below) = join_slash (rc ++ below).
Proof.
  intros cwd root rc below (Ha & Hne & Hc) Hb. unfold walked.
  destruct below as [|b bs] eqn:Eb.
  - rewrite app_nil_r. rewrite norm_relative; [now rewrite Hc|exact Ha].
  - rewrite <- Eb in *. assert (Hbs : existsb (N.eqb c_bslash) (join_slash below) = false) by now apply no_bslash_join.
    rewrite norm_relative.
    + rewrite (unbackslash_pjoin root _ Hbs), Hc, (comps_join_clean below Hb). reflexivity.
    + now rewrite is_abs_unbackslash_pjoin.
Qed.

(* the same for every absolute spelling of a root below the current directory *)
Theorem norm_walked_abs : forall cc root rc below,
  wf_cwd_comps cc = true -> spells_abs cc root rc -> clean_list rc = true -> clean_list below = true ->
  norm (cwd_of cc) (walked root below) = join_slash (rc ++ below).
Proof.
  intros cc root rc below Hcc (Ha & Hnb & Hc) Hrc Hb.
  apply andb_true_iff in Hcc as [Hcc _].
  assert (Hroot : root <> []) by (destruct root; [discriminate|discriminate]).
  assert (Hcwd : comps (cwd_of cc) = cc).
  { unfold cwd_of. change (c_slash :: join_slash cc) with ([] ++ c_slash :: join_slash cc).
    rewrite comps_app_slash. cbn [comps split filter keep app]. now apply comps_join_clean. }
  assert (Hall : clean_list (rc ++ below) = true).
  { unfold clean_list in *. rewrite forallb_app. now rewrite Hrc, Hb. }
  assert (Hw : is_abs (walked root below) = true /\ comps (walked root below) = cc ++ rc ++ below).
  { unfold walked. destruct below as [|b bs] eqn:Eb.
    - rewrite app_nil_r. auto.
    - rewrite <- Eb in *. split; [now rewrite is_abs_pjoin|].
      rewrite comps_pjoin, Hc, (comps_join_clean below Hb). now rewrite app_assoc. }
  destruct Hw as [Hw1 Hw2].
  assert (Hnbw : existsb (N.eqb c_bslash) (walked root below) = false).
  { unfold walked. destruct below as [|b bs] eqn:Eb; [exact Hnb|]. rewrite <- Eb in *.
    unfold pjoin. destruct (ends_slash root); rewrite existsb_app; apply orb_false_iff; split; try exact Hnb.
    - now apply no_bslash_join.
    - cbn [existsb]. apply orb_false_iff. split; [reflexivity|now apply no_bslash_join]. }
  unfold norm, strip_cwd. rewrite (unbackslash_id _ Hnbw). rewrite Hw1, Hcwd, Hw2, strip_pref_app.
  pose proof (join_clean_not_abs _ Hall) as Hna. rewrite (unbackslash_id _ (no_bslash_join _ Hall)) in Hna.
  rewrite Hna. cbn [app]. now rewrite comps_join_clean.
Qed.

(* any decision that reads the path only through the normaliser is spelling-invariant *)
Theorem invariant_through_norm : forall (A : Type) (site : str -> A) cc r1 rc1 b1 r2 rc2 b2,
  wf_cwd_comps cc = true ->
  (spells_rel r1 rc1 \/ (spells_abs cc r1 rc1 /\ clean_list rc1 = true)) ->
  (spells_rel r2 rc2 \/ (spells_abs cc r2 rc2 /\ clean_list rc2 = true)) ->
  clean_list b1 = true -> clean_list b2 = true ->
  rc1 ++ b1 = rc2 ++ b2 ->
  site (norm (cwd_of cc) (walked r1 b1)) = site (norm (cwd_of cc) (walked r2 b2)).
Proof.
  intros A site cc r1 rc1 b1 r2 rc2 b2 Hcc H1 H2 Hb1 Hb2 E.
  assert (N1 : norm (cwd_of cc) (walked r1 b1) = join_slash (rc1 ++ b1)).
  { destruct H1 as [H1|[H1 C1]]; [now apply norm_walked_rel|now apply norm_walked_abs]. }
  assert (N2 : norm (cwd_of cc) (walked r2 b2) = join_slash (rc2 ++ b2)).
  { destruct H2 as [H2|[H2 C2]]; [now apply norm_walked_rel|now apply norm_walked_abs]. }
  now rewrite N1, N2, E.
Qed.

(* the normaliser is idempotent on what it produces for entries of the project *)
Lemma norm_fixed_point : forall cwd cs, clean_list cs = true -> norm cwd (join_slash cs) = join_slash cs.
Proof.
  intros cwd cs H. pose proof (join_clean_not_abs cs H) as Ha.
  rewrite norm_relative by exact Ha.
  rewrite (unbackslash_id _ (no_bslash_join cs H)). now rewrite comps_join_clean.
Qed.

(* ---- idempotence for EVERY string: what the normaliser returns is a fixed point ---- *)
Lemma unbackslash_no_bslash : forall p, existsb (N.eqb c_bslash) (unbackslash p) = false.
Proof.
  induction p as [|c p IH]; [reflexivity|]. unfold unbackslash. cbn [map existsb]. fold (unbackslash p).
  rewrite IH, orb_false_r. destruct (N.eqb c c_bslash) eqn:E; [reflexivity|]. now rewrite N.eqb_sym.
Qed.

Lemma split_pieces : forall p x, In x (split p) ->
  existsb (N.eqb c_slash) x = false /\ (existsb (N.eqb c_bslash) p = false -> existsb (N.eqb c_bslash) x = false).
Proof.
  induction p as [|c p IH]; intros x Hin.
  - cbn in Hin. destruct Hin as [<-|[]]. split; reflexivity.
  - cbn [split] in Hin. destruct (N.eqb c c_slash) eqn:E.
    + destruct Hin as [<-|Hin]; [split; reflexivity|].
      destruct (IH x Hin) as [A B]. split; [exact A|]. intros Hb. cbn [existsb] in Hb.
      apply orb_false_iff in Hb as [_ Hb]. now apply B.
    + destruct (split p) as [|h t] eqn:Es; [exfalso; exact (split_nonempty p Es)|].
      destruct Hin as [<-|Hin].
      * destruct (IH h (or_introl eq_refl)) as [A B]. split.
        -- cbn [existsb]. rewrite N.eqb_sym, E. exact A.
        -- intros Hb. cbn [existsb] in Hb. apply orb_false_iff in Hb as [Hb1 Hb2].
           cbn [existsb]. rewrite Hb1. now apply B.
      * destruct (IH x (or_intror Hin)) as [A B]. split; [exact A|]. intros Hb. cbn [existsb] in Hb.
        apply orb_false_iff in Hb as [_ Hb]. now apply B.
Qed.

Lemma comps_clean_list : forall p, existsb (N.eqb c_bslash) p = false -> clean_list (comps p) = true.
Proof.
  intros p Hb. unfold clean_list. apply forallb_forall. intros x Hin. unfold comps in Hin.
  apply filter_In in Hin as [Hin Hk]. destruct (split_pieces p x Hin) as [A B].
  unfold clean. rewrite Hk, A, (B Hb). reflexivity.
Qed.

Lemma join_no_bslash_from_comps : forall p, existsb (N.eqb c_bslash) p = false ->
  existsb (N.eqb c_bslash) (join_slash (comps p)) = false.
Proof. intros p H. apply no_bslash_join. now apply comps_clean_list. Qed.

Lemma strip_pref_sound : forall a b r, strip_pref a b = Some r -> b = a ++ r.
Proof.
  induction a as [|x a IH]; intros b r H; cbn in H; [now inversion H|].
  destruct b as [|y b]; [discriminate|]. destruct (str_eqb x y) eqn:E; [|discriminate].
  assert (x = y).
  { clear -E. revert y E. induction x as [|c x IHx]; intros [|d y] E; try discriminate; [reflexivity|].
    cbn in E. apply andb_true_iff in E as [E1 E2]. apply N.eqb_eq in E1. subst. f_equal. now apply IHx. }
  subst. cbn. f_equal. now apply IH.
Qed.

Lemma comps_slash_join : forall cs, clean_list cs = true -> comps (c_slash :: join_slash cs) = cs.
Proof.
  intros cs H. change (c_slash :: join_slash cs) with ([] ++ c_slash :: join_slash cs).
  rewrite comps_app_slash. cbn [comps split filter keep app]. now apply comps_join_clean.
Qed.

Theorem norm_idem : forall cwd p, existsb (N.eqb c_bslash) cwd = false ->
  norm cwd (norm cwd p) = norm cwd p.
Proof.
  intros cwd p Hcw.
  set (u := unbackslash p). assert (Hu : existsb (N.eqb c_bslash) u = false) by apply unbackslash_no_bslash.
  assert (Hn : norm cwd p = (if is_abs (strip_cwd cwd u) then [c_slash] else []) ++ join_slash (comps (strip_cwd cwd u)))
    by reflexivity.
  rewrite Hn. clear Hn.
  (* q = strip_cwd cwd u has no backslash either *)
  assert (Hq : existsb (N.eqb c_bslash) (strip_cwd cwd u) = false).
  { unfold strip_cwd. destruct (is_abs u); [|exact Hu].
    destruct (strip_pref (comps cwd) (comps u)) as [rest|] eqn:Es; [|exact Hu].
    apply no_bslash_join. apply strip_pref_sound in Es.
    pose proof (comps_clean_list u Hu) as Hc. rewrite Es in Hc. unfold clean_list in *.
    rewrite forallb_app in Hc. now apply andb_true_iff in Hc as [_ Hc]. }
  set (q := strip_cwd cwd u) in *.
  pose proof (comps_clean_list q Hq) as Hcs. set (cs := comps q) in *.
  destruct (is_abs q) eqn:Eq.
  - (* absolute and not below the current directory: stays as it is *)
    cbn [app]. unfold norm, strip_cwd.
    assert (Hr : existsb (N.eqb c_bslash) (c_slash :: join_slash cs) = false).
    { cbn [existsb]. apply orb_false_iff. split; [reflexivity|now apply no_bslash_join]. }
    rewrite (unbackslash_id _ Hr). cbn [is_abs]. rewrite N.eqb_refl.
    rewrite (comps_slash_join cs Hcs).
    (* q is absolute: it came from u unchanged, so the prefix test failed on cs *)
    assert (Hfail : strip_pref (comps cwd) cs = None).
    { subst q cs. unfold strip_cwd in *. destruct (is_abs u) eqn:Eu.
      - destruct (strip_pref (comps cwd) (comps u)) as [rest|] eqn:Es; [|exact Es].
        (* stripped: the result is a join of clean components, which is not absolute *)
        exfalso. apply strip_pref_sound in Es.
        pose proof (comps_clean_list u Hu) as Hc. rewrite Es in Hc. unfold clean_list in Hc.
        rewrite forallb_app in Hc. apply andb_true_iff in Hc as [_ Hc].
        pose proof (join_clean_not_abs rest Hc) as Hna.
        rewrite (unbackslash_id _ (no_bslash_join rest Hc)) in Hna. congruence.
      - congruence. }
    rewrite Hfail. cbn [is_abs]. rewrite N.eqb_refl. now rewrite (comps_slash_join cs Hcs).
  - cbn [app]. now apply norm_fixed_point.
Qed.

Lemma comps_cwd_of : forall cc, clean_list cc = true -> comps (cwd_of cc) = cc.
Proof.
  intros cc H. unfold cwd_of. change (c_slash :: join_slash cc) with ([] ++ c_slash :: join_slash cc).
  rewrite comps_app_slash. cbn [comps split filter keep app]. now apply comps_join_clean.
Qed.

Lemma key_invariant : forall cc r1 rc1 b1 r2 rc2 b2,
  wf_cwd_comps cc = true ->
  (spells_rel r1 rc1 \/ (spells_abs cc r1 rc1 /\ clean_list rc1 = true)) ->
  (spells_rel r2 rc2 \/ (spells_abs cc r2 rc2 /\ clean_list rc2 = true)) ->
  clean_list b1 = true -> clean_list b2 = true ->
  rc1 ++ b1 = rc2 ++ b2 ->
  key (cwd_of cc) (walked r1 b1) = key (cwd_of cc) (walked r2 b2).
Proof. intros. unfold key. now apply (invariant_through_norm str (fun x => x) cc r1 rc1 b1 r2 rc2 b2). Qed.

(* the project root itself, however spelled, normalises to the empty path *)
Lemma norm_root : forall cc, wf_cwd_comps cc = true ->
  norm (cwd_of cc) [c_dot] = [] /\ norm (cwd_of cc) [c_dot; c_slash] = [] /\
  norm (cwd_of cc) (cwd_of cc) = [] /\ norm (cwd_of cc) (cwd_of cc ++ [c_slash]) = [].
Proof.
  intros cc Hcc. pose proof Hcc as Hcc'. apply andb_true_iff in Hcc' as [Hcl Hne].
  assert (R1 : spells_rel [c_dot] []) by (repeat split; discriminate).
  assert (R2 : spells_rel [c_dot; c_slash] []) by (repeat split; discriminate).
  assert (NB : existsb (N.eqb c_bslash) (cwd_of cc) = false).
  { unfold cwd_of. cbn [existsb]. apply orb_false_iff. split; [reflexivity|now apply no_bslash_join]. }
  assert (A1 : spells_abs cc (cwd_of cc) []).
  { repeat split; [exact NB|]. rewrite app_nil_r. now apply comps_cwd_of. }
  assert (A2 : spells_abs cc (cwd_of cc ++ [c_slash]) []).
  { repeat split.
    - rewrite existsb_app. apply orb_false_iff. split; [exact NB|reflexivity].
    - replace (cwd_of cc ++ [c_slash]) with (cwd_of cc ++ c_slash :: []) by reflexivity.
      rewrite comps_app_slash, app_nil_r. cbn. rewrite app_nil_r. now apply comps_cwd_of. }
  split; [|split; [|split]].
  - exact (norm_walked_rel (cwd_of cc) [c_dot] [] [] R1 eq_refl).
  - exact (norm_walked_rel (cwd_of cc) [c_dot; c_slash] [] [] R2 eq_refl).
  - exact (norm_walked_abs cc (cwd_of cc) [] [] Hcc A1 eq_refl eq_refl).
  - exact (norm_walked_abs cc (cwd_of cc ++ [c_slash]) [] [] Hcc A2 eq_refl eq_refl).
Qed.
