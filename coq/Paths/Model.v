(* Paths/Model.v: path spellings and the normaliser used for glob matching (src/output/path.rs
   normalize_for_matching), as string functions. Definitions only. *)
From Coq Require Import NArith List Bool.
Import ListNotations.
Open Scope N_scope.

Definition char := N.
Definition str := list char.
Definition c_dot : char := 46.
Definition c_slash : char := 47.
Definition c_bslash : char := 92.

Fixpoint prefixb (p s : str) : bool :=
  match p, s with
  | [], _ => true
  | a :: p', b :: s' => N.eqb a b && prefixb p' s'
  | _ :: _, [] => false
  end.

Fixpoint str_eqb (a b : str) : bool :=
  match a, b with
  | [], [] => true
  | x :: a', y :: b' => N.eqb x y && str_eqb a' b'
  | _, _ => false
  end.

(* an absolute path below the current directory is matched by its relative form *)
Definition strip_cwd (cwd p : str) : str :=
  match cwd with
  | [] => p
  | _ =>
    if prefixb cwd p then
      match skipn (length cwd) p with
      | [] => [c_dot]
      | c :: rest => if N.eqb c c_slash || N.eqb c c_bslash then (match rest with [] => [c_dot] | _ => rest end) else p
      end
    else p
  end.

Definition strip_dot_prefix (p : str) : str :=
  match p with
  | a :: b :: rest => if N.eqb a c_dot && (N.eqb b c_slash || N.eqb b c_bslash) then rest else p
  | _ => p
  end.

Definition unbackslash (p : str) : str := map (fun c => if N.eqb c c_bslash then c_slash else c) p.

Definition norm (cwd p : str) : str :=
  let s := strip_dot_prefix (strip_cwd cwd p) in
  match s with
  | [] => []
  | [d] => if N.eqb d c_dot then [] else unbackslash s
  | _ => unbackslash s
  end.

(* ---- spellings of the scan root and the path a walker yields for a project-relative path ---- *)
Inductive spelling :=
| NoArg | Dot | DotSlash            (* the whole project: walker root "." or "./" *)
| Abs                               (* the absolute project directory *)
| Rel (sub : str) | DotRel (sub : str) | AbsSub (sub : str).   (* a sub-directory, three ways *)

Definition join (a b : str) : str := a ++ c_slash :: b.

(* [rel] is the project-relative path of an entry (components joined by /), never empty.
   Walkers join the root as given with the entry's path below it. *)
Definition walked (cwd : str) (s : spelling) (rel : str) : str :=
  match s with
  | NoArg | Dot | DotSlash => c_dot :: c_slash :: rel
  | Abs => join cwd rel
  | Rel _ => rel
  | DotRel _ => c_dot :: c_slash :: rel
  | AbsSub _ => join cwd rel
  end.

(* the entry lies below the root that the spelling names *)
Definition below (sub rel : str) : bool :=
  str_eqb sub rel || prefixb (sub ++ [c_slash]) rel.
Definition in_root (s : spelling) (rel : str) : bool :=
  match s with
  | NoArg | Dot | DotSlash | Abs => true
  | Rel sub | DotRel sub | AbsSub sub => below sub rel
  end.

(* well-formed project-relative path: non-empty, no backslash, does not start with / or with ./ ,
   is not the single dot *)
Definition wf_rel (rel : str) : bool :=
  match rel with
  | [] => false
  | c :: rest =>
      negb (N.eqb c c_slash) && negb (existsb (N.eqb c_bslash) rel) &&
      negb (N.eqb c c_dot && match rest with [] => true | d :: _ => N.eqb d c_slash || N.eqb d c_bslash end)
  end.
(* well-formed current directory: absolute, no trailing slash, not the root directory itself *)
Definition wf_cwd (cwd : str) : bool :=
  match cwd with
  | c :: _ :: _ => N.eqb c c_slash && negb (N.eqb (last cwd 0) c_slash)
  | _ => false
  end.

(* baseline / cache key of a result path *)
Definition key (cwd p : str) : str := norm cwd p.
