(* Paths/Model.v: path spellings and the normaliser used for glob matching and baseline keys
   (src/output/path.rs normalize_for_matching / strip_current_dir / path_key), as string functions.
   The normaliser rebuilds a path from its components: backslashes become separators, an absolute path below the current directory loses
   that prefix (Path::strip_prefix, component-wise), `.` components and
   repeated or trailing separators disappear (Path::components), the root directory marker of an absolute
   path is kept. Definitions only. *)
From Coq Require Import NArith List Bool.
Import ListNotations.
Open Scope N_scope.

Definition char := N.
Definition str := list char.
Definition c_dot : char := 46.
Definition c_slash : char := 47.
Definition c_bslash : char := 92.

Fixpoint prefixb (p s : str) : bool :=
  match p, s with
  | [], _ => true
  | a :: p', b :: s' => N.eqb a b && prefixb p' s'
  | _ :: _, [] => false
  end.

Fixpoint str_eqb (a b : str) : bool :=
  match a, b with
  | [], [] => true
  | x :: a', y :: b' => N.eqb x y && str_eqb a' b'
  | _, _ => false
  end.

(* pieces between slashes, empty pieces kept: split "a//b" = ["a"; ""; "b"], split "" = [""] *)
Fixpoint split (p : str) : list str :=
  match p with
  | [] => [[]]
  | c :: rest =>
      if N.eqb c c_slash then [] :: split rest
      else match split rest with h :: t => (c :: h) :: t | [] => [[c]] end
  end.

(* Path::components keeps every piece except the empty ones and `.` *)
Definition keep (c : str) : bool :=
  match c with [] => false | [d] => negb (N.eqb d c_dot) | _ => true end.
Definition comps (p : str) : list str := filter keep (split p).

Fixpoint join_slash (cs : list str) : str :=
  match cs with
  | [] => []
  | [c] => c
  | c :: t => c ++ c_slash :: join_slash t
  end.

Definition is_abs (p : str) : bool := match p with c :: _ => N.eqb c c_slash | [] => false end.

Fixpoint strip_pref (a b : list str) : option (list str) :=
  match a, b with
  | [], _ => Some b
  | x :: a', y :: b' => if str_eqb x y then strip_pref a' b' else None
  | _ :: _, [] => None
  end.

Definition unbackslash (p : str) : str := map (fun c => if N.eqb c c_bslash then c_slash else c) p.

(* strip_current_dir: Some relative form for an absolute path below the current directory *)
Definition strip_cwd (cwd p : str) : str :=
  if is_abs p then
    match strip_pref (comps cwd) (comps p) with Some rest => join_slash rest | None => p end
  else p.

(* backslashes are unified first, so a key is a fixed point whatever separators it was spelled with *)
Definition norm (cwd p : str) : str :=
  let q := strip_cwd cwd (unbackslash p) in
  (if is_abs q then [c_slash] else []) ++ join_slash (comps q).

(* baseline / cache key of a result path *)
Definition key (cwd p : str) : str := norm cwd p.

(* ---- what a walker yields ---- *)
(* Path::join: no second separator after a root that already ends in one *)
Definition ends_slash (a : str) : bool := match rev a with c :: _ => N.eqb c c_slash | [] => false end.
Definition pjoin (a b : str) : str := if ends_slash a then a ++ b else a ++ c_slash :: b.

(* [root] is the scan root as the user spelled it; [below] are the components of an entry below it
   ([] for the root entry itself): the walker yields the root as given, joined with the entry's path *)
Definition walked (root : str) (below : list str) : str :=
  match below with [] => root | _ => pjoin root (join_slash below) end.

(* a clean component: non-empty, not `.`, no separator of either kind *)
Definition clean (c : str) : bool :=
  keep c && negb (existsb (N.eqb c_slash) c) && negb (existsb (N.eqb c_bslash) c).
Definition clean_list (cs : list str) : bool := forallb clean cs.

(* the current directory: absolute, made of clean components, not the file-system root *)
Definition cwd_of (cc : list str) : str := c_slash :: join_slash cc.
Definition wf_cwd_comps (cc : list str) : bool := clean_list cc && negb (match cc with [] => true | _ => false end).

(* [root] spells the directory with project-relative components [rc]:
   relatively -- it does not start with a separator and its components (backslashes read as separators)
   are rc; or absolutely -- no backslash, and its components are those of the current directory then rc *)
Definition spells_rel (root : str) (rc : list str) : Prop :=
  is_abs (unbackslash root) = false /\ root <> [] /\ comps (unbackslash root) = rc.
Definition spells_abs (cc : list str) (root : str) (rc : list str) : Prop :=
  is_abs root = true /\ existsb (N.eqb c_bslash) root = false /\ comps root = cc ++ rc.
