(* Git/BeforeFixes.v -- the --staged path of git/diff.rs and check_git_diff.rs as it was BEFORE the
   repairs fixes/D21, D22, D34 (definitions only).  Kept so that the refutations of C19_staged_exact on
   the unrepaired code stay machine-checked next to the theorem that holds for the repaired code.
   Nothing else depends on this file; the current code is modelled in Git/TreeDiff.v. *)
From Coq Require Import NArith List Bool.
From SG Require Import Git.TreeDiff.
Import ListNotations.
Open Scope N_scope.

(* *head_oid != entry.id for a HEAD entry that is a blob (a symbolic link is stored as a blob) *)
Definition ioid_differs (head_content : str) (e : ientry) : bool :=
  match e with
  | IBlob _ c => negb (str_eqb head_content c)
  | ILink t => negb (str_eqb head_content t)
  | ICommit _ => true
  | IIntent => true
  end.

(* every index entry was looked up in the HEAD map, which holds regular files only;
   paths of HEAD missing from the index were never considered *)
Definition get_staged_files_v0 (head : option (list (name * gentry))) (idx : index) : list path :=
  let hm := build_head_path_map head in
  filter_map (fun pe =>
      match assoc_path (fst pe) hm with
      | Some hf => if ioid_differs (snd hf) (snd pe) then Some (fst pe) else None
      | None => Some (fst pe)
      end) idx.

(* every member of the set that resolved was kept under its resolved name *)
Definition filter_by_set_v0 (canon : path -> option path) (files set : list path) : list path :=
  filter (resolves_into canon (filter_map canon set)) files.

Definition staged_files_v0 canon (head : option (list (name * gentry))) (idx : index)
           (files : list path) : list path :=
  filter_by_set_v0 canon files (get_staged_files_v0 head idx).

(* check_scan.rs before fix D105: with --files L the changed / staged set was not consulted at all *)
Definition listed_run_v0 (R : Type) (eval : path -> option R) (canon : path -> option path)
           (set : option (list path)) (listed : list path) : list (path * R) * unit :=
  run_on R unit (list path) eval (fun _ => tt) listed listed.

(* check_git_diff.rs after D34 and before fix D190: the set side was guarded against symbolic links,
   the file side was not *)
Definition filter_by_set_v1 (canon : path -> option path) (files set : list path) : list path :=
  filter (resolves_into canon (filter_map (self_canonical canon) set)) files.
