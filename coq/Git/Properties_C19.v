(* Properties_C19.v -- C19: diff and staged modes check exactly what git says changed.
   Property theorems only; each is closed by [exact <lemma>] and followed by Print Assumptions.
   The model is Git/TreeDiff.v (git/diff.rs, commands/check/check_git_diff.rs, check_scan.rs) AFTER
   the repairs fixes/D21, D22, D32, D33, D34, D70, D71, D105, D190; the lemmas are in Git/Proofs_C19.v.

   Reading guide.  A commit tree is a [gentry]; [blob_at t p] is the regular file at path p as git
   records it: (executable bit, content); None for directories, symbolic links, submodules, nothing.
   A chmod alone therefore makes two files differ, as it does for git diff --name-only (fix D70).  [wf] = no tree lists a name
   twice (git's own invariant).  Object ids are compared structurally (collision-free hashing, see
   the header of TreeDiff.v).  [canon] is the file-system oracle (std::fs::canonicalize, work-tree
   relative).  All statements are for arbitrary trees, indexes and file lists: no size bounds. *)
From Coq Require Import NArith List Bool.
From SG Require Import Git.TreeDiff Git.Proofs_C19 Git.BeforeFixes.
Import ListNotations.
Open Scope N_scope.

(* The recursive comparison with its id short-circuit and entry-kind cases computes exactly:
   changed = regular files of B whose (mode, content) is not what A has at that path,
   deleted candidates = regular files of A with no regular file at that path in B.
   No stability hypothesis on symlinks / submodules is needed after fix D32. *)
Theorem C19_tree_diff_exact : forall bes tes, wf (Tree bes) -> wf (Tree tes) ->
  (forall p, In (Chg, p) (compare_trees_recursive bes tes) <->
             exists c, blob_at (Tree tes) p = Some c /\ blob_at (Tree bes) p <> Some c) /\
  (forall p, In (Del, p) (compare_trees_recursive bes tes) <->
             blob_at (Tree bes) p <> None /\ blob_at (Tree tes) p = None).
Proof. exact tree_diff_exact. Qed.
Print Assumptions C19_tree_diff_exact.

(* get_changed_files_range: the changed paths plus the deleted candidates that still exist *)
Theorem C19_changed_set_exact : forall canon bes tes, wf (Tree bes) -> wf (Tree tes) ->
  forall p, In p (get_changed_files_range canon bes tes) <->
    (exists c, blob_at (Tree tes) p = Some c /\ blob_at (Tree bes) p <> Some c) \/
    ((blob_at (Tree bes) p <> None /\ blob_at (Tree tes) p = None) /\ canon p <> None).
Proof. exact changed_set_exact. Qed.
Print Assumptions C19_changed_set_exact.

(* Equal tree ids: the same regular files with the same contents, and the recursion the
   short-circuit skips would have reported nothing. *)
Theorem C19_equal_oid_equal_flatten : forall bes tes, oid_eqb (Tree bes) (Tree tes) = true ->
  blobs (Tree bes) = blobs (Tree tes) /\
  (wf (Tree bes) -> wf (Tree tes) -> compare_trees_recursive bes tes = []).
Proof. exact equal_oid_equal_flatten. Qed.
Print Assumptions C19_equal_oid_equal_flatten.

(* Added, replaced and type-changed directories contribute every regular file below them:
   a directory at n in B where A has no directory at n (nothing, a file, a link, a submodule)
   puts all its files in the changed set; dually for a directory of A that B lacks. *)
Theorem C19_subtree_cases : forall bes tes n, wf (Tree bes) -> wf (Tree tes) ->
  (forall ts q c, assoc n tes = Some (Tree ts) -> (forall bs, assoc n bes <> Some (Tree bs)) ->
                  blob_at (Tree ts) q = Some c -> In (Chg, n :: q) (compare_trees_recursive bes tes)) /\
  (forall bs q, assoc n bes = Some (Tree bs) -> (forall ts, assoc n tes <> Some (Tree ts)) ->
                blob_at (Tree bs) q <> None -> In (Del, n :: q) (compare_trees_recursive bes tes)).
Proof. exact subtree_cases. Qed.
Print Assumptions C19_subtree_cases.

(* parse_diff_range: empty -> error; no two adjacent dots -> (s, HEAD); otherwise split at the
   FIRST occurrence of two dots: empty base -> error, empty target -> HEAD.  (A three-dot range
   A...B therefore parses as base A, target .B, which is not a ref name: --diff rejects it.) *)
Theorem C19_range_parse :
  parse_diff_range [] = RangeErr /\
  (forall s, s <> [] -> has_dotdot s = false -> parse_diff_range s = RangeOk s HEAD) /\
  (forall a b, has_dotdot (a ++ [dot]) = false ->
     parse_diff_range (a ++ dot :: dot :: b) =
     match a with
     | [] => RangeErr
     | _ :: _ => RangeOk a (match b with [] => HEAD | _ :: _ => b end)
     end) /\
  (forall s, has_dotdot s = true ->
     exists a b, s = a ++ dot :: dot :: b /\ has_dotdot (a ++ [dot]) = false).
Proof. exact range_parse. Qed.
Print Assumptions C19_range_parse.

(* check --diff: when the scanned files are canonical paths (the walker never follows links),
   the files evaluated are exactly the scanned files whose committed content differs. *)
Theorem C19_diff_files_exact : forall canon bes tes files,
  wf (Tree bes) -> wf (Tree tes) ->
  (forall f, In f files -> canon f = Some f) ->
  forall f, In f (diff_files canon bes tes files) <->
            In f files /\ blob_at (Tree bes) f <> blob_at (Tree tes) f.
Proof. exact diff_files_exact. Qed.
Print Assumptions C19_diff_files_exact.

(* The general form of the final filter, for an arbitrary file-system oracle: a scanned or listed
   file is kept iff it is its own canonical spelling (no symbolic link on the way, fix D190) and a member
   of the set. *)
Theorem C19_filter_general : forall canon files set f,
  In f (filter_by_set canon files set) <->
  In f files /\ canon f = Some f /\ In f set.
Proof. exact filter_by_set_spec. Qed.
Print Assumptions C19_filter_general.

(* A restricted run is the full run filtered: same per-file results (statuses), nothing outside
   the set, order kept, structure results untouched.  [eval], [structure] are arbitrary. *)
Theorem C19_diff_run_is_restriction :
  forall (R S Scan : Type) (eval : path -> option R) (structure : Scan -> S) (scanned : Scan -> list path)
         canon set sc,
    snd (restricted_run R S Scan eval structure scanned canon set sc)
      = snd (full_run R S Scan eval structure scanned sc) /\
    (forall f r, In (f, r) (fst (restricted_run R S Scan eval structure scanned canon set sc)) <->
                 In (f, r) (fst (full_run R S Scan eval structure scanned sc)) /\
                 In f (filter_by_set canon (scanned sc) set)) /\
    (exists keep, fst (restricted_run R S Scan eval structure scanned canon set sc)
                  = filter keep (fst (full_run R S Scan eval structure scanned sc))).
Proof. exact restricted_run_spec. Qed.
Print Assumptions C19_diff_run_is_restriction.

(* check --staged: exactly the scanned files whose regular-file index entry differs from HEAD
   (mode or content; a missing entry on either side counts), for every index -- symbolic links,
   submodule entries, intent-to-add placeholders and removed-but-present paths included
   (fixes D21, D22, D70, D71), HEAD absent included. *)
Theorem C19_staged_exact : forall canon head idx files,
  wf_head head -> NoDup (map fst idx) ->
  (forall f, In f files -> canon f = Some f) ->
  forall f, In f (staged_files canon head idx files) <->
            In f files /\ iblob_at idx f <> head_blob_at head f.
Proof. exact staged_files_exact. Qed.
Print Assumptions C19_staged_exact.

(* check --diff / --staged together with --files L (fix D105): a listed file is evaluated iff it is
   evaluated by --files L alone AND it names itself (it is no symbolic link and is not spelled through a
   linked directory, fix D190) AND it is a member of the changed / staged set; its result is the same.
   So files outside the set are never reported in this mode either.  [eval] is arbitrary. *)
Theorem C19_files_list_is_restricted :
  forall (R : Type) (eval : path -> option R) canon set listed f r,
    In (f, r) (fst (listed_run R eval canon (Some set) listed)) <->
    In (f, r) (fst (listed_run R eval canon None listed)) /\
    In f listed /\ canon f = Some f /\ In f set.
Proof. exact listed_run_spec. Qed.
Print Assumptions C19_files_list_is_restricted.

(* ------------------------------------------------------------------ non-vacuity and regression witnesses *)

Definition exA : list (name * gentry) :=
  [([109], Blob false [1]); ([100], Tree [([120], Blob false [2])]); ([108], Link [109]);
   ([107], Tree [([121], Blob false [6])])].
Definition exB : list (name * gentry) :=
  [([109], Blob true [3]); ([100], Blob false [4]); ([110], Tree [([121], Blob false [5])]);
   ([108], Blob false [109]); ([107], Tree [([121], Blob false [6])])].

(* the hypotheses are satisfiable by a pair with an edit + chmod, a directory -> file swap, an added
   directory, an unchanged directory and a symlink -> file change with equal blob id (D32) *)
Example C19_nonvacuous :
  wf (Tree exA) /\ wf (Tree exB) /\
  compare_trees_recursive exA exB =
    [(Chg, [[109]]); (Del, [[100]; [120]]); (Chg, [[100]]); (Chg, [[110]; [121]]); (Chg, [[108]])].
Proof.
  split; [apply wfb_wf; vm_compute; reflexivity|].
  split; [apply wfb_wf; vm_compute; reflexivity|]. vm_compute. reflexivity.
Qed.
Print Assumptions C19_nonvacuous.

(* D21 / D22 witnesses on the repaired model: an unchanged committed symlink is not staged, a file
   removed from the index but present on disk is, next to an ordinary staged edit *)
Example C19_staged_witness :
  get_staged_files (fun p => Some p) (Some exA)
    [([[109]], IBlob false [1]); ([[108]], ILink [109]); ([[100]; [120]], IBlob false [9])]
  = [[[100]; [120]]; [[107]; [121]]].
Proof. vm_compute. reflexivity. Qed.
Print Assumptions C19_staged_witness.

(* D34 witness: the changed path l is a symbolic link to m in the work tree; m is not reported *)
Example C19_alias_witness :
  diff_files (canon_of [([[108]], [[109]]); ([[109]], [[109]])])
             [([109], Blob false [1]); ([108], Blob false [2])]
             [([109], Blob false [1]); ([108], Blob false [3])]
             [[[109]]] = [].
Proof. vm_compute. reflexivity. Qed.
Print Assumptions C19_alias_witness.

(* D70 / D71 witnesses: a chmod alone is a change for --diff and for --staged; an intent-to-add
   entry (git add -N) is not staged *)
Example C19_mode_only_witness :
  compare_trees_recursive [([97], Blob false [1])] [([97], Blob true [1])] = [(Chg, [[97]])] /\
  get_staged_files (fun p => Some p) (Some [([107], Blob false [1])])
    [([[107]], IBlob true [1]); ([[110]], IIntent)] = [[[107]]].
Proof. split; vm_compute; reflexivity. Qed.
Print Assumptions C19_mode_only_witness.

(* a three-dot range is split at the first two dots *)
Example C19_three_dots : parse_diff_range [65; 46; 46; 46; 66] = RangeOk [65] [46; 66].
Proof. vm_compute. reflexivity. Qed.
Print Assumptions C19_three_dots.

(* ------------------------------------------------------------------ the unrepaired code, for the record
   C19_staged_exact is FALSE of the code before fixes D21 / D22 ([staged_files_v0], Git/BeforeFixes.v):
   the hypotheses of the theorem hold and the conclusion fails. *)

(* D21: HEAD and index both hold real.rs and the symlink link.rs -> real.rs, nothing is staged;
   the link entry is missing from the HEAD map, counts as staged, resolves to real.rs *)
Example C19_staged_exact_refuted_before_D21 :
  exists canon head idx files f,
    wf_head head /\ NoDup (map fst idx) /\ (forall g, In g files -> canon g = Some g) /\
    In f (staged_files_v0 canon head idx files) /\ ~ (iblob_at idx f <> head_blob_at head f).
Proof.
  exists (canon_of [([[108]], [[114]]); ([[114]], [[114]])]),
         (Some [([114], Blob false [1]); ([108], Link [114])]),
         [([[114]], IBlob false [1]); ([[108]], ILink [114])],
         [[[114]]], [[114]].
  split; [apply (wfb_wf (Tree [([114], Blob false [1]); ([108], Link [114])])); vm_compute; reflexivity|].
  split; [simpl; constructor; [intros [H|[]]; discriminate | constructor; [intros [] | constructor]]|].
  split; [intros g [<-|[]]; vm_compute; reflexivity|].
  split; [vm_compute; left; reflexivity|].
  vm_compute. intro H. apply H. reflexivity.
Qed.
Print Assumptions C19_staged_exact_refuted_before_D21.

(* D22: del.rs is committed, removed from the index (git rm --cached) and still on disk *)
Example C19_staged_exact_refuted_before_D22 :
  exists canon head idx files f,
    wf_head head /\ NoDup (map fst idx) /\ (forall g, In g files -> canon g = Some g) /\
    In f files /\ iblob_at idx f <> head_blob_at head f /\ ~ In f (staged_files_v0 canon head idx files).
Proof.
  exists (fun p => Some p), (Some [([100], Blob false [1])]), [], [[[100]]], [[100]].
  split; [apply (wfb_wf (Tree [([100], Blob false [1])])); vm_compute; reflexivity|].
  split; [constructor|].
  split; [intros g _; reflexivity|].
  split; [left; reflexivity|].
  split; [vm_compute; discriminate|].
  vm_compute. intros [].
Qed.
Print Assumptions C19_staged_exact_refuted_before_D22.

(* D105: a.rs is listed with --files, the changed set holds only b.rs; the unrepaired code
   ([listed_run_v0]) evaluates a.rs, the repaired code does not and keeps b.rs when it is listed *)
Example C19_files_list_refuted_before_D105 :
  exists (eval : path -> option N) canon set listed f r,
    In (f, r) (fst (listed_run_v0 N eval canon (Some set) listed)) /\ ~ In f set.
Proof.
  exists (fun _ => Some 1), (fun p => Some p), [[[98]]], [[[97]]], [[97]], 1.
  split; [vm_compute; left; reflexivity|].
  intros [H|[]]. discriminate.
Qed.
Print Assumptions C19_files_list_refuted_before_D105.

Example C19_files_list_witness :
  fst (listed_run N (fun _ => Some 1) (fun p => Some p) (Some [[[98]]]) [[[97]]; [[98]]]) = [([[98]], 1)] /\
  fst (listed_run N (fun _ => Some 1) (fun p => Some p) (Some [[[98]]]) [[[97]]]) = [].
Proof. split; vm_compute; reflexivity. Qed.
Print Assumptions C19_files_list_witness.

(* D190: link.rs -> a.rs, the changed set holds a.rs only; the filter as it was after D34 / D105
   ([filter_by_set_v1]) kept the listed link.rs, the repaired filter drops it and keeps a.rs *)
Example C19_filter_refuted_before_D190 :
  exists canon files set f,
    In f (filter_by_set_v1 canon files set) /\ ~ In f set.
Proof.
  exists (canon_of [([[108]], [[97]]); ([[97]], [[97]])]), [[[108]]; [[97]]], [[[97]]], [[108]].
  split; [vm_compute; left; reflexivity|].
  intros [H|[]]. discriminate.
Qed.
Print Assumptions C19_filter_refuted_before_D190.

Example C19_filter_symlink_witness :
  filter_by_set (canon_of [([[108]], [[97]]); ([[97]], [[97]])]) [[[108]]; [[97]]] [[[97]]] = [[[97]]].
Proof. vm_compute. reflexivity. Qed.
Print Assumptions C19_filter_symlink_witness.
