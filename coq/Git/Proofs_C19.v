(* Git/Proofs_C19.v -- lemmas about the model of git/diff.rs and check_git_diff.rs. *)
From Coq Require Import NArith List Bool Lia.
From SG Require Import Git.TreeDiff.
Import ListNotations.
Open Scope N_scope.

(* ------------------------------------------------------------------ equality tests *)

Lemma str_eqb_eq : forall a b, str_eqb a b = true <-> a = b.
Proof.
  induction a as [|x a IH]; destruct b as [|y b]; simpl; split; intro H;
    try discriminate; try reflexivity.
  - apply andb_true_iff in H as [H1 H2]. apply N.eqb_eq in H1. apply IH in H2. subst. reflexivity.
  - inversion H; subst. rewrite N.eqb_refl. simpl. apply IH. reflexivity.
Qed.

Lemma str_eqb_refl : forall a, str_eqb a a = true.
Proof. intro a. apply str_eqb_eq. reflexivity. Qed.

Lemma str_eqb_neq : forall a b, str_eqb a b = false <-> a <> b.
Proof.
  intros a b. split.
  - intros H E. apply str_eqb_eq in E. congruence.
  - intro H. destruct (str_eqb a b) eqn:E; [apply str_eqb_eq in E; contradiction | reflexivity].
Qed.

Lemma path_eqb_eq : forall a b, path_eqb a b = true <-> a = b.
Proof.
  induction a as [|x a IH]; destruct b as [|y b]; simpl; split; intro H;
    try discriminate; try reflexivity.
  - apply andb_true_iff in H as [H1 H2]. apply str_eqb_eq in H1. apply IH in H2. subst. reflexivity.
  - inversion H; subst. rewrite str_eqb_refl. simpl. apply IH. reflexivity.
Qed.

Lemma path_eqb_refl : forall a, path_eqb a a = true.
Proof. intro a. apply path_eqb_eq. reflexivity. Qed.

Lemma str_dec : forall a b : str, a = b \/ a <> b.
Proof.
  intros a b. destruct (str_eqb a b) eqn:E.
  - left. apply str_eqb_eq. exact E.
  - right. apply str_eqb_neq. exact E.
Qed.

Lemma mem_path_In : forall p l, mem_path p l = true <-> In p l.
Proof.
  intros p l. unfold mem_path. rewrite existsb_exists. split.
  - intros [q [Hq E]]. apply path_eqb_eq in E. subst. exact Hq.
  - intro H. exists p. split; [exact H | apply path_eqb_refl].
Qed.

(* ------------------------------------------------------------------ nested induction on trees *)

Section GInd.
  Variable P : gentry -> Prop.
  Hypothesis HB : forall x c, P (Blob x c).
  Hypothesis HT : forall es, Forall (fun ne => P (snd ne)) es -> P (Tree es).
  Hypothesis HL : forall t, P (Link t).
  Hypothesis HC : forall i, P (Commit i).

  Fixpoint gentry_ind2 (e : gentry) : P e :=
    match e with
    | Blob x c => HB x c
    | Tree es =>
        HT es ((fix go (l : list (name * gentry)) : Forall (fun ne => P (snd ne)) l :=
                  match l with
                  | [] => Forall_nil _
                  | ne :: r => Forall_cons ne (gentry_ind2 (snd ne)) (go r)
                  end) es)
    | Link t => HL t
    | Commit i => HC i
    end.
End GInd.

Lemma wf_tree : forall es,
  wf (Tree es) <-> NoDup (map fst es) /\ Forall (fun ne => wf (snd ne)) es.
Proof.
  intro es. cbn [wf].
  assert (A : forall l,
             (fix all (l : list (name * gentry)) : Prop :=
                match l with [] => True | ne :: r => wf (snd ne) /\ all r end) l
             <-> Forall (fun ne => wf (snd ne)) l).
  { induction l as [|ne r IH]; split; intro H.
    - constructor.
    - exact I.
    - destruct H as [H1 H2]. constructor; [exact H1 | apply IH; exact H2].
    - inversion H; subst. split; [assumption | apply IH; assumption]. }
  rewrite A. reflexivity.
Qed.

(* ------------------------------------------------------------------ association lists *)

Lemma assoc_some_in : forall (A : Type) n (l : list (name * A)) x,
  assoc n l = Some x -> In (n, x) l.
Proof.
  induction l as [|[m y] r IH]; simpl; intros x H; [discriminate|].
  destruct (str_eqb n m) eqn:E.
  - apply str_eqb_eq in E. inversion H; subst. left. reflexivity.
  - right. apply IH. exact H.
Qed.

Lemma assoc_none_notin : forall (A : Type) n (l : list (name * A)),
  assoc n l = None <-> ~ In n (map fst l).
Proof.
  induction l as [|[m y] r IH]; simpl.
  - split; [intros _ H; exact H | reflexivity].
  - destruct (str_eqb n m) eqn:E.
    + apply str_eqb_eq in E. subst. split; [discriminate | intro H; exfalso; apply H; left; reflexivity].
    + apply str_eqb_neq in E. rewrite IH. split.
      * intros H [H1|H1]; [congruence | contradiction].
      * intros H H1. apply H. right. exact H1.
Qed.

Lemma assoc_in_nodup : forall (A : Type) n (l : list (name * A)) x,
  NoDup (map fst l) -> In (n, x) l -> assoc n l = Some x.
Proof.
  induction l as [|[m y] r IH]; simpl; intros x ND H; [contradiction|].
  inversion ND as [|? ? Hnot ND']; subst.
  destruct H as [H|H].
  - inversion H; subst. rewrite str_eqb_refl. reflexivity.
  - destruct (str_eqb n m) eqn:E.
    + apply str_eqb_eq in E. subst. exfalso. apply Hnot.
      apply in_map_iff. exists (m, x). split; [reflexivity | exact H].
    + apply IH; assumption.
Qed.

Lemma assoc_iff_in : forall (A : Type) n (l : list (name * A)) x,
  NoDup (map fst l) -> (assoc n l = Some x <-> In (n, x) l).
Proof.
  intros. split; [apply assoc_some_in | apply assoc_in_nodup; assumption].
Qed.

Lemma has_name_false : forall (A : Type) n (l : list (name * A)),
  has_name n l = false <-> assoc n l = None.
Proof.
  intros. unfold has_name. destruct (assoc n l); split; intro H; congruence.
Qed.

(* ------------------------------------------------------------------ result lists *)

Lemma In_under : forall t p n r,
  In (t, p) (under n r) <-> exists q, p = n :: q /\ In (t, q) r.
Proof.
  intros t p n r. unfold under. rewrite in_map_iff. split.
  - intros [[t' q] [E H]]. simpl in E. inversion E; subst. exists q. split; [reflexivity | exact H].
  - intros [q [E H]]. subst. exists (t, q). split; [reflexivity | exact H].
Qed.

Lemma In_tagged : forall t t' p ps, In (t, p) (tagged t' ps) <-> t = t' /\ In p ps.
Proof.
  intros. unfold tagged. rewrite in_map_iff. split.
  - intros [q [E H]]. inversion E; subst. split; [reflexivity | exact H].
  - intros [E H]. subst. exists p. split; [reflexivity | exact H].
Qed.

Lemma In_paths_with : forall t p r, In p (paths_with t r) <-> In (t, p) r.
Proof.
  intros t p r. unfold paths_with. rewrite in_map_iff. split.
  - intros [[t' q] [E H]]. simpl in E. subst. apply filter_In in H as [H1 H2]. simpl in H2.
    destruct t', t; simpl in H2; try discriminate; exact H1.
  - intro H. exists (t, p). split; [reflexivity|]. apply filter_In. split; [exact H|].
    destruct t; reflexivity.
Qed.

Lemma In_filter_map : forall (A B : Type) (f : A -> option B) l y,
  In y (filter_map f l) <-> exists x, In x l /\ f x = Some y.
Proof.
  induction l as [|a r IH]; simpl; intro y.
  - split; [contradiction | intros [x [[] _]]].
  - destruct (f a) eqn:E.
    + simpl. rewrite IH. split.
      * intros [H|[x [H1 H2]]]; [subst; exists a; split; [left; reflexivity | exact E] | exists x; split; [right; exact H1 | exact H2]].
      * intros [x [[H1|H1] H2]]; [subst; left; congruence | right; exists x; split; assumption].
    + rewrite IH. split.
      * intros [x [H1 H2]]. exists x. split; [right; exact H1 | exact H2].
      * intros [x [[H1|H1] H2]]; [subst; congruence | exists x; split; assumption].
Qed.

(* ------------------------------------------------------------------ blob_at, collect *)

Lemma blob_at_blob : forall x c p d, blob_at (Blob x c) p = Some d <-> p = [] /\ d = (x, c).
Proof.
  intros x c p d. destruct p; simpl; split; intro H.
  - inversion H. split; reflexivity.
  - destruct H as [_ H]. subst. reflexivity.
  - discriminate.
  - destruct H as [H _]. discriminate.
Qed.

Lemma blob_at_tree_nil : forall es, blob_at (Tree es) [] = None.
Proof. reflexivity. Qed.

Lemma blob_at_tree_cons : forall es n q,
  blob_at (Tree es) (n :: q) = match assoc n es with Some x => blob_at x q | None => None end.
Proof. reflexivity. Qed.

Lemma blob_at_special : forall e p, is_special e = true -> blob_at e p = None.
Proof. intros e p H. destruct e; simpl in H; try discriminate; destruct p; reflexivity. Qed.

(* collect lists exactly the paths that hold a regular file *)
Lemma collect_spec : forall e, wf e -> forall p, In p (collect e) <-> blob_at e p <> None.
Proof.
  induction e as [x c|es IH|t|i] using gentry_ind2; intros W p.
  - simpl. destruct p; simpl; split; intro H; try congruence.
    + left. reflexivity.
    + destruct H as [H|[]]. discriminate.
  - apply wf_tree in W as [ND WF]. cbn [collect]. rewrite in_flat_map. split.
    + intros [[n x] [Hin Hp]]. simpl in Hp. apply in_map_iff in Hp as [q [E Hq]]. subst p.
      rewrite blob_at_tree_cons. rewrite (assoc_in_nodup _ _ _ _ ND Hin).
      rewrite Forall_forall in IH, WF. apply (IH (n, x) Hin (WF (n, x) Hin)). exact Hq.
    + intro H. destruct p as [|n q]; [simpl in H; congruence|].
      rewrite blob_at_tree_cons in H. destruct (assoc n es) as [x|] eqn:A; [|congruence].
      apply assoc_some_in in A. exists (n, x). split; [exact A|]. simpl.
      apply in_map_iff. exists q. split; [reflexivity|].
      rewrite Forall_forall in IH, WF. apply (IH (n, x) A (WF (n, x) A)). exact H.
  - simpl. destruct p; simpl; split; intro H; try contradiction; congruence.
  - simpl. destruct p; simpl; split; intro H; try contradiction; congruence.
Qed.

Lemma added_spec : forall e t p, In (t, p) (process_added_entry e) <-> t = Chg /\ In p (collect e).
Proof.
  intros e t p. destruct e; simpl.
  - split; [intros [H|[]]; inversion H; split; [reflexivity | left; reflexivity]
           | intros [E [H|[]]]; subst; left; reflexivity].
  - unfold collect_all_blob_paths. apply In_tagged.
  - split; [contradiction | intros [_ []]].
  - split; [contradiction | intros [_ []]].
Qed.

Lemma deleted_spec : forall e t p, In (t, p) (process_deleted_entry e) <-> t = Del /\ In p (collect e).
Proof.
  intros e t p. destruct e; simpl.
  - split; [intros [H|[]]; inversion H; split; [reflexivity | left; reflexivity]
           | intros [E [H|[]]]; subst; left; reflexivity].
  - unfold collect_all_blob_paths. apply In_tagged.
  - split; [contradiction | intros [_ []]].
  - split; [contradiction | intros [_ []]].
Qed.

(* ------------------------------------------------------------------ object ids *)

Fixpoint tree_oid_eqb (l l' : list (name * gentry)) : bool :=
  match l, l' with
  | [], [] => true
  | ne :: r, ne' :: r' =>
      str_eqb (fst ne) (fst ne') && ekind_eqb (kind_of (snd ne)) (kind_of (snd ne'))
      && oid_eqb (snd ne) (snd ne') && tree_oid_eqb r r'
  | _, _ => false
  end.

Lemma oid_eqb_tree : forall es es', oid_eqb (Tree es) (Tree es') = tree_oid_eqb es es'.
Proof.
  induction es as [|ne r IH]; destruct es' as [|ne' r']; reflexivity.
Qed.

Lemma ekind_eqb_eq : forall a b, ekind_eqb a b = true <-> a = b.
Proof. intros a b. destruct a, b; simpl; split; intro H; try discriminate; reflexivity. Qed.

Lemma kind_special : forall a b, kind_of a = kind_of b -> is_special a = is_special b.
Proof.
  intros a b. destruct a as [[|] ?| | |], b as [[|] ?| | |]; simpl; intro H; try discriminate; reflexivity.
Qed.

Lemma same_object_tree : forall es es', same_object (Tree es) (Tree es') = tree_oid_eqb es es'.
Proof. intros. unfold same_object. rewrite oid_eqb_tree. simpl. apply andb_true_r. Qed.

Lemma tree_oid_cons : forall ne r ne' r',
  tree_oid_eqb (ne :: r) (ne' :: r') = true ->
  fst ne = fst ne' /\ same_object (snd ne) (snd ne') = true /\ tree_oid_eqb r r' = true.
Proof.
  intros ne r ne' r' H. cbn [tree_oid_eqb] in H.
  apply andb_true_iff in H as [H H4]. apply andb_true_iff in H as [H H3].
  apply andb_true_iff in H as [H1 H2]. apply str_eqb_eq in H1.
  split; [exact H1|]. split; [|exact H4]. unfold same_object. rewrite H3, H2. reflexivity.
Qed.

(* equal ids (and class): the same regular files with the same contents *)
Lemma same_object_blob_at : forall a b, same_object a b = true -> forall p, blob_at a p = blob_at b p.
Proof.
  induction a as [x c|es IH|t|i] using gentry_ind2; intros b H p;
    pose proof H as H0; unfold same_object in H; apply andb_true_iff in H as [H1 H2];
    destruct b as [x' c'|es'|t'|i']; simpl in H1, H2; try discriminate;
    try (match goal with H : context [if ?b then _ else _] |- _ => destruct b; discriminate end).
  - apply str_eqb_eq in H1. subst. destruct x, x'; try discriminate; destruct p; reflexivity.
  - clear H1 H2. rewrite same_object_tree in H0. destruct p as [|n q]; [reflexivity|].
    rewrite !blob_at_tree_cons. revert es' H0.
    induction es as [|ne r IHr]; destruct es' as [|ne' r']; intro H0; try discriminate; [reflexivity|].
    apply tree_oid_cons in H0 as [E [S R]]. inversion IH as [|? ? IHne IHrest]; subst.
    simpl. rewrite <- E. destruct (str_eqb n (fst ne)).
    + apply IHne. exact S.
    + apply IHr; assumption.
  - destruct p; reflexivity.
  - destruct p; reflexivity.
Qed.

Lemma same_object_blobs : forall a b, same_object a b = true -> blobs a = blobs b.
Proof.
  induction a as [x c|es IH|t|i] using gentry_ind2; intros b H;
    pose proof H as H0; unfold same_object in H; apply andb_true_iff in H as [H1 H2];
    destruct b as [x' c'|es'|t'|i']; simpl in H1, H2; try discriminate; try reflexivity;
    try (match goal with H : context [if ?b then _ else _] |- _ => destruct b; discriminate end).
  - apply str_eqb_eq in H1. subst. destruct x, x'; try discriminate; reflexivity.
  - clear H1 H2. rewrite same_object_tree in H0. cbn [blobs]. revert es' H0.
    induction es as [|ne r IHr]; destruct es' as [|ne' r']; intro H0; try discriminate; [reflexivity|].
    apply tree_oid_cons in H0 as [E [S R]]. inversion IH as [|? ? IHne IHrest]; subst.
    simpl. rewrite <- E. rewrite (IHne _ S). f_equal. apply IHr; assumption.
Qed.

(* ------------------------------------------------------------------ the comparison is exact *)

Definition chg_spec (be te : gentry) (p : path) : Prop :=
  exists c, blob_at te p = Some c /\ blob_at be p <> Some c.
Definition del_spec (be te : gentry) (p : path) : Prop :=
  blob_at be p <> None /\ blob_at te p = None.
Definition exact (r : res) (be te : gentry) : Prop :=
  forall t p, In (t, p) r <-> match t with Chg => chg_spec be te p | Del => del_spec be te p end.

Lemma exact_nil_of_same : forall be te, same_object be te = true -> exact [] be te.
Proof.
  intros be te H t p. pose proof (same_object_blob_at _ _ H p) as E.
  split; [contradiction|]. destruct t.
  - intros [c [H1 H2]]. congruence.
  - intros [H1 H2]. congruence.
Qed.

Lemma exact_blob_blob : forall x c x' c', (x, c) <> (x', c') -> exact [(Chg, [])] (Blob x c) (Blob x' c').
Proof.
  intros x c x' c' N t p. split.
  - intros [H|[]]. inversion H; subst. exists (x', c'). split; [reflexivity|]. simpl. congruence.
  - destruct t.
    + intros [d [H1 H2]]. apply blob_at_blob in H1 as [-> ->]. left. reflexivity.
    + intros [H1 H2]. destruct p; simpl in *; congruence.
Qed.

Lemma exact_special_te : forall be te, is_special te = true -> wf be ->
  exact (process_deleted_entry be) be te.
Proof.
  intros be te S W t p. rewrite deleted_spec, (collect_spec _ W). split.
  - intros [-> H]. split; [exact H | apply blob_at_special; exact S].
  - destruct t.
    + intros [c [H1 H2]]. rewrite (blob_at_special _ _ S) in H1. discriminate.
    + intros [H1 H2]. split; [reflexivity | exact H1].
Qed.

Lemma exact_special_be : forall be te, is_special be = true -> wf te ->
  exact (process_added_entry te) be te.
Proof.
  intros be te S W t p. rewrite added_spec, (collect_spec _ W). split.
  - intros [-> H]. destruct (blob_at te p) as [c|] eqn:E; [|congruence].
    exists c. split; [exact E|]. rewrite (blob_at_special _ _ S). discriminate.
  - destruct t.
    + intros [c [H1 H2]]. split; [reflexivity | congruence].
    + intros [H1 H2]. rewrite (blob_at_special _ _ S) in H1. congruence.
Qed.

Lemma exact_tree_blob : forall bes x c, wf (Tree bes) ->
  exact (process_deleted_entry (Tree bes) ++ [(Chg, [])]) (Tree bes) (Blob x c).
Proof.
  intros bes x c W t p. rewrite in_app_iff, deleted_spec, (collect_spec _ W). split.
  - intros [[-> H]|[H|[]]].
    + split; [exact H|]. destruct p; [simpl in H; congruence | reflexivity].
    + inversion H; subst. exists (x, c). split; [reflexivity | simpl; discriminate].
  - destruct t.
    + intros [d [H1 H2]]. apply blob_at_blob in H1 as [-> ->]. right. left. reflexivity.
    + intros [H1 H2]. left. split; [reflexivity | exact H1].
Qed.

Lemma exact_blob_tree : forall x c tes, wf (Tree tes) ->
  exact ((Del, []) :: process_added_entry (Tree tes)) (Blob x c) (Tree tes).
Proof.
  intros x c tes W t p. cbn [In]. rewrite added_spec, (collect_spec _ W). split.
  - intros [H|[-> H]].
    + inversion H; subst. split; [simpl; discriminate | reflexivity].
    + destruct (blob_at (Tree tes) p) as [d|] eqn:E; [|congruence]. exists d. split; [exact E|].
      destruct p; [simpl in E; discriminate | simpl; discriminate].
  - destruct t.
    + intros [d [H1 H2]]. right. split; [reflexivity | congruence].
    + intros [H1 H2]. left. destruct p; [reflexivity | simpl in H1; congruence].
Qed.

Lemma tree_case : forall bes tes, wf (Tree bes) -> wf (Tree tes) ->
  Forall (fun nt => forall be, wf be -> wf (snd nt) -> exact (compare_entry be (snd nt)) be (snd nt)) tes ->
  exact (compare_trees_recursive bes tes) (Tree bes) (Tree tes).
Proof.
  intros bes tes Wb Wt IH. apply wf_tree in Wb as [NDb WFb]. apply wf_tree in Wt as [NDt WFt].
  rewrite Forall_forall in IH, WFb, WFt. intros t p. unfold compare_trees_recursive.
  rewrite in_app_iff, !in_flat_map. split.
  - intros [[[n x] [Hin Hu]]|[[n b] [Hin Hu]]]; simpl in Hu.
    + apply In_under in Hu as [q [-> Hq]].
      pose proof (assoc_in_nodup _ _ _ _ NDt Hin) as At.
      destruct (assoc n bes) as [b|] eqn:Ab.
      * pose proof (assoc_some_in _ _ _ _ Ab) as Hb.
        apply (IH (n, x) Hin b (WFb (n, b) Hb) (WFt (n, x) Hin)) in Hq. simpl in Hq.
        destruct t; unfold chg_spec, del_spec in *; rewrite !blob_at_tree_cons, At, Ab; exact Hq.
      * apply added_spec in Hq as [-> Hq]. apply (collect_spec _ (WFt (n, x) Hin)) in Hq. simpl in Hq.
        unfold chg_spec. rewrite !blob_at_tree_cons, At, Ab.
        destruct (blob_at x q) as [c|]; [|congruence]. exists c. split; [reflexivity | discriminate].
    + destruct (has_name n tes) eqn:Hn; [contradiction|].
      apply In_under in Hu as [q [-> Hq]]. apply deleted_spec in Hq as [-> Hq].
      apply (collect_spec _ (WFb (n, b) Hin)) in Hq. simpl in Hq.
      unfold del_spec. rewrite !blob_at_tree_cons, (assoc_in_nodup _ _ _ _ NDb Hin).
      apply has_name_false in Hn. rewrite Hn. split; [exact Hq | reflexivity].
  - destruct t.
    + intros [c [Ht Hb]]. destruct p as [|n q]; [simpl in Ht; discriminate|].
      rewrite blob_at_tree_cons in Ht, Hb. destruct (assoc n tes) as [x|] eqn:At; [|discriminate].
      pose proof (assoc_some_in _ _ _ _ At) as Hin.
      left. exists (n, x). split; [exact Hin|]. simpl. apply In_under. exists q. split; [reflexivity|].
      destruct (assoc n bes) as [b|] eqn:Ab.
      * pose proof (assoc_some_in _ _ _ _ Ab) as Hinb.
        apply (IH (n, x) Hin b (WFb (n, b) Hinb) (WFt (n, x) Hin) Chg q).
        exists c. split; assumption.
      * apply added_spec. split; [reflexivity|]. apply (collect_spec _ (WFt (n, x) Hin)). simpl. congruence.
    + intros [Hb Ht]. destruct p as [|n q]; [simpl in Hb; congruence|].
      rewrite blob_at_tree_cons in Ht, Hb. destruct (assoc n bes) as [b|] eqn:Ab; [|congruence].
      pose proof (assoc_some_in _ _ _ _ Ab) as Hinb.
      destruct (assoc n tes) as [x|] eqn:At.
      * pose proof (assoc_some_in _ _ _ _ At) as Hin.
        left. exists (n, x). split; [exact Hin|]. simpl. apply In_under. exists q. split; [reflexivity|].
        rewrite Ab. apply (IH (n, x) Hin b (WFb (n, b) Hinb) (WFt (n, x) Hin) Del q).
        split; assumption.
      * right. exists (n, b). split; [exact Hinb|]. simpl.
        rewrite (proj2 (has_name_false _ _ _) At). apply In_under. exists q. split; [reflexivity|].
        apply deleted_spec. split; [reflexivity|]. apply (collect_spec _ (WFb (n, b) Hinb)). exact Hb.
Qed.

Lemma pce_tree_tree : forall bes tes,
  process_changed_entry (Tree bes) (Tree tes) = compare_trees_recursive bes tes.
Proof. reflexivity. Qed.

Lemma compare_entry_exact : forall te be, wf be -> wf te -> exact (compare_entry be te) be te.
Proof.
  induction te as [x c|tes IH|l|i] using gentry_ind2; intros be Wb Wt; unfold compare_entry;
    match goal with |- exact (if same_object ?b ?t then _ else _) _ _ => destruct (same_object b t) eqn:SO end;
    try (apply exact_nil_of_same; exact SO).
  - destruct be as [x' c'|bes|l'|i']; cbn [process_changed_entry].
    + apply exact_blob_blob. intro E. inversion E; subst. unfold same_object in SO. simpl in SO.
      rewrite str_eqb_refl in SO. destruct x; discriminate.
    + apply exact_tree_blob. exact Wb.
    + apply exact_special_be; [reflexivity | exact Wt].
    + apply exact_special_be; [reflexivity | exact Wt].
  - destruct be as [x' c'|bes|l'|i']; cbn [process_changed_entry].
    + apply exact_blob_tree. exact Wt.
    + change (exact (compare_trees_recursive bes tes) (Tree bes) (Tree tes)).
      apply tree_case; assumption.
    + apply exact_special_be; [reflexivity | exact Wt].
    + apply exact_special_be; [reflexivity | exact Wt].
  - destruct be as [x' c'|bes|l'|i']; cbn [process_changed_entry];
      try (apply (exact_special_te _ (Link l)); [reflexivity | exact Wb]).
    + apply (exact_special_te (Link l') (Link l)); [reflexivity | exact I].
    + apply (exact_special_te (Commit i') (Link l)); [reflexivity | exact I].
  - destruct be as [x' c'|bes|l'|i']; cbn [process_changed_entry];
      try (apply (exact_special_te _ (Commit i)); [reflexivity | exact Wb]).
    + apply (exact_special_te (Link l') (Commit i)); [reflexivity | exact I].
    + apply (exact_special_te (Commit i') (Commit i)); [reflexivity | exact I].
Qed.

(* root trees: compare_trees_recursive is called without an id test *)
Lemma compare_trees_exact : forall bes tes, wf (Tree bes) -> wf (Tree tes) ->
  exact (compare_trees_recursive bes tes) (Tree bes) (Tree tes).
Proof.
  intros bes tes Wb Wt. apply tree_case; try assumption.
  apply Forall_forall. intros nt _ be W1 W2. apply compare_entry_exact; assumption.
Qed.

(* ------------------------------------------------------------------ consequences *)

Lemma exact_unique_nil : forall r be te, exact r be te -> exact [] be te -> r = [].
Proof.
  intros r be te H1 H2. destruct r as [|[t p] r']; [reflexivity|]. exfalso.
  apply (H2 t p). apply (H1 t p). left. reflexivity.
Qed.

(* the id short-circuit on subtrees loses nothing: the full recursion would find nothing *)
Lemma short_circuit_sound : forall bes tes, wf (Tree bes) -> wf (Tree tes) ->
  oid_eqb (Tree bes) (Tree tes) = true -> compare_trees_recursive bes tes = [].
Proof.
  intros bes tes Wb Wt H. apply (exact_unique_nil _ (Tree bes) (Tree tes)).
  - apply compare_trees_exact; assumption.
  - apply exact_nil_of_same. unfold same_object. rewrite H. reflexivity.
Qed.

Lemma equal_tree_oid_equal_flatten : forall bes tes,
  oid_eqb (Tree bes) (Tree tes) = true -> blobs (Tree bes) = blobs (Tree tes).
Proof.
  intros bes tes H. apply same_object_blobs. unfold same_object. rewrite H. reflexivity.
Qed.

Lemma subtree_added : forall bes tes n ts q c, wf (Tree bes) -> wf (Tree tes) ->
  assoc n tes = Some (Tree ts) -> (forall bs, assoc n bes <> Some (Tree bs)) ->
  blob_at (Tree ts) q = Some c -> In (Chg, n :: q) (compare_trees_recursive bes tes).
Proof.
  intros bes tes n ts q c Wb Wt At Nb Hq.
  apply (compare_trees_exact bes tes Wb Wt Chg (n :: q)).
  exists c. rewrite !blob_at_tree_cons, At. split; [exact Hq|].
  destruct (assoc n bes) as [b|] eqn:Ab; [|discriminate].
  destruct b as [x d|bs|l|i].
  - destruct q; [simpl in Hq; discriminate | simpl; discriminate].
  - exfalso. apply (Nb bs). reflexivity.
  - destruct q; simpl; discriminate.
  - destruct q; simpl; discriminate.
Qed.

Lemma subtree_removed : forall bes tes n bs q, wf (Tree bes) -> wf (Tree tes) ->
  assoc n bes = Some (Tree bs) -> (forall ts, assoc n tes <> Some (Tree ts)) ->
  blob_at (Tree bs) q <> None -> In (Del, n :: q) (compare_trees_recursive bes tes).
Proof.
  intros bes tes n bs q Wb Wt Ab Nt Hq.
  apply (compare_trees_exact bes tes Wb Wt Del (n :: q)).
  unfold del_spec. rewrite !blob_at_tree_cons, Ab. split; [exact Hq|].
  destruct (assoc n tes) as [t|] eqn:At; [|reflexivity].
  destruct t as [x d|ts|l|i].
  - destruct q; [simpl in Hq; congruence | reflexivity].
  - exfalso. apply (Nt ts). reflexivity.
  - destruct q; reflexivity.
  - destruct q; reflexivity.
Qed.

(* ------------------------------------------------------------------ parse_diff_range *)

Fixpoint has_dotdot (s : str) : bool :=
  match s with
  | [] => false
  | c :: r => match r with
              | [] => false
              | d :: _ => (N.eqb c dot && N.eqb d dot) || has_dotdot r
              end
  end.

Lemma find_dotdot_cons2 : forall c d r,
  find_dotdot (c :: d :: r) =
  if N.eqb c dot && N.eqb d dot then Some ([], r)
  else match find_dotdot (d :: r) with
       | Some ab => Some (c :: fst ab, snd ab)
       | None => None
       end.
Proof. reflexivity. Qed.

Lemma has_dotdot_cons2 : forall c d r,
  has_dotdot (c :: d :: r) = (N.eqb c dot && N.eqb d dot) || has_dotdot (d :: r).
Proof. reflexivity. Qed.

Lemma find_none : forall s, has_dotdot s = false -> find_dotdot s = None.
Proof.
  induction s as [|c r IH]; [reflexivity|]. destruct r as [|d r']; [reflexivity|].
  intro H. rewrite has_dotdot_cons2 in H. apply orb_false_iff in H as [H1 H2].
  rewrite find_dotdot_cons2, H1, (IH H2). reflexivity.
Qed.

Lemma find_sound : forall s a b, find_dotdot s = Some (a, b) ->
  s = a ++ dot :: dot :: b /\ has_dotdot (a ++ [dot]) = false.
Proof.
  induction s as [|c r IH]; [discriminate|]. destruct r as [|d r']; [discriminate|].
  intros a b H. rewrite find_dotdot_cons2 in H. destruct (N.eqb c dot && N.eqb d dot) eqn:E.
  - inversion H; subst. apply andb_true_iff in E as [E1 E2].
    apply N.eqb_eq in E1. apply N.eqb_eq in E2. subst. split; reflexivity.
  - destruct (find_dotdot (d :: r')) as [[a' b']|] eqn:F; [|discriminate].
    destruct (IH a' b' eq_refl) as [E1 E2]. cbn [fst snd] in H. inversion H; subst a b.
    split; [rewrite E1; reflexivity|].
    destruct a' as [|d' a'']; cbn [app] in E1.
    + inversion E1; subst. cbn [app]. rewrite has_dotdot_cons2. cbn [has_dotdot]. rewrite orb_false_r. exact E.
    + inversion E1; subst. change ((c :: d' :: a'') ++ [dot]) with (c :: d' :: (a'' ++ [dot])).
      rewrite has_dotdot_cons2, E. exact E2.
Qed.

Lemma find_first : forall a b, has_dotdot (a ++ [dot]) = false ->
  find_dotdot (a ++ dot :: dot :: b) = Some (a, b).
Proof.
  induction a as [|c a' IH]; intros b H; [reflexivity|].
  destruct a' as [|d a''].
  - cbn [app] in H. rewrite has_dotdot_cons2 in H. cbn [has_dotdot] in H. rewrite orb_false_r in H.
    cbn [app]. rewrite find_dotdot_cons2, H. reflexivity.
  - change ((c :: d :: a'') ++ [dot]) with (c :: d :: (a'' ++ [dot])) in H.
    rewrite has_dotdot_cons2 in H. apply orb_false_iff in H as [H1 H2].
    change ((c :: d :: a'') ++ dot :: dot :: b) with (c :: d :: (a'' ++ dot :: dot :: b)).
    rewrite find_dotdot_cons2, H1.
    change (d :: a'' ++ dot :: dot :: b) with ((d :: a'') ++ dot :: dot :: b).
    rewrite (IH b H2). reflexivity.
Qed.

Lemma has_dotdot_find : forall s, has_dotdot s = true -> find_dotdot s <> None.
Proof.
  induction s as [|c r IH]; [discriminate|]. destruct r as [|d r']; [discriminate|].
  intro H. rewrite has_dotdot_cons2 in H. rewrite find_dotdot_cons2.
  destruct (N.eqb c dot && N.eqb d dot); [discriminate|]. cbn [orb] in H.
  specialize (IH H). destruct (find_dotdot (d :: r')); [discriminate | congruence].
Qed.

Lemma parse_empty : parse_diff_range [] = RangeErr.
Proof. reflexivity. Qed.

Lemma parse_single : forall s, s <> [] -> has_dotdot s = false -> parse_diff_range s = RangeOk s HEAD.
Proof.
  intros s N H. destruct s as [|c r]; [congruence|]. unfold parse_diff_range.
  rewrite (find_none _ H). reflexivity.
Qed.

Lemma parse_range : forall a b, has_dotdot (a ++ [dot]) = false ->
  parse_diff_range (a ++ dot :: dot :: b) =
  match a with
  | [] => RangeErr
  | _ :: _ => RangeOk a (match b with [] => HEAD | _ :: _ => b end)
  end.
Proof.
  intros a b H. unfold parse_diff_range. rewrite (find_first a b H).
  destruct a as [|c a']; reflexivity.
Qed.

Lemma parse_cases : forall s, has_dotdot s = true ->
  exists a b, s = a ++ dot :: dot :: b /\ has_dotdot (a ++ [dot]) = false.
Proof.
  intros s H. apply has_dotdot_find in H. destruct (find_dotdot s) as [[a b]|] eqn:F; [|congruence].
  exists a, b. apply find_sound. exact F.
Qed.

(* ------------------------------------------------------------------ the final filter *)

Lemma self_canonical_some : forall canon p c, self_canonical canon p = Some c <-> canon p = Some c /\ c = p.
Proof.
  intros canon p c. unfold self_canonical. destruct (canon p) as [q|]; [|split; [discriminate | intros [H _]; discriminate]].
  destruct (path_eqb q p) eqn:E.
  - apply path_eqb_eq in E. subst. split.
    + intro H. inversion H; subst. split; reflexivity.
    + intros [H _]. exact H.
  - split; [discriminate|]. intros [H1 H2]. inversion H1; subst. rewrite path_eqb_refl in E. discriminate.
Qed.

Lemma filter_by_set_spec : forall canon files set f,
  In f (filter_by_set canon files set) <->
  In f files /\ canon f = Some f /\ In f set.
Proof.
  intros canon files set f. unfold filter_by_set. rewrite filter_In. unfold in_canonical_set.
  split.
  - intros [H1 H2]. split; [exact H1|]. destruct (self_canonical canon f) as [c|] eqn:Sf; [|discriminate].
    apply self_canonical_some in Sf as [Hc Ec]. subst c. split; [exact Hc|].
    apply mem_path_In in H2. apply In_filter_map in H2 as [x [Hx Hs]].
    apply self_canonical_some in Hs as [_ Ex]. subst x. exact Hx.
  - intros [H1 [Hc Hin]]. split; [exact H1|].
    assert (Sf : self_canonical canon f = Some f) by (apply self_canonical_some; split; [exact Hc | reflexivity]).
    rewrite Sf. apply mem_path_In. apply In_filter_map. exists f. split; [exact Hin | exact Sf].
Qed.

Lemma filter_by_set_plain : forall canon files set,
  (forall f, In f files -> canon f = Some f) ->
  forall f, In f (filter_by_set canon files set) <-> In f files /\ In f set.
Proof.
  intros canon files set H f. rewrite filter_by_set_spec. split.
  - intros [H1 [_ Hin]]. split; assumption.
  - intros [H1 H2]. split; [exact H1|]. split; [apply H; exact H1 | exact H2].
Qed.

Lemma option_str_neq : forall (A : Type) (a b : option A),
  a <> b <-> (exists c, b = Some c /\ a <> Some c) \/ (a <> None /\ b = None).
Proof.
  intros A a b. split.
  - intro N. destruct b as [c|].
    + left. exists c. split; [reflexivity | exact N].
    + right. split; [exact N | reflexivity].
  - intros [[c [-> H]]|[H ->]]; exact H.
Qed.

Lemma diff_files_exact : forall canon bes tes files,
  wf (Tree bes) -> wf (Tree tes) ->
  (forall f, In f files -> canon f = Some f) ->
  forall f, In f (diff_files canon bes tes files) <->
            In f files /\ blob_at (Tree bes) f <> blob_at (Tree tes) f.
Proof.
  intros canon bes tes files Wb Wt H f. unfold diff_files.
  rewrite (filter_by_set_plain canon files _ H f).
  pose proof (compare_trees_exact bes tes Wb Wt) as EX.
  unfold get_changed_files_range. rewrite in_app_iff, filter_In, !In_paths_with.
  rewrite (EX Chg f), (EX Del f), option_str_neq. unfold chg_spec, del_spec.
  split.
  - intros [H1 [H2|[H2 _]]]; (split; [exact H1|]); [left | right]; exact H2.
  - intros [H1 [H2|H2]]; (split; [exact H1|]); [left; exact H2 | right].
    split; [exact H2|]. unfold exists_b. rewrite (H f H1). reflexivity.
Qed.

(* ------------------------------------------------------------------ restricted run *)

Section RunProofs.
  Variables (R S Scan : Type).
  Variable eval : path -> option R.
  Variable structure : Scan -> S.
  Variable scanned : Scan -> list path.

  Let ev (f : path) : option (path * R) := match eval f with Some r => Some (f, r) | None => None end.

  Lemma ev_some : forall a fr, ev a = Some fr -> fst fr = a.
  Proof. intros a fr. unfold ev. destruct (eval a); intro H; inversion H; reflexivity. Qed.

  Lemma filter_map_filter : forall (P : path -> bool) l,
    filter_map ev (filter P l) = filter (fun fr => P (fst fr)) (filter_map ev l).
  Proof.
    induction l as [|a r IH]; [reflexivity|]. cbn [filter].
    destruct (P a) eqn:E; cbn [filter_map]; destruct (ev a) as [fr|] eqn:Ev; cbn [filter];
      try rewrite (ev_some _ _ Ev); try rewrite E; rewrite IH; reflexivity.
  Qed.

  Lemma restricted_run_eq : forall canon set sc,
    restricted_run R S Scan eval structure scanned canon set sc =
    (filter (fun fr => in_canonical_set canon (filter_map (self_canonical canon) set) (fst fr))
            (fst (full_run R S Scan eval structure scanned sc)),
     snd (full_run R S Scan eval structure scanned sc)).
  Proof.
    intros canon set sc. unfold restricted_run, full_run, run_on, filter_by_set. simpl.
    f_equal. apply (filter_map_filter (in_canonical_set canon (filter_map (self_canonical canon) set))).
  Qed.

  Lemma restricted_run_spec : forall canon set sc,
    snd (restricted_run R S Scan eval structure scanned canon set sc)
      = snd (full_run R S Scan eval structure scanned sc) /\
    (forall f r, In (f, r) (fst (restricted_run R S Scan eval structure scanned canon set sc)) <->
                 In (f, r) (fst (full_run R S Scan eval structure scanned sc)) /\
                 In f (filter_by_set canon (scanned sc) set)) /\
    (exists keep, fst (restricted_run R S Scan eval structure scanned canon set sc)
                  = filter keep (fst (full_run R S Scan eval structure scanned sc))).
  Proof.
    intros canon set sc. rewrite restricted_run_eq. cbn [fst snd]. split; [reflexivity|]. split.
    - intros f r. rewrite filter_In. cbn [fst]. split.
      + intros [H1 H2]. split; [exact H1|]. unfold filter_by_set. apply filter_In. split; [|exact H2].
        unfold full_run, run_on in H1. cbn [fst] in H1. apply In_filter_map in H1 as [x [Hx Hs]].
        destruct (eval x); [|discriminate]. inversion Hs; subst. exact Hx.
      + intros [H1 H2]. split; [exact H1|]. unfold filter_by_set in H2. apply filter_In in H2 as [_ H2]. exact H2.
    - eexists. reflexivity.
  Qed.
End RunProofs.

(* --files L next to --diff / --staged (fix D105): the run over the list is the restricted run of the
   generic statement with the list in the role of the scan and no structure results *)
Lemma listed_run_is_restricted : forall (R : Type) (eval : path -> option R) canon set listed,
  listed_run R eval canon (Some set) listed
    = restricted_run R unit (list path) eval (fun _ => tt) (fun l => l) canon set listed /\
  listed_run R eval canon None listed
    = full_run R unit (list path) eval (fun _ => tt) (fun l => l) listed.
Proof. intros. split; reflexivity. Qed.

Lemma listed_run_spec : forall (R : Type) (eval : path -> option R) canon set listed f r,
  In (f, r) (fst (listed_run R eval canon (Some set) listed)) <->
  In (f, r) (fst (listed_run R eval canon None listed)) /\
  In f listed /\ canon f = Some f /\ In f set.
Proof.
  intros R eval canon set listed f r.
  destruct (listed_run_is_restricted R eval canon set listed) as [-> ->].
  destruct (restricted_run_spec R unit (list path) eval (fun _ => tt) (fun l => l) canon set listed) as [_ [H _]].
  rewrite H. rewrite filter_by_set_spec. reflexivity.
Qed.

(* ------------------------------------------------------------------ index vs HEAD *)

Lemma assoc_path_app : forall (A : Type) p (l1 l2 : list (path * A)),
  assoc_path p (l1 ++ l2) = match assoc_path p l1 with Some v => Some v | None => assoc_path p l2 end.
Proof.
  induction l1 as [|qx r IH]; intro l2; [reflexivity|]. simpl.
  destruct (path_eqb p (fst qx)); [reflexivity | apply IH].
Qed.

Lemma if_congr : forall (A : Type) (c : bool) (x y y' : A),
  y = y' -> (if c then x else y) = (if c then x else y').
Proof. intros. subst. reflexivity. Qed.

Lemma assoc_path_map_cons : forall (A : Type) n q m (l : list (path * A)),
  assoc_path (n :: q) (map (fun pc => (m :: fst pc, snd pc)) l) =
  if str_eqb n m then assoc_path q l else None.
Proof.
  induction l as [|pc r IH]; simpl.
  - destruct (str_eqb n m); reflexivity.
  - destruct (str_eqb n m) eqn:E; simpl.
    + apply if_congr. exact IH.
    + exact IH.
Qed.

Lemma assoc_path_nil_map : forall (A : Type) m (l : list (path * A)),
  assoc_path [] (map (fun pc => (m :: fst pc, snd pc)) l) = None.
Proof. induction l as [|pc r IH]; simpl; [reflexivity | exact IH]. Qed.

Lemma assoc_path_some_in : forall (A : Type) p (l : list (path * A)) x,
  assoc_path p l = Some x -> In (p, x) l.
Proof.
  induction l as [|[q y] r IH]; simpl; intros x H; [discriminate|].
  destruct (path_eqb p q) eqn:E.
  - apply path_eqb_eq in E. inversion H; subst. left. reflexivity.
  - right. apply IH. exact H.
Qed.

Lemma assoc_path_in_nodup : forall (A : Type) p (l : list (path * A)) x,
  NoDup (map fst l) -> In (p, x) l -> assoc_path p l = Some x.
Proof.
  induction l as [|[q y] r IH]; simpl; intros x ND H; [contradiction|].
  inversion ND as [|? ? Hnot ND']; subst.
  destruct H as [H|H].
  - inversion H; subst. rewrite path_eqb_refl. reflexivity.
  - destruct (path_eqb p q) eqn:E.
    + apply path_eqb_eq in E. subst. exfalso. apply Hnot.
      apply in_map_iff. exists (q, x). split; [reflexivity | exact H].
    + apply IH; assumption.
Qed.

Lemma assoc_path_in_fst : forall (A : Type) p (l : list (path * A)),
  In p (map fst l) -> assoc_path p l <> None.
Proof.
  induction l as [|[q y] r IH]; simpl; intro H; [contradiction|].
  destruct (path_eqb p q) eqn:E; [discriminate|].
  destruct H as [H|H]; [subst; rewrite path_eqb_refl in E; discriminate | apply IH; exact H].
Qed.

(* build_head_path_map is blob_at, as a table *)
Lemma assoc_path_blobs : forall e, wf e -> forall p, assoc_path p (blobs e) = blob_at e p.
Proof.
  induction e as [x c|es IH|t|i] using gentry_ind2; intros W p.
  - destruct p; reflexivity.
  - apply wf_tree in W as [ND WF]. cbn [blobs]. destruct p as [|n q].
    + simpl. clear. induction es as [|ne r IHr]; [reflexivity|]. simpl.
      rewrite assoc_path_app, assoc_path_nil_map. exact IHr.
    + rewrite blob_at_tree_cons. revert ND WF IH.
      induction es as [|ne r IHr]; intros ND WF IH; [reflexivity|].
      inversion ND as [|? ? Hnot ND']; subst. inversion WF as [|? ? W1 WF']; subst.
      inversion IH as [|? ? IH1 IH']; subst.
      simpl. rewrite assoc_path_app, assoc_path_map_cons.
      destruct (str_eqb n (fst ne)) eqn:E.
      * rewrite (IH1 W1 q). destruct (blob_at (snd ne) q) as [v|] eqn:B; [reflexivity|].
        apply str_eqb_eq in E. subst n.
        rewrite (IHr ND' WF' IH'). apply assoc_none_notin in Hnot. rewrite Hnot. reflexivity.
      * apply IHr; assumption.
  - destruct p; reflexivity.
  - destruct p; reflexivity.
Qed.

Definition head_blob_at (head : option (list (name * gentry))) (p : path) : option file :=
  match head with Some es => blob_at (Tree es) p | None => None end.

Definition wf_head (head : option (list (name * gentry))) : Prop :=
  match head with Some es => wf (Tree es) | None => True end.

Lemma head_map_lookup : forall head, wf_head head ->
  forall p, assoc_path p (build_head_path_map head) = head_blob_at head p.
Proof.
  intros [es|] W p; [apply assoc_path_blobs; exact W | reflexivity].
Qed.

Lemma file_eqb_eq : forall a b : file, file_eqb a b = true <-> a = b.
Proof.
  intros [x c] [x' c']. unfold file_eqb. simpl. rewrite andb_true_iff, str_eqb_eq. split.
  - intros [H1 H2]. apply Bool.eqb_prop in H1. subst. reflexivity.
  - intro H. inversion H; subst. split; [apply Bool.eqb_reflx | reflexivity].
Qed.

Lemma iblob_at_some : forall idx p x c, NoDup (map fst idx) ->
  (iblob_at idx p = Some (x, c) <-> In (p, IBlob x c) idx).
Proof.
  intros idx p x c ND. unfold iblob_at. split.
  - destruct (assoc_path p idx) as [[x' d|t|i|]|] eqn:A; intro H; try discriminate.
    inversion H; subst. apply assoc_path_some_in. exact A.
  - intro H. rewrite (assoc_path_in_nodup _ _ _ _ ND H). reflexivity.
Qed.

Lemma has_regular_true : forall idx p, NoDup (map fst idx) ->
  (has_regular idx p = true <-> iblob_at idx p <> None).
Proof.
  intros idx p ND. unfold has_regular. rewrite existsb_exists. split.
  - intros [[q e] [Hin H]]. simpl in H. apply andb_true_iff in H as [H1 H2].
    apply path_eqb_eq in H1. subst q. destruct e as [x c|t|i|]; try discriminate.
    assert (E : iblob_at idx p = Some (x, c)) by (apply iblob_at_some; [exact ND | exact Hin]).
    congruence.
  - intro H. destruct (iblob_at idx p) as [[x c]|] eqn:E; [|congruence].
    apply iblob_at_some in E; [|exact ND].
    exists (p, IBlob x c). split; [exact E|]. simpl. rewrite path_eqb_refl. reflexivity.
Qed.

Lemma staged_set_spec : forall canon head idx, wf_head head -> NoDup (map fst idx) ->
  forall f, canon f = Some f ->
    (In f (get_staged_files canon head idx) <-> iblob_at idx f <> head_blob_at head f).
Proof.
  intros canon head idx W ND f Hc. unfold get_staged_files.
  rewrite in_app_iff, In_filter_map, filter_In. split.
  - intros [[[p e] [Hin G]]|[Hin H]].
    + simpl in G. destruct e as [x c|t|i|]; try discriminate.
      rewrite (head_map_lookup head W) in G.
      assert (E : iblob_at idx p = Some (x, c)) by (apply iblob_at_some; [exact ND | exact Hin]).
      destruct (head_blob_at head p) as [hf|] eqn:Hh.
      * destruct (file_eqb hf (x, c)) eqn:S; [discriminate|]. inversion G; subst.
        rewrite E, Hh. intro Q. inversion Q; subst.
        assert (T : file_eqb (x, c) (x, c) = true) by (apply file_eqb_eq; reflexivity). congruence.
      * inversion G; subst. rewrite E, Hh. discriminate.
    + apply assoc_path_in_fst in Hin. rewrite (head_map_lookup head W) in Hin.
      apply andb_true_iff in H as [H _]. apply negb_true_iff in H.
      destruct (iblob_at idx f) as [c|] eqn:E.
      * exfalso. assert (T : has_regular idx f = true) by (apply has_regular_true; [exact ND | congruence]).
        congruence.
      * congruence.
  - intro N. destruct (iblob_at idx f) as [[x c]|] eqn:E.
    + left. apply iblob_at_some in E; [|exact ND].
      exists (f, IBlob x c). split; [exact E|]. simpl. rewrite (head_map_lookup head W).
      destruct (head_blob_at head f) as [hf|]; [|reflexivity].
      destruct (file_eqb hf (x, c)) eqn:S; [|reflexivity]. apply file_eqb_eq in S. subst. congruence.
    + right. destruct (head_blob_at head f) as [hc|] eqn:Hh; [|congruence]. split.
      * rewrite <- (head_map_lookup head W) in Hh. apply assoc_path_some_in in Hh.
        apply in_map_iff. exists (f, hc). split; [reflexivity | exact Hh].
      * apply andb_true_iff. split.
        -- apply negb_true_iff. destruct (has_regular idx f) eqn:T; [|reflexivity].
           apply has_regular_true in T; [congruence | exact ND].
        -- unfold exists_b. rewrite Hc. reflexivity.
Qed.

Lemma staged_files_exact : forall canon head idx files,
  wf_head head -> NoDup (map fst idx) ->
  (forall f, In f files -> canon f = Some f) ->
  forall f, In f (staged_files canon head idx files) <->
            In f files /\ iblob_at idx f <> head_blob_at head f.
Proof.
  intros canon head idx files W ND H f. unfold staged_files.
  rewrite (filter_by_set_plain canon files _ H f). split.
  - intros [H1 H2]. split; [exact H1|]. apply (staged_set_spec canon head idx W ND f (H f H1)). exact H2.
  - intros [H1 H2]. split; [exact H1|]. apply (staged_set_spec canon head idx W ND f (H f H1)). exact H2.
Qed.

(* ------------------------------------------------------------------ statements as they appear in Properties_C19.v *)

Lemma tree_diff_exact : forall bes tes, wf (Tree bes) -> wf (Tree tes) ->
  (forall p, In (Chg, p) (compare_trees_recursive bes tes) <->
             exists c, blob_at (Tree tes) p = Some c /\ blob_at (Tree bes) p <> Some c) /\
  (forall p, In (Del, p) (compare_trees_recursive bes tes) <->
             blob_at (Tree bes) p <> None /\ blob_at (Tree tes) p = None).
Proof.
  intros bes tes Wb Wt. pose proof (compare_trees_exact bes tes Wb Wt) as H.
  split; intro p; [apply (H Chg p) | apply (H Del p)].
Qed.

Lemma changed_set_exact : forall canon bes tes, wf (Tree bes) -> wf (Tree tes) ->
  forall p, In p (get_changed_files_range canon bes tes) <->
    (exists c, blob_at (Tree tes) p = Some c /\ blob_at (Tree bes) p <> Some c) \/
    ((blob_at (Tree bes) p <> None /\ blob_at (Tree tes) p = None) /\ canon p <> None).
Proof.
  intros canon bes tes Wb Wt p. pose proof (compare_trees_exact bes tes Wb Wt) as H.
  unfold get_changed_files_range. rewrite in_app_iff, filter_In, !In_paths_with.
  rewrite (H Chg p), (H Del p). unfold chg_spec, del_spec, exists_b.
  destruct (canon p); split; intros [A|[A B]]; try (left; exact A); try (right; split; [exact A|]);
    try discriminate; try reflexivity; try congruence.
Qed.

Lemma equal_oid_equal_flatten : forall bes tes, oid_eqb (Tree bes) (Tree tes) = true ->
  blobs (Tree bes) = blobs (Tree tes) /\
  (wf (Tree bes) -> wf (Tree tes) -> compare_trees_recursive bes tes = []).
Proof.
  intros bes tes H. split; [apply equal_tree_oid_equal_flatten; exact H|].
  intros Wb Wt. apply short_circuit_sound; assumption.
Qed.

Lemma subtree_cases : forall bes tes n, wf (Tree bes) -> wf (Tree tes) ->
  (forall ts q c, assoc n tes = Some (Tree ts) -> (forall bs, assoc n bes <> Some (Tree bs)) ->
                  blob_at (Tree ts) q = Some c -> In (Chg, n :: q) (compare_trees_recursive bes tes)) /\
  (forall bs q, assoc n bes = Some (Tree bs) -> (forall ts, assoc n tes <> Some (Tree ts)) ->
                blob_at (Tree bs) q <> None -> In (Del, n :: q) (compare_trees_recursive bes tes)).
Proof.
  intros bes tes n Wb Wt. split.
  - intros ts q c. apply subtree_added; assumption.
  - intros bs q. apply subtree_removed; assumption.
Qed.

Lemma range_parse :
  parse_diff_range [] = RangeErr /\
  (forall s, s <> [] -> has_dotdot s = false -> parse_diff_range s = RangeOk s HEAD) /\
  (forall a b, has_dotdot (a ++ [dot]) = false ->
     parse_diff_range (a ++ dot :: dot :: b) =
     match a with
     | [] => RangeErr
     | _ :: _ => RangeOk a (match b with [] => HEAD | _ :: _ => b end)
     end) /\
  (forall s, has_dotdot s = true ->
     exists a b, s = a ++ dot :: dot :: b /\ has_dotdot (a ++ [dot]) = false).
Proof.
  split; [exact parse_empty|]. split; [exact parse_single|]. split; [exact parse_range | exact parse_cases].
Qed.

(* executable well-formedness *)
Lemma nodup_names_NoDup : forall l, nodup_names l = true -> NoDup l.
Proof.
  induction l as [|n r IH]; intro H; [constructor|]. simpl in H.
  apply andb_true_iff in H as [H1 H2]. apply negb_true_iff in H1. constructor; [|apply IH; exact H2].
  intro Hin. assert (T : existsb (str_eqb n) r = true).
  { apply existsb_exists. exists n. split; [exact Hin | apply str_eqb_refl]. }
  congruence.
Qed.

Lemma wfb_wf : forall e, wfb e = true -> wf e.
Proof.
  induction e as [x c|es IH|t|i] using gentry_ind2; intro H; try exact I.
  apply wf_tree. cbn [wfb] in H. apply andb_true_iff in H as [H1 H2]. split.
  - apply nodup_names_NoDup. exact H1.
  - rewrite forallb_forall in H2. rewrite Forall_forall in IH. apply Forall_forall.
    intros ne Hin. apply (IH ne Hin). apply H2. exact Hin.
Qed.
